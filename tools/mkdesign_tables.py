#!/usr/bin/env python3
"""Fills the generated tables of DESIGN.md (findings, detection record)."""
import json, glob, os, re
V='/verif'
known=json.load(open(f'{V}/known_findings.json'))
lines=[]
by={}
for e in known: by.setdefault(e['property'],[]).append(e)
for pid in sorted(by):
    fixed=[e for e in by[pid] if e['status']=='fixed']; opn=[e for e in by[pid] if e['status']=='open']
    lines.append(f'**{pid}** — {len(fixed)} fixed, {len(opn)} listed open')
    commits={}
    for e in fixed: commits.setdefault(e.get('commit','?'),[]).append(e)
    for c,es in commits.items():
        w=re.sub(r'^fixed: property=\S+ \S+ ','',es[0]['what'])
        lines.append(f'* fixed `{c}` ({len(es)} key{"s" if len(es)>1 else ""}): {w[:230]}')
    for e in opn:
        lines.append(f'* listed `{e["key"][:90]}`: {e["what"][:230]}')
    lines.append('')
find='\n'.join(lines)
det=['| change | property | caught | keys reported (first) | note |','|---|---|---|---|---|']
for d in sorted(glob.glob(f'{V}/seeded/*/meta.json')):
    m=json.load(open(d))
    note=m.get('note','')
    det.append(f'| seeded/{m["name"]} | {m["property"]} | {"yes" if m.get("caught") else "NO"} | `{(m.get("check_violation_keys") or ["-"])[0][:70]}` | {note} |')
dm=[]
for pid in sorted(os.listdir(f'{V}/mutants')):
    ps=sorted(os.path.basename(p)[:-6] for p in glob.glob(f'{V}/mutants/{pid}/*.patch'))
    if ps: dm.append(f'* {pid}: '+', '.join(ps))
detection='\n'.join(det)+'\n\nBuilder-written changes (all reported by their check with a new key; see `notes/Cxx.md`; `tools/trymutant.sh <patch> <Cxx>` re-runs one):\n\n'+'\n'.join(dm)
rows=['| id | quick: states / executions (last run) | exhaustive | fixed keys | open listed keys | seeded changes caught | notes |','|---|---|---|---|---|---|---|']
titles={json.loads(l)['id']:json.loads(l)['title'] for l in open(f'{V}/properties.jsonl')}
for pid in sorted(titles):
    try:
        e=json.load(open(f'{V}/evidence/{pid}.json')); c=e['coverage']
        cov=f"{c.get('states','?')} / {c.get('transitions','?')} ({e['tier']})"; exh=str(c.get('exhaustive'))
    except Exception:
        cov='-'; exh='-'
    nf=sum(1 for x in known if x['property']==pid and x['status']=='fixed'); no=sum(1 for x in known if x['property']==pid and x['status']=='open')
    seeds=[json.load(open(d)) for d in glob.glob(f'{V}/seeded/{pid}-*/meta.json')]
    sc=sum(1 for m in seeds if m.get('caught'))
    rows.append(f"| {pid} | {cov} | {exh} | {nf} | {no} | {sc}/{len(seeds)} | notes/{pid}.md |")
status='\n'.join(rows)
s=open(f'{V}/DESIGN.md').read()
s=re.sub(r'<!-- BEGIN:STATUS -->.*?<!-- END:STATUS -->', lambda m:'<!-- BEGIN:STATUS -->\n'+status+'\n<!-- END:STATUS -->', s, flags=re.S)
s=re.sub(r'<!-- BEGIN:FINDINGS -->.*?<!-- END:FINDINGS -->', lambda m:'<!-- BEGIN:FINDINGS -->\n'+find+'\n<!-- END:FINDINGS -->', s, flags=re.S)
s=re.sub(r'<!-- BEGIN:DETECTION -->.*?<!-- END:DETECTION -->', lambda m:'<!-- BEGIN:DETECTION -->\n'+detection+'\n<!-- END:DETECTION -->', s, flags=re.S)
open(f'{V}/DESIGN.md','w').write(s)
print('findings lines',len(lines),'seeded',len(det)-2)
