#!/usr/bin/env python3
"""tools/mkstrengthenprompt.py <Cxx> <seed-name>... : prompt for a builder agent that strengthens a check
which missed the named seeded changes. Written to .tmp/sp/<Cxx>.txt"""
import sys
pid = sys.argv[1]; seeds = sys.argv[2:]
low = pid.lower()
t = f'''You are strengthening one property check of a model-checking verification harness that lives in /verif; the system under
test is the Go project php-any/origami checked out at /repo (a tree-walking interpreter for a PHP-like language). Other
engineers strengthen other checks in the same tree at the same time.

Read first: /verif/notes/AGENT_BRIEF.md (rules of the house), /verif/engine/README.md (engine API, how to build and run),
the line for {pid} in /verif/properties.jsonl (the property statement is fixed; the oracle may never demand more than it),
/verif/notes/{pid}.md (what the check enumerates today) and /verif/checks/{low}/ (the check itself).

Independent engineers were given only the property text and seeded realistic property-breaking changes into the project. The
check currently MISSES these at `--tier quick` (it exits 0 on the changed tree):
''' + ''.join(f'  - /verif/seeded/{s}/  (patch.diff = the change, the demonstration files, meta.json: "needs_to_manifest" says what it takes to show)\n' for s in seeds) + f'''
Task
1. For each missed change work out which CLASS of program / input / operation sequence / schedule it needs, and why the
   check's enumeration does not contain it. Then extend the enumerated family or the oracle so that the class is covered
   EXHAUSTIVELY within a stated bound: add a generator dimension (a new statement form, operand kind, call route, op in the
   history alphabet, template, scenario ...) that contains the demonstration's shape together with its neighbours. Do NOT
   hard-code the demonstration input or special-case the seeded code path; a different slip of the same kind elsewhere should
   be caught too. Think about what ELSE of that kind is still not enumerated and add that as well while you are there.
   Keep the quick tier within about 2-3 minutes wall on 16 cores (say in the notes what only the thorough tier reaches).
2. The unchanged tree must stay quiet: `cd /verif && ./vcheck {pid} --tier quick` exits 0 with no VIOLATION line. Every NEW
   failing key your extension produces on the unchanged tree must be classified before you go on: if origami really violates
   the property statement there, it is a genuine finding -> write a minimal, maintainer-acceptable repair as
   /verif/proposed/{pid}/fix-<short-name>.patch (git diff against /repo HEAD; the repository's own tests must still pass with
   it; one defect per patch) or, if it is not a small safe patch, add an entry to /verif/proposed/{pid}/known.json
   (JSON array of {{"property","key","status":"open","what"}}; test with VERIF_KNOWN=/verif/proposed/{pid}/known.json). If the
   check is wrong (demands more than the statement, reference model slip, alphabet entry that is invalid in this language),
   fix the check - never list a false alarm. Probe the unchanged tree FIRST when you add alphabet entries.
3. Detection: `cd /verif && tools/trymutant.sh seeded/<name>/patch.diff {pid}` must exit 1 and print a VIOLATION line for each
   of the changes above, and every change that was caught before must still be caught: all of /verif/seeded/{pid}-*/patch.diff
   and /verif/mutants/{pid}/*.patch (run them; `tools/trymutant.sh <patch> {pid}`; exit 1 = caught). A patch that no longer
   applies is not your problem, say so.
4. Record: update /verif/notes/{pid}.md (what was added, new measured counts and wall time, what stays outside the bound);
   in each /verif/seeded/<name>/meta.json of the changes above set "caught": true and "check_exit": 1 ONLY after you verified it,
   and add a "note" string: "first MISSED at quick (<why>); <what was added>; now caught (<key>)".

Rules: never edit /repo and never `git commit` anywhere; scratch worktrees of /repo go under /tmp and are removed when you
are done (tools/trymutant.sh does this by itself); touch only /verif/checks/{low}/, /verif/proposed/{pid}/, /verif/notes/{pid}.md and
the meta.json files named above (and a new engine/<name>/ package only if truly needed - do not edit existing engine packages,
tell me what you need instead). No wall-clock oracles; no sampling in the deciding step (enumerate). Environment for go
commands: GOPROXY=off GOFLAGS=-mod=mod and nothing else (never GOTOOLCHAIN / GOSUMDB); there is no network. If a change is
genuinely outside what the property statement covers, or cannot be reached by bounded exhaustive enumeration with this
machinery, explain why instead of forcing it.
Your final message to me: 25 lines at most - per change: why it was missed, what you added, the key that now reports it;
new counts / wall time of the quick tier; any new finding on the unchanged tree with your classification and the proposed
patch or known entry; anything I must decide.
'''
open(f'/verif/.tmp/sp/{pid}.txt', 'w').write(t)
print(f'/verif/.tmp/sp/{pid}.txt')
