#!/usr/bin/env python3
"""tools/mkseedprompts.py <round-dir> [ids...] : writes <round-dir>/<id>.prompt.txt for the seeding agents.
The prompt holds only the property text, the worktree path and the list of change *names* already tried
(so that a new round lands somewhere else); nothing else from /verif reaches the agent."""
import json, os, sys, glob
out = sys.argv[1]; ids = sys.argv[2:]
props = {json.loads(l)['id']: json.loads(l) for l in open('/verif/properties.jsonl')}
tmpl = open('/verif/tools/seed_prompt.txt').read()
os.makedirs(out, exist_ok=True)
for id in ids or sorted(props):
    tried = sorted(os.path.basename(d)[len(id) + 1:] for d in glob.glob(f'/verif/seeded/{id}-*'))
    con = ''
    if tried:
        con = ('Constraint for this round: earlier rounds already tried changes nicknamed ' + ', '.join(tried) +
               ' — do NOT redo those or near variants; find a different place, mechanism or trigger in the code.\n\n')
    p = props[id]
    os.makedirs(f'{out}/{id}', exist_ok=True)
    open(f'{out}/{id}.prompt.txt', 'w').write(tmpl.format(wt=f'/tmp/seed-{id}', out=f'{out}/{id}', id=id, title=p['title'], statement=p['statement'], constraint=con))
print('ok')
