#!/bin/bash
# Re-runs every recorded property-breaking change (seeded/*/patch.diff and mutants/Cxx/*.patch) against
# its check in a scratch worktree and writes detection_report.json: caught / missed / does-not-apply.
cd /verif
out=/verif/detection_report.json
echo "[" > $out.tmp
first=1
run() { # patch id label
  local p=$1 id=$2 label=$3
  # every scratch worktree path compiles into fresh build-cache entries: trim so the disk does not fill
  cnt=$((${cnt:-0}+1)); if [ $((cnt % 12)) -eq 0 ]; then GOCACHE=/verif/.gocache go clean -cache; rm -rf /verif/.ovl/*; ./setup.sh >/dev/null 2>&1; fi
  res=$(LINES_OUT=400 tools/trymutant.sh $p $id 2>&1)
  rc=$?
  if echo "$res" | grep -q "PATCH DOES NOT APPLY"; then st="does-not-apply"; elif [ $rc -eq 1 ] && echo "$res" | grep -q "^VIOLATION"; then st="caught"; else st="MISSED(rc=$rc)"; fi
  key=$(echo "$res" | grep -m1 "key=" | sed 's/^ *key=//; s/ clause=.*//' | cut -c1-120 | sed 's/"/\\"/g')
  [ $first -eq 1 ] || echo "," >> $out.tmp
  first=0
  printf ' {"change":"%s","property":"%s","status":"%s","first_key":"%s"}' "$label" "$id" "$st" "$key" >> $out.tmp
  echo "$label $id $st"
}
for d in seeded/*/; do n=$(basename $d); id=${n%%-*}; run $d/patch.diff $id seeded/$n; done
for p in mutants/*/*.patch; do id=$(basename $(dirname $p)); run $p $id mutants/$id/$(basename $p .patch); done
echo "]" >> $out.tmp
mv $out.tmp $out
