#!/opt/veriftools/pyvenv/bin/python
import json, jsonschema, glob, sys
ok = True
m = json.load(open('/verif/MANIFEST.json'))
jsonschema.validate(m, json.load(open('/root/.vp/MANIFEST.schema.json')))
es = json.load(open('/root/.vp/EVIDENCE.schema.json'))
for c in m['checks']:
    try:
        jsonschema.validate(json.load(open(c['evidence_file'])), es)
    except Exception as e:
        ok = False
        print('EVIDENCE INVALID', c['property_id'], str(e)[:300])
print('manifest valid; evidence', 'ok' if ok else 'BAD')
sys.exit(0 if ok else 1)
