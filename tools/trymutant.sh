#!/bin/bash
# tools/trymutant.sh <patch> <Cxx> [tier] : apply a patch in a scratch worktree of /repo, run the check there, clean up.
# exit status: that of the check (1 = violation reported = mutant caught)
set -u
patch=$(readlink -f "$1"); id=$2; tier=${3:-quick}
wt=/tmp/wt-mut-$$
git -C /repo worktree add -q --detach $wt HEAD || exit 3
if ! git -C $wt apply "$patch"; then git -C /repo worktree remove --force $wt; echo "PATCH DOES NOT APPLY"; exit 3; fi
VERIF_REPO=$wt /verif/vcheck $id --tier $tier 2>&1 | grep -v "^KNOWN-FINDING" | tail -${LINES_OUT:-12}
rc=${PIPESTATUS[0]}
git -C /repo worktree remove --force $wt
rm -rf /verif/.bin/*.$(echo "$wt" | md5sum | cut -c1-8) 2>/dev/null
exit $rc
