#!/usr/bin/env python3
"""tools/seed.py <Cxx> <seed-dir> <name> <demo-target-dir> <go-test-run-pattern> [--tier quick]

Confirms a seeded property-breaking change end to end in a scratch worktree of /repo and records it
under /verif/seeded/<name>/ :
  1. pristine tree: the demonstration passes
  2. with the patch: the tree builds, the repository's own tests still pass (except the test that
     fails on the pristine tree too), and the demonstration fails
  3. the registered check of the property is run against the patched tree (VERIF_REPO)
The worktree is removed afterwards. Nothing is ever applied to /repo itself.
"""
import json, os, shutil, subprocess, sys, glob, re, time

def sh(cmd, cwd=None, timeout=3600):
    env = dict(os.environ, GOPROXY='off', GOFLAGS='-mod=mod', GOCACHE='/verif/.gocache')
    env.pop('GOTOOLCHAIN', None); env.pop('GOSUMDB', None)
    p = subprocess.run(cmd, shell=True, cwd=cwd, env=env, stdout=subprocess.PIPE, stderr=subprocess.STDOUT, text=True, timeout=timeout)
    return p.returncode, p.stdout

def main():
    pid, seeddir, name, target, pattern = sys.argv[1:6]
    tier = 'quick'
    if '--tier' in sys.argv:
        tier = sys.argv[sys.argv.index('--tier') + 1]
    wt = f'/tmp/wt-seed-{os.getpid()}'
    meta = {'property': pid, 'name': name, 'confirmed_at': time.strftime('%Y-%m-%dT%H:%M:%SZ', time.gmtime())}
    rc, out = sh(f'git -C /repo worktree add -q --detach {wt} HEAD')
    if rc != 0:
        print(out); sys.exit(3)
    try:
        meta['repo_head'] = sh('git -C /repo rev-parse --short HEAD')[1].strip()
        demos = [f for f in glob.glob(os.path.join(seeddir, '*')) if os.path.basename(f) not in ('patch.diff', 'README.md')]
        tests = [f for f in demos if f.endswith('_test.go')]
        # demo kinds: Go test (target = package dir, pattern = -run regexp) or script
        # (target = 'php', pattern = '<script file>::<substring the output has iff the property holds>')
        if target == 'sh':
            # a shell demo written against the seeding agent's own worktree: run a copy that points at ours
            src = open(os.path.join(seeddir, pattern)).read()
            src = re.sub(r'/tmp/seed-C\d+', wt, src)
            src = src.replace('$(dirname "$0")', seeddir).replace('$(cd "$(dirname "$0")" && pwd)', seeddir)
            tmpsh = f'{wt}/.seed-demo.sh'
            open(tmpsh, 'w').write(src)
            demo_cmd = f'bash {tmpsh}'
            def run_demo():
                rc, out = sh(demo_cmd, cwd=wt, timeout=900)
                # scripts that only print a verdict: a FAIL / BROKEN / DIFFERENT line is a failure too
                if rc == 0 and re.search(r'^(FAIL|BROKEN|DIFFERENT)', out, re.M):
                    rc = 1
                return rc, out
            meta['demo_cmd'] = f'sh {pattern}   (worktree path substituted; passes iff exit 0)'
        elif target == 'shbin':
            # a shell demo that takes the CLI binary as its argument
            demo_cmd = f'go build -o {wt}/.seedcli . && sh {os.path.join(seeddir, pattern)} {wt}/.seedcli'
            def run_demo():
                return sh(demo_cmd, cwd=wt, timeout=900)
            meta['demo_cmd'] = f'go build -o cli . && sh {pattern} cli   (passes iff exit 0)'
        elif target == 'php':
            script, expect = pattern.split('::', 1)
            demo_cmd = f'go build -o {wt}/.seedcli . && {wt}/.seedcli {os.path.join(seeddir, script)}'
            def run_demo():
                rc, out = sh(demo_cmd, cwd=wt, timeout=600)
                if expect.startswith('!'):
                    return (0 if expect[1:] not in out and 'panic' not in out else 1), out
                return (0 if (rc == 0 and expect in out) else 1), out
            meta['demo_cmd'] = f'go build -o cli . && cli {script}   (passes iff exit 0 and the output contains "{expect}")'
        else:
            for f in tests:
                shutil.copy(f, os.path.join(wt, target))
            demo_cmd = f'go test -vet=off -count=1 -run {pattern} ./{target}/'
            def run_demo():
                return sh(demo_cmd, cwd=wt)
            meta['demo_cmd'] = demo_cmd + f'   (test file(s) copied into {target}/)'
        rc, out = run_demo()
        meta['demo_on_pristine'] = 'pass' if rc == 0 else 'FAIL'
        print('demo on pristine:', meta['demo_on_pristine'])
        if rc != 0:
            print(out[-1500:])
        rc, out = sh(f'git apply {os.path.join(seeddir, "patch.diff")}', cwd=wt)
        if rc != 0:
            print('patch does not apply', out); meta['error'] = 'patch does not apply'; raise SystemExit
        rc, out = sh('go build ./...', cwd=wt)
        meta['builds'] = rc == 0
        print('builds:', rc == 0)
        try:
            rc, out = run_demo()
        except subprocess.TimeoutExpired:
            rc, out = 1, 'demo timed out (hang)'
        meta['demo_with_change'] = 'fail' if rc != 0 else 'PASS'
        print('demo with change:', meta['demo_with_change'])
        if target not in ('php', 'sh', 'shbin'):
            for f in tests:
                os.remove(os.path.join(wt, target, os.path.basename(f)))
        if os.path.exists(f'{wt}/.seed-demo.sh'):
            os.remove(f'{wt}/.seed-demo.sh')
        if os.path.exists(f'{wt}/.seedcli'):
            os.remove(f'{wt}/.seedcli')
        rc, out = sh('go test -vet=off -count=1 ./... 2>&1 | grep -E "^(FAIL|--- FAIL|ok)"', cwd=wt)
        fails = sorted(set(re.findall(r'--- FAIL: (\S+)', out)))
        meta['repo_tests_failing_with_change'] = fails
        meta['repo_tests_ok'] = fails in ([], ['TestDiagVendorCompileAuthStringCorrupt'])
        print('repo tests failing with change:', fails)
        rc, out = sh(f'VERIF_REPO={wt} /verif/vcheck {pid} --tier {tier}', cwd='/verif')
        keys = re.findall(r'^\s+key=(.*?) clause=', out, re.M)
        meta['check_cmd'] = f'VERIF_REPO=<worktree with patch> ./vcheck {pid} --tier {tier}'
        meta['check_exit'] = rc
        meta['check_violation_keys'] = keys[:12]
        meta['caught'] = rc == 1 and 'VIOLATION' in out
        summ = [l for l in out.splitlines() if l.startswith('SUMMARY')]
        meta['check_summary'] = summ[-1] if summ else out[-400:]
        print('check exit', rc, 'caught' if meta['caught'] else 'MISSED', keys[:4])
        readme = os.path.join(seeddir, 'README.md')
        if os.path.exists(readme):
            meta['needs_to_manifest'] = open(readme).read()[:1500]
    finally:
        sh(f'git -C /repo worktree remove --force {wt}')
        tag = subprocess.run(f'echo "{wt}" | md5sum | cut -c1-8', shell=True, stdout=subprocess.PIPE, text=True).stdout.strip()
        for f in glob.glob(f'/verif/.bin/*.{tag}'):
            os.remove(f)
    dst = f'/verif/seeded/{name}'
    os.makedirs(dst, exist_ok=True)
    shutil.copy(os.path.join(seeddir, 'patch.diff'), dst)
    for f in demos:
        if os.path.isfile(f):
            shutil.copy(f, dst)
    json.dump(meta, open(os.path.join(dst, 'meta.json'), 'w'), indent=1, ensure_ascii=False)

main()
