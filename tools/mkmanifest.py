#!/usr/bin/env python3
"""Regenerates /verif/MANIFEST.json from tools/checks.json (one entry per claimed property)."""
import json, os, subprocess
V = '/verif'
checks = json.load(open(f'{V}/tools/checks.json'))
props = [json.loads(l)['id'] for l in open(f'{V}/properties.jsonl')]
claimed = {c['property_id'] for c in checks['checks']}
na = [x for x in checks.get('not_applicable', []) if x['property_id'] not in claimed]
na_ids = {x['property_id'] for x in na}
for p in props:
    if p not in claimed and p not in na_ids:
        na.append({'property_id': p, 'reason': 'check not built yet in this round (planned, see DESIGN.md section 3); not claimed until it runs clean'})
out = {
 'version': 1,
 'setup_cmd': './setup.sh',
 'hooks': {
  'guard': 'verif-overlay (no source hooks are committed to the repository: all instrumentation is generated per run by /verif/govis from the current working tree and delivered through go build -overlay; an ordinary build never sees it)',
  'enable': '/verif/vcheck <id>: govis -> overlay.json -> go build -overlay (injects utils/vshim and rewritten copies of data, lexer, node, parser, runtime, std, token, utils)',
  'baseline_off_cmd': 'cd /repo && GOPROXY=off GOFLAGS=-mod=mod go test -vet=off -count=1 ./... ; for m in extensions/fyne extensions/openai extensions/wails; do (cd /repo/$m && GOPROXY=off go test -vet=off -count=1 ./...); done',
  'source_commits': [],
  'add_only': True,
 },
 'engines': checks['engines'],
 'checks': [],
 'not_applicable': sorted(na, key=lambda x: x['property_id']),
 'notes': checks.get('notes', ''),
}
for c in sorted(checks['checks'], key=lambda c: c['property_id']):
    pid = c['property_id']
    out['checks'].append({
        'property_id': pid,
        'quick_cmd': f'./vcheck {pid} --tier quick',
        'thorough_cmd': f'./vcheck {pid} --tier thorough',
        'evidence_file': f'/verif/evidence/{pid}.json',
        'replay_cmd_template': f'./vcheck {pid} --replay {{path}}',
        'engine': c['engine'],
        'level_claimed': {'category': 'model_checking', 'text': c['level_text'], 'design_ref': c.get('design_ref', 'DESIGN.md section 3 ' + pid)},
        'level_note': c['level_note'],
        'technique': c['technique'],
    })
json.dump(out, open(f'{V}/MANIFEST.json', 'w'), indent=1, ensure_ascii=False)
print('claimed', len(out['checks']), 'not_applicable', len(out['not_applicable']))
