#!/usr/bin/env python3
"""tools/mergeknown.py Cxx <commit-or-> : merge proposed/Cxx/known.json into known_findings.json.
Entries whose 'what' says 'fixed by' (a proposed patch) become status=fixed with the given commit
(when a commit is given); the rest stay open."""
import json, sys, re
pid, commit = sys.argv[1], (sys.argv[2] if len(sys.argv) > 2 else '-')
K = '/verif/known_findings.json'
known = json.load(open(K))
prop = json.load(open(f'/verif/proposed/{pid}/known.json'))
have = {(k['property'], k['key']) for k in known}
for e in prop:
    if (e['property'], e['key']) in have:
        continue
    what = e['what']
    m = re.search(r'\.?\s*fixed by [^ ]*\.patch.*$', what, re.I)
    if m and commit != '-':
        what = what[:m.start()].rstrip()
        e = {'property': e['property'], 'key': e['key'], 'status': 'fixed', 'commit': commit,
             'what': f"fixed: property={e['property']} {commit} {what}"}
    else:
        e = {'property': e['property'], 'key': e['key'], 'status': 'open', 'what': what}
    known.append(e)
json.dump(known, open(K, 'w'), indent=1, ensure_ascii=False)
print('known findings:', len(known), 'open for', pid, ':', sum(1 for k in known if k['property'] == pid and k['status'] == 'open'))
