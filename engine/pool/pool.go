// Package pool runs shards of a check in worker sub-processes (the same binary re-executed
// with VERIF_WORKER=1) so that a fatal error of the code under test (stack overflow,
// concurrent map writes, out of memory, os.Exit) kills one worker, is attributed to the
// in-flight item, and the exploration resumes after it.
package pool

import (
	"bufio"
	"encoding/json"
	"fmt"
	"io"
	"os"
	"os/exec"
	"runtime"
	"runtime/debug"
	"strings"
	"sync"
	"syscall"
	"time"
)

// ---------------------------------------------------------------- worker side

type W struct {
	out     *os.File
	resume  string
	skipping bool
	mu      sync.Mutex
}

type wmsg struct {
	T  string          `json:"t"`
	ID string          `json:"id,omitempty"`
	V  json.RawMessage `json:"v,omitempty"`
}

type pmsg struct {
	Kind   string          `json:"kind"`
	Arg    json.RawMessage `json:"arg"`
	Resume string          `json:"resume"`
}

// Item announces the item about to run. It returns false when the item must be skipped
// because the shard is being resumed after a worker death at a later item.
func (w *W) Item(id string) bool {
	if w.skipping {
		if id == w.resume {
			w.skipping = false
		}
		return false
	}
	w.send(wmsg{T: "item", ID: id})
	return true
}

// Emit sends one record to the parent immediately.
func (w *W) Emit(v any) {
	b, err := json.Marshal(v)
	if err != nil {
		panic(err)
	}
	w.send(wmsg{T: "rec", V: b})
}

func (w *W) send(m wmsg) {
	b, _ := json.Marshal(m)
	b = append(b, '\n')
	w.mu.Lock()
	w.out.Write(b)
	w.mu.Unlock()
}

type Handler func(w *W, arg json.RawMessage)

// IsWorker reports whether this process is a pool worker.
func IsWorker() bool { return os.Getenv("VERIF_WORKER") == "1" }

// Serve is the worker main loop; it never returns.
func Serve(handlers map[string]Handler) {
	debug.SetMaxStack(512 << 20)
	if lim := os.Getenv("VERIF_WORKER_AS"); lim != "" {
		var n uint64
		fmt.Sscan(lim, &n)
		if n > 0 {
			syscall.Setrlimit(syscall.RLIMIT_AS, &syscall.Rlimit{Cur: n, Max: n})
		}
	}
	in := bufio.NewReaderSize(os.NewFile(3, "in"), 1<<20)
	w := &W{out: os.NewFile(4, "out")}
	for {
		line, err := in.ReadBytes('\n')
		if err != nil {
			os.Exit(0)
		}
		var m pmsg
		if err := json.Unmarshal(line, &m); err != nil {
			fmt.Fprintln(os.Stderr, "worker: bad message", err)
			os.Exit(3)
		}
		h := handlers[m.Kind]
		if h == nil {
			fmt.Fprintln(os.Stderr, "worker: no handler for", m.Kind)
			os.Exit(3)
		}
		w.resume = m.Resume
		w.skipping = m.Resume != ""
		h(w, m.Arg)
		w.send(wmsg{T: "done"})
	}
}

// ---------------------------------------------------------------- parent side

type Shard struct {
	Kind string
	Arg  any
}

type Death struct {
	Shard  int
	Item   string // last announced item ("" if none)
	Reason string // "died" | "hang"
	Stderr string // tail of the worker's stderr
}

type Options struct {
	Workers     int
	HangTimeout time.Duration // no message from a worker for this long => killed (default 180s)
	MemLimit    uint64        // RLIMIT_AS per worker (0 = 12 GiB)
	Env         []string
	// FreshProcess: every shard runs in a brand-new worker process (cold package-level state:
	// lazily filled caches, once-initialised tables), at the price of a process start per shard.
	FreshProcess bool
}

type Stats struct {
	Shards, Deaths, Restarts int
}

type tailBuf struct {
	mu sync.Mutex
	b  []byte
}

func (t *tailBuf) Write(p []byte) (int, error) {
	t.mu.Lock()
	t.b = append(t.b, p...)
	if len(t.b) > 16384 {
		// keep head (the fatal error line) and tail
		t.b = append(t.b[:8192:8192], t.b[len(t.b)-8192:]...)
	}
	t.mu.Unlock()
	return len(p), nil
}
func (t *tailBuf) String() string { t.mu.Lock(); defer t.mu.Unlock(); return string(t.b) }

type proc struct {
	cmd  *exec.Cmd
	to   *os.File
	from *bufio.Reader
	fromF *os.File
	errb *tailBuf
	lines chan []byte
}

func start(opt Options) (*proc, error) {
	exe, err := os.Executable()
	if err != nil {
		return nil, err
	}
	pr1, pw1, _ := os.Pipe() // parent -> worker
	pr2, pw2, _ := os.Pipe() // worker -> parent
	cmd := exec.Command(exe)
	mem := opt.MemLimit
	if mem == 0 {
		mem = 12 << 30
	}
	cmd.Env = append(append(os.Environ(), "VERIF_WORKER=1", fmt.Sprintf("VERIF_WORKER_AS=%d", mem), "GOTRACEBACK=single"), opt.Env...)
	cmd.ExtraFiles = []*os.File{pr1, pw2}
	eb := &tailBuf{}
	cmd.Stderr = eb
	cmd.Stdout = io.Discard
	if err := cmd.Start(); err != nil {
		return nil, err
	}
	pr1.Close()
	pw2.Close()
	p := &proc{cmd: cmd, to: pw1, from: bufio.NewReaderSize(pr2, 1<<20), fromF: pr2, errb: eb, lines: make(chan []byte, 4096)}
	go func() {
		for {
			l, e := p.from.ReadBytes('\n')
			if e != nil {
				close(p.lines)
				return
			}
			p.lines <- l
		}
	}()
	return p, nil
}

func (p *proc) kill() {
	p.cmd.Process.Kill()
	p.cmd.Wait()
	p.to.Close()
	p.fromF.Close()
}

// Run distributes the shards over worker processes. onRec and onDeath are called from
// several goroutines under an internal lock (so they need no locking of their own).
func Run(shards []Shard, opt Options, onRec func(shard int, rec json.RawMessage), onDeath func(d Death)) Stats {
	if opt.Workers <= 0 {
		opt.Workers = runtime.NumCPU()
	}
	if opt.Workers > len(shards) {
		opt.Workers = len(shards)
	}
	if opt.HangTimeout == 0 {
		opt.HangTimeout = 180 * time.Second
	}
	var cb sync.Mutex
	var st Stats
	st.Shards = len(shards)
	jobs := make(chan int, len(shards))
	for i := range shards {
		jobs <- i
	}
	close(jobs)
	var wg sync.WaitGroup
	for wi := 0; wi < opt.Workers; wi++ {
		wg.Add(1)
		go func() {
			defer wg.Done()
			var p *proc
			defer func() {
				if p != nil {
					p.kill()
				}
			}()
			for si := range jobs {
				resume := ""
				sameDeaths := 0
				for {
					if p == nil {
						var err error
						p, err = start(opt)
						if err != nil {
							panic(err)
						}
					}
					argb, _ := json.Marshal(shards[si].Arg)
					mb, _ := json.Marshal(pmsg{Kind: shards[si].Kind, Arg: argb, Resume: resume})
					p.to.Write(append(mb, '\n'))
					last := ""
					done := false
					reason := "died"
					for !done {
						var line []byte
						ok := false
						timer := time.NewTimer(opt.HangTimeout)
						select {
						case line, ok = <-p.lines:
						case <-timer.C:
							reason = "hang"
							p.cmd.Process.Kill()
							for range p.lines {
							}
						}
						timer.Stop()
						if !ok {
							break
						}
						var m wmsg
						if json.Unmarshal(line, &m) != nil {
							continue
						}
						switch m.T {
						case "item":
							last = m.ID
						case "rec":
							cb.Lock()
							onRec(si, m.V)
							cb.Unlock()
						case "done":
							done = true
						}
					}
					if done {
						if opt.FreshProcess {
							p.kill()
							p = nil
						}
						break
					}
					// worker death
					p.cmd.Wait()
					errs := p.errb.String()
					p.kill()
					p = nil
					cb.Lock()
					st.Deaths++
					st.Restarts++
					onDeath(Death{Shard: si, Item: last, Reason: reason, Stderr: trimErr(errs)})
					cb.Unlock()
					if last == "" || last == resume {
						sameDeaths++
						if sameDeaths >= 2 || last == "" {
							break // cannot make progress on this shard
						}
					}
					resume = last
				}
			}
		}()
	}
	wg.Wait()
	return st
}

func trimErr(s string) string {
	// first lines carry the fatal reason; keep them and the first goroutine's frames
	lines := strings.Split(s, "\n")
	if len(lines) > 60 {
		lines = lines[:60]
	}
	return strings.Join(lines, "\n")
}
