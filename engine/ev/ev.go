// Package ev holds the parts every check shares: flags, evidence files, known findings,
// replay artefacts and the VIOLATION / KNOWN-FINDING protocol.
package ev

import (
	"encoding/json"
	"flag"
	"fmt"
	"os"
	"path/filepath"
	"regexp"
	"sort"
	"strconv"
	"strings"
	"sync"
	"time"
)

const Root = "/verif"

// outRoot is where evidence and replays go: /verif normally, /verif/.tmp/scratch when the check
// runs against a scratch worktree (VERIF_REPO), so experiments never clobber real evidence.
func outRoot() string {
	if r := os.Getenv("VERIF_REPO"); r != "" && r != "/repo" {
		return filepath.Join(Root, ".tmp", "scratch")
	}
	return Root
}

type Check struct {
	ID     string
	Tier   string
	Seed   int64
	Replay string
	Level  string
	start  time.Time

	mu        sync.Mutex
	known     []Known
	failures  map[string]*Failure // by key
	Cov       map[string]any
	Assump    []string
	samples   []any
	outcomes  map[string]int
	deadline  time.Time
	Exhaustive bool
	harnessErr []string
}

type Known struct {
	Property string `json:"property"`
	Key      string `json:"key"`
	Status   string `json:"status"` // "open" | "fixed"
	What     string `json:"what"`
	Commit   string `json:"commit,omitempty"`
}

type Failure struct {
	Key    string `json:"key"`
	Clause string `json:"clause"`
	Count  int    `json:"count"`
	Case   any    `json:"case"`     // the smallest / first failing case
	Detail string `json:"detail"`   // expected vs observed
	size   int
}

// New parses the common flags: --tier, --seed, --replay, --budget.
func New(id string) *Check {
	c := &Check{ID: id, start: time.Now(), failures: map[string]*Failure{}, Cov: map[string]any{}, outcomes: map[string]int{}, Level: "model_checking", Exhaustive: true}
	tier := flag.String("tier", os.Getenv("VERIF_TIER"), "quick|thorough")
	seed := flag.Int64("seed", 0, "seed (concretisation only)")
	replay := flag.String("replay", "", "replay file")
	budget := flag.Duration("budget", 0, "wall-clock budget (0 = tier default)")
	flag.Parse()
	c.Tier = *tier
	if c.Tier == "" {
		c.Tier = "quick"
	}
	if c.Tier != "quick" && c.Tier != "thorough" {
		fmt.Fprintln(os.Stderr, "bad tier", c.Tier)
		os.Exit(2)
	}
	c.Seed = *seed
	if s := os.Getenv("VERIF_SEED"); s != "" && *seed == 0 {
		if v, err := strconv.ParseInt(s, 10, 64); err == nil {
			c.Seed = v
		}
	}
	c.Replay = *replay
	if *budget > 0 {
		c.deadline = c.start.Add(*budget)
	}
	c.loadKnown()
	return c
}

// SetBudget sets the internal deadline unless --budget was given.
func (c *Check) SetBudget(quick, thorough time.Duration) {
	if !c.deadline.IsZero() {
		return
	}
	if c.Tier == "quick" {
		c.deadline = c.start.Add(quick)
	} else {
		c.deadline = c.start.Add(thorough)
	}
}

// Expired reports whether the internal deadline has passed. A check that stops because of
// it must call NotExhaustive with the bound it did complete.
func (c *Check) Expired() bool { return !c.deadline.IsZero() && time.Now().After(c.deadline) }

func (c *Check) NotExhaustive(why string) {
	c.mu.Lock()
	c.Exhaustive = false
	c.Cov["not_exhaustive_reason"] = why
	c.mu.Unlock()
}

func (c *Check) Quick() bool { return c.Tier == "quick" }

func (c *Check) loadKnown() {
	files := []string{filepath.Join(Root, "known_findings.json")}
	// VERIF_KNOWN: an additional file, for trying out proposed entries (development only; the
	// registered commands never set it).
	if x := os.Getenv("VERIF_KNOWN"); x != "" {
		files = append(files, x)
	}
	for i, f := range files {
		b, err := os.ReadFile(f)
		if err != nil {
			if i > 0 {
				fmt.Fprintln(os.Stderr, "VERIF_KNOWN:", err)
				os.Exit(2)
			}
			continue
		}
		var all []Known
		if err := json.Unmarshal(b, &all); err != nil {
			fmt.Fprintln(os.Stderr, f+":", err)
			os.Exit(2)
		}
		for _, k := range all {
			if k.Property == c.ID {
				c.known = append(c.known, k)
			}
		}
	}
}

// Fail records a failing case under a finding key. size orders cases (smaller = kept as the
// representative).
func (c *Check) Fail(key, clause string, size int, cs any, detail string) {
	c.mu.Lock()
	defer c.mu.Unlock()
	f := c.failures[key]
	if f == nil {
		f = &Failure{Key: key, Clause: clause, Case: cs, Detail: detail, size: size}
		c.failures[key] = f
	} else if size < f.size {
		f.Case, f.Detail, f.size, f.Clause = cs, detail, size, clause
	}
	f.Count++
}

// HarnessError records a problem of the machinery itself (exit 2, never a VIOLATION).
func (c *Check) HarnessError(format string, a ...any) {
	c.mu.Lock()
	c.harnessErr = append(c.harnessErr, fmt.Sprintf(format, a...))
	c.mu.Unlock()
}

func (c *Check) Sample(s any) {
	c.mu.Lock()
	if len(c.samples) < 12 {
		c.samples = append(c.samples, s)
	}
	c.mu.Unlock()
}

// Outcome counts a distinct observed outcome class (vacuity guard).
func (c *Check) Outcome(o string) {
	c.mu.Lock()
	c.outcomes[o]++
	c.mu.Unlock()
}

func (c *Check) Add(key string, n int64) {
	c.mu.Lock()
	v, _ := c.Cov[key].(int64)
	c.Cov[key] = v + n
	c.mu.Unlock()
}

func (c *Check) Set(key string, v any) {
	c.mu.Lock()
	c.Cov[key] = v
	c.mu.Unlock()
}

func (c *Check) Get(key string) int64 {
	c.mu.Lock()
	defer c.mu.Unlock()
	v, _ := c.Cov[key].(int64)
	return v
}

func (c *Check) Assume(s string) { c.Assump = append(c.Assump, s) }

var reSafe = regexp.MustCompile(`[^A-Za-z0-9_.-]+`)

func safeName(k string) string {
	s := reSafe.ReplaceAllString(k, "_")
	if len(s) > 100 {
		s = s[:100]
	}
	return s
}

// Finish writes the evidence file and replay artefacts, prints the protocol lines and exits.
//
//	states       = distinct cases / states explored
//	transitions  = executions of the implementation
//	validated    = executions whose result was compared with the reference model
func (c *Check) Finish(states, transitions, validated int64, rule string) {
	wall := time.Since(c.start).Seconds()
	c.mu.Lock()
	keys := make([]string, 0, len(c.failures))
	for k := range c.failures {
		keys = append(keys, k)
	}
	sort.Strings(keys)
	openKnown := map[string]Known{}
	for _, k := range c.known {
		if k.Status == "open" {
			openKnown[k.Key] = k
		}
	}
	violations := 0
	var lines []string
	seenKnown := map[string]bool{}
	for _, k := range keys {
		f := c.failures[k]
		if kn, ok := openKnown[k]; ok {
			seenKnown[k] = true
			lines = append(lines, fmt.Sprintf("KNOWN-FINDING: property=%s %s -- %s (%d cases)", c.ID, k, kn.What, f.Count))
			continue
		}
		violations++
		dir := filepath.Join(outRoot(), "replays", c.ID)
		os.MkdirAll(dir, 0o755)
		path := filepath.Join(dir, safeName(k)+".json")
		b, _ := json.MarshalIndent(map[string]any{"property": c.ID, "key": k, "clause": f.Clause, "case": f.Case, "detail": f.Detail, "count": f.Count}, "", " ")
		os.WriteFile(path, b, 0o644)
		lines = append(lines, fmt.Sprintf("VIOLATION property=%s replay=%s", c.ID, path))
		lines = append(lines, fmt.Sprintf("  key=%s clause=%s cases=%d\n  %s", k, f.Clause, f.Count, strings.ReplaceAll(trunc(f.Detail, 600), "\n", "\n  ")))
	}
	var stale []string
	for k := range openKnown {
		if !seenKnown[k] {
			stale = append(stale, k)
		}
	}
	sort.Strings(stale)
	cov := map[string]any{}
	for k, v := range c.Cov {
		cov[k] = v
	}
	if states < 1 {
		states = 1
	}
	if transitions < 1 {
		transitions = 1
	}
	cov["states"] = states
	cov["transitions"] = transitions
	cov["traces_validated_against_impl"] = validated
	cov["evaluations"] = transitions
	cov["distinct_nontrivial"] = states
	cov["rule"] = rule
	cov["exhaustive"] = c.Exhaustive
	cov["distinct_outcomes"] = len(c.outcomes)
	if len(c.outcomes) <= 40 {
		cov["outcome_counts"] = c.outcomes
	}
	if len(c.samples) == 0 {
		c.samples = []any{"(no sample recorded)"}
	}
	cov["samples"] = c.samples
	cov["known_findings_reproduced"] = len(seenKnown)
	cov["known_findings_not_reproduced"] = stale
	cov["finding_keys"] = keys
	evd := map[string]any{
		"property_id": c.ID,
		"tier":        c.Tier,
		"seed":        c.Seed,
		"level":       c.Level,
		"coverage":    cov,
		"assumptions": c.Assump,
		"wall_s":      wall,
		"violations":  violations,
	}
	herr := c.harnessErr
	c.mu.Unlock()
	if c.Assump == nil {
		evd["assumptions"] = []string{}
	}
	b, _ := json.MarshalIndent(evd, "", " ")
	os.MkdirAll(filepath.Join(outRoot(), "evidence"), 0o755)
	if c.Replay == "" {
		os.WriteFile(filepath.Join(outRoot(), "evidence", c.ID+".json"), b, 0o644)
	}
	for _, l := range lines {
		fmt.Println(l)
	}
	for _, k := range stale {
		fmt.Printf("NOTE property=%s listed finding not reproduced in this tier/bound: %s\n", c.ID, k)
	}
	fmt.Printf("SUMMARY property=%s tier=%s states=%d executions=%d validated=%d outcomes=%d exhaustive=%v violations=%d known=%d wall=%.1fs\n",
		c.ID, c.Tier, states, transitions, validated, len(c.outcomes), c.Exhaustive, violations, len(seenKnown), wall)
	if len(herr) > 0 {
		for _, h := range herr {
			fmt.Fprintln(os.Stderr, "HARNESS-ERROR property="+c.ID, h)
		}
		os.Exit(2)
	}
	if violations > 0 {
		os.Exit(1)
	}
	os.Exit(0)
}

func trunc(s string, n int) string {
	if len(s) > n {
		return s[:n] + "…"
	}
	return s
}

// LoadReplay reads the "case" of a replay artefact into v.
func LoadReplay(path string, v any) (key string, err error) {
	b, err := os.ReadFile(path)
	if err != nil {
		return "", err
	}
	var r struct {
		Key  string          `json:"key"`
		Case json.RawMessage `json:"case"`
	}
	if err := json.Unmarshal(b, &r); err != nil {
		return "", err
	}
	return r.Key, json.Unmarshal(r.Case, v)
}
