#include "textflag.h"

// func getg() uintptr
TEXT ·getg(SB),NOSPLIT,$0-8
	MOVQ (TLS), AX
	MOVQ AX, ret+0(FP)
	RET
