package sched

import (
	"bytes"
	"runtime"
	"strconv"
	"unsafe"
)

// Fast goroutine ids. runtime.Stack (the portable way) walks the whole stack of the caller —
// tens of microseconds under a deep interpreter recursion, at every instrumented access. The
// id is a field of the runtime's g structure; its offset is not part of any API, so it is
// *calibrated* at start-up: the g of two different goroutines is scanned for the 8-byte field
// that equals the id runtime.Stack reports for each of them. If no unique offset is found the
// slow path is used.

func getg() uintptr

var goidOffset = -1

func gidSlow() int64 {
	var buf [64]byte
	n := runtime.Stack(buf[:], false)
	f := bytes.Fields(buf[:n])
	if len(f) < 2 {
		return -1
	}
	id, _ := strconv.ParseInt(string(f[1]), 10, 64)
	return id
}

func candidates() map[int]bool {
	g := getg()
	id := gidSlow()
	c := map[int]bool{}
	for off := 0; off < 512; off += 8 {
		if *(*int64)(unsafe.Pointer(g + uintptr(off))) == id {
			c[off] = true
		}
	}
	return c
}

func init() {
	a := candidates()
	ch := make(chan map[int]bool)
	go func() { ch <- candidates() }()
	b := <-ch
	go func() { ch <- candidates() }()
	c := <-ch
	var both []int
	for off := range a {
		if b[off] && c[off] {
			both = append(both, off)
		}
	}
	if len(both) == 1 {
		goidOffset = both[0]
	}
}

func gid() int64 {
	if goidOffset >= 0 {
		return *(*int64)(unsafe.Pointer(getg() + uintptr(goidOffset)))
	}
	return gidSlow()
}

// FastGid reports whether the calibrated fast path is in use (for evidence).
func FastGid() bool { return goidOffset >= 0 }
