// Package sched is a controlled cooperative scheduler and stateless DFS explorer over the
// scheduling points that /verif/govis plants in the origami sources (vshim.OnPoint): shared
// reads/writes, mutex and channel operations, goroutine spawns.
//
// Harness threads are real goroutines. Exactly one runs at a time; at every point the
// running thread publishes its pending operation and parks until the scheduler picks it.
// Enabledness is computed from a model of the synchronisation state (mutex holders, channel
// length / capacity / closed, rendez-vous partners). Exploration is iterative
// preemption-bounded DFS over choice sequences. A vector-clock race detector runs inside the
// scheduler; its happens-before edges come only from modelled synchronisation, never from
// the scheduler's own hand-offs.
package sched

import (
	"fmt"
	"regexp"
	"runtime"
	"runtime/debug"
	"sort"
	"strings"
	"sync"
	"sync/atomic"
	"time"

	"github.com/php-any/origami/utils/vshim"
)

type pendOp struct {
	kind int
	addr any
	site string
	ci   *vshim.ChanInfo
	// announced: a Lock() that found readers inside has been *called* (sync.RWMutex then makes
	// every later RLock wait behind it) but has not acquired yet
	announced bool
}

// KLockWait is the event kind of a writer announcing itself behind active readers (Go's
// RWMutex is writer-preferring: from that step on new RLock calls block, which is what makes
// recursive read-locking a deadlock).
const KLockWait = 100

// Thread is one controlled goroutine.
type Thread struct {
	ID       int
	Name     string
	Log      []string // harness-visible results appended by the body
	Panic    string   // recovered panic message ("" if none)
	PanicKey string   // class@frame
	wake     chan bool
	pend     *pendOp
	done     bool
	aborting bool
	joint    bool // released as one party of a rendez-vous: must park again right after the channel operation
	vc       []int
	s        *Exec
	run      Body
	ready    chan struct{} // non-nil for spawned children: start point is signalled here
}

// Now returns the number of scheduler steps executed so far in the current execution (0 when no
// exploration is running); callable from any code the controlled threads run.
func Now() int {
	if x := cur; x != nil {
		return len(x.Events)
	}
	return 0
}

// Stamp returns the number of scheduler steps executed so far (a logical clock for harness logs).
func (t *Thread) Stamp() int { return len(t.s.Events) }

// Logf appends to the thread's result log.
func (t *Thread) Logf(format string, a ...any) { t.Log = append(t.Log, fmt.Sprintf(format, a...)) }

type Body func(t *Thread)

// Event is one executed step.
type Event struct {
	Thread int
	Kind   int
	Site   string
	Joint  int // partner thread for a rendez-vous, else -1
}

// Race is a pair of conflicting accesses not ordered by happens-before.
type Race struct {
	Kind         string // "W/W" | "W/R" | "R/W"
	SiteA, SiteB string // earlier, later
}

type choice struct {
	n        int
	chosen   int
	runFirst bool // entry 0 contains the running thread
}

// Exec is one complete execution.
type Exec struct {
	Threads  []*Thread
	Events   []Event
	Races    []Race
	Deadlock bool
	Parked   []Event // pending operations of the threads that could not proceed (on deadlock)
	Horizon  bool    // stopped by MaxSteps
	Stuck    string
	choices  []choice

	cfg     *Config
	solo    atomic.Pointer[Thread] // the one running controlled thread, nil while two may run
	meCalls atomic.Int64
	foreign atomic.Int64
	mu      sync.Mutex
	byGid   map[int64]*Thread
	arrive  chan *Thread
	running int
	// lock model
	wheld   map[any]int
	wpend   map[any]int // announced writer (thread id + 1) waiting for the readers to drain
	rheld   map[any]map[int]int
	lockVC  map[any][]int
	rlockVC map[any][]int
	// channel model
	chClosed  map[any]bool
	chVC      map[any][][]int
	chCloseVC map[any][]int
	// race model
	lastW    map[any]*access
	reads    map[any]map[int]*access
	raceSeen map[string]bool
	// relevance bookkeeping: addr -> per-thread (read, write) + sites
	acc map[any]*locInfo
}

// access is an epoch (FastTrack): the access by thread tid at its clock clk happens-before an
// operation of thread t exactly when clk <= t.vc[tid]; no vector needs to be copied.
type access struct {
	tid  int
	clk  int
	site string
}

type locInfo struct {
	readers, writers map[int]bool
	sites            map[string]bool
}

// Config describes one scenario.
type Config struct {
	Name     string
	Bound    int // preemption bound; < 0 = unbounded
	MaxSteps int // horizon (default 20000)
	MaxExecs int // safety cap on executions per scenario (0 = none); hitting it is reported, never silent
	// Setup builds fresh shared state and the thread bodies for one execution.
	Setup func() []Body
	// Check is the per-execution oracle.
	Check func(x *Exec)
	// AllPoints: every point is a choice point. Default (false): a shared read/write is a choice
	// point only at sites known to touch a location that two threads access with at least one
	// write (learned across executions; the exploration restarts when the set grows).
	AllPoints bool
	// GateOnly: shared reads/writes are never choice points (still race-checked); only
	// synchronisation operations, spawns and explicit Yield points are.
	GateOnly bool
	// Deadline stops the exploration (reported as not exhaustive).
	Deadline time.Time
}

// Stats of one exploration.
type Stats struct {
	Execs      int64
	Steps      int64
	MaxDepth   int
	Restarts   int
	Complete   bool   // explored everything inside the bound
	StopReason string // why not complete
	Relevant   []string
	BoundUsed  int
}

var cur *Exec
var hookOnce sync.Once

func install() {
	hookOnce.Do(func() {
		vshim.OnPoint = onPoint
		vshim.OnGo = onGo
	})
}

type abortT struct{}

// me identifies the calling controlled thread by goroutine id (calibrated fast path, see gid.go);
// goroutines the scheduler does not know (signal handlers, timers, goroutines started before the
// exploration) get nil and pass through every hook.
func (x *Exec) me() *Thread {
	x.mu.Lock()
	t := x.byGid[gid()]
	x.mu.Unlock()
	return t
}

var relevantSites = map[string]bool{} // per scenario, reset by Explore

func onPoint(kind int, addr any, site string) {
	x := cur
	if x == nil {
		return
	}
	t := x.me()
	if t == nil {
		return
	}
	if t.aborting {
		panic(abortT{})
	}
	op := &pendOp{kind: kind, addr: addr, site: site}
	if ci, ok := addr.(*vshim.ChanInfo); ok {
		op.ci = ci
		op.addr = ci.Chan
	}
	switch kind {
	case vshim.KChanDone:
		// only the two parties of a rendez-vous run at the same time; each parks here as soon as
		// its half of the transfer is done, so that everything after it is serialised again
		if !t.joint {
			return
		}
		t.joint = false
	case vshim.KUnlock, vshim.KRUnlock:
		// The release takes effect at once (only one thread runs at a time). If the mutex is one
		// that two threads use, the thread then parks at an always-enabled point: what follows a
		// critical section (often uninstrumented work on an object fetched under the lock) must be
		// separable from it by the scheduler, otherwise "lock; look up; unlock; use" races are
		// glued shut.
		x.apply(t, op)
		x.note(op.addr, t.ID, true, site)
		if x.cfg.GateOnly || (!x.cfg.AllPoints && !relevantSites[site]) {
			return
		}
		op = &pendOp{kind: vshim.KYield, site: site}
	case vshim.KRead, vshim.KWrite, vshim.KSyncR, vshim.KSyncW:
		if x.cfg.GateOnly || (!x.cfg.AllPoints && !relevantSites[site]) {
			x.apply(t, op)
			return
		}
	case vshim.KLock, vshim.KRLock:
		// a mutex that only one thread ever touches is not a choice point; the site becomes
		// relevant as soon as two threads are seen on one mutex (then the exploration restarts)
		x.note(op.addr, t.ID, true, site)
		if !x.cfg.AllPoints && !relevantSites[site] {
			free := x.wheld[op.addr] == 0 && x.wpend[op.addr] == 0 && (kind == vshim.KRLock || len(x.rheld[op.addr]) == 0)
			if free {
				x.apply(t, op)
				return
			}
		}
	}
	t.pend = op
	x.arrive <- t
	if <-t.wake {
		t.aborting = true
		panic(abortT{})
	}
}

func onGo(fn func(), site string) {
	x := cur
	if x == nil {
		go fn()
		return
	}
	parent := x.me()
	if parent == nil {
		go fn()
		return
	}
	// the spawn itself is a scheduling point of the parent
	onPoint(vshim.KGo, nil, site)
	child := x.newThread(fmt.Sprintf("%s/go@%s", parent.Name, site), func(t *Thread) { fn() })
	// spawn edge
	for i := range parent.vc {
		if i < len(child.vc) && parent.vc[i] > child.vc[i] {
			child.vc[i] = parent.vc[i]
		}
	}
	child.ready = make(chan struct{})
	x.start(child)
	// wait until the child has parked at its start point so that exactly one thread runs
	<-child.ready
}

var reClosure = regexp.MustCompile(`\.func\d+(\.\d+)*$`)
var reNum = regexp.MustCompile(`0x[0-9a-fA-F]+|\b\d+\b`)

func panicKey(r any, stack string) string {
	msg := fmt.Sprint(r)
	if i := strings.Index(msg, "\n"); i >= 0 {
		msg = msg[:i]
	}
	msg = reNum.ReplaceAllString(msg, "N")
	if len(msg) > 100 {
		msg = msg[:100]
	}
	frame := "?"
	seen := false
	for _, l := range strings.Split(stack, "\n") {
		if strings.HasPrefix(l, "panic(") {
			seen = true
			continue
		}
		if !seen || strings.HasPrefix(l, "\t") {
			continue
		}
		const mp = "github.com/php-any/origami/"
		if strings.HasPrefix(l, mp) && !strings.HasPrefix(l, mp+"utils/vshim.") {
			f := strings.TrimPrefix(l, mp)
			if i := strings.LastIndex(f, "("); i > 0 {
				f = f[:i]
			}
			frame = reClosure.ReplaceAllString(f, "")
			break
		}
	}
	return "panic:" + strings.ReplaceAll(msg, " ", "-") + "@" + frame
}

const maxThreads = 16

func (x *Exec) newThread(name string, body Body) *Thread {
	t := &Thread{ID: len(x.Threads), Name: name, wake: make(chan bool), vc: make([]int, maxThreads), s: x}
	x.Threads = append(x.Threads, t)
	t.body(body)
	return t
}

func (t *Thread) body(b Body) { t.run = b }

func (x *Exec) start(t *Thread) {
	go func() {
		x.mu.Lock()
		x.byGid[gid()] = t
		x.mu.Unlock()
		defer func() {
			if r := recover(); r != nil {
				if _, ok := r.(abortT); !ok {
					t.Panic = fmt.Sprint(r)
					if len(t.Panic) > 300 {
						t.Panic = t.Panic[:300]
					}
					t.PanicKey = panicKey(r, string(debug.Stack()))
				}
			}
			t.pend = nil
			t.done = true
			x.arrive <- t
		}()
		// start point: the thread parks before doing anything
		t.pend = &pendOp{kind: -1, site: "start"}
		if t.ready != nil {
			close(t.ready)
		} else {
			x.arrive <- t
		}
		if <-t.wake {
			t.aborting = true
			panic(abortT{})
		}
		t.run(t)
	}()
}

func (x *Exec) waitArrive(n int) bool {
	for i := 0; i < n; i++ {
		select {
		case <-x.arrive:
		case <-time.After(30 * time.Second):
			buf := make([]byte, 1<<16)
			k := runtime.Stack(buf, true)
			x.Stuck = string(buf[:k])
			return false
		}
	}
	return true
}

func leq(a, b []int) bool {
	for i := range a {
		if a[i] > b[i] {
			return false
		}
	}
	return true
}
func join(a, b []int) {
	for i := range a {
		if i < len(b) && b[i] > a[i] {
			a[i] = b[i]
		}
	}
}
func clone(a []int) []int { return append([]int(nil), a...) }

func (x *Exec) race(kind string, a *access, site string) {
	k := kind + "|" + a.site + "|" + site
	if !x.raceSeen[k] {
		x.raceSeen[k] = true
		x.Races = append(x.Races, Race{Kind: kind, SiteA: a.site, SiteB: site})
	}
}

func (x *Exec) note(addr any, tid int, write bool, site string) {
	li := x.acc[addr]
	if li == nil {
		li = &locInfo{readers: map[int]bool{}, writers: map[int]bool{}, sites: map[string]bool{}}
		x.acc[addr] = li
	}
	if write {
		li.writers[tid] = true
	} else {
		li.readers[tid] = true
	}
	li.sites[site] = true
}

// apply performs the model update for an operation that is about to take effect.
func (x *Exec) apply(t *Thread, o *pendOp) {
	t.vc[t.ID]++
	switch o.kind {
	case vshim.KLock:
		x.wheld[o.addr] = t.ID + 1
		if x.wpend[o.addr] == t.ID+1 {
			delete(x.wpend, o.addr)
		}
		if v := x.lockVC[o.addr]; v != nil {
			join(t.vc, v)
		}
		if v := x.rlockVC[o.addr]; v != nil {
			join(t.vc, v)
		}
	case vshim.KRLock:
		if x.rheld[o.addr] == nil {
			x.rheld[o.addr] = map[int]int{}
		}
		x.rheld[o.addr][t.ID]++
		if v := x.lockVC[o.addr]; v != nil {
			join(t.vc, v)
		}
	case vshim.KUnlock:
		x.wheld[o.addr] = 0
		v := clone(t.vc)
		if old := x.lockVC[o.addr]; old != nil {
			join(v, old)
		}
		x.lockVC[o.addr] = v
	case vshim.KRUnlock:
		if x.rheld[o.addr][t.ID] > 1 {
			x.rheld[o.addr][t.ID]--
		} else {
			delete(x.rheld[o.addr], t.ID)
		}
		v := clone(t.vc)
		if old := x.rlockVC[o.addr]; old != nil {
			join(v, old)
		}
		x.rlockVC[o.addr] = v
	case vshim.KRead:
		x.note(o.addr, t.ID, false, o.site)
		if w := x.lastW[o.addr]; w != nil && w.tid != t.ID && w.clk > t.vc[w.tid] {
			x.race("W/R", w, o.site)
		}
		rs := x.reads[o.addr]
		if rs == nil {
			rs = map[int]*access{}
			x.reads[o.addr] = rs
		}
		if r := rs[t.ID]; r != nil {
			r.clk, r.site = t.vc[t.ID], o.site
		} else {
			rs[t.ID] = &access{t.ID, t.vc[t.ID], o.site}
		}
	case vshim.KWrite:
		x.note(o.addr, t.ID, true, o.site)
		if w := x.lastW[o.addr]; w != nil && w.tid != t.ID && w.clk > t.vc[w.tid] {
			x.race("W/W", w, o.site)
		}
		for rid, r := range x.reads[o.addr] {
			if rid != t.ID && r.clk > t.vc[rid] {
				x.race("R/W", r, o.site)
			}
		}
		x.lastW[o.addr] = &access{t.ID, t.vc[t.ID], o.site}
	case vshim.KSyncR:
		// internally synchronised object: acquire edge, no race check
		x.note(o.addr, t.ID, false, o.site)
		if v := x.lockVC[o.addr]; v != nil {
			join(t.vc, v)
		}
	case vshim.KSyncW:
		x.note(o.addr, t.ID, true, o.site)
		if v := x.lockVC[o.addr]; v != nil {
			join(t.vc, v)
		}
		x.lockVC[o.addr] = clone(t.vc)
	case vshim.KChanSend:
		if !x.chClosed[o.addr] {
			x.chVC[o.addr] = append(x.chVC[o.addr], clone(t.vc))
		}
	case vshim.KChanRecv:
		if q := x.chVC[o.addr]; len(q) > 0 {
			join(t.vc, q[0])
			x.chVC[o.addr] = q[1:]
		} else if v := x.chCloseVC[o.addr]; v != nil {
			join(t.vc, v)
		}
	case vshim.KChanClose:
		x.chClosed[o.addr] = true
		x.chCloseVC[o.addr] = clone(t.vc)
	}
}

type entry []int // one thread, or sender+receiver for a rendez-vous

func (x *Exec) enabled() []entry {
	var out []entry
	for _, t := range x.Threads {
		if t.done || t.pend == nil {
			continue
		}
		o := t.pend
		switch o.kind {
		case vshim.KLock:
			if o.announced {
				if len(x.rheld[o.addr]) == 0 {
					out = append(out, entry{t.ID})
				}
			} else if x.wheld[o.addr] == 0 && x.wpend[o.addr] == 0 {
				// free: acquire; readers inside: the step announces the writer (see runOnce)
				out = append(out, entry{t.ID})
			}
		case vshim.KRLock:
			if x.wheld[o.addr] == 0 && x.wpend[o.addr] == 0 {
				out = append(out, entry{t.ID})
			}
		case vshim.KChanSend:
			if x.chClosed[o.addr] {
				out = append(out, entry{t.ID}) // will panic: that is the behaviour under test
			} else if o.ci.Cap > 0 {
				if o.ci.Len() < o.ci.Cap {
					out = append(out, entry{t.ID})
				}
			} else {
				for _, r := range x.Threads {
					if !r.done && r.pend != nil && r.pend.kind == vshim.KChanRecv && r.pend.addr == o.addr {
						out = append(out, entry{t.ID, r.ID})
					}
				}
			}
		case vshim.KChanRecv:
			if x.chClosed[o.addr] || o.ci.Len() > 0 {
				out = append(out, entry{t.ID})
			}
		default:
			out = append(out, entry{t.ID})
		}
	}
	return out
}

func has(e entry, id int) bool {
	for _, v := range e {
		if v == id {
			return true
		}
	}
	return false
}

// ErrDivergence is raised (as a panic) when a replayed prefix does not fit the execution.
type ErrDivergence struct{ Msg string }

func runOnce(cfg *Config, prefix []int) *Exec {
	x := &Exec{cfg: cfg, byGid: map[int64]*Thread{}, arrive: make(chan *Thread, 64), running: -1,
		wheld: map[any]int{}, wpend: map[any]int{}, rheld: map[any]map[int]int{}, lockVC: map[any][]int{}, rlockVC: map[any][]int{},
		chClosed: map[any]bool{}, chVC: map[any][][]int{}, chCloseVC: map[any][]int{},
		lastW: map[any]*access{}, reads: map[any]map[int]*access{}, raceSeen: map[string]bool{}, acc: map[any]*locInfo{}}
	bodies := cfg.Setup() // runs uncontrolled (cur == nil)
	cur = x
	for i, b := range bodies {
		x.newThread(fmt.Sprintf("T%d", i), b)
	}
	for _, t := range x.Threads {
		x.start(t)
	}
	if !x.waitArrive(len(bodies)) {
		cur = nil
		return x
	}
	maxSteps := cfg.MaxSteps
	if maxSteps == 0 {
		maxSteps = 20000
	}
	for step := 0; ; step++ {
		en := x.enabled()
		if len(en) == 0 {
			break
		}
		if step >= maxSteps {
			x.Horizon = true
			break
		}
		runFirst := false
		for i, e := range en {
			if has(e, x.running) {
				en[0], en[i] = en[i], en[0]
				// keep the rest in ascending order
				rest := en[1:]
				sort.SliceStable(rest, func(a, b int) bool {
					if rest[a][0] != rest[b][0] {
						return rest[a][0] < rest[b][0]
					}
					return len(rest[a]) > 1 && len(rest[b]) > 1 && rest[a][1] < rest[b][1]
				})
				runFirst = true
				break
			}
		}
		pick := 0
		if step < len(prefix) {
			pick = prefix[step]
			if pick >= len(en) {
				cur = nil
				panic(ErrDivergence{fmt.Sprintf("step %d: choice %d of %d", step, pick, len(en))})
			}
		}
		x.choices = append(x.choices, choice{n: len(en), chosen: pick, runFirst: runFirst})
		e := en[pick]
		joint := -1
		if len(e) > 1 {
			joint = e[1]
		}
		first := x.Threads[e[0]]
		if len(e) == 1 && first.pend.kind == vshim.KLock && !first.pend.announced && len(x.rheld[first.pend.addr]) > 0 {
			// Lock() called while readers are inside: the writer queues (it stays parked) and
			// closes the door for new readers; the running thread does not change
			first.pend.announced = true
			x.wpend[first.pend.addr] = first.ID + 1
			x.Events = append(x.Events, Event{Thread: e[0], Kind: KLockWait, Site: first.pend.site, Joint: -1})
			continue
		}
		x.Events = append(x.Events, Event{Thread: e[0], Kind: first.pend.kind, Site: first.pend.site, Joint: joint})
		for _, id := range e {
			t := x.Threads[id]
			if t.pend.kind >= 0 {
				x.apply(t, t.pend)
			}
		}
		if len(e) > 1 {
			// rendez-vous: receiver learns the sender's clock (send was queued by apply; recv popped it)
		}
		x.running = e[0]
		if len(e) == 1 {
			x.solo.Store(x.Threads[e[0]])
		} else {
			x.solo.Store(nil)
		}
		for _, id := range e {
			t := x.Threads[id]
			t.pend = nil
			t.joint = len(e) > 1
			t.wake <- false
		}
		if !x.waitArrive(len(e)) {
			break
		}
	}
	// teardown
	x.solo.Store(nil)
	var alive []*Thread
	for _, t := range x.Threads {
		if !t.done {
			alive = append(alive, t)
		}
	}
	if len(alive) > 0 && !x.Horizon && x.Stuck == "" {
		x.Deadlock = true
		for _, t := range alive {
			if t.pend != nil {
				x.Parked = append(x.Parked, Event{Thread: t.ID, Kind: t.pend.kind, Site: t.pend.site, Joint: -1})
			}
		}
	}
	if x.Stuck == "" {
		// abort the parked threads ONE AT A TIME: the code under test may recover the sentinel panic
		// (try/catch, spawn's own recover) and run on until its next hook, and two such threads must
		// not run harness callbacks or interpreter code side by side
		for _, t := range alive {
			if t.pend != nil {
				t.pend = nil
				t.wake <- true
				if !x.waitArrive(1) {
					break
				}
			}
		}
	}
	cur = nil
	return x
}

// Outcome is a canonical rendering of what the harness observed.
func (x *Exec) Outcome() string {
	var parts []string
	for _, t := range x.Threads {
		p := strings.Join(t.Log, ",")
		if t.Panic != "" {
			p += "!PANIC:" + t.PanicKey
		}
		parts = append(parts, p)
	}
	if x.Deadlock {
		parts = append(parts, "DEADLOCK")
	}
	if x.Horizon {
		parts = append(parts, "HORIZON")
	}
	return strings.Join(parts, " | ")
}

// Schedule renders the executed steps (for replay artefacts / finding keys).
func (x *Exec) Schedule() []string {
	var out []string
	for _, e := range x.Events {
		s := fmt.Sprintf("T%d:%s@%s", e.Thread, KindName(e.Kind), e.Site)
		if e.Joint >= 0 {
			s += fmt.Sprintf("+T%d", e.Joint)
		}
		out = append(out, s)
	}
	return out
}

// Choices returns the choice sequence that reproduces this execution.
func (x *Exec) Choices() []int {
	out := make([]int, len(x.choices))
	for i, c := range x.choices {
		out[i] = c.chosen
	}
	return out
}

// Site strings are "file:line|expression|function". SiteStable drops the line number.
func SiteStable(site string) string {
	parts := strings.SplitN(site, "|", 3)
	if len(parts) < 3 {
		return site
	}
	return parts[1] + "@" + parts[2]
}

func KindName(k int) string {
	switch k {
	case -1:
		return "start"
	case vshim.KRead:
		return "R"
	case vshim.KWrite:
		return "W"
	case vshim.KLock:
		return "Lock"
	case vshim.KUnlock:
		return "Unlock"
	case vshim.KRLock:
		return "RLock"
	case vshim.KRUnlock:
		return "RUnlock"
	case vshim.KChanSend:
		return "send"
	case vshim.KChanRecv:
		return "recv"
	case vshim.KChanClose:
		return "close"
	case vshim.KGo:
		return "go"
	case vshim.KYield:
		return "yield"
	case vshim.KChanDone:
		return "chan-done"
	case KLockWait:
		return "Lock-queued"
	case vshim.KSyncR:
		return "sync-load"
	case vshim.KSyncW:
		return "sync-store"
	}
	return fmt.Sprint(k)
}

// RelevantSites returns the current set of learned choice sites (sorted).
func RelevantSites() []string {
	var out []string
	for s := range relevantSites {
		out = append(out, s)
	}
	sort.Strings(out)
	return out
}

// Replay runs one recorded choice sequence under the set of choice sites it was recorded with.
func Replay(cfg *Config, choices []int, relevant []string) (x *Exec, err error) {
	install()
	relevantSites = map[string]bool{}
	for _, s := range relevant {
		relevantSites[s] = true
	}
	defer func() {
		if r := recover(); r != nil {
			if d, ok := r.(ErrDivergence); ok {
				err = fmt.Errorf("replay divergence: %s", d.Msg)
				return
			}
			panic(r)
		}
	}()
	x = runOnce(cfg, choices)
	return
}

// Explore runs the iterative preemption-bounded DFS.
func Explore(cfg *Config) Stats {
	install()
	var st Stats
	relevantSites = map[string]bool{}
	bounds := []int{cfg.Bound}
	if cfg.Bound < 0 {
		bounds = []int{1 << 30}
	}
restart:
	st.Execs, st.Steps = 0, 0
	for _, bound := range bounds {
		st.BoundUsed = bound
		grew := false
		stop := ""
		var rec func(prefix []int)
		rec = func(prefix []int) {
			if grew || stop != "" {
				return
			}
			if !cfg.Deadline.IsZero() && time.Now().After(cfg.Deadline) {
				stop = "deadline"
				return
			}
			if cfg.MaxExecs > 0 && st.Execs >= int64(cfg.MaxExecs) {
				stop = "max-execs"
				return
			}
			x := runOnce(cfg, prefix)
			st.Execs++
			st.Steps += int64(len(x.choices))
			if len(x.choices) > st.MaxDepth {
				st.MaxDepth = len(x.choices)
			}
			if x.Stuck != "" {
				stop = "stuck"
				if cfg.Check != nil {
					cfg.Check(x)
				}
				return
			}
			// learn relevant sites
			if !cfg.AllPoints {
				for _, li := range x.acc {
					threads := map[int]bool{}
					for id := range li.readers {
						threads[id] = true
					}
					for id := range li.writers {
						threads[id] = true
					}
					if len(li.writers) > 0 && len(threads) > 1 {
						for s := range li.sites {
							if !relevantSites[s] {
								relevantSites[s] = true
								grew = true
							}
						}
					}
				}
				if grew {
					// the execution is a real one: judge it before restarting with the larger site
					// set (a race on lazily initialised state shows only in the first, cold, run)
					if cfg.Check != nil {
						cfg.Check(x)
					}
					return
				}
			}
			if cfg.Check != nil {
				cfg.Check(x)
			}
			pre := 0
			for i, c := range x.choices {
				if i >= len(prefix) {
					for alt := 1; alt < c.n; alt++ {
						cost := pre
						if c.runFirst {
							cost++
						}
						if cost > bound {
							continue
						}
						np := make([]int, 0, i+1)
						for j := 0; j < i; j++ {
							np = append(np, x.choices[j].chosen)
						}
						rec(append(np, alt))
						if grew || stop != "" {
							return
						}
					}
				}
				if c.runFirst && c.chosen != 0 {
					pre++
				}
			}
		}
		rec(nil)
		if grew {
			st.Restarts++
			goto restart
		}
		if stop != "" {
			st.StopReason = stop
			st.Complete = false
			for s := range relevantSites {
				st.Relevant = append(st.Relevant, s)
			}
			sort.Strings(st.Relevant)
			return st
		}
	}
	st.Complete = true
	for s := range relevantSites {
		st.Relevant = append(st.Relevant, s)
	}
	sort.Strings(st.Relevant)
	return st
}
