// Package exprsem is shared by the C03 and C04 checks: a Go-side recorder function that scripts
// call to hand over results with their exact runtime type (no echo / string conversion of the
// interpreter in between), a canonical rendering of values, and a batch runner that evaluates many
// independent expressions in one script.
package exprsem

import (
	"fmt"
	"math"
	"sort"
	"strconv"
	"strings"

	"github.com/php-any/origami/data"
	"github.com/php-any/origami/node"

	"verif/engine/runner"
)

// Render gives the canonical text of a runtime value: kind + exact value.
//
//	i:5  f:0.5  f:-0  f:NAN  f:INF  b:1  b:0  n  s:"a"  a:[i:1,s:"x"]  o:<class>  ?:<GoType>
func Render(v data.GetValue) string {
	return render(v, 0)
}

func render(v data.GetValue, depth int) string {
	if depth > 4 {
		return "..."
	}
	switch x := v.(type) {
	case nil:
		return "nil"
	case *data.IntValue:
		return "i:" + strconv.Itoa(x.Value)
	case *data.FloatValue:
		return "f:" + FloatText(x.Value)
	case *data.BoolValue:
		if x.Value {
			return "b:1"
		}
		return "b:0"
	case *data.NullValue:
		return "n"
	case *data.StringValue:
		return "s:" + strconv.Quote(x.Value)
	case *data.ArrayValue:
		var parts []string
		for _, z := range x.List {
			if z == nil {
				parts = append(parts, "nil")
				continue
			}
			parts = append(parts, render(z.Value, depth+1))
		}
		return "a:[" + strings.Join(parts, ",") + "]"
	case *data.ObjectValue:
		props := x.GetProperties()
		keys := make([]string, 0, len(props))
		for k := range props {
			keys = append(keys, k)
		}
		sort.Strings(keys)
		var parts []string
		for _, k := range keys {
			parts = append(parts, k+"="+render(props[k], depth+1))
		}
		return "o:{" + strings.Join(parts, ",") + "}"
	case *data.ClassValue:
		return "o:" + x.Class.GetName()
	case *data.FuncValue:
		return "c:closure"
	}
	return fmt.Sprintf("?:%T", v)
}

// FloatText renders a float exactly enough to compare (shortest round-trip form).
func FloatText(f float64) string {
	switch {
	case math.IsNaN(f):
		return "NAN"
	case math.IsInf(f, 1):
		return "INF"
	case math.IsInf(f, -1):
		return "-INF"
	case f == 0 && math.Signbit(f):
		return "-0"
	}
	return strconv.FormatFloat(f, 'g', -1, 64)
}

// Recorder collects what the script hands to __r(slot, value) and __e(slot, throwable).
type Recorder struct {
	Slots map[int][]string // every record of a slot, in order
}

func NewRecorder() *Recorder { return &Recorder{Slots: map[int][]string{}} }

// Get returns the single record of a slot ("" and false if the slot was never / more than once
// recorded).
func (r *Recorder) Get(slot int) (string, bool) {
	s := r.Slots[slot]
	if len(s) != 1 {
		return strings.Join(s, "|"), false
	}
	return s[0], true
}

type recFn struct {
	name string
	r    *Recorder
	err  bool
}

func (f *recFn) Call(ctx data.Context) (data.GetValue, data.Control) {
	sv, _ := ctx.GetIndexValue(0)
	v, _ := ctx.GetIndexValue(1)
	slot := -1
	if iv, ok := sv.(*data.IntValue); ok {
		slot = iv.Value
	}
	if f.err {
		f.r.Slots[slot] = append(f.r.Slots[slot], "E:"+ThrowText(v))
	} else {
		f.r.Slots[slot] = append(f.r.Slots[slot], Render(v))
	}
	return data.NewNullValue(), nil
}
func (f *recFn) GetName() string { return f.name }
func (f *recFn) GetParams() []data.GetValue {
	return []data.GetValue{
		node.NewParameter(nil, "slot", 0, nil, nil),
		node.NewParameter(nil, "value", 1, nil, nil),
	}
}
func (f *recFn) GetVariables() []data.Variable {
	return []data.Variable{
		node.NewVariable(nil, "slot", 0, data.NewBaseType("mixed")),
		node.NewVariable(nil, "value", 1, data.NewBaseType("mixed")),
	}
}

// PanicMarker reports whether a caught throwable's text is origami's conversion of a Go panic
// raised inside a try body.
func PanicMarker(s string) bool {
	return strings.Contains(s, "panic(") || strings.Contains(s, "go作用域异常退出") || strings.Contains(s, "runtime error") || strings.Contains(s, "interface conversion")
}

// ThrowText reduces what a script hands to __e (normally $e->getMessage()) to text.
func ThrowText(v data.Value) string {
	switch x := v.(type) {
	case *data.StringValue:
		return x.Value
	case *data.ThrowValue:
		msg := ""
		if x.Error != nil {
			msg = x.Error.Error()
		}
		return x.GetName() + ":" + msg
	case nil:
		return "nil"
	}
	return fmt.Sprintf("%T:%s", v, v.AsString())
}

// Install registers __r / __e on a VM.
func (r *Recorder) Install(vm data.VM) {
	vm.AddFunc(&recFn{name: "__r", r: r})
	vm.AddFunc(&recFn{name: "__e", r: r, err: true})
}

// RunRec runs src with a fresh recorder installed.
func RunRec(src string, fuel int64) (runner.Result, *Recorder) {
	r := NewRecorder()
	res := runner.Run(src, runner.Opts{Fuel: fuel, Setup: func(vm data.VM) { r.Install(vm) }})
	return res, r
}
