package exprsem

import (
	"fmt"
	"strings"
)

// Job is one independent case: statements that hand their result to __r({S}, ...). "{S}" is
// replaced by the slot number.
type Job struct {
	ID  string
	Src string
}

// Outcome notation returned by Batch.Run:
//
//	<rendering>        the case recorded exactly one value
//	E                  a catchable Throwable (caught by catch (Throwable) in the batch, or delivered
//	                   to the VM's throw handler by the bare form)
//	CRASH:<panic key>  a Go panic (confirmed on the bare top-level form)
//	HANG               fuel exhausted
//	PARSE:<msg>        the parser rejected the case
//	CTL:<..> NOREC MULTI:<..>   anything else
type Batch struct {
	Prelude string            // statements run before the cases of every script
	NewEnv  func() *Env       // fresh environment per script
	Size    int               // cases per script (default 200)
	Scripts int64             // scripts executed (batch + bare)
	Bare    int64             // bare single-case executions
	Msgs    map[string]string // ID -> message of the error / panic (diagnostics only)
}

func (b *Batch) script(jobs []Job, try bool) string {
	var sb strings.Builder
	sb.WriteString(b.Prelude)
	sb.WriteString("\n")
	for i, j := range jobs {
		body := strings.ReplaceAll(j.Src, "{S}", fmt.Sprint(i))
		if try {
			fmt.Fprintf(&sb, "try { %s } catch (Throwable $e) { __e(%d, $e->getMessage()); }\n", body, i)
		} else {
			sb.WriteString(body + "\n")
		}
	}
	return sb.String()
}

// BareScript is the top-level form of one job (what --replay and the no-crash clause use).
func (b *Batch) BareScript(j Job) string { return b.script([]Job{j}, false) }

// RunBare evaluates one job as bare top-level statements.
func (b *Batch) RunBare(j Job) string {
	env := b.NewEnv()
	res := env.Run(b.script([]Job{j}, false), 0)
	b.Scripts++
	b.Bare++
	switch res.Kind {
	case "ok":
		out, ok := env.Rec.Get(0)
		switch {
		case ok:
			return out
		case out == "":
			return "NOREC"
		}
		return "MULTI:" + out
	case "throw":
		b.note(j.ID, res.Class+": "+res.Msg)
		if PanicMarker(res.Msg) {
			return "CRASH:converted:" + firstLine(res.Msg)
		}
		return "E"
	case "panic":
		b.note(j.ID, res.PanicMsg)
		return "CRASH:" + res.PanicKey
	case "fuel":
		return "HANG"
	case "parse":
		b.note(j.ID, res.Msg)
		return "PARSE:" + firstLine(res.Msg)
	}
	b.note(j.ID, res.Class+": "+res.Msg)
	return "CTL:" + res.Kind + ":" + res.Class
}

func firstLine(s string) string {
	if i := strings.Index(s, "\n"); i >= 0 {
		s = s[:i]
	}
	if len(s) > 120 {
		s = s[:120]
	}
	return s
}

func (b *Batch) note(id, msg string) {
	if b.Msgs == nil {
		b.Msgs = map[string]string{}
	}
	if len(msg) > 400 {
		msg = msg[:400]
	}
	b.Msgs[id] = msg
}

// Run evaluates all jobs, many per script, each wrapped in try/catch so that one failure does not
// hide the others. Every case that panicked (origami converts a panic inside try into a throw
// carrying a marker), did not record, or sits in a script that did not finish is re-evaluated
// alone as bare top-level statements, and that outcome is the one reported.
func (b *Batch) Run(jobs []Job) map[string]string {
	size := b.Size
	if size <= 0 {
		size = 200
	}
	out := make(map[string]string, len(jobs))
	for lo := 0; lo < len(jobs); lo += size {
		hi := lo + size
		if hi > len(jobs) {
			hi = len(jobs)
		}
		part := jobs[lo:hi]
		env := b.NewEnv()
		res := env.Run(b.script(part, true), int64(50_000+20_000*len(part)))
		b.Scripts++
		for i, j := range part {
			rec := env.Rec.Slots[i]
			redo := false
			switch {
			case len(rec) == 1 && strings.HasPrefix(rec[0], "E:"):
				if PanicMarker(rec[0]) {
					redo = true
				} else {
					out[j.ID] = "E"
					b.note(j.ID, rec[0][2:])
				}
			case len(rec) == 1:
				out[j.ID] = rec[0]
			default:
				redo = true
			}
			if redo || res.Kind != "ok" && len(rec) != 1 {
				out[j.ID] = b.RunBare(j)
			}
		}
	}
	return out
}
