package exprsem

import (
	"github.com/php-any/origami/data"
	"github.com/php-any/origami/node"

	"verif/engine/runner"
)

// Env hands operand values to scripts without going through the lexer: __v(i) returns pool value
// i (a fresh scalar each call), __pool() the whole pool as an array, __set(i, x) stores a value
// built by the script itself (objects, closures) so that __v / __pool can return it later.
type Env struct {
	Rec  *Recorder
	Make []func() data.Value // nil entries must be provided by the script through __set
	set  map[int]data.Value
}

func NewEnv(mk []func() data.Value) *Env {
	return &Env{Rec: NewRecorder(), Make: mk, set: map[int]data.Value{}}
}

func (e *Env) value(i int) data.Value {
	if v, ok := e.set[i]; ok {
		return v
	}
	if i >= 0 && i < len(e.Make) && e.Make[i] != nil {
		return e.Make[i]()
	}
	return data.NewNullValue()
}

type envFn struct {
	name string
	n    int
	call func(args []data.Value) data.Value
}

func (f *envFn) Call(ctx data.Context) (data.GetValue, data.Control) {
	args := make([]data.Value, f.n)
	for i := range args {
		args[i], _ = ctx.GetIndexValue(i)
	}
	return f.call(args), nil
}
func (f *envFn) GetName() string { return f.name }
func (f *envFn) GetParams() []data.GetValue {
	var ps []data.GetValue
	for i := 0; i < f.n; i++ {
		ps = append(ps, node.NewParameter(nil, "p"+string(rune('a'+i)), i, nil, nil))
	}
	return ps
}
func (f *envFn) GetVariables() []data.Variable {
	var vs []data.Variable
	for i := 0; i < f.n; i++ {
		vs = append(vs, node.NewVariable(nil, "p"+string(rune('a'+i)), i, data.NewBaseType("mixed")))
	}
	return vs
}

func (e *Env) Install(vm data.VM) {
	e.Rec.Install(vm)
	idx := func(v data.Value) int {
		if iv, ok := v.(*data.IntValue); ok {
			return iv.Value
		}
		return -1
	}
	vm.AddFunc(&envFn{name: "__v", n: 1, call: func(a []data.Value) data.Value { return e.value(idx(a[0])) }})
	vm.AddFunc(&envFn{name: "__set", n: 2, call: func(a []data.Value) data.Value {
		e.set[idx(a[0])] = a[1]
		return data.NewNullValue()
	}})
	vm.AddFunc(&envFn{name: "__pool", n: 0, call: func(a []data.Value) data.Value {
		vs := make([]data.Value, len(e.Make))
		for i := range vs {
			vs[i] = e.value(i)
		}
		return data.NewArrayValue(vs)
	}})
}

// Run executes src with this environment installed.
func (e *Env) Run(src string, fuel int64) runner.Result {
	return runner.Run(src, runner.Opts{Fuel: fuel, Setup: func(vm data.VM) { e.Install(vm) }})
}

// ToData builds the runtime value of a scalar reference value.
func ToData(v V) data.Value {
	switch v.K {
	case KInt:
		return data.NewIntValue(int(v.I))
	case KFloat:
		return data.NewFloatValue(v.F)
	case KBool:
		return data.NewBoolValue(v.B)
	case KString:
		return data.NewStringValue(v.S)
	}
	return data.NewNullValue()
}
