package exprsem

import (
	"math"
	"math/big"
	"strconv"
	"strings"
)

// Kind of a reference value.
type Kind int

const (
	KInt Kind = iota
	KFloat
	KBool
	KNull
	KString
	KArray
	KObject
	KClosure
)

var kindNames = []string{"int", "float", "bool", "null", "string", "array", "object", "closure"}

func (k Kind) String() string { return kindNames[k] }

// V is a value of the reference model. Non-scalars only carry their rendering.
type V struct {
	K   Kind
	I   int64
	F   float64
	B   bool
	S   string
	Txt string // canonical rendering of a non-scalar (array / object / closure)
}

func Int(i int64) V     { return V{K: KInt, I: i} }
func Float(f float64) V { return V{K: KFloat, F: f} }
func Bool(b bool) V     { return V{K: KBool, B: b} }
func Null() V           { return V{K: KNull} }
func Str(s string) V    { return V{K: KString, S: s} }

func (v V) Scalar() bool { return v.K <= KString }
func (v V) Num() bool    { return v.K == KInt || v.K == KFloat }

// Render uses the same notation as Render(data.Value).
func (v V) Render() string {
	switch v.K {
	case KInt:
		return "i:" + strconv.FormatInt(v.I, 10)
	case KFloat:
		return "f:" + FloatText(v.F)
	case KBool:
		if v.B {
			return "b:1"
		}
		return "b:0"
	case KNull:
		return "n"
	case KString:
		return "s:" + strconv.Quote(v.S)
	}
	return v.Txt
}

func (v V) float() float64 {
	if v.K == KInt {
		return float64(v.I)
	}
	return v.F
}

// NumericLooking is deliberately broad: everything some dialect might compare numerically.
func NumericLooking(s string) bool {
	t := strings.TrimSpace(s)
	if t == "" {
		return false
	}
	if _, err := strconv.ParseFloat(t, 64); err == nil {
		return true
	}
	// leading-numeric strings ("1abc") are treated as numeric by some dialects
	c := t[0]
	if c == '+' || c == '-' || c == '.' {
		if len(t) > 1 {
			c = t[1]
		}
	}
	return c >= '0' && c <= '9'
}

// Truth returns the truthiness the statement and docs/operators.md leave no doubt about
// ("hello" && 42 is true, "" || 0 is false, booleans, null) and ok=false where it is contested
// between dialects ("0", "0.0", " ", negative numbers are settled only by the coherence clause,
// NAN, arrays, objects).
func Truth(v V) (t bool, ok bool) {
	switch v.K {
	case KBool:
		return v.B, true
	case KNull:
		return false, true
	case KInt:
		return v.I != 0, v.I >= 0
	case KFloat:
		if math.IsNaN(v.F) {
			return true, false
		}
		return v.F != 0, v.F >= 0
	case KString:
		if v.S == "" {
			return false, true
		}
		if NumericLooking(v.S) || strings.TrimSpace(v.S) == "" {
			return true, false
		}
		return true, true
	}
	return true, false
}

// Expect is the set of outcomes the property statement allows for one evaluation.
type Expect struct {
	Open   bool     // nothing fixed beyond "value or catchable error"
	Accept []string // acceptable renderings of a value
	Err    bool     // a catchable error is acceptable
	Why    string   // the sentence / rule that fixes it
}

func open() Expect                 { return Expect{Open: true} }
func exact(v V, why string) Expect { return Expect{Accept: []string{v.Render()}, Why: why} }
func errOnly(why string) Expect    { return Expect{Err: true, Why: why} }
func anyOf(why string, vs ...V) Expect {
	e := Expect{Why: why}
	seen := map[string]bool{}
	for _, v := range vs {
		r := v.Render()
		if !seen[r] {
			seen[r] = true
			e.Accept = append(e.Accept, r)
		}
	}
	return e
}

// Allows reports whether an observed outcome ("E" = catchable error, otherwise a rendering)
// is inside the expectation.
func (e Expect) Allows(out string) bool {
	if e.Open {
		return true
	}
	if out == "E" {
		return e.Err
	}
	for _, a := range e.Accept {
		if a == out {
			return true
		}
	}
	return false
}

func (e Expect) String() string {
	if e.Open {
		return "(open)"
	}
	s := strings.Join(e.Accept, " | ")
	if e.Err {
		if s != "" {
			s += " | "
		}
		s += "catchable error"
	}
	return s
}

var (
	bigMin = big.NewInt(math.MinInt64)
	bigMax = big.NewInt(math.MaxInt64)
)

func fits(b *big.Int) bool { return b.Cmp(bigMin) >= 0 && b.Cmp(bigMax) <= 0 }

func wrap(b *big.Int) int64 {
	m := new(big.Int).And(b, new(big.Int).SetUint64(math.MaxUint64)) // b mod 2^64 (And on negative big.Int is two's complement)
	return int64(m.Uint64())
}

// intExact reports whether the int converts to float64 without loss.
func intExact(i int64) bool { return int64(float64(i)) == i && i != math.MaxInt64 }

func cmpNum(a, b V) (lt, eq, gt, ok bool) {
	if a.K == KInt && b.K == KInt {
		return a.I < b.I, a.I == b.I, a.I > b.I, true
	}
	if a.K == KInt && !intExact(a.I) || b.K == KInt && !intExact(b.I) {
		return false, false, false, false
	}
	x, y := a.float(), b.float()
	return x < y, x == y, x > y, true
}

func b2i(b bool) int64 {
	if b {
		return 1
	}
	return 0
}

// BinRef gives what the statement fixes for "a op b".
func BinRef(op string, a, b V) Expect {
	numeric := a.Num() && b.Num()
	bothInt := a.K == KInt && b.K == KInt
	bothStr := a.K == KString && b.K == KString
	switch op {
	case "+", "-", "*":
		if bothInt {
			x, y := big.NewInt(a.I), big.NewInt(b.I)
			r := new(big.Int)
			var f float64
			switch op {
			case "+":
				r.Add(x, y)
				f = float64(a.I) + float64(b.I)
			case "-":
				r.Sub(x, y)
				f = float64(a.I) - float64(b.I)
			case "*":
				r.Mul(x, y)
				f = float64(a.I) * float64(b.I)
			}
			if fits(r) {
				return exact(Int(r.Int64()), "64-bit integer arithmetic")
			}
			return anyOf("integer overflow: wrap or promotion to float", Int(wrap(r)), Float(f))
		}
		if numeric {
			x, y := a.float(), b.float()
			var f float64
			switch op {
			case "+":
				f = x + y
			case "-":
				f = x - y
			case "*":
				f = x * y
			}
			if a.K == KInt && !intExact(a.I) || b.K == KInt && !intExact(b.I) {
				return open()
			}
			return exact(Float(f), "int/float arithmetic is IEEE double arithmetic")
		}
		if op == "+" && bothStr && !NumericLooking(a.S) && !NumericLooking(b.S) {
			return exact(Str(a.S+b.S), "docs/operators.md: + joins strings")
		}
		return open()
	case "/":
		if !numeric {
			return open()
		}
		if b.float() == 0 {
			return errOnly("'/' by zero raises a catchable error")
		}
		if a.K == KInt && !intExact(a.I) || b.K == KInt && !intExact(b.I) {
			return Expect{Open: true}
		}
		return exact(Float(a.float()/b.float()), "'/' always float")
	case "%":
		if bothInt {
			if b.I == 0 {
				return errOnly("'%' by zero raises a catchable error")
			}
			if b.I == -1 {
				return exact(Int(0), "integer remainder")
			}
			r := a.I % b.I
			if r != 0 && (r < 0) != (b.I < 0) {
				// the statement does not say whether the remainder takes the sign of the dividend
				// (truncated, PHP/Go/C) or of the divisor (floored)
				return anyOf("integer remainder, truncated or floored", Int(r), Int(r+b.I))
			}
			return exact(Int(r), "integer remainder")
		}
		if numeric {
			if b.float() == 0 {
				return errOnly("'%' by zero raises a catchable error")
			}
		}
		return open()
	case "**":
		if bothInt {
			if b.I >= 0 {
				if b.I > 4096 && a.I != 0 && a.I != 1 && a.I != -1 {
					return open()
				}
				e := b.I
				if a.I == 1 || a.I == 0 && e > 0 {
					e = 1
				}
				if a.I == -1 {
					e = b.I & 1
					if b.I != 0 && e == 0 {
						e = 2
					}
				}
				r := new(big.Int).Exp(big.NewInt(a.I), big.NewInt(e), nil)
				if fits(r) {
					return exact(Int(r.Int64()), "int ** non-negative int is an integer when representable")
				}
				return anyOf("integer overflow: wrap or promotion to float", Int(wrap(r)), Float(math.Pow(float64(a.I), float64(b.I))))
			}
			if a.I == 0 {
				return open()
			}
			if !intExact(a.I) || !intExact(b.I) {
				return open()
			}
			f := math.Pow(float64(a.I), float64(b.I))
			if f == math.Trunc(f) && math.Abs(f) < 1<<53 {
				return anyOf("negative exponent: float, or int when the result is integral", Float(f), Int(int64(f)))
			}
			return exact(Float(f), "negative exponent gives a float")
		}
		if numeric {
			if a.K == KInt && !intExact(a.I) || b.K == KInt && !intExact(b.I) {
				return open()
			}
			x, y := a.float(), b.float()
			if math.IsNaN(x) || math.IsNaN(y) || x == 0 && y < 0 {
				return open()
			}
			return exact(Float(math.Pow(x, y)), "float power")
		}
		return open()
	case "&", "|", "^":
		if bothInt {
			switch op {
			case "&":
				return exact(Int(a.I&b.I), "64-bit bitwise")
			case "|":
				return exact(Int(a.I|b.I), "64-bit bitwise")
			}
			return exact(Int(a.I^b.I), "64-bit bitwise")
		}
		return open()
	case "<<", ">>":
		if bothInt {
			if b.I < 0 {
				return open()
			}
			if b.I >= 64 {
				return open() // shifting out all 64 bits: not fixed by the statement
			}
			if op == "<<" {
				return exact(Int(a.I<<uint(b.I)), "64-bit shift")
			}
			return exact(Int(a.I>>uint(b.I)), "64-bit arithmetic shift")
		}
		return open()
	case "<", "<=", ">", ">=", "<=>":
		var lt, eq, gt bool
		var alt *[3]bool
		switch {
		case numeric:
			if math.IsNaN(a.float()) || math.IsNaN(b.float()) {
				if op == "<=>" {
					return open()
				}
				return exact(Bool(false), "comparisons with NAN are false")
			}
			var ok bool
			lt, eq, gt, ok = cmpNum(a, b)
			if !ok {
				return open()
			}
		case bothStr:
			lt, eq, gt = a.S < b.S, a.S == b.S, a.S > b.S
			if NumericLooking(a.S) && NumericLooking(b.S) {
				x, e1 := strconv.ParseFloat(strings.TrimSpace(a.S), 64)
				y, e2 := strconv.ParseFloat(strings.TrimSpace(b.S), 64)
				if e1 != nil || e2 != nil {
					return open()
				}
				alt = &[3]bool{x < y, x == y, x > y}
			}
		default:
			return open()
		}
		res := func(lt, eq, gt bool) V {
			switch op {
			case "<":
				return Bool(lt)
			case "<=":
				return Bool(lt || eq)
			case ">":
				return Bool(gt)
			case ">=":
				return Bool(gt || eq)
			}
			switch {
			case lt:
				return Int(-1)
			case gt:
				return Int(1)
			}
			return Int(0)
		}
		if alt != nil {
			return anyOf("numeric-looking strings: byte order or numeric order", res(lt, eq, gt), res(alt[0], alt[1], alt[2]))
		}
		if bothStr {
			return exact(res(lt, eq, gt), "docs/operators.md: strings compare in dictionary order")
		}
		return exact(res(lt, eq, gt), "numeric comparison")
	case "==", "!=":
		neg := op == "!="
		switch {
		case numeric:
			if math.IsNaN(a.float()) || math.IsNaN(b.float()) {
				return exact(Bool(neg), "NAN equals nothing")
			}
			_, eq, _, ok := cmpNum(a, b)
			if !ok {
				return open()
			}
			return exact(Bool(eq != neg), "numeric equality")
		case bothStr:
			eq := a.S == b.S
			if NumericLooking(a.S) && NumericLooking(b.S) {
				x, e1 := strconv.ParseFloat(strings.TrimSpace(a.S), 64)
				y, e2 := strconv.ParseFloat(strings.TrimSpace(b.S), 64)
				if e1 != nil || e2 != nil {
					return open()
				}
				return anyOf("numeric-looking strings: byte or numeric equality", Bool(eq != neg), Bool((x == y) != neg))
			}
			return exact(Bool(eq != neg), "string equality")
		case a.K == KBool && b.K == KBool:
			return exact(Bool((a.B == b.B) != neg), "bool equality")
		case a.K == KNull && b.K == KNull:
			return exact(Bool(!neg), "null equals null")
		}
		return open()
	case "===", "!==":
		neg := op == "!=="
		if !a.Scalar() || !b.Scalar() {
			return open()
		}
		eq := false
		if a.K == b.K {
			switch a.K {
			case KInt:
				eq = a.I == b.I
			case KFloat:
				eq = a.F == b.F
			case KBool:
				eq = a.B == b.B
			case KNull:
				eq = true
			case KString:
				eq = a.S == b.S
			}
		}
		return exact(Bool(eq != neg), "identity: same type and same value")
	case "&&":
		ta, oka := Truth(a)
		if !oka {
			return open()
		}
		if !ta {
			return exact(Bool(false), "false && x is false")
		}
		tb, okb := Truth(b)
		if !okb {
			return open()
		}
		return exact(Bool(tb), "logical and")
	case "||":
		ta, oka := Truth(a)
		if !oka {
			return open()
		}
		if ta {
			return exact(Bool(true), "true || x is true")
		}
		tb, okb := Truth(b)
		if !okb {
			return open()
		}
		return exact(Bool(tb), "logical or")
	case ".":
		txt := func(v V) (string, bool) {
			switch v.K {
			case KString:
				return v.S, true
			case KInt:
				return strconv.FormatInt(v.I, 10), true
			}
			return "", false
		}
		x, ok1 := txt(a)
		y, ok2 := txt(b)
		if ok1 && ok2 {
			return exact(Str(x+y), "concatenation of strings / decimal integers")
		}
		return open()
	}
	return open()
}

// UnRef gives what the statement fixes for a prefix operator.
func UnRef(op string, a V) Expect {
	switch op {
	case "-":
		switch a.K {
		case KInt:
			if a.I == math.MinInt64 {
				return anyOf("integer overflow: wrap or promotion to float", Int(a.I), Float(-float64(a.I)))
			}
			return exact(Int(-a.I), "negation of an int is an int")
		case KFloat:
			if math.IsNaN(a.F) {
				return open()
			}
			return exact(Float(-a.F), "negation of a float")
		}
	case "+":
		switch a.K {
		case KInt, KFloat:
			if a.K == KFloat && math.IsNaN(a.F) {
				return open()
			}
			return exact(a, "unary plus is the identity on numbers")
		}
	case "~":
		if a.K == KInt {
			return exact(Int(^a.I), "64-bit bitwise not")
		}
	case "!":
		if t, ok := Truth(a); ok {
			return exact(Bool(!t), "logical not")
		}
	}
	return open()
}
