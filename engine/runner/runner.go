// Package runner executes origami source in-process on a fresh parser + VM and reduces the
// outcome to comparable fields.
package runner

import (
	"fmt"
	"os"
	"path/filepath"
	"regexp"
	"runtime/debug"
	"strings"
	"sync/atomic"

	"github.com/php-any/origami/data"
	"github.com/php-any/origami/node"
	"github.com/php-any/origami/parser"
	"github.com/php-any/origami/runtime"
	"github.com/php-any/origami/std"
	"github.com/php-any/origami/std/php"
	"github.com/php-any/origami/utils/vshim"
)

type Mode int

const (
	Plain    Mode = iota // .zy source through ParseString
	Template             // <?php template mode through ParseFile on a .php file
)

type Opts struct {
	Mode      Mode
	Fuel      int64 // 0 = default 5e6
	ParseOnly bool
	NoStd     bool             // do not load std/php libraries (parser-only runs)
	Setup     func(vm data.VM) // extra registrations
	FileName  string           // reported source name (Plain mode); default "t.zy"
	File      string           // Template mode: parse this existing file instead of writing src to a scratch file
	// CaptureStdout also captures what the run prints straight to os.Stdout (var_dump & co. use
	// fmt.Print, not data.WriteOutput) into Result.Stdout.
	CaptureStdout bool
}

type Result struct {
	Out          string `json:"out"`
	Stdout       string `json:"stdout,omitempty"` // direct os.Stdout writes (only with Opts.CaptureStdout)
	Kind         string `json:"kind"`             // "ok" | "parse" | "throw" | "exit" | "control" | "panic" | "fuel"
	Class        string `json:"class,omitempty"`  // throwable class / control type
	Msg          string `json:"msg,omitempty"`
	Line         int    `json:"line,omitempty"` // 1-based line of the control's From, 0 if unknown
	Col          int    `json:"col,omitempty"`
	HasFrom      bool   `json:"has_from,omitempty"`
	ExitCode     int    `json:"exit,omitempty"`
	PanicKey     string `json:"panic_key,omitempty"` // <class>@<first origami frame>
	PanicMsg     string `json:"panic_msg,omitempty"`
	FuelUsed     int64  `json:"fuel_used,omitempty"`
	Accepted     bool   `json:"accepted,omitempty"` // parser returned a program
	PanicInParse bool   `json:"panic_in_parse,omitempty"`
}

var tmpDir string
var fileSeq atomic.Int64

func scratch() string {
	if tmpDir == "" {
		base := "/dev/shm"
		if _, err := os.Stat(base); err != nil {
			base = os.TempDir()
		}
		d, err := os.MkdirTemp(base, "verif-run-")
		if err != nil {
			panic(err)
		}
		tmpDir = d
	}
	return tmpDir
}

// Cleanup removes the scratch directory.
func Cleanup() {
	if capFile != nil {
		capFile.Close()
		capFile = nil
	}
	if tmpDir != "" {
		os.RemoveAll(tmpDir)
		tmpDir = ""
	}
}

var reNum = regexp.MustCompile(`0x[0-9a-fA-F]+|\b\d+\b`)
var reQuoted = regexp.MustCompile("\"[^\"]*\"|`[^`]*`|'[^']*'")

// PanicClass strips numbers, addresses and quoted literals from a panic message.
func PanicClass(msg string) string {
	if i := strings.Index(msg, "\n"); i >= 0 {
		msg = msg[:i]
	}
	msg = reQuoted.ReplaceAllString(msg, "Q")
	msg = reNum.ReplaceAllString(msg, "N")
	msg = strings.TrimSpace(msg)
	if len(msg) > 120 {
		msg = msg[:120]
	}
	return strings.ReplaceAll(msg, " ", "-")
}

const modPrefix = "github.com/php-any/origami/"

// FirstFrame returns the first origami (non-shim) function in a debug.Stack() dump.
func FirstFrame(stack string) string {
	lines := strings.Split(stack, "\n")
	seenPanic := false
	for _, l := range lines {
		if strings.HasPrefix(l, "panic(") || strings.HasPrefix(l, "runtime.gopanic") || strings.HasPrefix(l, "runtime.panic") || strings.HasPrefix(l, "runtime.sigpanic") || strings.HasPrefix(l, "runtime.goPanic") {
			seenPanic = true
			continue
		}
		if !seenPanic || strings.HasPrefix(l, "\t") {
			continue
		}
		if strings.HasPrefix(l, modPrefix) && !strings.HasPrefix(l, modPrefix+"utils/vshim.") {
			f := strings.TrimPrefix(l, modPrefix)
			if i := strings.LastIndex(f, "("); i > 0 {
				f = f[:i]
			}
			// closures: keep the enclosing function
			f = regexp.MustCompile(`\.func\d+(\.\d+)*$`).ReplaceAllString(f, "")
			return f
		}
	}
	return "?"
}

// FatalFrame extracts "<reason>@<frame>" from a dead worker's stderr (stack overflow etc.).
func FatalFrame(stderr string) string {
	reason := "fatal"
	lines := strings.Split(stderr, "\n")
	for _, l := range lines {
		if strings.HasPrefix(l, "fatal error: ") {
			reason = "fatal:" + strings.ReplaceAll(strings.TrimPrefix(l, "fatal error: "), " ", "-")
			break
		}
		if strings.HasPrefix(l, "panic: ") {
			reason = "panic:" + PanicClass(strings.TrimPrefix(l, "panic: "))
			break
		}
	}
	// most frequent origami frame among the first frames (recursion cycle representative)
	count := map[string]int{}
	first := ""
	for _, l := range lines {
		if strings.HasPrefix(l, modPrefix) && !strings.HasPrefix(l, modPrefix+"utils/vshim.") {
			f := strings.TrimPrefix(l, modPrefix)
			if i := strings.LastIndex(f, "("); i > 0 {
				f = f[:i]
			}
			if first == "" {
				first = f
			}
			count[f]++
		}
	}
	if first == "" {
		first = "?"
	}
	return reason + "@" + first
}

// RunCompiled executes an ahead-of-time compiled program (the constructor generated by
// `origami compile`) on a fresh VM the way the generated main does: RegisterCompiledFile +
// RunCompiledFile. The result has the same shape as Run's.
func RunCompiled(file string, fn func() (data.GetValue, []data.Variable), o Opts) (res Result) {
	if o.Fuel == 0 {
		o.Fuel = 5_000_000
	}
	var sb strings.Builder
	savedOut := data.WriteOutput
	data.WriteOutput = func(s string) { sb.WriteString(s) }
	vshim.CatchExit = true
	defer func() {
		r := recover()
		res.FuelUsed = vshim.FuelUsed()
		vshim.SetFuel(0)
		vshim.CatchExit = false
		if data.FlushAllBuffersFn != nil {
			func() {
				defer func() { recover() }()
				data.FlushAllBuffersFn()
			}()
		}
		data.WriteOutput = savedOut
		res.Out = sb.String()
		if r != nil {
			switch x := r.(type) {
			case vshim.FuelExhausted:
				res.Kind = "fuel"
			case vshim.ExitCalled:
				res.Kind = "exit"
				res.ExitCode = x.Code
			default:
				st := string(debug.Stack())
				res.Kind = "panic"
				res.PanicMsg = fmt.Sprint(r)
				if len(res.PanicMsg) > 300 {
					res.PanicMsg = res.PanicMsg[:300]
				}
				res.PanicKey = "panic:" + PanicClass(res.PanicMsg) + "@" + FirstFrame(st)
			}
		}
	}()
	p := parser.NewParser()
	vm := runtime.NewVM(p)
	if !o.NoStd {
		std.Load(vm)
		php.Load(vm)
	}
	if o.Setup != nil {
		o.Setup(vm)
	}
	var uncaught data.Control
	vm.SetThrowControl(func(acl data.Control) {
		if uncaught == nil {
			uncaught = acl
		}
	})
	vshim.SetFuel(o.Fuel)
	vm.RegisterCompiledFile(file, fn)
	res.Accepted = true
	_, acl := vm.RunCompiledFile(file)
	if acl == nil {
		acl = uncaught
	}
	if acl != nil {
		fillCtl(&res, acl)
		return
	}
	res.Kind = "ok"
	return
}

// Session is what RunKeep leaves behind: the VM, parser and top-level context of the run, so a
// harness can pull closures / objects out of script variables and drive them from Go.
type Session struct {
	P     *parser.Parser
	VM    data.VM
	Ctx   data.Context
	out   *strings.Builder
	saved data.OutputWriter
}

// Var returns the value of a top-level script variable.
func (s *Session) Var(name string) data.Value {
	for _, v := range s.P.GetVariables() {
		if v != nil && v.GetName() == name {
			val, _ := s.Ctx.GetIndexValue(v.GetIndex())
			return val
		}
	}
	return nil
}

// Out returns (and clears) the output captured since the last call.
func (s *Session) Out() string { o := s.out.String(); s.out.Reset(); return o }

// Close restores the output writer.
func (s *Session) Close() { data.WriteOutput = s.saved }

// Guard runs fn with panics reduced like Run does.
func Guard(fn func()) (res Result) {
	defer func() {
		if r := recover(); r != nil {
			switch x := r.(type) {
			case vshim.FuelExhausted:
				res.Kind = "fuel"
			case vshim.ExitCalled:
				res.Kind = "exit"
				res.ExitCode = x.Code
			case data.Control:
				res.Kind = "control"
				fillCtl(&res, x)
			default:
				st := string(debug.Stack())
				res.Kind = "panic"
				res.PanicMsg = fmt.Sprint(r)
				if len(res.PanicMsg) > 300 {
					res.PanicMsg = res.PanicMsg[:300]
				}
				res.PanicKey = "panic:" + PanicClass(res.PanicMsg) + "@" + FirstFrame(st)
			}
		}
	}()
	fn()
	res.Kind = "ok"
	return
}

// RunKeep is Run in Plain mode that keeps the session alive (output stays captured in the
// session until Close).
func RunKeep(src string, o Opts) (res Result, s *Session) {
	s = &Session{out: &strings.Builder{}, saved: data.WriteOutput}
	data.WriteOutput = func(x string) { s.out.WriteString(x) }
	res = Guard(func() {
		s.P = parser.NewParser()
		s.VM = runtime.NewVM(s.P)
		if !o.NoStd {
			std.Load(s.VM)
			php.Load(s.VM)
		}
		if o.Setup != nil {
			o.Setup(s.VM)
		}
		name := o.FileName
		if name == "" {
			name = "t.zy"
		}
		prog, acl := s.P.ParseString(src, name)
		if acl != nil {
			panic(acl)
		}
		s.Ctx = s.VM.CreateContext(s.P.GetVariables())
		if rv, ok := s.VM.(*runtime.VM); ok {
			rv.RegisterGlobalContext(s.P.GetVariables(), s.Ctx)
		}
		var uncaught data.Control
		s.VM.SetThrowControl(func(acl data.Control) {
			if uncaught == nil {
				uncaught = acl
			}
		})
		_, acl = prog.GetValue(s.Ctx)
		if acl == nil {
			acl = uncaught
		}
		if acl != nil {
			panic(acl)
		}
	})
	res.Out = s.out.String()
	s.out.Reset()
	return
}

var capFile *os.File

// captureStdout points os.Stdout at a scratch file; the returned func restores it and returns what
// was written.
func captureStdout() func() string {
	if capFile == nil {
		f, err := os.CreateTemp(scratch(), "stdout-")
		if err != nil {
			return func() string { return "" }
		}
		capFile = f
	}
	capFile.Truncate(0)
	capFile.Seek(0, 0)
	saved := os.Stdout
	os.Stdout = capFile
	return func() string {
		os.Stdout = saved
		n, _ := capFile.Seek(0, 1)
		if n <= 0 {
			return ""
		}
		b := make([]byte, n)
		capFile.ReadAt(b, 0)
		return string(b)
	}
}

// Run executes src.
func Run(src string, o Opts) (res Result) {
	if o.Fuel == 0 {
		o.Fuel = 5_000_000
	}
	if o.CaptureStdout {
		restore := captureStdout()
		defer func() { res.Stdout = restore() }()
	}
	var sb strings.Builder
	savedOut := data.WriteOutput
	data.WriteOutput = func(s string) { sb.WriteString(s) }
	vshim.CatchExit = true
	parsing := true
	defer func() {
		r := recover()
		res.FuelUsed = vshim.FuelUsed()
		vshim.SetFuel(0)
		vshim.CatchExit = false
		if data.FlushAllBuffersFn != nil {
			func() {
				defer func() { recover() }()
				data.FlushAllBuffersFn()
			}()
		}
		data.WriteOutput = savedOut
		res.Out = sb.String()
		if r != nil {
			switch x := r.(type) {
			case vshim.FuelExhausted:
				res.Kind = "fuel"
			case vshim.ExitCalled:
				res.Kind = "exit"
				res.ExitCode = x.Code
			default:
				st := string(debug.Stack())
				res.Kind = "panic"
				res.PanicMsg = fmt.Sprint(r)
				if len(res.PanicMsg) > 300 {
					res.PanicMsg = res.PanicMsg[:300]
				}
				res.PanicKey = "panic:" + PanicClass(res.PanicMsg) + "@" + FirstFrame(st)
				res.PanicInParse = parsing
			}
		}
	}()
	p := parser.NewParser()
	vm := runtime.NewVM(p)
	if !o.NoStd {
		std.Load(vm)
		php.Load(vm)
	}
	if o.Setup != nil {
		o.Setup(vm)
	}
	var uncaught data.Control
	vm.SetThrowControl(func(acl data.Control) {
		if uncaught == nil {
			uncaught = acl
		}
	})
	var prog *node.Program
	var acl data.Control
	vshim.SetFuel(o.Fuel)
	if o.Mode == Template && o.File != "" {
		prog, acl = p.ParseFile(o.File)
	} else if o.Mode == Template {
		fn := filepath.Join(scratch(), fmt.Sprintf("t%d.php", fileSeq.Add(1)))
		if err := os.WriteFile(fn, []byte(src), 0o644); err != nil {
			panic(err)
		}
		defer os.Remove(fn)
		prog, acl = p.ParseFile(fn)
	} else {
		name := o.FileName
		if name == "" {
			name = "t.zy"
		}
		prog, acl = p.ParseString(src, name)
	}
	if acl != nil {
		res.Kind = "parse"
		fillCtl(&res, acl)
		return
	}
	res.Accepted = true
	parsing = false
	if o.ParseOnly || prog == nil {
		res.Kind = "ok"
		return
	}
	ctx := vm.CreateContext(p.GetVariables())
	// as VM.LoadAndRun does: top-level variables are the globals that `global $x` binds to
	if rv, ok := vm.(*runtime.VM); ok {
		rv.RegisterGlobalContext(p.GetVariables(), ctx)
	}
	_, acl = prog.GetValue(ctx)
	if acl == nil {
		acl = uncaught
	}
	if acl != nil {
		fillCtl(&res, acl)
		return
	}
	res.Kind = "ok"
	return
}

func fillCtl(res *Result, acl data.Control) {
	defer func() {
		if r := recover(); r != nil {
			res.Msg = fmt.Sprintf("<describing control panicked: %v>", r)
		}
	}()
	if res.Kind == "" {
		res.Kind = "control"
	}
	var from data.From
	if tv, ok := acl.(*data.ThrowValue); ok {
		if res.Kind == "control" {
			res.Kind = "throw"
		}
		res.Class = tv.GetName()
		if tv.Error != nil {
			from = tv.Error.From
			res.Msg = tv.Error.Error()
		}
	} else {
		res.Class = fmt.Sprintf("%T", acl)
		if gf, ok := acl.(node.GetFrom); ok {
			from = gf.GetFrom()
		}
		res.Msg = acl.AsString()
	}
	if len(res.Msg) > 300 {
		res.Msg = res.Msg[:300]
	}
	if from != nil {
		res.HasFrom = true
		l, c := from.GetStartPosition()
		res.Line, res.Col = l+1, c+1
	}
}
