package progen

import (
	"fmt"
)

// Rename rewrites every variable name, function name and string literal in place.
// Any of the three maps may be nil. p must be a tree (no shared nodes): use p.Copy() first when
// the program comes straight from a generator.
func Rename(p *Program, vr, fn, str func(string) string) {
	id := func(s string) string { return s }
	if vr == nil {
		vr = id
	}
	if fn == nil {
		fn = id
	}
	if str == nil {
		str = id
	}
	var ex func(e *Expr)
	ex = func(e *Expr) {
		if e == nil {
			return
		}
		switch e.K {
		case EVar:
			e.S = vr(e.S)
		case ECall:
			e.S = fn(e.S)
		case EStr:
			e.S = str(e.S)
		}
		for i := range e.Keys {
			e.Keys[i] = str(e.Keys[i])
		}
		for _, a := range e.A {
			ex(a)
		}
		for _, arm := range e.Arms {
			for _, c := range arm.Conds {
				ex(c)
			}
			ex(arm.Val)
		}
	}
	var st func(ss []*Stmt)
	st = func(ss []*Stmt) {
		for _, s := range ss {
			if s.Var != "" {
				s.Var = vr(s.Var)
			}
			if s.Key != "" {
				s.Key = vr(s.Key)
			}
			if s.BoundVar != "" {
				s.BoundVar = vr(s.BoundVar)
			}
			ex(s.E)
			ex(s.Init)
			ex(s.Subj)
			for _, a := range s.Args {
				ex(a)
			}
			st(s.Then)
			for _, e := range s.Elifs {
				ex(e.Cond)
				st(e.Body)
			}
			st(s.Else)
			st(s.Body)
			for _, c := range s.Cases {
				ex(c.Val)
				st(c.Body)
			}
		}
	}
	for _, f := range p.Funcs {
		f.Name = fn(f.Name)
		for i := range f.Params {
			f.Params[i].Name = vr(f.Params[i].Name)
			ex(f.Params[i].Def)
		}
		st(f.Body)
	}
	st(p.Main)
}

// Canonical returns a copy of p with variables renamed $a,$b,.. (per first appearance in print
// order, one namespace for the whole program so that equal names stay equal), functions f,g,..
// and string markers other than "\n" renamed A,B,.. — the α-normal form used in finding keys.
func Canonical(p *Program) *Program {
	q := p.Clone()
	vars, fns, strs := map[string]string{}, map[string]string{}, map[string]string{}
	name := func(m map[string]string, pool string, s string) string {
		if v, ok := m[s]; ok {
			return v
		}
		i := len(m)
		v := string(pool[i%len(pool)])
		if i >= len(pool) {
			v = fmt.Sprintf("%c%d", pool[i%len(pool)], i/len(pool))
		}
		m[s] = v
		return v
	}
	Rename(q,
		func(s string) string { return name(vars, "abcdeghijklmnopqrstuvwxyz", s) },
		func(s string) string { return name(fns, "fgh", s) },
		func(s string) string {
			if s == "\n" || s == "" {
				return s
			}
			return name(strs, "ABCDEFGHIJKLMNOPQRSTUVWXYZ", s)
		})
	return q
}

// Concretise applies a seed: it only chooses identifier spellings and marker letters, never the
// shape of the program (seed 0 = the generator's own names).
func Concretise(p *Program, seed int64) {
	if seed == 0 {
		return
	}
	// generators share sub-expressions between positions: make p a tree before renaming in place
	*p = *p.Copy()
	suffix := []string{"", "x", "_1", "Zq", "9"}[int(seed%5+5)%5]
	rot := int((seed/5)%26+26) % 26
	Rename(p,
		func(s string) string { return s + suffix },
		func(s string) string { return s + suffix },
		func(s string) string {
			b := []byte(s)
			for i, c := range b {
				switch {
				case c >= 'a' && c <= 'z':
					b[i] = 'a' + (c-'a'+byte(rot))%26
				case c >= 'A' && c <= 'Z':
					b[i] = 'A' + (c-'A'+byte(rot))%26
				}
			}
			return string(b)
		})
}
