package progen

import (
	"testing"
)

func TestFamiliesInSubset(t *testing.T) {
	for _, b := range []Bounds{Quick()} {
		n := map[string]int{}
		amb := 0
		All(b, func(c Item) bool {
			n[c.Family]++
			exp, err := Expected(c.P)
			if err != nil {
				t.Errorf("%s: %v\n%s", c.ID, err, c.P.Source(false))
				return n[c.Family] < 100000
			}
			if len(exp) > 1 {
				amb++
			}
			return true
		})
		t.Logf("counts %v ambiguous %d", n, amb)
	}
}

func TestSeedsStayInSubset(t *testing.T) {
	for _, seed := range []int64{7, 13} {
		b := Quick()
		b.Seed = seed
		b.F4Len = 1
		ref := Quick()
		ref.F4Len = 1
		var want []string
		All(ref, func(c Item) bool {
			e, _ := Expected(c.P)
			want = append(want, Canonical(c.P).Text()+"|"+Canonical(&Program{Main: []*Stmt{EchoS(e...)}}).Text())
			return true
		})
		i := 0
		All(b, func(c Item) bool {
			if _, err := Expected(c.P); err != nil {
				t.Fatalf("seed %d %s: %v", seed, c.ID, err)
			}
			if got := Canonical(c.P).Text(); got+"|" != want[i][:len(got)+1] {
				t.Fatalf("seed %d %s: shape changed\n%s\n%s", seed, c.ID, got, want[i])
			}
			i++
			return true
		})
	}
}

func TestReduceToOneMinimal(t *testing.T) {
	// property: "prints an A after a continue 2": the reducer must strip everything else
	p := &Program{Main: []*Stmt{Assign("t", Int(1)),
		Loop(LWhile, "c1", 2, EchoS("x"), Loop(LDoWhile, "c2", 2, EchoS("p"), If(Eq(Var("c2"), Int(1)), Continue(2)), EchoS("A")), EchoS("y")),
		EchoS("\n")}}
	keep := func(q *Program) bool {
		if _, err := Expected(q); err != nil {
			return false
		}
		has := false
		for _, s := range Signature(q) {
			if s == "..>for>continue2" || s == "..>dowhile>continue2" {
				has = true
			}
		}
		return has
	}
	r, n := Reduce(p, keep, 0)
	if got := Canonical(r).Text(); got != `for ($a = 1; $a <= 1; $a++) { for ($b = 1; $b <= 1; $b++) { continue 2; } }` {
		t.Fatalf("reduced to %q after %d tests", got, n)
	}
}
