package progen

import (
	"testing"
)

func TestFamiliesInSubset(t *testing.T) {
	for _, b := range []Bounds{Quick()} {
		n := map[string]int{}
		amb := 0
		All(b, func(c Item) bool {
			n[c.Family]++
			exp, err := Expected(c.P)
			if err != nil {
				t.Errorf("%s: %v\n%s", c.ID, err, c.P.Source(false))
				return n[c.Family] < 100000
			}
			if len(exp) > 1 {
				amb++
			}
			return true
		})
		t.Logf("counts %v ambiguous %d", n, amb)
	}
}
