// Package progen is the small-scope program generator shared by the program-quantified checks
// (C02 control flow; later C16 compile-vs-interpret and C20 determinism reuse the families).
//
// It contains
//   - the generator's own AST of a terminating control-flow core of the language (this file),
//   - a printer to origami source in plain `.zy` mode and in `<?php` mode (print.go),
//   - `refsem`, an independent reference interpreter over that AST (refsem.go) which never looks
//     at origami's lexer, parser or nodes,
//   - a generic delta-reducer over the AST (reduce.go),
//   - the program families F1..F4 as deterministic streams (families.go).
//
// Termination by construction: the only loop form is Stmt{K:"loop"}, a counted loop whose
// counter runs 1..N (or over a finite array literal); generators never assign a loop counter
// inside its body; recursion is always guarded by a decreasing depth parameter. refsem
// additionally carries a step budget, so reducer candidates that lost their guard are rejected.
package progen

import "encoding/json"

// Expr kinds.
const (
	EInt   = "int"   // I
	EStr   = "str"   // S
	EBool  = "bool"  // B
	EVar   = "var"   // S = name (without $)
	EBin   = "bin"   // S = operator, A[0], A[1]
	ENot   = "not"   // A[0]
	ECall  = "call"  // S = function name, A = args
	EMatch = "match" // A[0] = subject, Arms
	ENull  = "null"  // the null literal
	EArr   = "arr"   // A = elements, Keys optional string keys (same length) for "k" => v
)

type Expr struct {
	K    string   `json:"k"`
	I    int      `json:"i,omitempty"`
	S    string   `json:"s,omitempty"`
	B    bool     `json:"b,omitempty"`
	A    []*Expr  `json:"a,omitempty"`
	Keys []string `json:"keys,omitempty"`
	Arms []Arm    `json:"arms,omitempty"`
}

// Arm of a match expression; no Conds = default arm.
type Arm struct {
	Conds []*Expr `json:"c,omitempty"`
	Val   *Expr   `json:"v"`
}

// Stmt kinds.
const (
	SEcho     = "echo"     // Args
	SAssign   = "assign"   // Var = E
	SOpAssign = "opassign" // Var Op E      Op in += -= *=
	SIncDec   = "incdec"   // Op in post++ pre++ post-- pre--   on Var
	SExpr     = "expr"     // E; (call / match as a statement)
	SStatic   = "static"   // static $Var = E;
	SIf       = "if"       // E, Then, Elifs, Else/HasElse
	SLoop     = "loop"     // Loop kind, Var, N, Init/NoInit/Step (for), Subj/Key (foreach), Body
	SSwitch   = "switch"   // E, Cases
	SBreak    = "break"    // N = level (>= 1)
	SContinue = "continue" // N = level (>= 1)
	SReturn   = "return"   // E (nil = bare return)
)

// Loop kinds. Every loop is counted: the counter Var takes the values 1..N inside the body.
//
//	for      for ($v = <Init|1>; $v <= N; <Step>) { body }          (NoInit: "for (; $v <= N; ...")
//	while    $v = 0; while ($v < N) { $v++; body }
//	dowhile  $v = 0; do { $v++; body } while ($v < N);                (N >= 1)
//	foreach  foreach (<Subj|[1, .., N]> as [$Key =>] $v) { body }
const (
	LFor     = "for"
	LForeach = "foreach"
	LWhile   = "while"
	LDoWhile = "dowhile"
)

// LoopKinds in canonical order (the reducer rewrites towards the front).
var LoopKinds = []string{LFor, LForeach, LWhile, LDoWhile}

type Stmt struct {
	K       string  `json:"k"`
	Var     string  `json:"var,omitempty"`
	Op      string  `json:"op,omitempty"`
	E       *Expr   `json:"e,omitempty"`
	Args    []*Expr `json:"args,omitempty"`
	Then    []*Stmt `json:"then,omitempty"`
	Elifs   []Elif  `json:"elifs,omitempty"`
	Else    []*Stmt `json:"else,omitempty"`
	HasElse bool    `json:"has_else,omitempty"`
	Loop    string  `json:"loop,omitempty"`
	N       int     `json:"n,omitempty"`
	Init    *Expr   `json:"init,omitempty"`
	NoInit  bool    `json:"no_init,omitempty"`
	Step    string  `json:"step,omitempty"` // "" = post++ ; "pre++" ; "+=" ; "=+"
	// Cmp / BoundVar / Free generalise the loop header (family F3 counter-write):
	// Cmp: comparison of the header, "" = the kind's default (`<=` for for, `<` for while/do-while),
	// else one of "<", "<=", "!="; BoundVar: the bound is read from this variable (which the
	// generator sets to N before the loop) instead of the literal N; Free: the body may write the
	// counter — termination is then by the family's construction and enforced by refsem's budget.
	Cmp      string  `json:"cmp,omitempty"`
	BoundVar string  `json:"bound_var,omitempty"`
	Free     bool    `json:"free,omitempty"`
	Subj     *Expr   `json:"subj,omitempty"`
	Key      string  `json:"key,omitempty"`
	Body     []*Stmt `json:"body,omitempty"`
	Cases    []Case  `json:"cases,omitempty"`
}

type Elif struct {
	Cond *Expr   `json:"cond"`
	Body []*Stmt `json:"body,omitempty"`
}

// Case of a switch; Val == nil is `default:`.
type Case struct {
	Val  *Expr   `json:"val,omitempty"`
	Body []*Stmt `json:"body,omitempty"`
}

type Param struct {
	Name string `json:"name"`
	Def  *Expr  `json:"def,omitempty"`
}

type Func struct {
	Name   string  `json:"name"`
	Params []Param `json:"params,omitempty"`
	Body   []*Stmt `json:"body,omitempty"`
}

// Program: function definitions are printed first (origami does not hoist declarations), then Main.
type Program struct {
	Funcs []*Func `json:"funcs,omitempty"`
	Main  []*Stmt `json:"main,omitempty"`
}

// ---- constructors (keep generators short) ---------------------------------------------------

func Int(i int) *Expr                    { return &Expr{K: EInt, I: i} }
func Str(s string) *Expr                 { return &Expr{K: EStr, S: s} }
func Bool(b bool) *Expr                  { return &Expr{K: EBool, B: b} }
func Null() *Expr                        { return &Expr{K: ENull} }
func Var(n string) *Expr                 { return &Expr{K: EVar, S: n} }
func Bin(op string, a, b *Expr) *Expr    { return &Expr{K: EBin, S: op, A: []*Expr{a, b}} }
func Not(a *Expr) *Expr                  { return &Expr{K: ENot, A: []*Expr{a}} }
func Call(f string, args ...*Expr) *Expr { return &Expr{K: ECall, S: f, A: args} }
func Arr(el ...*Expr) *Expr              { return &Expr{K: EArr, A: el} }
func Match(subj *Expr, arms ...Arm) *Expr {
	return &Expr{K: EMatch, A: []*Expr{subj}, Arms: arms}
}
func Eq(a, b *Expr) *Expr { return Bin("==", a, b) }

// Ints returns the array literal [1, .., n].
func Ints(n int) *Expr {
	e := &Expr{K: EArr}
	for i := 1; i <= n; i++ {
		e.A = append(e.A, Int(i))
	}
	return e
}

func Echo(args ...*Expr) *Stmt { return &Stmt{K: SEcho, Args: args} }

// EchoS prints the string literals given (markers).
func EchoS(s ...string) *Stmt {
	st := &Stmt{K: SEcho}
	for _, x := range s {
		st.Args = append(st.Args, Str(x))
	}
	return st
}
func Assign(v string, e *Expr) *Stmt       { return &Stmt{K: SAssign, Var: v, E: e} }
func OpAssign(v, op string, e *Expr) *Stmt { return &Stmt{K: SOpAssign, Var: v, Op: op, E: e} }
func IncDec(v, op string) *Stmt            { return &Stmt{K: SIncDec, Var: v, Op: op} }
func ExprS(e *Expr) *Stmt                  { return &Stmt{K: SExpr, E: e} }
func Static(v string, e *Expr) *Stmt       { return &Stmt{K: SStatic, Var: v, E: e} }
func If(c *Expr, then ...*Stmt) *Stmt      { return &Stmt{K: SIf, E: c, Then: then} }
func IfElse(c *Expr, then, els []*Stmt) *Stmt {
	return &Stmt{K: SIf, E: c, Then: then, Else: els, HasElse: true}
}
func Loop(kind, v string, n int, body ...*Stmt) *Stmt {
	return &Stmt{K: SLoop, Loop: kind, Var: v, N: n, Body: body}
}
func Switch(subj *Expr, cases ...Case) *Stmt { return &Stmt{K: SSwitch, E: subj, Cases: cases} }
func Break(n int) *Stmt                      { return &Stmt{K: SBreak, N: n} }
func Continue(n int) *Stmt                   { return &Stmt{K: SContinue, N: n} }
func Return(e *Expr) *Stmt                   { return &Stmt{K: SReturn, E: e} }

// ---- cloning / serialisation ------------------------------------------------------------------

func (p *Program) Clone() *Program {
	b, _ := json.Marshal(p)
	var q Program
	json.Unmarshal(b, &q)
	return &q
}

func (p *Program) JSON() json.RawMessage {
	b, _ := json.Marshal(p)
	return b
}

func FromJSON(b []byte) (*Program, error) {
	var p Program
	if err := json.Unmarshal(b, &p); err != nil {
		return nil, err
	}
	return &p, nil
}

// Size is the number of AST nodes (statements + expressions + functions + params), used to order
// failing cases.
func (p *Program) Size() int {
	n := 0
	for _, f := range p.Funcs {
		n += 6 + len(f.Params) + sizeStmts(f.Body)
		for _, pa := range f.Params {
			n += sizeExpr(pa.Def)
		}
	}
	return n + sizeStmts(p.Main)
}

func sizeStmts(ss []*Stmt) int {
	n := 0
	for _, s := range ss {
		n += 1 + sizeExpr(s.E) + sizeExpr(s.Init) + sizeExpr(s.Subj) + sizeStmts(s.Then) + sizeStmts(s.Else) + sizeStmts(s.Body)
		for _, a := range s.Args {
			n += sizeExpr(a)
		}
		for _, e := range s.Elifs {
			n += 1 + sizeExpr(e.Cond) + sizeStmts(e.Body)
		}
		for _, c := range s.Cases {
			n += 1 + sizeExpr(c.Val) + sizeStmts(c.Body)
			if c.Val == nil {
				n += 2 // `default:` counts more than `case 0:` (canonical form prefers cases)
			}
		}
		if s.K == SLoop {
			n += 3 + s.N // fewer iterations = smaller; a loop is bigger than its explicit step
			if s.Key != "" {
				n++
			}
		}
		if s.K == SBreak || s.K == SContinue {
			n += s.N
		}
	}
	return n
}

func sizeExpr(e *Expr) int {
	if e == nil {
		return 0
	}
	n := 1
	for _, a := range e.A {
		n += sizeExpr(a)
	}
	for _, arm := range e.Arms {
		n += 1 + sizeExpr(arm.Val)
		for _, c := range arm.Conds {
			n += sizeExpr(c)
		}
	}
	return n
}
