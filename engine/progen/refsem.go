package progen

import (
	"errors"
	"fmt"
	"strconv"
	"strings"
)

// refsem: the reference interpreter. It implements PHP's semantics on the subset where the
// language documentation (docs/control-structures.md, docs/functions.md) and PHP agree:
//
//   - values: int, string, bool, null (only as "function returned nothing"), arrays only as
//     foreach subjects (never written through);
//   - `+ - * %` and `< <= > >=` on two ints only; `== !=` on two values of the same scalar type;
//     `=== !==` on anything; `&& || !` and every condition on bools only; `echo` of ints and
//     strings only.  Everything else (mixed-type arithmetic, string `+`, truthiness of non-bools,
//     float formatting ...) is *outside the reference subset*: Interp returns an error and the
//     program is not a test case.  Generators never produce such programs; the reducer uses the
//     error to reject candidates.
//   - assignment copies; every call gets fresh locals; parameters are passed by value; defaults
//     are evaluated per call; `static $v = c;` binds $v to a per-function cell initialised once;
//   - `break N` / `continue N` count enclosing loops *and* switches (PHP). A `continue` whose
//     target is a switch acts like `break` on it (PHP). Since the documentation is silent about
//     that PHP peculiarity, Opts.ContinueSkipsSwitch selects the other defensible reading
//     (switch is transparent for `continue`, as in C/Java/Go); checks accept both readings for
//     programs where a `continue` meets a switch (see ContinueMeetsSwitch);
//   - `switch` compares loosely (only same-type operands are generated), runs from the first
//     matching case (or `default`) and falls through until a break;
//   - `match` compares strictly and must have a matching arm or a default.
type Opts struct {
	ContinueSkipsSwitch bool
	MaxSteps            int // 0 = 200000
}

// ErrSubset marks programs outside the reference subset (or over the step budget).
var ErrSubset = errors.New("outside reference subset")

func subset(format string, a ...any) error {
	return fmt.Errorf("%w: %s", ErrSubset, fmt.Sprintf(format, a...))
}

type vkind byte

const (
	vNull vkind = iota
	vInt
	vStr
	vBool
	vArr
)

type val struct {
	k   vkind
	i   int
	s   string
	b   bool
	arr []elem
}

type elem struct {
	key val
	v   val
}

func (v val) kind() string {
	return [...]string{"null", "int", "string", "bool", "array"}[v.k]
}

type sigKind byte

const (
	sigNone sigKind = iota
	sigBreak
	sigContinue
	sigReturn
)

type sig struct {
	k sigKind
	n int
	v val
}

type frame struct {
	fn     string // "" = main
	vars   map[string]val
	static map[string]bool
}

type interp struct {
	p       *Program
	o       Opts
	out     strings.Builder
	steps   int
	depth   int
	funcs   map[string]*Func
	statics map[string]map[string]val
}

// Interp runs the program in the reference semantics and returns what it prints.
func Interp(p *Program, o Opts) (out string, err error) {
	if o.MaxSteps == 0 {
		o.MaxSteps = 200000
	}
	in := &interp{p: p, o: o, funcs: map[string]*Func{}, statics: map[string]map[string]val{}}
	for _, f := range p.Funcs {
		if _, dup := in.funcs[f.Name]; dup {
			return "", subset("function %s declared twice", f.Name)
		}
		in.funcs[f.Name] = f
	}
	defer func() {
		if r := recover(); r != nil {
			if e, ok := r.(error); ok && errors.Is(e, ErrSubset) {
				out, err = in.out.String(), e
				return
			}
			panic(r)
		}
	}()
	fr := &frame{vars: map[string]val{}, static: map[string]bool{}}
	s := in.block(fr, p.Main)
	switch s.k {
	case sigReturn:
		panic(subset("return at top level"))
	case sigBreak, sigContinue:
		panic(subset("break/continue outside loop"))
	}
	return in.out.String(), nil
}

func (in *interp) tick() {
	in.steps++
	if in.steps > in.o.MaxSteps {
		panic(subset("step budget exceeded"))
	}
}

func (in *interp) get(fr *frame, name string) val {
	if fr.static[name] {
		return in.statics[fr.fn][name]
	}
	v, ok := fr.vars[name]
	if !ok {
		panic(subset("read of undefined variable $%s", name))
	}
	return v
}

func (in *interp) set(fr *frame, name string, v val) {
	if fr.static[name] {
		in.statics[fr.fn][name] = v
		return
	}
	fr.vars[name] = v
}

func (in *interp) getInt(fr *frame, name string) int {
	v := in.get(fr, name)
	if v.k != vInt {
		panic(subset("$%s is %s where an int is needed", name, v.kind()))
	}
	return v.i
}

func (in *interp) block(fr *frame, ss []*Stmt) sig {
	for _, s := range ss {
		if r := in.stmt(fr, s); r.k != sigNone {
			return r
		}
	}
	return sig{}
}

func (in *interp) cond(fr *frame, e *Expr) bool {
	v := in.eval(fr, e)
	if v.k != vBool {
		panic(subset("condition of type %s", v.kind()))
	}
	return v.b
}

func (in *interp) stmt(fr *frame, s *Stmt) sig {
	in.tick()
	switch s.K {
	case SEcho:
		for _, a := range s.Args {
			v := in.eval(fr, a)
			switch v.k {
			case vInt:
				in.out.WriteString(strconv.Itoa(v.i))
			case vStr:
				in.out.WriteString(v.s)
			default:
				panic(subset("echo of %s", v.kind()))
			}
		}
	case SAssign:
		in.set(fr, s.Var, in.eval(fr, s.E))
	case SOpAssign:
		r := in.eval(fr, s.E)
		l := in.get(fr, s.Var)
		in.set(fr, s.Var, arith(strings.TrimSuffix(s.Op, "="), l, r))
	case SIncDec:
		d := 1
		if strings.HasSuffix(s.Op, "--") {
			d = -1
		}
		in.set(fr, s.Var, val{k: vInt, i: in.getInt(fr, s.Var) + d})
	case SExpr:
		in.eval(fr, s.E)
	case SStatic:
		if fr.fn == "" {
			panic(subset("static at top level"))
		}
		st := in.statics[fr.fn]
		if st == nil {
			st = map[string]val{}
			in.statics[fr.fn] = st
		}
		if _, ok := st[s.Var]; !ok {
			st[s.Var] = in.eval(fr, s.E)
		}
		fr.static[s.Var] = true
	case SIf:
		if in.cond(fr, s.E) {
			return in.block(fr, s.Then)
		}
		for _, e := range s.Elifs {
			if in.cond(fr, e.Cond) {
				return in.block(fr, e.Body)
			}
		}
		if s.HasElse {
			return in.block(fr, s.Else)
		}
	case SLoop:
		return in.loop(fr, s)
	case SSwitch:
		return in.swtch(fr, s)
	case SBreak:
		if s.N < 1 {
			panic(subset("break level %d", s.N))
		}
		return sig{k: sigBreak, n: s.N}
	case SContinue:
		if s.N < 1 {
			panic(subset("continue level %d", s.N))
		}
		return sig{k: sigContinue, n: s.N}
	case SReturn:
		if s.E == nil {
			return sig{k: sigReturn}
		}
		return sig{k: sigReturn, v: in.eval(fr, s.E)}
	default:
		panic(subset("statement kind %q", s.K))
	}
	return sig{}
}

// body runs one iteration; exit tells the loop to stop, out is what the loop statement yields.
func (in *interp) body(fr *frame, ss []*Stmt) (exit bool, out sig) {
	r := in.block(fr, ss)
	switch r.k {
	case sigBreak:
		if r.n <= 1 {
			return true, sig{}
		}
		return true, sig{k: sigBreak, n: r.n - 1}
	case sigContinue:
		if r.n <= 1 {
			return false, sig{}
		}
		return true, sig{k: sigContinue, n: r.n - 1}
	case sigReturn:
		return true, r
	}
	return false, sig{}
}

// more reports whether the loop header's condition `$v CMP bound` holds.
func (in *interp) more(fr *frame, s *Stmt, def string) bool {
	bound := s.N
	if s.BoundVar != "" {
		bound = in.getInt(fr, s.BoundVar)
	}
	cmp := s.Cmp
	if cmp == "" {
		cmp = def
	}
	v := in.getInt(fr, s.Var)
	switch cmp {
	case "<":
		return v < bound
	case "<=":
		return v <= bound
	case "!=":
		return v != bound
	}
	panic(subset("loop comparison %q", cmp))
}

func (in *interp) loop(fr *frame, s *Stmt) sig {
	switch s.Loop {
	case LFor:
		if !s.NoInit {
			if s.Init != nil {
				in.set(fr, s.Var, in.eval(fr, s.Init))
			} else {
				in.set(fr, s.Var, val{k: vInt, i: 1})
			}
		}
		for in.more(fr, s, "<=") {
			in.tick()
			if exit, out := in.body(fr, s.Body); exit {
				return out
			}
			in.set(fr, s.Var, val{k: vInt, i: in.getInt(fr, s.Var) + 1})
		}
	case LWhile:
		in.set(fr, s.Var, val{k: vInt, i: 0})
		for in.more(fr, s, "<") {
			in.tick()
			in.set(fr, s.Var, val{k: vInt, i: in.getInt(fr, s.Var) + 1})
			if exit, out := in.body(fr, s.Body); exit {
				return out
			}
		}
	case LDoWhile:
		in.set(fr, s.Var, val{k: vInt, i: 0})
		for {
			in.tick()
			in.set(fr, s.Var, val{k: vInt, i: in.getInt(fr, s.Var) + 1})
			if exit, out := in.body(fr, s.Body); exit {
				return out
			}
			if !in.more(fr, s, "<") {
				break
			}
		}
	case LForeach:
		var subj val
		if s.Subj != nil {
			subj = in.eval(fr, s.Subj)
		} else {
			subj = in.eval(fr, Ints(s.N))
		}
		if subj.k != vArr {
			panic(subset("foreach over %s", subj.kind()))
		}
		for _, el := range subj.arr { // iterates over the value as it was when the loop started
			in.tick()
			in.set(fr, s.Var, el.v)
			if s.Key != "" {
				in.set(fr, s.Key, el.key)
			}
			if exit, out := in.body(fr, s.Body); exit {
				return out
			}
		}
	default:
		panic(subset("loop kind %q", s.Loop))
	}
	return sig{}
}

func (in *interp) swtch(fr *frame, s *Stmt) sig {
	subj := in.eval(fr, s.E)
	start := -1
	for i, c := range s.Cases {
		if c.Val == nil {
			continue
		}
		if looseEq(subj, in.eval(fr, c.Val)) {
			start = i
			break
		}
	}
	if start < 0 {
		for i, c := range s.Cases {
			if c.Val == nil {
				start = i
				break
			}
		}
	}
	if start < 0 {
		return sig{}
	}
	for _, c := range s.Cases[start:] { // fall through until something leaves
		r := in.block(fr, c.Body)
		switch r.k {
		case sigNone:
			continue
		case sigBreak:
			if r.n <= 1 {
				return sig{}
			}
			return sig{k: sigBreak, n: r.n - 1}
		case sigContinue:
			if in.o.ContinueSkipsSwitch {
				return r // transparent: the enclosing loop sees the same level
			}
			if r.n <= 1 {
				return sig{} // PHP: continue targeting a switch behaves like break
			}
			return sig{k: sigContinue, n: r.n - 1}
		default:
			return r
		}
	}
	return sig{}
}

func looseEq(a, b val) bool {
	if a.k != b.k || a.k == vArr || a.k == vNull {
		panic(subset("== between %s and %s", a.kind(), b.kind()))
	}
	return strictEq(a, b)
}

func strictEq(a, b val) bool {
	if a.k != b.k {
		return false
	}
	switch a.k {
	case vInt:
		return a.i == b.i
	case vStr:
		return a.s == b.s
	case vBool:
		return a.b == b.b
	case vNull:
		return true
	}
	panic(subset("=== on arrays"))
}

func arith(op string, l, r val) val {
	if l.k != vInt || r.k != vInt {
		panic(subset("%s %s %s", l.kind(), op, r.kind()))
	}
	switch op {
	case "+":
		return val{k: vInt, i: l.i + r.i}
	case "-":
		return val{k: vInt, i: l.i - r.i}
	case "*":
		return val{k: vInt, i: l.i * r.i}
	case "%":
		if r.i == 0 {
			panic(subset("modulo by zero"))
		}
		return val{k: vInt, i: l.i % r.i}
	}
	panic(subset("operator %q", op))
}

func (in *interp) eval(fr *frame, e *Expr) val {
	if e == nil {
		panic(subset("missing expression"))
	}
	switch e.K {
	case EInt:
		return val{k: vInt, i: e.I}
	case EStr:
		return val{k: vStr, s: e.S}
	case EBool:
		return val{k: vBool, b: e.B}
	case ENull:
		return val{}
	case EVar:
		return in.get(fr, e.S)
	case ENot:
		v := in.eval(fr, e.A[0])
		if v.k != vBool {
			panic(subset("! on %s", v.kind()))
		}
		return val{k: vBool, b: !v.b}
	case EBin:
		if len(e.A) != 2 {
			panic(subset("binary arity"))
		}
		switch e.S {
		case "&&", "||":
			l := in.eval(fr, e.A[0])
			if l.k != vBool {
				panic(subset("%s on %s", e.S, l.kind()))
			}
			if (e.S == "&&") != l.b {
				return l // short circuit
			}
			r := in.eval(fr, e.A[1])
			if r.k != vBool {
				panic(subset("%s on %s", e.S, r.kind()))
			}
			return r
		}
		l := in.eval(fr, e.A[0])
		r := in.eval(fr, e.A[1])
		switch e.S {
		case "+", "-", "*", "%":
			return arith(e.S, l, r)
		case "<", "<=", ">", ">=":
			if l.k != vInt || r.k != vInt {
				panic(subset("%s %s %s", l.kind(), e.S, r.kind()))
			}
			var b bool
			switch e.S {
			case "<":
				b = l.i < r.i
			case "<=":
				b = l.i <= r.i
			case ">":
				b = l.i > r.i
			case ">=":
				b = l.i >= r.i
			}
			return val{k: vBool, b: b}
		case "==":
			return val{k: vBool, b: looseEq(l, r)}
		case "!=":
			return val{k: vBool, b: !looseEq(l, r)}
		case "===":
			return val{k: vBool, b: strictEq(l, r)}
		case "!==":
			return val{k: vBool, b: !strictEq(l, r)}
		}
		panic(subset("operator %q", e.S))
	case EArr:
		v := val{k: vArr}
		for i, a := range e.A {
			key := val{k: vInt, i: i}
			if len(e.Keys) > 0 {
				if len(e.Keys) != len(e.A) {
					panic(subset("array keys/elements mismatch"))
				}
				key = val{k: vStr, s: e.Keys[i]}
			}
			v.arr = append(v.arr, elem{key: key, v: in.eval(fr, a)})
		}
		return v
	case EMatch:
		subj := in.eval(fr, e.A[0])
		for _, arm := range e.Arms {
			for _, c := range arm.Conds {
				if strictEq(subj, in.eval(fr, c)) {
					return in.eval(fr, arm.Val)
				}
			}
		}
		for _, arm := range e.Arms {
			if len(arm.Conds) == 0 {
				return in.eval(fr, arm.Val)
			}
		}
		panic(subset("unhandled match"))
	case ECall:
		return in.call(fr, e)
	}
	panic(subset("expression kind %q", e.K))
}

func (in *interp) call(fr *frame, e *Expr) val {
	f := in.funcs[e.S]
	if f == nil {
		panic(subset("call of undefined function %s", e.S))
	}
	if len(e.A) > len(f.Params) {
		panic(subset("too many arguments for %s", e.S))
	}
	nf := &frame{fn: f.Name, vars: map[string]val{}, static: map[string]bool{}}
	for i, a := range e.A {
		nf.vars[f.Params[i].Name] = in.eval(fr, a) // by value, left to right, in the caller
	}
	for i := len(e.A); i < len(f.Params); i++ {
		if f.Params[i].Def == nil {
			panic(subset("missing argument %d for %s", i+1, e.S))
		}
		nf.vars[f.Params[i].Name] = in.eval(nf, f.Params[i].Def)
	}
	in.depth++
	if in.depth > 64 {
		panic(subset("recursion too deep"))
	}
	r := in.block(nf, f.Body)
	in.depth--
	switch r.k {
	case sigReturn:
		return r.v
	case sigBreak, sigContinue:
		panic(subset("break/continue leaves function %s", f.Name))
	}
	return val{}
}

// ---- static questions about a program -----------------------------------------------------------

// Validate checks the structural rules every generated program obeys: jump levels fit the
// enclosing loops/switches of the same function body, `return`/`static` only inside functions,
// no statement writes the counter of a for/while/do-while loop it is nested in (termination).
func Validate(p *Program) error {
	for _, f := range p.Funcs {
		if err := validateBlock(f.Body, nil, nil, true); err != nil {
			return fmt.Errorf("function %s: %w", f.Name, err)
		}
	}
	return validateBlock(p.Main, nil, nil, false)
}

// ctx = enclosing breakables, innermost last ("loop" / "switch"); counters = protected names.
func validateBlock(ss []*Stmt, ctx []string, counters []string, inFunc bool) error {
	protected := func(v string) bool {
		for _, c := range counters {
			if c == v {
				return true
			}
		}
		return false
	}
	for _, s := range ss {
		switch s.K {
		case SAssign, SOpAssign, SIncDec, SStatic:
			if protected(s.Var) {
				return fmt.Errorf("write to loop counter $%s", s.Var)
			}
			if s.K == SStatic && !inFunc {
				return errors.New("static at top level")
			}
		case SBreak, SContinue:
			if s.N < 1 || s.N > len(ctx) {
				return fmt.Errorf("%s %d with %d enclosing structures", s.K, s.N, len(ctx))
			}
		case SReturn:
			if !inFunc {
				return errors.New("return at top level")
			}
		case SIf:
			if err := validateBlock(s.Then, ctx, counters, inFunc); err != nil {
				return err
			}
			for _, e := range s.Elifs {
				if err := validateBlock(e.Body, ctx, counters, inFunc); err != nil {
					return err
				}
			}
			if err := validateBlock(s.Else, ctx, counters, inFunc); err != nil {
				return err
			}
		case SLoop:
			if s.Loop != LFor || !s.NoInit {
				// (a `for (; $v <= N; ..)` without init only ever increases $v: harmless)
				if protected(s.Var) || (s.Key != "" && protected(s.Key)) {
					return fmt.Errorf("loop reuses counter $%s", s.Var)
				}
			}
			if s.N < 1 && s.Loop == LDoWhile {
				return errors.New("do-while needs N >= 1")
			}
			cs := append([]string{}, counters...)
			if s.Loop != LForeach && !s.Free { // a foreach iterates over a snapshot: writing its variables cannot prolong it
				cs = append(cs, s.Var)
			}
			if s.BoundVar != "" {
				cs = append(cs, s.BoundVar) // the bound never moves
			}
			switch s.Cmp {
			case "", "<", "<=", "!=":
			default:
				return fmt.Errorf("loop comparison %q", s.Cmp)
			}
			if err := validateBlock(s.Body, append(append([]string{}, ctx...), "loop"), cs, inFunc); err != nil {
				return err
			}
		case SSwitch:
			for _, c := range s.Cases {
				if err := validateBlock(c.Body, append(append([]string{}, ctx...), "switch"), counters, inFunc); err != nil {
					return err
				}
			}
		}
	}
	return nil
}

// ContinueMeetsSwitch reports whether some `continue N` has a switch among the N structures it
// counts (PHP counting) — the only place where the two readings of Opts differ.
func ContinueMeetsSwitch(p *Program) bool {
	found := false
	var walk func(ss []*Stmt, ctx []string)
	walk = func(ss []*Stmt, ctx []string) {
		for _, s := range ss {
			switch s.K {
			case SContinue:
				for i := 0; i < s.N && i < len(ctx); i++ {
					if ctx[len(ctx)-1-i] == "switch" {
						found = true
					}
				}
				// the transparent reading may look further out than N structures
				if !found {
					loops := 0
					for i := len(ctx) - 1; i >= 0 && loops < s.N; i-- {
						if ctx[i] == "switch" {
							found = true
						} else {
							loops++
						}
					}
				}
			case SIf:
				walk(s.Then, ctx)
				for _, e := range s.Elifs {
					walk(e.Body, ctx)
				}
				walk(s.Else, ctx)
			case SLoop:
				walk(s.Body, append(append([]string{}, ctx...), "loop"))
			case SSwitch:
				for _, c := range s.Cases {
					walk(c.Body, append(append([]string{}, ctx...), "switch"))
				}
			}
		}
	}
	for _, f := range p.Funcs {
		walk(f.Body, nil)
	}
	walk(p.Main, nil)
	return found
}

// Expected returns every output the reference semantics allows for p (one, or two when a
// `continue` meets a switch and both readings are defined), or an error when p is outside the
// reference subset under the PHP reading.
func Expected(p *Program) ([]string, error) {
	if err := Validate(p); err != nil {
		return nil, fmt.Errorf("%w: %v", ErrSubset, err)
	}
	out, err := Interp(p, Opts{})
	if err != nil {
		return nil, err
	}
	res := []string{out}
	if ContinueMeetsSwitch(p) {
		if alt, err2 := Interp(p, Opts{ContinueSkipsSwitch: true}); err2 == nil && alt != out {
			res = append(res, alt)
		}
	}
	return res, nil
}
