package progen

// Generic delta-reducer over the AST.
//
// Reduce repeatedly applies the first single edit (in a fixed, deterministic order) that makes
// the program strictly smaller in the measure (Size, Rank) and for which keep() still holds,
// until no edit applies: the result is 1-minimal with respect to the edit set
//
//	delete a function / a statement / an elseif / an else / a case / a match arm / an echo operand /
//	a parameter together with its arguments; hoist a block out of its compound statement; inline a
//	return-free function at a call statement; fewer loop iterations; lower jump level; loop kind,
//	step form, increment form towards the canonical one (for, $v++); drop foreach key / subject /
//	for-init; replace an expression by one of its operands or by the literals 0, 1, true, false.
//
// keep() is supplied by the check; it must reject programs outside the reference subset (the
// reducer itself never reasons about semantics).

// Copy is a deep copy.
func (p *Program) Copy() *Program {
	q := &Program{Main: copyStmts(p.Main)}
	for _, f := range p.Funcs {
		nf := &Func{Name: f.Name, Body: copyStmts(f.Body)}
		for _, pa := range f.Params {
			nf.Params = append(nf.Params, Param{Name: pa.Name, Def: copyExpr(pa.Def)})
		}
		q.Funcs = append(q.Funcs, nf)
	}
	return q
}

func copyExpr(e *Expr) *Expr {
	if e == nil {
		return nil
	}
	n := &Expr{K: e.K, I: e.I, S: e.S, B: e.B}
	for _, a := range e.A {
		n.A = append(n.A, copyExpr(a))
	}
	n.Keys = append([]string(nil), e.Keys...)
	for _, arm := range e.Arms {
		na := Arm{Val: copyExpr(arm.Val)}
		for _, c := range arm.Conds {
			na.Conds = append(na.Conds, copyExpr(c))
		}
		n.Arms = append(n.Arms, na)
	}
	return n
}

func copyStmts(ss []*Stmt) []*Stmt {
	if ss == nil {
		return nil
	}
	out := make([]*Stmt, 0, len(ss))
	for _, s := range ss {
		n := *s
		n.E, n.Init, n.Subj = copyExpr(s.E), copyExpr(s.Init), copyExpr(s.Subj)
		n.Args = nil
		for _, a := range s.Args {
			n.Args = append(n.Args, copyExpr(a))
		}
		n.Then, n.Else, n.Body = copyStmts(s.Then), copyStmts(s.Else), copyStmts(s.Body)
		n.Elifs = nil
		for _, e := range s.Elifs {
			n.Elifs = append(n.Elifs, Elif{Cond: copyExpr(e.Cond), Body: copyStmts(e.Body)})
		}
		n.Cases = nil
		for _, c := range s.Cases {
			n.Cases = append(n.Cases, Case{Val: copyExpr(c.Val), Body: copyStmts(c.Body)})
		}
		out = append(out, &n)
	}
	return out
}

// Rank orders programs of equal Size: canonical spellings are smaller.
func (p *Program) Rank() int {
	r := 0
	var ex func(e *Expr)
	ex = func(e *Expr) {
		if e == nil {
			return
		}
		switch e.K {
		case EVar:
			r += 20
		case EInt:
			v := e.I
			if v < 0 {
				v = -v + 1
			}
			if v > 15 {
				v = 15
			}
			r += v
		case EStr, ENull:
			r += 1
		case EBool:
			if e.B {
				r++
			}
		case ECall, EMatch:
			r += 30
		case EBin:
			r += 5 + opRank(e.S)
		}
		for _, a := range e.A {
			ex(a)
		}
		for _, arm := range e.Arms {
			ex(arm.Val)
			for _, c := range arm.Conds {
				ex(c)
			}
		}
	}
	var st func(ss []*Stmt)
	st = func(ss []*Stmt) {
		for _, s := range ss {
			ex(s.E)
			ex(s.Init)
			ex(s.Subj)
			for _, a := range s.Args {
				ex(a)
			}
			st(s.Then)
			st(s.Else)
			st(s.Body)
			for _, e := range s.Elifs {
				ex(e.Cond)
				st(e.Body)
			}
			for _, c := range s.Cases {
				ex(c.Val)
				st(c.Body)
			}
			switch s.K {
			case SLoop:
				for i, k := range LoopKinds {
					if k == s.Loop {
						r += 10 * i
					}
				}
				if s.Step != "" {
					r += 3
				}
				if s.Step == "=+" {
					r += 2
				}
				if s.NoInit {
					r += 2
				}
				if s.Cmp != "" {
					r += 2
				}
				if s.BoundVar != "" {
					r += 4
				}
				if s.Free {
					r++
				}
			case SIncDec:
				if s.Op != "post++" {
					r += 3
				}
			case SOpAssign:
				r += opRank(s.Op)
			}
		}
	}
	for _, f := range p.Funcs {
		for _, pa := range f.Params {
			ex(pa.Def)
		}
		st(f.Body)
	}
	st(p.Main)
	return r
}

func opRank(op string) int {
	for i, o := range []string{"+", "+=", "==", "-", "-=", "*", "*=", "<", "<=", ">", ">=", "!=", "===", "!==", "%", "&&", "||"} {
		if o == op {
			return i
		}
	}
	return 20
}

func smaller(q, p *Program) bool {
	qs, ps := q.Size(), p.Size()
	if qs != ps {
		return qs < ps
	}
	return q.Rank() < p.Rank()
}

// blocks lists pointers to every statement list of the program in pre-order.
func blocks(p *Program) []*[]*Stmt {
	var out []*[]*Stmt
	var walk func(b *[]*Stmt)
	walk = func(b *[]*Stmt) {
		out = append(out, b)
		for _, s := range *b {
			switch s.K {
			case SIf:
				walk(&s.Then)
				for i := range s.Elifs {
					walk(&s.Elifs[i].Body)
				}
				if s.HasElse {
					walk(&s.Else)
				}
			case SLoop:
				walk(&s.Body)
			case SSwitch:
				for i := range s.Cases {
					walk(&s.Cases[i].Body)
				}
			}
		}
	}
	walk(&p.Main)
	for _, f := range p.Funcs {
		walk(&f.Body)
	}
	return out
}

// exprSlots lists pointers to every expression position of the program.
func exprSlots(p *Program) []**Expr {
	var out []**Expr
	var ex func(e **Expr)
	ex = func(e **Expr) {
		if *e == nil {
			return
		}
		out = append(out, e)
		for i := range (*e).A {
			ex(&(*e).A[i])
		}
		for i := range (*e).Arms {
			for j := range (*e).Arms[i].Conds {
				ex(&(*e).Arms[i].Conds[j])
			}
			ex(&(*e).Arms[i].Val)
		}
	}
	for _, b := range blocks(p) {
		for _, s := range *b {
			ex(&s.E)
			ex(&s.Init)
			ex(&s.Subj)
			for i := range s.Args {
				ex(&s.Args[i])
			}
			for i := range s.Elifs {
				ex(&s.Elifs[i].Cond)
			}
			for i := range s.Cases {
				ex(&s.Cases[i].Val)
			}
		}
	}
	for _, f := range p.Funcs {
		for i := range f.Params {
			ex(&f.Params[i].Def)
		}
	}
	return out
}

func hasKind(ss []*Stmt, kinds ...string) bool {
	tmp := &Program{Main: ss}
	for _, b := range blocks(tmp) {
		for _, s := range *b {
			for _, k := range kinds {
				if s.K == k {
					return true
				}
			}
		}
	}
	return false
}

// edits returns every single edit applicable to p as closures that mutate p in place.
func edits(p *Program) []func() {
	var eds []func()
	add := func(f func()) { eds = append(eds, f) }
	splice := func(b *[]*Stmt, i int, repl []*Stmt) {
		n := append(append(append([]*Stmt{}, (*b)[:i]...), repl...), (*b)[i+1:]...)
		*b = n
	}
	// 1. delete a function
	for i := range p.Funcs {
		i := i
		add(func() { p.Funcs = append(append([]*Func{}, p.Funcs[:i]...), p.Funcs[i+1:]...) })
	}
	bl := blocks(p)
	// 2. delete a statement
	for _, b := range bl {
		for i := range *b {
			b, i := b, i
			add(func() { splice(b, i, nil) })
		}
	}
	// 3. hoist a block out of its compound statement; inline a return-free function
	for _, b := range bl {
		for i, s := range *b {
			b, i, s := b, i, s
			switch s.K {
			case SIf:
				add(func() { splice(b, i, s.Then) })
				for j := range s.Elifs {
					j := j
					add(func() { splice(b, i, s.Elifs[j].Body) })
				}
				if s.HasElse {
					add(func() { splice(b, i, s.Else) })
				}
			case SLoop:
				add(func() { splice(b, i, s.Body) })
				if s.Loop == LFor { // one unrolled iteration: body, then the step as a statement
					add(func() {
						var step *Stmt
						switch s.Step {
						case "pre++":
							step = IncDec(s.Var, "pre++")
						case "+=":
							step = OpAssign(s.Var, "+=", Int(1))
						case "=+":
							step = Assign(s.Var, Bin("+", Var(s.Var), Int(1)))
						default:
							step = IncDec(s.Var, "post++")
						}
						splice(b, i, append(append([]*Stmt{}, s.Body...), step))
					})
				}
			case SSwitch:
				for j := range s.Cases {
					j := j
					add(func() { splice(b, i, s.Cases[j].Body) })
				}
			case SExpr, SAssign:
				if s.E != nil && s.E.K == ECall {
					for _, f := range p.Funcs {
						if f.Name == s.E.S && len(s.E.A) == len(f.Params) && !hasKind(f.Body, SReturn, SStatic) {
							f := f
							add(func() {
								var repl []*Stmt
								for k, pa := range f.Params {
									repl = append(repl, Assign(pa.Name, copyExpr(s.E.A[k])))
								}
								splice(b, i, append(repl, copyStmts(f.Body)...))
								for _, sl := range exprSlots(p) {
									if (*sl).K == ECall && (*sl).S == f.Name {
										return
									}
								}
								for k, g := range p.Funcs { // no call left: drop the declaration too
									if g == f {
										p.Funcs = append(append([]*Func{}, p.Funcs[:k]...), p.Funcs[k+1:]...)
										break
									}
								}
							})
						}
					}
				}
			}
		}
	}
	// 4. structural simplifications
	for _, b := range bl {
		for _, s := range *b {
			s := s
			switch s.K {
			case SIf:
				for j := range s.Elifs {
					j := j
					add(func() { s.Elifs = append(append([]Elif{}, s.Elifs[:j]...), s.Elifs[j+1:]...) })
				}
				if s.HasElse {
					add(func() { s.HasElse, s.Else = false, nil })
				}
			case SSwitch:
				for j := range s.Cases {
					j := j
					add(func() { s.Cases = append(append([]Case{}, s.Cases[:j]...), s.Cases[j+1:]...) })
					if s.Cases[j].Val == nil {
						add(func() { s.Cases[j].Val = Int(0) })
					}
				}
			case SAssign:
				if e := s.E; e != nil && e.K == EBin && len(e.A) == 2 && e.A[0].K == EVar && e.A[0].S == s.Var && (e.S == "+" || e.S == "-" || e.S == "*") {
					add(func() { s.K, s.Op, s.E = SOpAssign, e.S+"=", e.A[1] })
				}
			case SLoop:
				if s.N > 1 {
					add(func() { s.N = 1 })
					add(func() { s.N-- })
				}
				for _, k := range LoopKinds {
					if k == s.Loop {
						break
					}
					k := k
					add(func() { s.Loop, s.Subj, s.Key, s.Init, s.NoInit, s.Step, s.Cmp = k, nil, "", nil, false, "", "" })
				}
				if s.Key != "" {
					add(func() { s.Key = "" })
				}
				if s.Cmp != "" {
					add(func() { s.Cmp = "" })
				}
				if s.BoundVar != "" {
					add(func() { s.BoundVar = "" })
				}
				if s.Free {
					add(func() { s.Free = false })
				}
				if s.Subj != nil {
					add(func() { s.Subj = nil })
				}
				if s.Init != nil {
					add(func() { s.Init = nil })
				}
				if s.NoInit {
					add(func() { s.NoInit = false })
				}
				if s.Step == "=+" {
					add(func() { s.Step = "+=" })
				}
				if s.Step != "" {
					add(func() { s.Step = "" })
				}
			case SBreak, SContinue:
				if s.N > 1 {
					add(func() { s.N-- })
				}
			case SIncDec:
				if s.Op != "post++" {
					add(func() { s.Op = "post++" })
				}
			case SOpAssign:
				if s.Op != "+=" {
					add(func() { s.Op = "+=" })
				}
			case SReturn:
				if s.E != nil {
					add(func() { s.E = nil })
				}
			case SEcho:
				if len(s.Args) > 1 {
					for j := range s.Args {
						j := j
						add(func() { s.Args = append(append([]*Expr{}, s.Args[:j]...), s.Args[j+1:]...) })
					}
				}
			}
		}
	}
	// 5. parameters (with the matching argument of every call) and defaults
	for _, f := range p.Funcs {
		for i := range f.Params {
			f, i := f, i
			add(func() {
				f.Params = append(append([]Param{}, f.Params[:i]...), f.Params[i+1:]...)
				for _, sl := range exprSlots(p) {
					e := *sl
					if e.K == ECall && e.S == f.Name && len(e.A) > i {
						e.A = append(append([]*Expr{}, e.A[:i]...), e.A[i+1:]...)
					}
				}
			})
			if f.Params[i].Def != nil {
				add(func() { f.Params[i].Def = nil })
			}
		}
	}
	// 6. renumber an int literal value everywhere at once (the int analogue of alpha-renaming)
	seen := map[int]bool{}
	for _, sl := range exprSlots(p) {
		if e := *sl; e.K == EInt && e.I != 0 && !seen[e.I] {
			seen[e.I] = true
			for _, to := range []int{0, 1} {
				from, to := e.I, to
				if to != from && (to == 0 || from > 1 || from < 0) {
					add(func() {
						for _, sl2 := range exprSlots(p) {
							if (*sl2).K == EInt && (*sl2).I == from {
								(*sl2).I = to
							}
						}
					})
				}
			}
		}
	}
	// 7. expressions
	for _, sl := range exprSlots(p) {
		sl := sl
		e := *sl
		for _, a := range e.A {
			a := a
			add(func() { *sl = a })
		}
		for i, arm := range e.Arms {
			i, arm := i, arm
			add(func() { *sl = arm.Val })
			add(func() { e.Arms = append(append([]Arm{}, e.Arms[:i]...), e.Arms[i+1:]...) })
		}
		switch e.K {
		case EInt:
			if e.I != 0 {
				add(func() { *sl = Int(0) })
			}
			if e.I != 1 && e.I != 0 {
				add(func() { *sl = Int(1) })
			}
		case EBool:
			if e.B {
				add(func() { *sl = Bool(false) })
			}
		case EStr, ENull:
		default:
			add(func() { *sl = Int(0) })
			add(func() { *sl = Int(1) })
			add(func() { *sl = Bool(false) })
			add(func() { *sl = Bool(true) })
		}
		if e.K == EBin && e.S != "+" && e.S != "==" {
			for _, op := range []string{"+", "=="} {
				op := op
				add(func() { e.S = op })
			}
		}
	}
	return eds
}

// Reduce returns a 1-minimal program for which keep holds (p itself must satisfy keep) and the
// number of keep() evaluations. maxTests bounds the work (0 = 5000); when it is hit the best
// program so far is returned.
func Reduce(p *Program, keep func(*Program) bool, maxTests int) (*Program, int) {
	if maxTests == 0 {
		maxTests = 5000
	}
	cur := p.Copy()
	tests := 0
	for {
		progress := false
		k := 0
		n := len(edits(cur.Copy()))
		for k < n && tests < maxTests {
			cand := cur.Copy()
			edits(cand)[k]()
			if smaller(cand, cur) {
				tests++
				if keep(cand) {
					cur = cand
					progress = true
					n = len(edits(cur.Copy()))
					continue // same k: the list has shifted
				}
			}
			k++
		}
		if !progress || tests >= maxTests {
			return cur, tests
		}
	}
}
