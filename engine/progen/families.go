package progen

import (
	"fmt"
	"strings"
)

// An Item is one generated program with a descriptive, deterministic id.
type Item struct {
	ID     string
	Family string
	P      *Program
}

// Bounds fixes the finite space. Every family is enumerated completely inside it.
type Bounds struct {
	F1Depth int // maximal length of the construct chain
	Iter    int // iterations of every generated loop
	F2Depth int // nesting depth of the "return from inside" chains
	F4Len   int // number of free statements in F4 programs
	F4Loops []string
	Seed    int64 // concretisation only (identifier spellings, marker letters)
}

func Quick() Bounds {
	return Bounds{F1Depth: 3, Iter: 2, F2Depth: 2, F4Len: 2, F4Loops: []string{LWhile, LFor}}
}

func Thorough() Bounds {
	return Bounds{F1Depth: 4, Iter: 3, F2Depth: 2, F4Len: 3, F4Loops: []string{LWhile, LFor, LDoWhile, LForeach}}
}

// Family streams one family ("F1".."F4") with the seed applied. The order is deterministic, so a
// consumer can shard by running index (see also F4Range / F4Count for the big family).
func Family(name string, b Bounds, yield func(Item) bool) {
	All(b, func(it Item) bool {
		if it.Family == name {
			return yield(it)
		}
		return it.Family <= name // families are streamed in order: stop once we are past it
	})
}

// All streams F1..F4 in order with the seed applied. yield returns false to stop.
// (F1, F2, F3 called directly yield the un-seeded programs; F4Range applies the seed itself.)
func All(b Bounds, yield func(Item) bool) {
	cont := true
	y := func(c Item) bool {
		if c.Family != "F4" { // F4Range applies the seed itself
			Concretise(c.P, b.Seed)
		}
		cont = yield(c)
		return cont
	}
	for _, f := range []func(Bounds, func(Item) bool){F1, F2, F3, F4} {
		if cont {
			f(b, y)
		}
	}
}

// ================================================================================================
// F1  jump x nesting
// ================================================================================================

// F1Links are the nine constructs a chain is built from.
var F1Links = []string{"if", "else", "elif", LWhile, LDoWhile, LFor, LForeach, "switch", "call"}

// F1Payloads sit at the innermost position of the chain.
var F1Payloads = []string{"none", "break1", "break2", "continue1", "continue2", "return", "fallthrough", "stacked"}

type f1ctx struct {
	fire    *Expr // int-valued expression: current iteration of the innermost loop (or $t = 1)
	hasLoop bool  // fire is fed by a loop counter
	brk     int   // enclosing loops+switches inside the current function
	inFunc  bool
}

type f1gen struct {
	b     Bounds
	funcs []*Func
}

func isLoopKind(k string) bool {
	return k == LFor || k == LForeach || k == LWhile || k == LDoWhile
}

// chain builds links[i:] around the payload statements produced by inner(ctx); ok=false when the
// payload is not valid in that position.
func (g *f1gen) chain(links []string, i int, c f1ctx, inner func(f1ctx) ([]*Stmt, bool)) ([]*Stmt, bool) {
	if i == len(links) {
		return inner(c)
	}
	d := i + 1
	lo := string(rune('a' + i))
	up := strings.ToUpper(lo)
	t1 := Eq(Var("t"), Int(1))
	t0 := Eq(Var("t"), Int(0))
	wrap := func(in []*Stmt) []*Stmt {
		return append(append([]*Stmt{EchoS(lo)}, in...), EchoS(up))
	}
	k := links[i]
	switch {
	case k == "if":
		in, ok := g.chain(links, i+1, c, inner)
		return []*Stmt{If(t1, wrap(in)...)}, ok
	case k == "else":
		in, ok := g.chain(links, i+1, c, inner)
		return []*Stmt{IfElse(t0, []*Stmt{EchoS("x")}, wrap(in))}, ok
	case k == "elif":
		in, ok := g.chain(links, i+1, c, inner)
		s := If(t0, EchoS("x"))
		s.Elifs = []Elif{{Cond: t1, Body: wrap(in)}}
		s.HasElse, s.Else = true, []*Stmt{EchoS("y")}
		return []*Stmt{s}, ok
	case isLoopKind(k):
		cv := fmt.Sprintf("c%d", d)
		nc := c
		nc.fire, nc.hasLoop, nc.brk = Var(cv), true, c.brk+1
		in, ok := g.chain(links, i+1, nc, inner)
		body := append(append([]*Stmt{Echo(Str(lo), Var(cv))}, in...), EchoS(up))
		return []*Stmt{Loop(k, cv, g.b.Iter, body...)}, ok
	case k == "switch":
		nc := c
		nc.brk = c.brk + 1
		in, ok := g.chain(links, i+1, nc, inner)
		return []*Stmt{Switch(Var("t"),
			Case{Val: Int(0), Body: []*Stmt{EchoS("x"), Break(1)}},
			Case{Val: Int(1), Body: append(wrap(in), Break(1))},
			Case{Body: []*Stmt{EchoS("y")}})}, ok
	case k == "call":
		fn := fmt.Sprintf("f%d", d)
		nc := f1ctx{fire: Var("p"), hasLoop: c.hasLoop, brk: 0, inFunc: true}
		in, ok := g.chain(links, i+1, nc, inner)
		g.funcs = append(g.funcs, &Func{Name: fn, Params: []Param{{Name: "t"}, {Name: "p"}},
			Body: append(wrap(in), Return(Int(7)))})
		rv := fmt.Sprintf("r%d", d)
		return []*Stmt{
			Assign(rv, Match(Var("t"),
				Arm{Conds: []*Expr{Int(0)}, Val: Int(0)},
				Arm{Conds: []*Expr{Int(1)}, Val: Call(fn, Var("t"), c.fire)},
				Arm{Val: Int(2)})),
			Echo(Str("r"), Var(rv)),
		}, ok
	}
	panic("bad link " + k)
}

// f1payload returns the variants of one payload: each is a function producing the innermost
// statements.
func f1payload(name string) (variants []string, mk func(variant string, c f1ctx) ([]*Stmt, bool)) {
	jump := func(c f1ctx) (*Stmt, bool) {
		switch name {
		case "break1":
			return Break(1), c.brk >= 1
		case "break2":
			return Break(2), c.brk >= 2
		case "continue1":
			return Continue(1), c.brk >= 1
		case "continue2":
			return Continue(2), c.brk >= 2
		case "return":
			return Return(Int(9)), c.inFunc
		}
		return nil, false
	}
	switch name {
	case "none":
		return []string{"-"}, func(_ string, c f1ctx) ([]*Stmt, bool) { return []*Stmt{EchoS("n")}, true }
	case "fallthrough":
		return []string{"-"}, func(_ string, c f1ctx) ([]*Stmt, bool) {
			return []*Stmt{Switch(c.fire,
				Case{Val: Int(1), Body: []*Stmt{EchoS("A")}},
				Case{Val: Int(2), Body: []*Stmt{EchoS("B"), Break(1)}},
				Case{Val: Int(3), Body: []*Stmt{EchoS("C")}},
				Case{Body: []*Stmt{EchoS("D")}}), EchoS("q")}, true
		}
	case "stacked":
		return []string{"-"}, func(_ string, c f1ctx) ([]*Stmt, bool) {
			return []*Stmt{Switch(c.fire,
				Case{Val: Int(1)},
				Case{Val: Int(2), Body: []*Stmt{EchoS("S"), Break(1)}},
				Case{Body: []*Stmt{EchoS("T")}}), EchoS("q")}, true
		}
	}
	return []string{"g1", "g2", "direct"}, func(v string, c f1ctx) ([]*Stmt, bool) {
		j, ok := jump(c)
		if !ok {
			return nil, false
		}
		switch v {
		case "g1":
			return []*Stmt{EchoS("p"), If(Eq(c.fire, Int(1)), j), EchoS("q")}, true
		case "g2":
			if !c.hasLoop {
				return nil, false
			}
			return []*Stmt{EchoS("p"), If(Eq(c.fire, Int(2)), j), EchoS("q")}, true
		}
		return []*Stmt{EchoS("p"), j}, true
	}
}

// F1 enumerates every chain of length 1..F1Depth over F1Links x payload x variant.
func F1(b Bounds, yield func(Item) bool) {
	links := make([]string, 0, b.F1Depth)
	var rec func(n int) bool
	emit := func() bool {
		for _, pl := range F1Payloads {
			variants, mk := f1payload(pl)
			for _, v := range variants {
				g := &f1gen{b: b}
				body, ok := g.chain(links, 0, f1ctx{fire: Var("t")}, func(c f1ctx) ([]*Stmt, bool) { return mk(v, c) })
				if !ok {
					continue
				}
				p := &Program{Funcs: g.funcs}
				p.Main = append(append([]*Stmt{Assign("t", Int(1))}, body...), EchoS("\n"))
				id := "F1/" + strings.Join(links, ".") + "/" + pl + "/" + v
				if !yield(Item{ID: id, Family: "F1", P: p}) {
					return false
				}
			}
		}
		return true
	}
	rec = func(n int) bool {
		if len(links) == n {
			return emit()
		}
		for _, l := range F1Links {
			links = append(links, l)
			ok := rec(n)
			links = links[:len(links)-1]
			if !ok {
				return false
			}
		}
		return true
	}
	for n := 1; n <= b.F1Depth; n++ {
		if !rec(n) {
			return
		}
	}
}

// ================================================================================================
// F2  functions: parameters/defaults, locals isolation, recursion, static locals, return from
//     inside every construct
// ================================================================================================

func F2(b Bounds, yield func(Item) bool) {
	ok := true
	y := func(id string, p *Program) {
		if ok {
			ok = yield(Item{ID: "F2/" + id, Family: "F2", P: p})
		}
	}
	f2params(y)
	f2nulls(y)
	f2recursion(b, y)
	f2static(b, y)
	f2return(b, y)
	f2isolation(b, y)
}

// arity 0..3 x defaults on any suffix x call arity x argument source; the callee prints and
// overwrites its parameters, the caller prints its own variables afterwards; two calls.
func f2params(y func(string, *Program)) {
	pn := []string{"u", "v", "w"}
	for ar := 0; ar <= 3; ar++ {
		for nd := 0; nd <= ar; nd++ {
			for k := ar - nd; k <= ar; k++ {
				for _, src := range []string{"lit", "same", "other"} {
					if k == 0 && src != "lit" {
						continue
					}
					f := &Func{Name: "f"}
					var body []*Stmt
					sum := Int(0)
					echo := &Stmt{K: SEcho, Args: []*Expr{Str("f")}}
					for i := 0; i < ar; i++ {
						pa := Param{Name: pn[i]}
						if i >= ar-nd {
							pa.Def = Int(5 + i)
						}
						f.Params = append(f.Params, pa)
						echo.Args = append(echo.Args, Str(":"), Var(pn[i]))
						sum = Bin("+", sum, Var(pn[i]))
					}
					body = append(body, echo, Assign("x", Int(40)))
					for i := 0; i < ar; i++ {
						body = append(body, Assign(pn[i], Bin("+", Var(pn[i]), Int(10))))
					}
					body = append(body, Return(Bin("+", sum, Var("x"))))
					f.Body = body
					var main []*Stmt
					names := pn
					if src == "other" {
						names = []string{"m", "n", "o"}
					}
					main = append(main, Assign("x", Int(1)))
					var args []*Expr
					for i := 0; i < k; i++ {
						if src == "lit" {
							args = append(args, Int(i+2))
						} else {
							main = append(main, Assign(names[i], Int(i+2)))
							args = append(args, Var(names[i]))
						}
					}
					after := &Stmt{K: SEcho, Args: []*Expr{Str(" x="), Var("x")}}
					if src != "lit" {
						for i := 0; i < k; i++ {
							after.Args = append(after.Args, Str(","), Var(names[i]))
						}
					}
					after.Args = append(after.Args, Str("\n"))
					for c := 0; c < 2; c++ {
						main = append(main, Assign("r", Call("f", args...)), Echo(Str(" r="), Var("r")), after)
					}
					y(fmt.Sprintf("params/a%d.d%d.k%d.%s", ar, nd, k, src), &Program{Funcs: []*Func{f}, Main: main})
				}
			}
		}
	}
}

// null as an argument value (literal, variable, result of a call) and as a default: an explicitly
// passed null stays null (the default is for *omitted* arguments only); the callee prints every
// parameter through a `=== null` test. Parameter under test first or second, two calls each.
func f2nulls(y func(string, *Program)) {
	show := func(tag, v string) *Stmt {
		return IfElse(Bin("===", Var(v), Null()), []*Stmt{EchoS(tag + "=N ")}, []*Stmt{Echo(Str(tag+"="), Var(v), Str(" "))})
	}
	defs := map[string]*Expr{"nodef": nil, "def5": Int(5), "defnull": Null()}
	for _, dn := range []string{"nodef", "def5", "defnull"} {
		for _, arg := range []string{"omitted", "int", "null", "nullvar", "intvar", "call-noreturn", "call-returnnull", "call-returnint"} {
			if arg == "omitted" && defs[dn] == nil {
				continue
			}
			for _, pos := range []string{"first", "second"} {
				if pos == "first" && arg == "omitted" {
					continue // an omitted first argument needs named arguments: not in the core
				}
				p := &Program{}
				var pre []*Stmt
				var a *Expr
				switch arg {
				case "int":
					a = Int(3)
				case "null":
					a = Null()
				case "nullvar":
					pre, a = []*Stmt{Assign("n", Null())}, Var("n")
				case "intvar":
					pre, a = []*Stmt{Assign("n", Int(4))}, Var("n")
				case "call-noreturn":
					p.Funcs = append(p.Funcs, &Func{Name: "g", Body: []*Stmt{Assign("z", Int(1))}})
					a = Call("g")
				case "call-returnnull":
					p.Funcs = append(p.Funcs, &Func{Name: "g", Body: []*Stmt{Return(Null())}})
					a = Call("g")
				case "call-returnint":
					p.Funcs = append(p.Funcs, &Func{Name: "g", Body: []*Stmt{Return(Int(6))}})
					a = Call("g")
				}
				fn := &Func{Name: "f"}
				var args []*Expr
				if pos == "first" {
					fn.Params = []Param{{Name: "u", Def: copyExpr(defs[dn])}, {Name: "v", Def: Int(8)}}
					args = []*Expr{a}
				} else {
					fn.Params = []Param{{Name: "u"}, {Name: "v", Def: copyExpr(defs[dn])}}
					args = []*Expr{Int(1)}
					if a != nil {
						args = append(args, a)
					}
				}
				fn.Body = []*Stmt{show("u", "u"), show("v", "v"), Assign("u", Int(0)), Assign("v", Int(0)), Return(Int(2))}
				p.Funcs = append(p.Funcs, fn)
				p.Main = append(p.Main, pre...)
				for i := 0; i < 2; i++ {
					p.Main = append(p.Main, Assign("r", Call("f", args...)), Echo(Str("r"), Var("r"), Str(";")))
				}
				if arg == "nullvar" {
					p.Main = append(p.Main, show("n", "n"))
				}
				p.Main = append(p.Main, EchoS("\n"))
				y(fmt.Sprintf("nulls/%s.%s.%s", dn, arg, pos), p)
			}
		}
	}
}

// sites wraps a statement list into each construct; used for "recursive call from inside ..." and
// "return from inside ...".
var f2Sites = []string{"plain", "if", "else", "elif", LWhile, LDoWhile, LFor, LForeach, "switch"}

func f2wrap(site string, cv string, iter int, t *Expr, in []*Stmt) []*Stmt {
	switch site {
	case "plain":
		return in
	case "if":
		return []*Stmt{If(Bin(">=", t, Int(0)), in...)}
	case "else":
		return []*Stmt{IfElse(Bin("<", t, Int(0)), []*Stmt{EchoS("x")}, in)}
	case "elif":
		s := If(Bin("<", t, Int(0)), EchoS("x"))
		s.Elifs = []Elif{{Cond: Bin(">=", t, Int(0)), Body: in}}
		s.HasElse, s.Else = true, []*Stmt{EchoS("y")}
		return []*Stmt{s}
	case "switch":
		return []*Stmt{Switch(Int(1),
			Case{Val: Int(0), Body: []*Stmt{EchoS("x"), Break(1)}},
			Case{Val: Int(1), Body: append(append([]*Stmt{}, in...), Break(1))},
			Case{Body: []*Stmt{EchoS("y")}})}
	}
	body := append([]*Stmt{Echo(Str("["), Var(cv))}, in...)
	body = append(body, EchoS("]"))
	return []*Stmt{Loop(site, cv, iter, body...)}
}

func f2recursion(b Bounds, y func(string, *Program)) {
	for depth := 1; depth <= 3; depth++ {
		for _, shape := range []string{"pre", "post", "both"} {
			for _, useRet := range []bool{false, true} {
				for _, site := range f2Sites {
					call := Call("f", Bin("-", Var("d"), Int(1)))
					var rec []*Stmt
					if useRet {
						rec = []*Stmt{Assign("s", Bin("+", Var("s"), call))}
					} else {
						rec = []*Stmt{ExprS(call)}
					}
					guarded := []*Stmt{If(Bin(">", Var("d"), Int(0)), f2wrap(site, "c", b.Iter, Var("d"), rec)...)}
					body := []*Stmt{Assign("loc", Bin("*", Var("d"), Int(10))), Assign("s", Var("d"))}
					if shape != "post" {
						body = append(body, Echo(Str("<"), Var("d")))
					}
					body = append(body, guarded...)
					if shape != "pre" {
						body = append(body, Echo(Str(">"), Var("d"), Str(":"), Var("loc")))
					}
					body = append(body, Return(Var("s")))
					f := &Func{Name: "f", Params: []Param{{Name: "d"}}, Body: body}
					main := []*Stmt{Assign("d", Int(7)), Assign("loc", Int(8)), Assign("s", Int(9)),
						Assign("r", Call("f", Int(depth))),
						Echo(Str(" r="), Var("r"), Str(" "), Var("d"), Var("loc"), Var("s"), Str("\n"))}
					y(fmt.Sprintf("rec/d%d.%s.ret%v.%s", depth, shape, useRet, site), &Program{Funcs: []*Func{f}, Main: main})
				}
			}
		}
	}
}

func f2update(form, v string) *Stmt {
	switch form {
	case "post++", "pre++":
		return IncDec(v, form)
	case "+=":
		return OpAssign(v, "+=", Int(1))
	}
	return Assign(v, Bin("+", Var(v), Int(1)))
}

var f2Updates = []string{"post++", "pre++", "+=", "=+"}

func f2static(b Bounds, y func(string, *Program)) {
	exits := append([]string{"fall"}, f2Sites...)
	for _, form := range f2Updates {
		for _, exit := range exits {
			for _, two := range []bool{false, true} {
				mk := func(name string, start int) *Func {
					body := []*Stmt{Static("n", Int(start)), f2update(form, "n")}
					if exit == "fall" {
						body = append(body, Echo(Str(name), Var("n"), Str(";")))
					} else {
						body = append(body, f2wrap(exit, "c", b.Iter, Var("n"), []*Stmt{Return(Var("n"))})...)
						body = append(body, Return(Int(99)))
					}
					return &Func{Name: name, Body: body}
				}
				p := &Program{Funcs: []*Func{mk("f", 0)}}
				if two {
					p.Funcs = append(p.Funcs, mk("g", 50))
				}
				p.Main = append(p.Main, Assign("n", Int(7)))
				for i := 0; i < 3; i++ {
					for _, f := range p.Funcs {
						if exit == "fall" {
							p.Main = append(p.Main, ExprS(Call(f.Name)))
						} else {
							p.Main = append(p.Main, Assign("r", Call(f.Name)), Echo(Var("r"), Str(";")))
						}
					}
				}
				p.Main = append(p.Main, Echo(Str(" n="), Var("n"), Str("\n")))
				y(fmt.Sprintf("static/%s.%s.two%v", form, exit, two), p)
			}
		}
	}
	// the static declaration nested inside each kind of construct (a declaration is found wherever it
	// is written, not only at the top of the function body)
	places := []string{"if", "else", "elseif", LFor, LWhile, LDoWhile, LForeach, "switch-case", "switch-default", "if-in-loop", "switch-in-if"}
	for _, place := range places {
		for _, form := range []string{"post++", "=+"} {
			inner := []*Stmt{Static("n", Int(0)), f2update(form, "n"), Echo(Str("f"), Var("n"), Str(";"))}
			var body []*Stmt
			switch place {
			case "if":
				body = []*Stmt{If(Bool(true), inner...)}
			case "else":
				body = []*Stmt{IfElse(Bool(false), []*Stmt{EchoS("x")}, inner)}
			case "elseif":
				st := If(Bool(false), EchoS("x"))
				st.Elifs = []Elif{{Cond: Bool(true), Body: inner}}
				body = []*Stmt{st}
			case LFor, LWhile, LDoWhile, LForeach:
				body = []*Stmt{Loop(place, "c", 1, inner...)}
			case "switch-case":
				body = []*Stmt{Switch(Int(1), Case{Val: Int(0), Body: []*Stmt{EchoS("x"), Break(1)}}, Case{Val: Int(1), Body: append(append([]*Stmt{}, inner...), Break(1))})}
			case "switch-default":
				body = []*Stmt{Switch(Int(5), Case{Val: Int(0), Body: []*Stmt{EchoS("x"), Break(1)}}, Case{Body: append(append([]*Stmt{}, inner...), Break(1))})}
			case "if-in-loop":
				body = []*Stmt{Loop(LFor, "c", 2, If(Bool(true), inner...))}
			case "switch-in-if":
				body = []*Stmt{If(Bool(true), Switch(Int(1), Case{Val: Int(1), Body: append(append([]*Stmt{}, inner...), Break(1))}))}
			}
			f := &Func{Name: "f", Body: body}
			main := []*Stmt{Assign("n", Int(7)), ExprS(Call("f")), ExprS(Call("f")), ExprS(Call("f")), Echo(Str(" n="), Var("n"), Str("\n"))}
			y(fmt.Sprintf("static-in/%s.%s", place, form), &Program{Funcs: []*Func{f}, Main: main})
		}
	}
	// one static cell shared by all activations of a recursive function
	for _, form := range f2Updates {
		for _, when := range []string{"pre", "post"} {
			body := []*Stmt{Static("n", Int(0)), f2update(form, "n")}
			rec := If(Bin(">", Var("d"), Int(1)), ExprS(Call("f", Bin("-", Var("d"), Int(1)))))
			if when == "pre" {
				body = append(body, Echo(Str("<"), Var("n")), rec)
			} else {
				body = append(body, rec, Echo(Str(">"), Var("n")))
			}
			f := &Func{Name: "f", Params: []Param{{Name: "d"}}, Body: body}
			main := []*Stmt{ExprS(Call("f", Int(3))), ExprS(Call("f", Int(2))), EchoS("\n")}
			y(fmt.Sprintf("static-rec/%s.%s", form, when), &Program{Funcs: []*Func{f}, Main: main})
		}
	}
}

// return from inside every chain of <= F2Depth constructs, fired on iteration 1 or 2, with the
// function called plainly or from inside a caller loop of each kind.
func f2return(b Bounds, y func(string, *Program)) {
	inner := f2Sites[1:]
	callers := []string{"plain", LWhile, LDoWhile, LFor, LForeach}
	var chains [][]string
	for _, a := range inner {
		chains = append(chains, []string{a})
	}
	if b.F2Depth >= 2 {
		for _, a := range inner {
			for _, c := range inner {
				chains = append(chains, []string{a, c})
			}
		}
	}
	for _, ch := range chains {
		hasLoop := false
		for _, l := range ch {
			hasLoop = hasLoop || isLoopKind(l)
		}
		for fire := 1; fire <= 2; fire++ {
			if fire == 2 && !hasLoop {
				continue
			}
			for _, caller := range callers {
				fireVar := Var("z")
				body := []*Stmt{}
				// innermost: guarded return
				var build func(i int, fv *Expr) []*Stmt
				build = func(i int, fv *Expr) []*Stmt {
					if i == len(ch) {
						return []*Stmt{EchoS("p"), If(Eq(fv, Int(fire)), Return(Bin("+", Bin("*", Var("z"), Int(10)), fv))), EchoS("q")}
					}
					cv := fmt.Sprintf("c%d", i+1)
					nfv := fv
					if isLoopKind(ch[i]) {
						nfv = Var(cv)
					}
					return f2wrap(ch[i], cv, b.Iter, Var("z"), build(i+1, nfv))
				}
				body = append(body, EchoS("<"))
				body = append(body, build(0, fireVar)...)
				body = append(body, EchoS(">"), Return(Int(0)))
				f := &Func{Name: "f", Params: []Param{{Name: "z"}}, Body: body}
				var main []*Stmt
				if caller == "plain" {
					main = []*Stmt{Assign("r", Call("f", Int(1))), Echo(Str("="), Var("r"), Str("\n"))}
				} else {
					main = []*Stmt{Loop(caller, "c1", b.Iter,
						Assign("r", Call("f", Var("c1"))), Echo(Str("="), Var("r"), Str(";"), Var("c1"), Str(" "))), EchoS("\n")}
				}
				y(fmt.Sprintf("return/%s.fire%d.from-%s", strings.Join(ch, "."), fire, caller), &Program{Funcs: []*Func{f}, Main: main})
			}
		}
	}
}

// caller and callee use the same variable names, including the same loop counter.
func f2isolation(b Bounds, y func(string, *Program)) {
	for _, outer := range LoopKinds {
		for _, inner := range LoopKinds {
			for _, mod := range []bool{false, true} {
				body := []*Stmt{Loop(inner, "c", b.Iter, Echo(Str("i"), Var("c")), Assign("a", Bin("+", Var("c"), Int(100))))}
				if mod {
					body = append(body, Assign("a", Int(0)), Assign("q", Int(0)))
				}
				body = append(body, Return(Var("a")))
				f := &Func{Name: "f", Params: []Param{{Name: "q"}}, Body: body}
				main := []*Stmt{Assign("a", Int(5)), Assign("q", Int(6)),
					Loop(outer, "c", b.Iter, Echo(Str("o"), Var("c")), Assign("r", Call("f", Var("c"))), Echo(Str("="), Var("r"), Str(","), Var("c"), Var("a"), Var("q"), Str(" "))),
					EchoS("\n")}
				y(fmt.Sprintf("isolation/%s.%s.mod%v", outer, inner, mod), &Program{Funcs: []*Func{f}, Main: main})
			}
		}
	}
}

// ================================================================================================
// F3  integer fast-path nodes and value aliasing: a value flows from a holder H into a slot S, S
//     is mutated through each update form (including the in-place `for` increment), H is observed.
// ================================================================================================

// F3Mutations: how the slot is changed.
var F3Mutations = []string{"for:post++", "for:pre++", "for:+=", "for:=+", "post++", "pre++", "post--", "pre--", "+=", "-=", "*=", "=+", "=*"}

// f3mutate returns statements changing $v (an int >= 0) and printing it.
func f3mutate(m, v string) []*Stmt {
	if strings.HasPrefix(m, "for:") {
		l := Loop(LFor, v, 2, Echo(Str("i"), Var(v)))
		l.NoInit = true
		l.Step = strings.TrimPrefix(m, "for:")
		if l.Step == "post++" {
			l.Step = ""
		}
		return []*Stmt{l, Echo(Str("|"), Var(v))}
	}
	var s *Stmt
	switch m {
	case "post++", "pre++", "post--", "pre--":
		s = IncDec(v, m)
	case "+=", "-=":
		s = OpAssign(v, m, Int(1))
	case "*=":
		s = OpAssign(v, m, Int(3))
	case "=+":
		s = Assign(v, Bin("+", Var(v), Int(1)))
	case "=*":
		s = Assign(v, Bin("*", Var(v), Int(3)))
	}
	return []*Stmt{s, Echo(Str("|"), Var(v))}
}

// F3Sources: where the slot's value came from.
var F3Sources = []string{"copy", "copy-lit", "plus0", "param-var", "param-lit", "param-default", "return-lit", "return-local",
	"return-static", "foreach-val", "foreach-key", "foreach-lit", "match-arm", "static-cell", "loop-counter"}

func F3(b Bounds, yield func(Item) bool) {
	ok := true
	y := func(id string, p *Program) {
		if ok {
			ok = yield(Item{ID: "F3/" + id, Family: "F3", P: p})
		}
	}
	for _, src := range F3Sources {
		for _, m := range F3Mutations {
			mut := func(v string) []*Stmt { return f3mutate(m, v) }
			p := &Program{}
			nl := EchoS("\n")
			switch src {
			case "copy": // $j = $i; mutate $j; observe $i
				p.Main = append([]*Stmt{Assign("i", Int(1)), Assign("j", Var("i"))}, mut("j")...)
				p.Main = append(p.Main, Echo(Str(" i="), Var("i")), nl)
			case "copy-lit": // executed twice inside a loop: the literal must still be 1
				p.Main = []*Stmt{Loop(LForeach, "o", 2, append(append([]*Stmt{Assign("j", Int(1))}, mut("j")...), EchoS(";"))...), nl}
			case "plus0":
				p.Main = append([]*Stmt{Assign("i", Int(1)), Assign("j", Bin("+", Var("i"), Int(0)))}, mut("j")...)
				p.Main = append(p.Main, Echo(Str(" i="), Var("i")), nl)
			case "param-var": // callee mutates its parameter; caller's variable must keep its value
				p.Funcs = []*Func{{Name: "f", Params: []Param{{Name: "q"}}, Body: append(mut("q"), Return(Var("q")))}}
				p.Main = []*Stmt{Assign("i", Int(1)), Assign("r", Call("f", Var("i"))), Echo(Str(" r="), Var("r"), Str(" i="), Var("i")),
					Assign("r", Call("f", Var("i"))), Echo(Str(" r="), Var("r"), Str(" i="), Var("i")), nl}
			case "param-lit":
				p.Funcs = []*Func{{Name: "f", Params: []Param{{Name: "q"}}, Body: append(mut("q"), Return(Var("q")))}}
				p.Main = []*Stmt{Loop(LForeach, "o", 2, Assign("r", Call("f", Int(1))), Echo(Str(" r="), Var("r"), Str(";"))), nl}
			case "param-default":
				p.Funcs = []*Func{{Name: "f", Params: []Param{{Name: "q", Def: Int(1)}}, Body: append(mut("q"), Return(Var("q")))}}
				p.Main = []*Stmt{Assign("r", Call("f")), Echo(Str(" r="), Var("r"), Str(";")), Assign("r", Call("f")), Echo(Str(" r="), Var("r"), Str(";")), nl}
			case "return-lit":
				p.Funcs = []*Func{{Name: "g", Body: []*Stmt{Return(Int(1))}}}
				p.Main = []*Stmt{Loop(LForeach, "o", 2, append(append([]*Stmt{Assign("j", Call("g"))}, mut("j")...), EchoS(";"))...), nl}
			case "return-local":
				p.Funcs = []*Func{{Name: "g", Body: []*Stmt{Assign("k", Int(1)), Return(Var("k"))}}}
				p.Main = []*Stmt{Loop(LForeach, "o", 2, append(append([]*Stmt{Assign("j", Call("g"))}, mut("j")...), EchoS(";"))...), nl}
			case "return-static": // g returns its static cell's value; mutating the copy must not change the cell
				p.Funcs = []*Func{{Name: "g", Body: []*Stmt{Static("k", Int(1)), Return(Var("k"))}}}
				p.Main = []*Stmt{Loop(LForeach, "o", 2, append(append([]*Stmt{Assign("j", Call("g"))}, mut("j")...), EchoS(";"))...), nl}
			case "foreach-val": // mutating the loop variable must not write through to the array
				p.Main = []*Stmt{Assign("arr", Arr(Int(1), Int(1)))}
				l := Loop(LForeach, "v", 2, append(mut("v"), EchoS(";"))...)
				l.Subj = Var("arr")
				l2 := Loop(LForeach, "w", 2, Echo(Str(" e"), Var("w")))
				l2.Subj = Var("arr")
				p.Main = append(p.Main, l, l2, nl)
			case "foreach-key":
				l := Loop(LForeach, "v", 2, append(mut("kk"), Echo(Str(";"), Var("v")))...)
				l.Key = "kk"
				l.Subj = Arr(Int(1), Int(1))
				p.Main = []*Stmt{l, nl}
			case "foreach-lit": // the array literal is evaluated twice
				l := Loop(LForeach, "v", 2, append(mut("v"), EchoS(";"))...)
				l.Subj = Arr(Int(1), Int(1))
				p.Main = []*Stmt{Loop(LForeach, "o", 2, l, EchoS("/")), nl}
			case "match-arm":
				p.Main = []*Stmt{Loop(LForeach, "o", 2, append(append([]*Stmt{
					Assign("j", Match(Var("o"), Arm{Conds: []*Expr{Int(1), Int(2)}, Val: Int(1)}, Arm{Val: Int(5)}))}, mut("j")...), EchoS(";"))...), nl}
			case "static-cell": // here the mutation MUST persist: $n is the static cell itself
				p.Funcs = []*Func{{Name: "f", Body: append(append([]*Stmt{Static("n", Int(1))}, mut("n")...), Return(Var("n")))}}
				p.Main = []*Stmt{Assign("r", Call("f")), Echo(Str(" r="), Var("r"), Str(";")), Assign("r", Call("f")), Echo(Str(" r="), Var("r"), Str(";")), nl}
			case "loop-counter": // copy of a running `for` counter taken inside the body, observed after the next increment
				body := append([]*Stmt{Assign("j", Var("c")), Echo(Str("c"), Var("c"))}, mut("j")...)
				body = append(body, Echo(Str(","), Var("c"), Str(";")))
				p.Main = []*Stmt{Loop(LFor, "c", 3, body...), Echo(Str(" j="), Var("j")), nl}
			}
			y("alias/"+src+"/"+m, p)
		}
	}
	f3counterWrites(y)
	// VarFastAssign: $d = $l OP $r / $d = $s with every operand form, destination aliasing an
	// operand, and the destination slot previously holding each type.
	for _, op := range []string{"copy", "*", "+"} {
		for _, lk := range []string{"var", "lit"} {
			for _, rk := range []string{"var", "lit"} {
				if op == "copy" && rk == "lit" {
					continue
				}
				for _, dst := range []string{"d", "l", "r"} {
					if (dst == "l" && lk == "lit") || (dst == "r" && (rk == "lit" || op == "copy")) {
						continue
					}
					for _, prev := range []string{"unset", "same", "other", "str", "bool"} {
						if prev != "unset" && dst != "d" {
							continue
						}
						for _, m := range []string{"for:post++", "post++", "=+"} {
							lv, rv := 2, 3
							var main []*Stmt
							main = append(main, Assign("l", Int(lv)), Assign("r", Int(rv)))
							le, re := Var("l"), Var("r")
							if lk == "lit" {
								le = Int(lv)
							}
							if rk == "lit" {
								re = Int(rv)
							}
							var rhs *Expr
							res := lv
							switch op {
							case "copy":
								rhs = le
							case "*":
								rhs, res = Bin("*", le, re), lv*rv
							case "+":
								rhs, res = Bin("+", le, re), lv+rv
							}
							switch prev {
							case "same":
								main = append(main, Assign("d", Int(res)))
							case "other":
								main = append(main, Assign("d", Int(0)))
							case "str":
								main = append(main, Assign("d", Str("s")))
							case "bool":
								main = append(main, Assign("d", Bool(true)))
							}
							// run the assignment twice (second time the slot already holds the result)
							body := []*Stmt{Assign(dst, rhs), Echo(Str("d"), Var(dst))}
							if dst == "d" {
								// mutate $d down to 0.. so the for-mutation (which needs <= 2) applies: use a copy
								body = append(body, Assign("e", Var("d")), OpAssign("e", "-=", Var("d")))
								body = append(body, f3mutate(m, "e")...)
								body = append(body, Echo(Str(" d="), Var("d")))
							}
							body = append(body, Echo(Str(" l="), Var("l"), Str(" r="), Var("r"), Str(";")))
							main = append(main, Loop(LForeach, "o", 2, body...), EchoS("\n"))
							y(fmt.Sprintf("fastassign/%s.%s.%s.dst-%s.prev-%s/%s", op, lk, rk, dst, prev, m), &Program{Main: main})
						}
					}
				}
			}
		}
	}
	// copy of non-int values takes the slow path of the copy node
	for _, kind := range []string{"str", "bool"} {
		for _, prev := range []string{"unset", "int"} {
			var main []*Stmt
			if kind == "str" {
				main = append(main, Assign("s", Str("x")))
			} else {
				main = append(main, Assign("s", Bool(true)))
			}
			if prev == "int" {
				main = append(main, Assign("d", Int(4)))
			}
			main = append(main, Assign("d", Var("s")))
			if kind == "str" {
				main = append(main, Echo(Var("d")), Assign("s", Str("y")), Echo(Var("d"), Var("s")), EchoS("\n"))
			} else {
				main = append(main, IfElse(Var("d"), []*Stmt{EchoS("T")}, []*Stmt{EchoS("F")}), Assign("s", Bool(false)),
					IfElse(Var("d"), []*Stmt{EchoS("T")}, []*Stmt{EchoS("F")}), EchoS("\n"))
			}
			y(fmt.Sprintf("fastassign/copy-%s.prev-%s", kind, prev), &Program{Main: main})
		}
	}
}

// F3CounterActions: what the body does to the counter of the loop it runs in. Every program is
// int-only and terminates by construction: forward jumps fire once because the counter only grows
// afterwards, the backward jump is guarded by a once-flag, `!=` headers are never jumped over.
var F3CounterActions = []string{"ahead=", "ahead+=", "ahead++", "back-once=", "back-once-=", "beyond", "every++"}

// f3counterBody returns the body for an action on counter $v of a loop with bound 8 (compared by
// cmp), the init value and whether the action applies.
func f3counterBody(action, v, cmp string) (body []*Stmt, init int) {
	at := func(k int, then ...*Stmt) *Stmt { return If(Eq(Var(v), Int(k)), then...) }
	init = 1
	body = []*Stmt{Echo(Var(v), Str(" "))}
	switch action {
	case "ahead=":
		body = append(body, at(3, Assign(v, Int(5))))
	case "ahead+=":
		body = append(body, at(3, OpAssign(v, "+=", Int(2))))
	case "ahead++":
		body = append(body, at(3, IncDec(v, "post++")))
	case "back-once=":
		body = append(body, at(4, If(Eq(Var("once"), Int(0)), Assign("once", Int(1)), Assign(v, Int(2)))))
	case "back-once-=":
		body = append(body, at(4, If(Eq(Var("once"), Int(0)), Assign("once", Int(1)), OpAssign(v, "-=", Int(2)))))
	case "beyond":
		if cmp == "!=" {
			body = append(body, at(3, Assign(v, Int(7)))) // lands exactly on the bound after the step
		} else {
			body = append(body, at(3, Assign(v, Int(50))))
		}
	case "every++":
		init = 0 // 0,2,4,6 then 8: hits the bound exactly, also for `!=`
		body = append(body, IncDec(v, "post++"))
	}
	return
}

func f3counterWrites(y func(string, *Program)) {
	const bound = 8
	for _, cmp := range []string{"<", "<=", "!="} {
		for _, bk := range []string{"lit", "var"} {
			for _, step := range []string{"post++", "pre++", "+=", "=+"} {
				for _, action := range F3CounterActions {
					body, init := f3counterBody(action, "i", cmp)
					l := Loop(LFor, "i", bound, body...)
					l.Cmp, l.Free, l.Init = cmp, true, Int(init)
					if step != "post++" {
						l.Step = step
					}
					main := []*Stmt{Assign("once", Int(0))}
					if bk == "var" {
						l.BoundVar = "n"
						main = append(main, Assign("n", Int(bound)))
					}
					main = append(main, l, Echo(Str("|"), Var("i"), Str("\n")))
					y(fmt.Sprintf("counter-write/for.%s.%s.%s/%s", cmp, bk, step, action), &Program{Main: main})
				}
			}
		}
	}
	// while / do-while counters ($v = 0; while ($v < N) { $v++; body }): the body sees 1..N
	for _, kind := range []string{LWhile, LDoWhile} {
		for _, bk := range []string{"lit", "var"} {
			for _, action := range F3CounterActions {
				if action == "every++" {
					continue // the header increment is already a body statement here
				}
				body, _ := f3counterBody(action, "i", "<")
				l := Loop(kind, "i", bound, body...)
				l.Free = true
				main := []*Stmt{Assign("once", Int(0))}
				if bk == "var" {
					l.BoundVar = "n"
					main = append(main, Assign("n", Int(bound)))
				}
				main = append(main, l, Echo(Str("|"), Var("i"), Str("\n")))
				y(fmt.Sprintf("counter-write/%s.%s/%s", kind, bk, action), &Program{Main: main})
			}
		}
	}
	// foreach key / value variables: writing them must not disturb the iteration
	for _, target := range []string{"v", "k"} {
		for _, m := range []string{"=", "+=", "post++", "=+"} {
			var w *Stmt
			switch m {
			case "=":
				w = Assign(target, Int(9))
			case "+=":
				w = OpAssign(target, "+=", Int(4))
			case "post++":
				w = IncDec(target, "post++")
			case "=+":
				w = Assign(target, Bin("+", Var(target), Int(3)))
			}
			l := Loop(LForeach, "v", 3, Echo(Var("k"), Str(":"), Var("v"), Str(" ")), w, Echo(Var(target), Str(" ")))
			l.Key = "k"
			l.Subj = Arr(Int(5), Int(6), Int(7))
			y(fmt.Sprintf("counter-write/foreach.%s/%s", target, m), &Program{Main: []*Stmt{l, Echo(Str("|"), Var("k"), Var("v"), Str("\n"))}})
		}
	}
}

// ================================================================================================
// F4  statement lists: $a = 0; $b = 1; then every sequence of F4Len statements of the alphabet,
//     then `echo $a, ",", $b`.
// ================================================================================================

// F4Alphabet returns the statement alphabet (fresh ASTs on every call).
func F4Alphabet(b Bounds) (names []string, mk []func() *Stmt) {
	add := func(n string, f func() *Stmt) { names = append(names, n); mk = append(mk, f) }
	vars := [][2]string{{"a", "b"}, {"b", "a"}}
	for _, vo := range vars {
		v, o := vo[0], vo[1]
		for _, lit := range []int{0, 1, 2} {
			lit := lit
			add(fmt.Sprintf("%s=%d", v, lit), func() *Stmt { return Assign(v, Int(lit)) })
		}
		add(v+"="+o, func() *Stmt { return Assign(v, Var(o)) })
		add(v+"="+v+"+"+o, func() *Stmt { return Assign(v, Bin("+", Var(v), Var(o))) })
		add(v+"="+o+"+1", func() *Stmt { return Assign(v, Bin("+", Var(o), Int(1))) })
		add(v+"="+v+"*2", func() *Stmt { return Assign(v, Bin("*", Var(v), Int(2))) })
		add(v+"="+v+"*"+o, func() *Stmt { return Assign(v, Bin("*", Var(v), Var(o))) })
		add(v+"+=1", func() *Stmt { return OpAssign(v, "+=", Int(1)) })
		add(v+"+="+o, func() *Stmt { return OpAssign(v, "+=", Var(o)) })
		add(v+"-=1", func() *Stmt { return OpAssign(v, "-=", Int(1)) })
		add(v+"*=2", func() *Stmt { return OpAssign(v, "*=", Int(2)) })
		add(v+"++", func() *Stmt { return IncDec(v, "post++") })
		add("echo "+v, func() *Stmt { return Echo(Var(v), Str(";")) })
	}
	inner := func() (n []string, f []func() *Stmt) {
		a := func(name string, g func() *Stmt) { n = append(n, name); f = append(f, g) }
		a("a=0", func() *Stmt { return Assign("a", Int(0)) })
		a("a=b", func() *Stmt { return Assign("a", Var("b")) })
		a("a=a+b", func() *Stmt { return Assign("a", Bin("+", Var("a"), Var("b"))) })
		a("a+=1", func() *Stmt { return OpAssign("a", "+=", Int(1)) })
		a("b+=a", func() *Stmt { return OpAssign("b", "+=", Var("a")) })
		a("a*=2", func() *Stmt { return OpAssign("a", "*=", Int(2)) })
		a("b++", func() *Stmt { return IncDec("b", "post++") })
		a("b-=1", func() *Stmt { return OpAssign("b", "-=", Int(1)) })
		a("echo a", func() *Stmt { return Echo(Var("a"), Str(";")) })
		a("echo b", func() *Stmt { return Echo(Var("b"), Str(";")) })
		return
	}
	conds := []struct {
		n string
		f func() *Expr
	}{
		{"a==0", func() *Expr { return Eq(Var("a"), Int(0)) }},
		{"a<b", func() *Expr { return Bin("<", Var("a"), Var("b")) }},
		{"a!=b", func() *Expr { return Bin("!=", Var("a"), Var("b")) }},
		{"b<=1", func() *Expr { return Bin("<=", Var("b"), Int(1)) }},
	}
	in, imk := inner()
	for _, c := range conds {
		for i := range in {
			c, i := c, i
			add("if("+c.n+"){"+in[i]+"}", func() *Stmt { return If(c.f(), imk[i]()) })
			add("if("+c.n+"){"+in[i]+"}else{b=2}", func() *Stmt {
				return IfElse(c.f(), []*Stmt{imk[i]()}, []*Stmt{Assign("b", Int(2))})
			})
		}
	}
	for _, k := range b.F4Loops {
		for i := range in {
			k, i := k, i
			add(k+"{"+in[i]+"}", func() *Stmt { return Loop(k, "c", 2, imk[i]()) })
		}
		k := k
		add(k+"{a+=c}", func() *Stmt { return Loop(k, "c", 2, OpAssign("a", "+=", Var("c"))) })
	}
	return
}

func F4(b Bounds, yield func(Item) bool) { F4Range(b, 0, F4Count(b), yield) }

// F4Count is the number of F4 programs: |alphabet|^F4Len.
func F4Count(b Bounds) int {
	names, _ := F4Alphabet(b)
	n := 1
	for i := 0; i < b.F4Len; i++ {
		n *= len(names)
	}
	return n
}

// F4Range streams the F4 programs with index in [from, to) (index = the statement sequence read
// as a base-|alphabet| number), so that shards can start anywhere without enumerating a prefix.
func F4Range(b Bounds, from, to int, yield func(Item) bool) {
	names, mk := F4Alphabet(b)
	n := len(names)
	idx := make([]int, b.F4Len)
	for at := from; at < to; at++ {
		x := at
		for k := len(idx) - 1; k >= 0; k-- {
			idx[k] = x % n
			x /= n
		}
		p := &Program{Main: []*Stmt{Assign("a", Int(0)), Assign("b", Int(1))}}
		var parts []string
		for pos, i := range idx {
			s := mk[i]()
			if s.K == SLoop {
				s.Var = fmt.Sprintf("c%d", pos+1) // distinct counters per position
				renameVarIn(s.Body, "c", s.Var)
			}
			p.Main = append(p.Main, s)
			parts = append(parts, names[i])
		}
		p.Main = append(p.Main, Echo(Str(" "), Var("a"), Str(","), Var("b"), Str("\n")))
		Concretise(p, b.Seed)
		if !yield(Item{ID: "F4/" + strings.Join(parts, ";"), Family: "F4", P: p}) {
			return
		}
	}
}

func renameVarIn(ss []*Stmt, from, to string) {
	tmp := &Program{Main: ss}
	Rename(tmp, func(s string) string {
		if s == from {
			return to
		}
		return s
	}, nil, nil)
}

// Count returns the number of cases per family inside the bounds (by enumeration).
func Count(b Bounds) map[string]int {
	m := map[string]int{}
	All(b, func(c Item) bool { m[c.Family]++; return true })
	return m
}
