package progen

import (
	"fmt"
	"sort"
	"strings"
)

// Signature abstracts a (reduced) program to the sorted set of control-flow features it still
// contains. It is what finding keys are made of: many 1-minimal programs of one defect (the jump
// guarded by an `if` or not, `$a += 1` or `$a = $a + 1`, the victim a caller variable or a default
// value) share a signature, while a defect in another construct yields another one.
//
//	..>for>continue2    every break/continue/return with the innermost loop/switch of its function
//	                    that encloses it; `..>` when that construct is itself nested in another one
//	                    (`if` is transparent and not listed). The innermost construct is the one
//	                    that has to act on the jump first; which constructs lie further out is
//	                    deliberately not part of the signature.
//	for foreach while dowhile switch   constructs present — only listed for programs without any
//	                    break/continue/return (otherwise the jump tokens carry the information)
//	fallthrough         a switch has a case that runs into the next one
//	elseif else match   an if uses them / a match expression is present
//	call recursion      user functions are called / call themselves
//	static defaults     static locals / parameter defaults are used
//	null                the null literal occurs
//	counter-write       a statement writes the counter (or foreach variable) of a loop around it
func Signature(p *Program) []string {
	set, constructs, jumps := features(p)
	if !jumps {
		for k := range constructs {
			set[k] = true
		}
	}
	out := make([]string, 0, len(set))
	for k := range set {
		out = append(out, k)
	}
	sort.Strings(out)
	return out
}

func features(p *Program) (set, constructs map[string]bool, jumps bool) {
	set = map[string]bool{}
	constructs = map[string]bool{}
	var ex func(e *Expr, fn string)
	ex = func(e *Expr, fn string) {
		if e == nil {
			return
		}
		switch e.K {
		case ECall:
			set["call"] = true
			if e.S == fn {
				set["recursion"] = true
			}
		case EMatch:
			set["match"] = true
		case ENull:
			set["null"] = true
		}
		for _, a := range e.A {
			ex(a, fn)
		}
		for _, arm := range e.Arms {
			ex(arm.Val, fn)
			for _, c := range arm.Conds {
				ex(c, fn)
			}
		}
	}
	var counters []string // counters / foreach variables of the enclosing loops
	var st func(ss []*Stmt, path string, fn string)
	st = func(ss []*Stmt, path string, fn string) {
		for _, s := range ss {
			switch s.K {
			case SAssign, SOpAssign, SIncDec:
				for _, c := range counters {
					if c == s.Var {
						set["counter-write"] = true
					}
				}
			}
			ex(s.E, fn)
			ex(s.Init, fn)
			ex(s.Subj, fn)
			for _, a := range s.Args {
				ex(a, fn)
			}
			switch s.K {
			case SStatic:
				set["static"] = true
			case SBreak, SContinue:
				set[fmt.Sprintf("%s%s%d", shortPath(path), s.K, s.N)] = true
				jumps = true
			case SReturn:
				set[shortPath(path)+"return"] = true
				jumps = true
			case SIf:
				st(s.Then, path, fn)
				for _, e := range s.Elifs {
					set["elseif"] = true
					ex(e.Cond, fn)
					st(e.Body, path, fn)
				}
				if s.HasElse {
					set["else"] = true
					st(s.Else, path, fn)
				}
			case SLoop:
				constructs[s.Loop] = true
				n := len(counters)
				counters = append(counters, s.Var)
				if s.Key != "" {
					counters = append(counters, s.Key)
				}
				st(s.Body, path+s.Loop+">", fn)
				counters = counters[:n]
			case SSwitch:
				constructs["switch"] = true
				for i, c := range s.Cases {
					ex(c.Val, fn)
					if i < len(s.Cases)-1 && !endsInJump(c.Body) {
						set["fallthrough"] = true
					}
					st(c.Body, path+"switch>", fn)
				}
			}
		}
	}
	for _, f := range p.Funcs {
		for _, pa := range f.Params {
			if pa.Def != nil {
				set["defaults"] = true
				ex(pa.Def, f.Name)
			}
		}
		counters = nil
		st(f.Body, "", f.Name)
	}
	st(p.Main, "", "")
	return
}

// shortPath keeps the innermost construct of "a>b>c>" and marks deeper nesting with "..>".
func shortPath(path string) string {
	parts := strings.Split(strings.TrimSuffix(path, ">"), ">")
	if path == "" {
		return ""
	}
	if len(parts) == 1 {
		return parts[0] + ">"
	}
	return "..>" + parts[len(parts)-1] + ">"
}

func endsInJump(ss []*Stmt) bool {
	if len(ss) == 0 {
		return false
	}
	switch ss[len(ss)-1].K {
	case SBreak, SContinue, SReturn:
		return true
	}
	return false
}

// flagTokens are the signature tokens that name a phenomenon rather than a position.
var flagTokens = map[string]bool{"fallthrough": true, "static": true, "recursion": true, "defaults": true,
	"elseif": true, "else": true, "match": true, "call": true, "switch": true, "null": true, "counter-write": true}

// Flags returns the phenomenon tokens of Signature(p). Reducers should only accept candidates whose
// flags are a subset of the original's: deleting the `break` that ends a case, for instance,
// turns any failing program containing a switch into a fall-through program, and the reduction
// would slide from the defect under study into another one.
func Flags(p *Program) map[string]bool {
	out := map[string]bool{}
	set, constructs, _ := features(p)
	for t := range set {
		if flagTokens[t] {
			out[t] = true
		}
	}
	if constructs["switch"] {
		out["switch"] = true
	}
	return out
}

// FlagsWithin reports whether Flags(p) is a subset of allowed.
func FlagsWithin(p *Program, allowed map[string]bool) bool {
	for t := range Flags(p) {
		if !allowed[t] {
			return false
		}
	}
	return true
}
