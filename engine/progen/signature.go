package progen

import (
	"fmt"
	"sort"
)

// Signature abstracts a (reduced) program to the sorted set of control-flow features it still
// contains. It is what finding keys are made of: many 1-minimal programs of one defect (the jump
// guarded by an `if` or not, `$a += 1` or `$a = $a + 1`, the victim a caller variable or a default
// value) share a signature, while a defect in another construct yields another one.
//
//	for>for>continue2   every break/continue/return with the loops/switches of its function that
//	                    enclose it, outermost first (`if` is transparent and not listed)
//	for foreach while dowhile switch match   constructs present
//	fallthrough         a switch has a case that runs into the next one
//	elseif else         an if uses them
//	call recursion      user functions are called / call themselves
//	static defaults     static locals / parameter defaults are used
func Signature(p *Program) []string {
	set := map[string]bool{}
	var ex func(e *Expr, fn string)
	ex = func(e *Expr, fn string) {
		if e == nil {
			return
		}
		switch e.K {
		case ECall:
			set["call"] = true
			if e.S == fn {
				set["recursion"] = true
			}
		case EMatch:
			set["match"] = true
		}
		for _, a := range e.A {
			ex(a, fn)
		}
		for _, arm := range e.Arms {
			ex(arm.Val, fn)
			for _, c := range arm.Conds {
				ex(c, fn)
			}
		}
	}
	var st func(ss []*Stmt, path string, fn string)
	st = func(ss []*Stmt, path string, fn string) {
		for _, s := range ss {
			ex(s.E, fn)
			ex(s.Init, fn)
			ex(s.Subj, fn)
			for _, a := range s.Args {
				ex(a, fn)
			}
			switch s.K {
			case SStatic:
				set["static"] = true
			case SBreak, SContinue:
				set[fmt.Sprintf("%s%s%d", path, s.K, s.N)] = true
			case SReturn:
				set[path+"return"] = true
			case SIf:
				st(s.Then, path, fn)
				for _, e := range s.Elifs {
					set["elseif"] = true
					ex(e.Cond, fn)
					st(e.Body, path, fn)
				}
				if s.HasElse {
					set["else"] = true
					st(s.Else, path, fn)
				}
			case SLoop:
				set[s.Loop] = true
				st(s.Body, path+s.Loop+">", fn)
			case SSwitch:
				set["switch"] = true
				for i, c := range s.Cases {
					ex(c.Val, fn)
					if i < len(s.Cases)-1 && !endsInJump(c.Body) {
						set["fallthrough"] = true
					}
					st(c.Body, path+"switch>", fn)
				}
			}
		}
	}
	for _, f := range p.Funcs {
		for _, pa := range f.Params {
			if pa.Def != nil {
				set["defaults"] = true
			}
		}
		st(f.Body, "", f.Name)
	}
	st(p.Main, "", "")
	out := make([]string, 0, len(set))
	for k := range set {
		out = append(out, k)
	}
	sort.Strings(out)
	return out
}

func endsInJump(ss []*Stmt) bool {
	if len(ss) == 0 {
		return false
	}
	switch ss[len(ss)-1].K {
	case SBreak, SContinue, SReturn:
		return true
	}
	return false
}
