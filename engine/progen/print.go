package progen

import (
	"strconv"
	"strings"
)

// Source prints the program as origami source. template=false gives plain `.zy` text,
// template=true the same text behind a `<?php` opener (parsed through the template lexer).
func (p *Program) Source(template bool) string {
	var w pw
	if template {
		w.sb.WriteString("<?php\n")
	}
	for _, f := range p.Funcs {
		w.line("function " + f.Name + "(" + params(f.Params) + ") {")
		w.ind++
		w.stmts(f.Body)
		w.ind--
		w.line("}")
	}
	w.stmts(p.Main)
	return w.sb.String()
}

// Text is the mode-independent canonical text used for finding keys: plain source on one line.
func (p *Program) Text() string {
	src := p.Source(false)
	lines := strings.Split(src, "\n")
	for i := range lines {
		lines[i] = strings.TrimSpace(lines[i])
	}
	return strings.TrimSpace(strings.Join(lines, " "))
}

type pw struct {
	sb  strings.Builder
	ind int
}

func (w *pw) line(s string) {
	for i := 0; i < w.ind; i++ {
		w.sb.WriteString("  ")
	}
	w.sb.WriteString(s)
	w.sb.WriteByte('\n')
}

func params(ps []Param) string {
	var parts []string
	for _, p := range ps {
		s := "$" + p.Name
		if p.Def != nil {
			s += " = " + ExprSrc(p.Def)
		}
		parts = append(parts, s)
	}
	return strings.Join(parts, ", ")
}

func (w *pw) block(head string, body []*Stmt, tail string) {
	w.line(head + " {")
	w.ind++
	w.stmts(body)
	w.ind--
	w.line("}" + tail)
}

func (w *pw) stmts(ss []*Stmt) {
	for _, s := range ss {
		w.stmt(s)
	}
}

func level(n int) string {
	if n <= 1 {
		return ""
	}
	return " " + strconv.Itoa(n)
}

func (w *pw) stmt(s *Stmt) {
	switch s.K {
	case SEcho:
		var parts []string
		for _, a := range s.Args {
			parts = append(parts, ExprSrc(a))
		}
		w.line("echo " + strings.Join(parts, ", ") + ";")
	case SAssign:
		w.line("$" + s.Var + " = " + ExprSrc(s.E) + ";")
	case SOpAssign:
		w.line("$" + s.Var + " " + s.Op + " " + ExprSrc(s.E) + ";")
	case SIncDec:
		w.line(incdec(s.Var, s.Op) + ";")
	case SExpr:
		w.line(ExprSrc(s.E) + ";")
	case SStatic:
		w.line("static $" + s.Var + " = " + ExprSrc(s.E) + ";")
	case SIf:
		w.line("if (" + ExprSrc(s.E) + ") {")
		w.ind++
		w.stmts(s.Then)
		w.ind--
		for _, e := range s.Elifs {
			w.line("} elseif (" + ExprSrc(e.Cond) + ") {")
			w.ind++
			w.stmts(e.Body)
			w.ind--
		}
		if s.HasElse {
			w.line("} else {")
			w.ind++
			w.stmts(s.Else)
			w.ind--
		}
		w.line("}")
	case SLoop:
		v := "$" + s.Var
		n := strconv.Itoa(s.N)
		if s.BoundVar != "" {
			n = "$" + s.BoundVar
		}
		cmp := s.Cmp
		switch s.Loop {
		case LFor:
			init := v + " = 1"
			if s.Init != nil {
				init = v + " = " + ExprSrc(s.Init)
			}
			if s.NoInit {
				init = ""
			}
			step := v + "++"
			switch s.Step {
			case "pre++":
				step = "++" + v
			case "+=":
				step = v + " += 1"
			case "=+":
				step = v + " = " + v + " + 1"
			}
			if cmp == "" {
				cmp = "<="
			}
			w.block("for ("+init+"; "+v+" "+cmp+" "+n+"; "+step+")", s.Body, "")
		case LWhile:
			w.line(v + " = 0;")
			if cmp == "" {
				cmp = "<"
			}
			w.line("while (" + v + " " + cmp + " " + n + ") {")
			w.ind++
			w.line(v + "++;")
			w.stmts(s.Body)
			w.ind--
			w.line("}")
		case LDoWhile:
			w.line(v + " = 0;")
			w.line("do {")
			w.ind++
			w.line(v + "++;")
			w.stmts(s.Body)
			w.ind--
			if cmp == "" {
				cmp = "<"
			}
			w.line("} while (" + v + " " + cmp + " " + n + ");")
		case LForeach:
			subj := s.Subj
			if subj == nil {
				subj = Ints(s.N)
			}
			as := v
			if s.Key != "" {
				as = "$" + s.Key + " => " + v
			}
			w.block("foreach ("+ExprSrc(subj)+" as "+as+")", s.Body, "")
		default:
			w.line("/* bad loop kind " + s.Loop + " */")
		}
	case SSwitch:
		w.line("switch (" + ExprSrc(s.E) + ") {")
		w.ind++
		for _, c := range s.Cases {
			if c.Val == nil {
				w.line("default:")
			} else {
				w.line("case " + ExprSrc(c.Val) + ":")
			}
			w.ind++
			w.stmts(c.Body)
			w.ind--
		}
		w.ind--
		w.line("}")
	case SBreak:
		w.line("break" + level(s.N) + ";")
	case SContinue:
		w.line("continue" + level(s.N) + ";")
	case SReturn:
		if s.E == nil {
			w.line("return;")
		} else {
			w.line("return " + ExprSrc(s.E) + ";")
		}
	default:
		w.line("/* bad stmt kind " + s.K + " */")
	}
}

func incdec(v, op string) string {
	switch op {
	case "pre++":
		return "++$" + v
	case "post--":
		return "$" + v + "--"
	case "pre--":
		return "--$" + v
	}
	return "$" + v + "++"
}

// ExprSrc prints an expression. Nested binary operations are always parenthesised (precedence is
// C04's subject, not ours); negative literals are written in parentheses; binary operators are
// surrounded by spaces.
func ExprSrc(e *Expr) string { return exprSrc(e, true) }

func exprSrc(e *Expr, top bool) string {
	if e == nil {
		return "/*nil*/"
	}
	switch e.K {
	case EInt:
		if e.I < 0 {
			return "(" + strconv.Itoa(e.I) + ")"
		}
		return strconv.Itoa(e.I)
	case EStr:
		return quote(e.S)
	case EBool:
		if e.B {
			return "true"
		}
		return "false"
	case ENull:
		return "null"
	case EVar:
		return "$" + e.S
	case EBin:
		s := exprSrc(e.A[0], false) + " " + e.S + " " + exprSrc(e.A[1], false)
		if top {
			return s
		}
		return "(" + s + ")"
	case ENot:
		return "!(" + exprSrc(e.A[0], true) + ")"
	case ECall:
		var parts []string
		for _, a := range e.A {
			parts = append(parts, exprSrc(a, true))
		}
		return e.S + "(" + strings.Join(parts, ", ") + ")"
	case EArr:
		var parts []string
		for i, a := range e.A {
			if i < len(e.Keys) {
				parts = append(parts, quote(e.Keys[i])+" => "+exprSrc(a, true))
			} else {
				parts = append(parts, exprSrc(a, true))
			}
		}
		return "[" + strings.Join(parts, ", ") + "]"
	case EMatch:
		var arms []string
		for _, arm := range e.Arms {
			if len(arm.Conds) == 0 {
				arms = append(arms, "default => "+exprSrc(arm.Val, true))
				continue
			}
			var cs []string
			for _, c := range arm.Conds {
				cs = append(cs, exprSrc(c, true))
			}
			arms = append(arms, strings.Join(cs, ", ")+" => "+exprSrc(arm.Val, true))
		}
		return "match (" + exprSrc(e.A[0], true) + ") { " + strings.Join(arms, ", ") + " }"
	}
	return "/*bad expr " + e.K + "*/"
}

func quote(s string) string {
	var sb strings.Builder
	sb.WriteByte('"')
	for _, r := range s {
		switch r {
		case '\n':
			sb.WriteString(`\n`)
		case '"':
			sb.WriteString(`\"`)
		case '\\':
			sb.WriteString(`\\`)
		case '$':
			sb.WriteString(`\$`)
		default:
			sb.WriteRune(r)
		}
	}
	sb.WriteByte('"')
	return sb.String()
}
