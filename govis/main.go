// govis: type-directed source instrumentation of /repo delivered through `go build -overlay`.
//
// usage: govis -repo /repo -out DIR -shim /verif/shim/vshim.go [-fullfields pkgpath,...] pattern...
//
// Rewrites (all expression-preserving):
//  1. vshim.Tick() at every function entry and loop head (fuel).
//  2. sync.Mutex / sync.RWMutex -> vshim.Mutex / vshim.RWMutex.
//  3. package-level variables (own and other origami packages) and map-typed struct fields
//     (and, in -fullfields packages, every struct field declared there):
//     x -> (*vshim.R(&x, site)) / (*vshim.W(&x, site)).
//  4. for k, v := range m (map, ordered key)  ->  range vshim.Iter(m, site).
//  5. c <- v, <-c, v, ok := <-c, close(c) on bidirectional channels outside select ->
//     vshim.ChanSend / ChanRecv / ChanRecv2 / ChanClose.
//  6. go func(){...}() -> vshim.Go(func(){...}, site).
package main

import (
	"bytes"
	"crypto/sha256"
	"encoding/json"
	"flag"
	"fmt"
	"go/ast"
	"go/format"
	"go/token"
	"go/types"
	"os"
	"path/filepath"
	"sort"
	"strings"
	"time"

	"golang.org/x/tools/go/ast/astutil"
	"golang.org/x/tools/go/packages"
)

const modPath = "github.com/php-any/origami"
const shimPath = modPath + "/utils/vshim"

var (
	repo       = flag.String("repo", "/repo", "repository root")
	outDir     = flag.String("out", "", "output directory")
	shimFile   = flag.String("shim", "", "vshim.go source to inject")
	fullFields = flag.String("fullfields", "", "comma separated package paths whose struct fields are all instrumented")
	rtFields   = flag.String("rtfields", "", "comma separated package paths: struct fields declared there that are assigned outside constructors / the parser are instrumented wherever they are used")
	noTick     = flag.String("notick", "", "comma separated package paths that get no Tick()")
	cacheDir   = flag.String("cache", "", "cache root: output goes to <cache>/<hash of inputs>; prints the directory")
)

type actKind int

const (
	aNone actKind = iota
	aR
	aW
)

type rewriter struct {
	p       *packages.Package
	full    bool
	tick    bool
	stats   map[string]int
	rel     string
	changed bool
	usesShim bool
	funcs   []funcRange
}

type funcRange struct {
	from, to token.Pos
	name     string
}

func main() {
	flag.Parse()
	if *cacheDir != "" {
		h := inputHash()
		*outDir = filepath.Join(*cacheDir, h)
		if _, err := os.Stat(filepath.Join(*outDir, "overlay.json")); err == nil {
			now := time.Now()
			os.Chtimes(*outDir, now, now)
			fmt.Println(*outDir)
			return
		}
		// stale entries are useless once the tree changed: drop those not touched for an hour
		if ents, err := os.ReadDir(*cacheDir); err == nil && len(ents) > 4 {
			for _, e := range ents {
				if fi, err := e.Info(); err == nil && time.Since(fi.ModTime()) > time.Hour {
					os.RemoveAll(filepath.Join(*cacheDir, e.Name()))
				}
			}
		}
		defer fmt.Println(*outDir)
	}
	if *outDir == "" {
		fmt.Fprintln(os.Stderr, "govis: -out required")
		os.Exit(2)
	}
	finalDir := *outDir
	writeDir := finalDir
	if *cacheDir != "" {
		writeDir = fmt.Sprintf("%s.tmp%d", finalDir, os.Getpid())
		os.RemoveAll(writeDir)
	}
	os.MkdirAll(writeDir, 0o755)
	defer func() {
		if writeDir != finalDir {
			if err := os.Rename(writeDir, finalDir); err != nil {
				os.RemoveAll(writeDir) // somebody else finished first
			}
		}
	}()
	fullSet := map[string]bool{}
	for _, s := range strings.Split(*fullFields, ",") {
		if s != "" {
			fullSet[s] = true
		}
	}
	for _, s := range strings.Split(*rtFields, ",") {
		if s != "" {
			rtSet[s] = true
		}
	}
	noTickSet := map[string]bool{}
	for _, s := range strings.Split(*noTick, ",") {
		if s != "" {
			noTickSet[s] = true
		}
	}
	cfg := &packages.Config{
		Mode: packages.NeedName | packages.NeedFiles | packages.NeedCompiledGoFiles | packages.NeedSyntax | packages.NeedTypes | packages.NeedTypesInfo | packages.NeedImports | packages.NeedDeps,
		Dir:  *repo,
		Env:  append(os.Environ(), "GOFLAGS=-mod=mod", "GOPROXY=off"),
	}
	pkgs, err := packages.Load(cfg, flag.Args()...)
	if err != nil {
		fmt.Fprintln(os.Stderr, "govis: load:", err)
		os.Exit(2)
	}
	overlay := map[string]string{}
	stats := map[string]int{}
	sort.Slice(pkgs, func(i, j int) bool { return pkgs[i].PkgPath < pkgs[j].PkgPath })
	// Whole-program pre-pass: a package-level variable that nothing ever assigns (outside its
	// own declaration and init functions) is a constant table: it cannot race or carry state from
	// one request / VM to the next, and instrumenting its reads would only cost time.
	for _, p := range pkgs {
		if len(p.Errors) > 0 {
			continue
		}
		for _, f := range p.Syntax {
			collectWritten(p, f)
		}
	}
	stats["pkgvars_ever_written"] = len(everWritten)
	stats["fields_written_at_run_time"] = len(rtWritten)
	for _, p := range pkgs {
		if len(p.Errors) > 0 {
			fmt.Fprintln(os.Stderr, "govis: package errors in", p.PkgPath, p.Errors)
			os.Exit(2)
		}
		if p.PkgPath == shimPath {
			continue
		}
		for i, f := range p.Syntax {
			if i >= len(p.CompiledGoFiles) {
				continue
			}
			fn := p.CompiledGoFiles[i]
			if strings.HasSuffix(fn, "_test.go") || !strings.HasPrefix(fn, *repo+"/") {
				continue
			}
			rel := strings.TrimPrefix(fn, *repo+"/")
			rw := &rewriter{p: p, full: fullSet[p.PkgPath], tick: !noTickSet[p.PkgPath], stats: stats, rel: rel}
			rw.file(f)
			if !rw.changed {
				continue
			}
			// keep only directive comments: rewritten nodes have no positions and free-floating
			// comments would be re-attached at arbitrary places by the printer.
			var keep []*ast.CommentGroup
			for _, cg := range f.Comments {
				dir := false
				for _, c := range cg.List {
					if strings.HasPrefix(c.Text, "//go:") || strings.HasPrefix(c.Text, "// +build") || strings.HasPrefix(c.Text, "//line") {
						dir = true
					}
				}
				if dir || cg.End() < f.Package {
					keep = append(keep, cg)
				}
			}
			f.Comments = keep
			astutil.AddNamedImport(p.Fset, f, "vshim", shimPath)
			if !astutil.UsesImport(f, "sync") {
				astutil.DeleteImport(p.Fset, f, "sync")
			}
			if !astutil.UsesImport(f, "os") {
				astutil.DeleteImport(p.Fset, f, "os")
			}
			var buf bytes.Buffer
			if err := format.Node(&buf, p.Fset, f); err != nil {
				fmt.Fprintln(os.Stderr, "govis: format", fn, err)
				os.Exit(2)
			}
			base := strings.ReplaceAll(rel, "/", "__")
			out := filepath.Join(finalDir, base)
			if err := os.WriteFile(filepath.Join(writeDir, base), buf.Bytes(), 0o644); err != nil {
				fmt.Fprintln(os.Stderr, "govis:", err)
				os.Exit(2)
			}
			overlay[fn] = out
			stats["files"]++
		}
	}
	if *shimFile != "" {
		b, err := os.ReadFile(*shimFile)
		if err != nil {
			fmt.Fprintln(os.Stderr, "govis:", err)
			os.Exit(2)
		}
		dst := filepath.Join(finalDir, "vshim.go")
		os.WriteFile(filepath.Join(writeDir, "vshim.go"), b, 0o644)
		overlay[filepath.Join(*repo, "utils/vshim/vshim.go")] = dst
	}
	b, _ := json.MarshalIndent(map[string]any{"Replace": overlay}, "", " ")
	os.WriteFile(filepath.Join(writeDir, "overlay.json"), b, 0o644)
	sb, _ := json.MarshalIndent(stats, "", " ")
	os.WriteFile(filepath.Join(writeDir, "stats.json"), sb, 0o644)
}

// inputHash covers everything the output depends on: this binary, the shim, the flags and
// every non-test .go file below the pattern directories plus go.mod.
func inputHash() string {
	h := sha256.New()
	if exe, err := os.Executable(); err == nil {
		if b, err := os.ReadFile(exe); err == nil {
			h.Write(b)
		}
	}
	if b, err := os.ReadFile(*shimFile); err == nil {
		h.Write(b)
	}
	fmt.Fprintln(h, *fullFields, *rtFields, *noTick, flag.Args())
	if b, err := os.ReadFile(filepath.Join(*repo, "go.mod")); err == nil {
		h.Write(b)
	}
	var files []string
	for _, pat := range flag.Args() {
		dir := strings.TrimSuffix(strings.TrimPrefix(pat, "./"), "/...")
		filepath.WalkDir(filepath.Join(*repo, dir), func(path string, d os.DirEntry, err error) error {
			if err == nil && !d.IsDir() && strings.HasSuffix(path, ".go") && !strings.HasSuffix(path, "_test.go") {
				files = append(files, path)
			}
			return nil
		})
	}
	sort.Strings(files)
	for _, f := range files {
		b, _ := os.ReadFile(f)
		fmt.Fprintln(h, f, len(b))
		h.Write(b)
	}
	return fmt.Sprintf("%x", h.Sum(nil))[:24]
}

func (rw *rewriter) site(n ast.Node) ast.Expr {
	var at token.Pos
	switch x := n.(type) {
	case *ast.SendStmt:
		at = x.Arrow
	case *ast.UnaryExpr:
		at = x.OpPos
	case *ast.CallExpr:
		at = x.Lparen
	case *ast.RangeStmt:
		at = x.For
	case *ast.GoStmt:
		at = x.Go
	case *ast.SelectorExpr:
		at = x.Sel.Pos()
	default:
		at = n.Pos()
	}
	pos := rw.p.Fset.Position(at)
	// site = file:line|expression|enclosing function  (the last two survive line shifts)
	expr := ""
	switch x := n.(type) {
	case *ast.SelectorExpr:
		expr = types.ExprString(x)
	case *ast.Ident:
		expr = x.Name
	case *ast.SendStmt:
		expr = "send"
	case *ast.UnaryExpr:
		expr = "recv"
	case *ast.CallExpr:
		expr = "close"
	case *ast.RangeStmt:
		expr = "range"
	case *ast.GoStmt:
		expr = "go"
	}
	if len(expr) > 60 {
		expr = expr[len(expr)-60:]
	}
	fn := ""
	for _, fr := range rw.funcs {
		if at >= fr.from && at <= fr.to {
			fn = fr.name
		}
	}
	return &ast.BasicLit{Kind: token.STRING, Value: fmt.Sprintf("%q", fmt.Sprintf("%s:%d|%s|%s", rw.rel, pos.Line, expr, fn))}
}

func shimSel(name string) ast.Expr {
	return &ast.SelectorExpr{X: ast.NewIdent("vshim"), Sel: ast.NewIdent(name)}
}

func (rw *rewriter) wrap(fn string, arg ast.Expr, at ast.Node) ast.Expr {
	rw.changed = true
	return &ast.ParenExpr{X: &ast.StarExpr{X: &ast.CallExpr{Fun: shimSel(fn), Args: []ast.Expr{&ast.UnaryExpr{Op: token.AND, X: arg}, rw.site(at)}}}}
}

func isSyncType(t types.Type) bool {
	for {
		if p, ok := t.(*types.Pointer); ok {
			t = p.Elem()
			continue
		}
		break
	}
	if n, ok := t.(*types.Named); ok && n.Obj().Pkg() != nil {
		pp := n.Obj().Pkg().Path()
		if pp == "sync" || pp == "sync/atomic" || pp == shimPath {
			return true
		}
	}
	return false
}

// syncObjKind classifies a method call on an internally synchronised object: "" = not one,
// "R" read-like, "W" write-like. Mutex / RWMutex / Once are modelled by type replacement and
// WaitGroup / Cond are left alone.
func syncObjKind(recv types.Type, method string) string {
	t := recv
	if p, ok := t.(*types.Pointer); ok {
		t = p.Elem()
	}
	n, ok := t.(*types.Named)
	if !ok || n.Obj().Pkg() == nil {
		return ""
	}
	switch n.Obj().Pkg().Path() {
	case "sync":
		switch n.Obj().Name() {
		case "Map", "Pool":
		default:
			return ""
		}
	case "sync/atomic":
	default:
		return ""
	}
	switch method {
	case "Load", "Range":
		return "R"
	}
	return "W"
}

var everWritten = map[types.Object]bool{}

// rtWritten: struct fields of the -rtfields packages (the AST node types) that some function other
// than a constructor or the parser assigns: per-node caches, scratch buffers, memoised lookups. An
// AST is shared by every coroutine and request that runs it, so such a field is shared mutable
// state; fields only ever set while the tree is built stay uninstrumented (no cost).
var rtWritten = map[types.Object]bool{}
var rtSet = map[string]bool{}

// fieldOf returns the struct field an lvalue like x.f, x.f[i], x.f[i:j], (*x).f designates.
func fieldOf(info *types.Info, e ast.Expr) *types.Var {
	for {
		switch x := e.(type) {
		case *ast.ParenExpr:
			e = x.X
		case *ast.IndexExpr:
			e = x.X
		case *ast.SliceExpr:
			e = x.X
		case *ast.StarExpr:
			e = x.X
		case *ast.SelectorExpr:
			if s := info.Selections[x]; s != nil && s.Kind() == types.FieldVal {
				if v, ok := s.Obj().(*types.Var); ok {
					return v
				}
			}
			return nil
		default:
			return nil
		}
	}
}

// rootVar returns the package-level variable an lvalue expression is rooted at (x, x.f, x[i].g,
// pkg.X.f ...), or nil.
func rootVar(info *types.Info, e ast.Expr) types.Object {
	for {
		switch x := e.(type) {
		case *ast.ParenExpr:
			e = x.X
		case *ast.IndexExpr:
			e = x.X
		case *ast.StarExpr:
			e = x.X
		case *ast.SliceExpr:
			e = x.X
		case *ast.SelectorExpr:
			if id, ok := x.X.(*ast.Ident); ok {
				if _, isPkg := info.Uses[id].(*types.PkgName); isPkg {
					e = x.Sel
					continue
				}
			}
			e = x.X
		case *ast.Ident:
			if v, ok := info.Uses[x].(*types.Var); ok && !v.IsField() && v.Pkg() != nil && v.Parent() == v.Pkg().Scope() {
				return v
			}
			return nil
		default:
			return nil
		}
	}
}

func collectWritten(p *packages.Package, f *ast.File) {
	info := p.TypesInfo
	for _, d := range f.Decls {
		fd, ok := d.(*ast.FuncDecl)
		if !ok || fd.Body == nil || (fd.Recv == nil && fd.Name.Name == "init") {
			continue
		}
		isCtor := fd.Recv == nil && (strings.HasPrefix(fd.Name.Name, "New") || strings.HasPrefix(fd.Name.Name, "new"))
		buildTime := isCtor || strings.HasSuffix(p.PkgPath, "/parser") || strings.HasSuffix(p.PkgPath, "/lexer")
		mark := func(e ast.Expr) {
			if o := rootVar(info, e); o != nil {
				everWritten[o] = true
			}
			if !buildTime {
				if fv := fieldOf(info, e); fv != nil && fv.Pkg() != nil && rtSet[fv.Pkg().Path()] && !isSyncType(fv.Type()) {
					rtWritten[fv] = true
				}
			}
		}
		ast.Inspect(fd.Body, func(n ast.Node) bool {
			switch x := n.(type) {
			case *ast.AssignStmt:
				if x.Tok != token.DEFINE {
					for _, l := range x.Lhs {
						mark(l)
					}
				}
			case *ast.IncDecStmt:
				mark(x.X)
			case *ast.RangeStmt:
				if x.Tok == token.ASSIGN {
					if x.Key != nil {
						mark(x.Key)
					}
					if x.Value != nil {
						mark(x.Value)
					}
				}
			case *ast.UnaryExpr:
				if x.Op == token.AND {
					mark(x.X) // address taken: may be written through the pointer
				}
			case *ast.CallExpr:
				if id, ok := x.Fun.(*ast.Ident); ok && len(x.Args) > 0 && (id.Name == "delete" || id.Name == "clear") {
					if _, isBuiltin := info.Uses[id].(*types.Builtin); isBuiltin {
						mark(x.Args[0])
					}
				}
				// a method with pointer receiver called on an addressable struct variable may write it
				if sel, ok := x.Fun.(*ast.SelectorExpr); ok {
					if s := info.Selections[sel]; s != nil && s.Kind() == types.MethodVal {
						if sig, ok := s.Obj().Type().(*types.Signature); ok && sig.Recv() != nil {
							if _, isPtr := sig.Recv().Type().(*types.Pointer); isPtr {
								if tv, ok := info.Types[sel.X]; ok {
									if _, already := tv.Type.Underlying().(*types.Pointer); !already {
										mark(sel.X)
									}
								}
							}
						}
					}
				}
			}
			return true
		})
	}
}

func (rw *rewriter) pkgVarObj(o types.Object) bool {
	v, ok := o.(*types.Var)
	if !ok || v.IsField() || v.Pkg() == nil {
		return false
	}
	if !everWritten[o] {
		return false
	}
	if v.Parent() != v.Pkg().Scope() {
		return false
	}
	pp := v.Pkg().Path()
	if pp != modPath && !strings.HasPrefix(pp, modPath+"/") {
		return false
	}
	if pp == shimPath || v.Name() == "_" {
		return false
	}
	if isSyncType(v.Type()) {
		return false
	}
	return true
}

func orderedKey(t types.Type) bool {
	b, ok := t.Underlying().(*types.Basic)
	if !ok {
		return false
	}
	return b.Info()&(types.IsInteger|types.IsFloat|types.IsString) != 0 && b.Info()&types.IsUntyped == 0
}

func (rw *rewriter) file(f *ast.File) {
	for _, d := range f.Decls {
		if fd, ok := d.(*ast.FuncDecl); ok {
			name := fd.Name.Name
			if fd.Recv != nil && len(fd.Recv.List) > 0 {
				name = types.ExprString(fd.Recv.List[0].Type) + "." + name
			}
			rw.funcs = append(rw.funcs, funcRange{fd.Pos(), fd.End(), name})
		}
	}
	info := rw.p.TypesInfo
	acts := map[ast.Node]actKind{}
	skip := map[ast.Node]bool{}
	writes := map[ast.Expr]bool{}
	inSelectComm := map[ast.Node]bool{}
	type syncAct struct {
		kind string // "R" | "W"
		ptr  bool   // receiver expression is already a pointer
		site ast.Expr
	}
	syncCalls := map[*ast.CallExpr]syncAct{} // method call on a sync.Map / sync.Pool / atomic value
	atomicFns := map[*ast.CallExpr]syncAct{} // atomic.AddInt64(&x, ...) style function calls

	unparen := func(e ast.Expr) ast.Expr {
		for {
			if p, ok := e.(*ast.ParenExpr); ok {
				e = p.X
				continue
			}
			return e
		}
	}
	var markLHS func(e ast.Expr)
	markLHS = func(e ast.Expr) {
		e = unparen(e)
		if idx, ok := e.(*ast.IndexExpr); ok {
			if tv, ok := info.Types[idx.X]; ok {
				if _, isMap := tv.Type.Underlying().(*types.Map); isMap {
					writes[unparen(idx.X)] = true
				} else if fv := fieldOf(info, idx.X); fv != nil && rtWritten[fv] {
					// element store into a run-time scratch slice of an AST node: the field is the location
					if sel, ok := unparen(idx.X).(*ast.SelectorExpr); ok {
						writes[sel] = true
					}
				}
			}
			return
		}
		writes[e] = true
	}

	// pass 1: classify
	ast.Inspect(f, func(n ast.Node) bool {
		switch x := n.(type) {
		case *ast.AssignStmt:
			if x.Tok != token.DEFINE {
				for _, l := range x.Lhs {
					markLHS(l)
				}
			}
		case *ast.IncDecStmt:
			markLHS(x.X)
		case *ast.RangeStmt:
			if x.Tok == token.ASSIGN {
				if x.Key != nil {
					markLHS(x.Key)
				}
				if x.Value != nil {
					markLHS(x.Value)
				}
			}
		case *ast.CallExpr:
			if id, ok := x.Fun.(*ast.Ident); ok && len(x.Args) > 0 {
				if _, isBuiltin := info.Uses[id].(*types.Builtin); isBuiltin && (id.Name == "delete" || id.Name == "clear") {
					writes[unparen(x.Args[0])] = true
				}
			}
			if sel, ok := x.Fun.(*ast.SelectorExpr); ok {
				if s := info.Selections[sel]; s != nil && s.Kind() == types.MethodVal {
					if tv, ok := info.Types[sel.X]; ok {
						if k := syncObjKind(tv.Type, sel.Sel.Name); k != "" {
							_, isPtr := tv.Type.Underlying().(*types.Pointer)
							if isPtr || tv.Addressable() {
								syncCalls[x] = syncAct{k, isPtr, rw.site(sel)}
							}
						}
					}
				} else if id, ok := sel.X.(*ast.Ident); ok && len(x.Args) > 0 {
					if pn, isPkg := info.Uses[id].(*types.PkgName); isPkg && pn.Imported().Path() == "sync/atomic" {
						if tv, ok := info.Types[x.Args[0]]; ok {
							if _, isPtr := tv.Type.Underlying().(*types.Pointer); isPtr {
								k := "W"
								if strings.HasPrefix(sel.Sel.Name, "Load") {
									k = "R"
								}
								atomicFns[x] = syncAct{k, true, rw.site(sel)}
							}
						}
					}
				}
			}
		case *ast.CommClause:
			if x.Comm != nil {
				ast.Inspect(x.Comm, func(m ast.Node) bool {
					if m != nil {
						inSelectComm[m] = true
					}
					return true
				})
			}
		case *ast.ValueSpec:
			for _, nm := range x.Names {
				skip[nm] = true
			}
		}
		return true
	})

	rwKind := func(e ast.Expr) actKind {
		if writes[e] {
			return aW
		}
		return aR
	}
	ast.Inspect(f, func(n ast.Node) bool {
		switch x := n.(type) {
		case *ast.SelectorExpr:
			// qualified identifier pkg.Var ?
			if id, ok := x.X.(*ast.Ident); ok {
				if _, isPkg := info.Uses[id].(*types.PkgName); isPkg {
					if o := info.Uses[x.Sel]; o != nil && rw.pkgVarObj(o) {
						acts[x] = rwKind(x)
					}
					skip[x.Sel] = true
					return false
				}
			}
			skip[x.Sel] = true
			s := info.Selections[x]
			if s == nil || s.Kind() != types.FieldVal {
				return true
			}
			fld, _ := s.Obj().(*types.Var)
			if fld == nil || isSyncType(fld.Type()) {
				return true
			}
			_, isMap := fld.Type().Underlying().(*types.Map)
			want := isMap
			if !want && rw.full && fld.Pkg() != nil && fld.Pkg().Path() == rw.p.PkgPath {
				want = true
			}
			if !want && rtWritten[fld] {
				want = true
			}
			if !want {
				return true
			}
			// addressability of x: base must be pointer or addressable
			tv, ok := info.Types[x.X]
			if !ok {
				return true
			}
			addressable := tv.Addressable()
			if !addressable {
				if _, isPtr := tv.Type.Underlying().(*types.Pointer); isPtr {
					addressable = true
				}
			}
			// promoted through embedded pointer is fine as well; implicit derefs keep addressability
			if !addressable && len(s.Index()) > 1 {
				addressable = s.Indirect()
			}
			if addressable {
				acts[x] = rwKind(x)
			}
		case *ast.Ident:
			if skip[x] {
				return true
			}
			if o := info.Uses[x]; o != nil && rw.pkgVarObj(o) && o.Pkg() == rw.p.Types {
				acts[x] = rwKind(x)
			}
		case *ast.KeyValueExpr:
			// struct literal field names are Idents resolving to fields -> not pkg vars; nothing to do
		}
		return true
	})

	// pass 2: apply (post-order)
	astutil.Apply(f, nil, func(c *astutil.Cursor) bool {
		switch x := c.Node().(type) {
		case *ast.Ident:
			if k := acts[x]; k != aNone {
				// do not touch the Sel of a selector or a composite literal key
				if sel, ok := c.Parent().(*ast.SelectorExpr); ok && sel.Sel == x {
					return true
				}
				fn := "R"
				if k == aW {
					fn = "W"
				}
				rw.stats["pkgvar"+fn]++
				c.Replace(rw.wrap(fn, ast.NewIdent(x.Name), x))
			}
		case *ast.SelectorExpr:
			if k := acts[x]; k != aNone {
				fn := "R"
				if k == aW {
					fn = "W"
				}
				rw.stats["sel"+fn]++
				c.Replace(rw.wrap(fn, x, x))
				return true
			}
			// sync.Mutex / sync.RWMutex / sync.Once type names
			if id, ok := x.X.(*ast.Ident); ok {
				if pn, isPkg := info.Uses[id].(*types.PkgName); isPkg && pn.Imported().Path() == "sync" {
					if x.Sel.Name == "Mutex" || x.Sel.Name == "RWMutex" || x.Sel.Name == "Once" {
						rw.stats["mutex"]++
						rw.changed = true
						c.Replace(shimSel(x.Sel.Name))
					}
				}
			}
		case *ast.FuncDecl:
			if rw.tick && x.Body != nil {
				rw.tickBody(x.Body)
			}
		case *ast.FuncLit:
			if rw.tick {
				rw.tickBody(x.Body)
			}
		case *ast.ForStmt:
			if rw.tick {
				rw.tickBody(x.Body)
			}
		case *ast.RangeStmt:
			if rw.tick {
				rw.tickBody(x.Body)
			}
			tv, ok := info.Types[x.X]
			if !ok {
				// X may already have been replaced by a wrapper; look the original up through the wrapper
				if orig := unwrapOrig(x.X); orig != nil {
					tv, ok = info.Types[orig]
				}
			}
			if ok {
				if m, isMap := tv.Type.Underlying().(*types.Map); isMap && orderedKey(m.Key()) {
					isBlank := func(e ast.Expr) bool {
						if e == nil {
							return true
						}
						id, ok := e.(*ast.Ident)
						return ok && id.Name == "_"
					}
					if x.Value != nil && !isBlank(x.Value) || (x.Key != nil && !isBlank(x.Key) && x.Value != nil) {
						x.X = &ast.CallExpr{Fun: shimSel("Iter"), Args: []ast.Expr{x.X, rw.site(x)}}
						rw.stats["maprange"]++
						rw.changed = true
					} else if x.Key != nil && !isBlank(x.Key) {
						x.X = &ast.CallExpr{Fun: shimSel("IterK"), Args: []ast.Expr{x.X, rw.site(x)}}
						rw.stats["maprange"]++
						rw.changed = true
					}
				} else if isMap {
					rw.stats["maprange_native"]++
				}
			}
		case *ast.SendStmt:
			if inSelectComm[x] {
				return true
			}
			if rw.bidiChan(x.Chan) {
				rw.stats["chansend"]++
				rw.changed = true
				c.Replace(&ast.ExprStmt{X: &ast.CallExpr{Fun: shimSel("ChanSend"), Args: []ast.Expr{x.Chan, x.Value, rw.site(x)}}})
			}
		case *ast.UnaryExpr:
			if x.Op != token.ARROW || inSelectComm[x] {
				return true
			}
			if !rw.bidiChan(x.X) {
				return true
			}
			fn := "ChanRecv"
			if as, ok := c.Parent().(*ast.AssignStmt); ok && len(as.Lhs) == 2 && len(as.Rhs) == 1 && as.Rhs[0] == ast.Expr(x) {
				fn = "ChanRecv2"
			}
			if vs, ok := c.Parent().(*ast.ValueSpec); ok && len(vs.Names) == 2 && len(vs.Values) == 1 {
				fn = "ChanRecv2"
			}
			rw.stats["chanrecv"]++
			rw.changed = true
			c.Replace(&ast.CallExpr{Fun: shimSel(fn), Args: []ast.Expr{x.X, rw.site(x)}})
		case *ast.CallExpr:
			if sel, ok := x.Fun.(*ast.SelectorExpr); ok && sel.Sel.Name == "Exit" {
				if id, ok := sel.X.(*ast.Ident); ok {
					if pn, isPkg := info.Uses[id].(*types.PkgName); isPkg && pn.Imported().Path() == "os" {
						rw.stats["osexit"]++
						rw.changed = true
						x.Fun = shimSel("Exit")
					}
				}
			}
			if a, ok := syncCalls[x]; ok {
				sel := x.Fun.(*ast.SelectorExpr)
				recv := sel.X
				if !a.ptr {
					recv = &ast.UnaryExpr{Op: token.AND, X: recv}
				}
				sel.X = &ast.CallExpr{Fun: shimSel("Sync" + a.kind), Args: []ast.Expr{recv, a.site}}
				rw.stats["sync"+a.kind]++
				rw.changed = true
			}
			if a, ok := atomicFns[x]; ok {
				x.Args[0] = &ast.CallExpr{Fun: shimSel("Sync" + a.kind), Args: []ast.Expr{x.Args[0], a.site}}
				rw.stats["sync"+a.kind]++
				rw.changed = true
			}
			if id, ok := x.Fun.(*ast.Ident); ok && id.Name == "close" && len(x.Args) == 1 {
				if _, isBuiltin := info.Uses[id].(*types.Builtin); isBuiltin && rw.bidiChan(x.Args[0]) {
					rw.stats["chanclose"]++
					rw.changed = true
					c.Replace(&ast.CallExpr{Fun: shimSel("ChanClose"), Args: []ast.Expr{x.Args[0], rw.site(x)}})
				}
			}
		case *ast.GoStmt:
			if fl, ok := x.Call.Fun.(*ast.FuncLit); ok && len(x.Call.Args) == 0 && fl.Type.Params.NumFields() == 0 && (fl.Type.Results == nil || fl.Type.Results.NumFields() == 0) {
				rw.stats["go"]++
				rw.changed = true
				c.Replace(&ast.ExprStmt{X: &ast.CallExpr{Fun: shimSel("Go"), Args: []ast.Expr{fl, rw.site(x)}}})
			}
		}
		return true
	})
}

// unwrapOrig finds the original expression inside (*vshim.R(&orig, site)).
func unwrapOrig(e ast.Expr) ast.Expr {
	p, ok := e.(*ast.ParenExpr)
	if !ok {
		return nil
	}
	st, ok := p.X.(*ast.StarExpr)
	if !ok {
		return nil
	}
	call, ok := st.X.(*ast.CallExpr)
	if !ok || len(call.Args) < 1 {
		return nil
	}
	u, ok := call.Args[0].(*ast.UnaryExpr)
	if !ok {
		return nil
	}
	return u.X
}

func (rw *rewriter) bidiChan(e ast.Expr) bool {
	tv, ok := rw.p.TypesInfo.Types[e]
	if !ok {
		if o := unwrapOrig(e); o != nil {
			tv, ok = rw.p.TypesInfo.Types[o]
		}
	}
	if !ok {
		return false
	}
	ch, ok := tv.Type.Underlying().(*types.Chan)
	return ok && ch.Dir() == types.SendRecv
}

func (rw *rewriter) tickBody(b *ast.BlockStmt) {
	if b == nil {
		return
	}
	tick := &ast.ExprStmt{X: &ast.CallExpr{Fun: shimSel("Tick")}}
	b.List = append([]ast.Stmt{tick}, b.List...)
	rw.stats["tick"]++
	rw.changed = true
}
