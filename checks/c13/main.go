// C13: HTTP response commits once; pre-commit status/headers reach the client; middleware order.
//
// Form H: every operation sequence up to length k over a 12-symbol alphabet of response calls is
// run through a real handler *script* served by the real nethttp.Handler.ServeHTTP over a
// counting ResponseWriter, and compared with a commit-once reference model; every middleware
// stack of <= 5 entries over priorities {-1,0,1,5} (ties by registration order), with every
// choice of one short-circuiting entry, is run through a script-built Server's mux.
package main

import (
	"encoding/json"
	"fmt"
	"io"
	nh "net/http"
	"net/http/httptest"
	"os"
	"sort"
	"strings"
	"sync"
	"time"

	"github.com/php-any/origami/data"
	ohttp "github.com/php-any/origami/std/net/http"

	"verif/engine/ev"
	"verif/engine/pool"
	"verif/engine/runner"
)

type opDef struct {
	name string
	src  string
}

var alphabet = []opDef{
	{"status201", `$w->status(201);`},
	{"status404", `$w->status(404);`},
	{"headerX1", `$w->header("X", "1");`},
	{"headerX2", `$w->header("X", "2");`},
	{"cookie", `$w->cookie("c", "v", []);`},
	{"writeA", `$w->write("a");`},
	{"writeB", `$w->write("b");`},
	{"json", `$w->json([1]);`},
	{"html", `$w->html("h");`},
	{"redirect", `$w->redirect("/t");`},
	{"noContent", `$w->noContent();`},
	{"writeHeader500", `$w->writeHeader(500);`},
	// thorough-only extras (arguments that carry their own status)
	{"html418", `$w->html("H", 418);`},
	{"redirect301", `$w->redirect("/u", 301);`},
	{"noContent205", `$w->noContent(205);`},
	{"chain", `$w->status(202)->header("X", "3")->write("c");`},
}

// ---- reference model (commit-once) ----------------------------------------------

type model struct {
	status    int
	statusSet bool
	committed bool
	live      map[string][]string // live header map
	sent      map[string][]string
	sentCode  int
	body      string
}

func newModel() *model { return &model{status: 200, live: map[string][]string{}} }

func (m *model) commit() {
	if m.committed {
		return
	}
	m.committed = true
	m.sentCode = m.status
	m.sent = map[string][]string{}
	for k, v := range m.live {
		m.sent[k] = append([]string{}, v...)
	}
}
func (m *model) setStatus(c int) {
	if !m.committed {
		m.status = c
		m.statusSet = true
	}
}
func (m *model) apply(op string) {
	switch op {
	case "status201":
		m.setStatus(201)
	case "status404":
		m.setStatus(404)
	case "headerX1":
		m.live["X"] = []string{"1"}
	case "headerX2":
		m.live["X"] = []string{"2"}
	case "cookie":
		m.live["Set-Cookie"] = append(m.live["Set-Cookie"], "c=v")
	case "writeA":
		m.commit()
		m.body += "a"
	case "writeB":
		m.commit()
		m.body += "b"
	case "json":
		m.live["Content-Type"] = []string{"application/json; charset=utf-8"}
		m.commit()
		m.body += "[1]"
	case "html":
		m.live["Content-Type"] = []string{"text/html; charset=utf-8"}
		m.commit()
		m.body += "h"
	case "html418":
		m.setStatus(418)
		m.live["Content-Type"] = []string{"text/html; charset=utf-8"}
		m.commit()
		m.body += "H"
	case "redirect":
		m.live["Location"] = []string{"/t"}
		m.setStatus(302)
		m.commit()
	case "redirect301":
		m.live["Location"] = []string{"/u"}
		m.setStatus(301)
		m.commit()
	case "noContent":
		m.setStatus(204)
		m.commit()
	case "noContent205":
		m.setStatus(205)
		m.commit()
	case "writeHeader500":
		m.setStatus(500)
		m.commit()
	case "chain":
		m.setStatus(202)
		m.live["X"] = []string{"3"}
		m.commit()
		m.body += "c"
	}
}

type obs struct {
	Code    int                 `json:"code"`
	Headers map[string][]string `json:"headers"`
	Body    string              `json:"body"`
	Commits int                 `json:"commits"`
	Err     string              `json:"err,omitempty"`
}

func (m *model) finish() obs {
	if !m.committed {
		if m.statusSet {
			m.commit()
		} else {
			// nothing committed: the server sends 200 with the headers present at handler return
			m.sentCode = 200
			m.sent = m.live
		}
	}
	h := map[string][]string{}
	for _, k := range watched {
		if v := m.sent[k]; len(v) > 0 {
			h[k] = v
		}
	}
	n := 0
	if m.committed {
		n = 1
	}
	return obs{Code: m.sentCode, Headers: h, Body: m.body, Commits: n}
}

var watched = []string{"X", "Location", "Set-Cookie", "Content-Type"}

// ---- real side ---------------------------------------------------------------------

type countW struct {
	*httptest.ResponseRecorder
	n        int
	wrote    bool
	implicit bool
}

func (c *countW) WriteHeader(code int) { c.n++; c.wrote = true; c.ResponseRecorder.WriteHeader(code) }
func (c *countW) Write(p []byte) (int, error) {
	if !c.wrote {
		c.wrote = true
		c.implicit = true
		c.n++
	}
	return c.ResponseRecorder.Write(p)
}

func script(seq []int) string {
	var sb strings.Builder
	sb.WriteString("$h = function($r, $w) {\n")
	for _, o := range seq {
		sb.WriteString("  " + alphabet[o].src + "\n")
	}
	sb.WriteString("};\n")
	return sb.String()
}

func runReal(seq []int) obs {
	res, s := runner.RunKeep(script(seq), runner.Opts{Setup: func(vm data.VM) { ohttp.Load(vm) }})
	defer s.Close()
	if res.Kind != "ok" {
		return obs{Err: "define:" + res.Kind + ":" + res.Msg + res.PanicKey}
	}
	fv, _ := s.Var("h").(*data.FuncValue)
	if fv == nil {
		return obs{Err: "handler closure not found"}
	}
	cw := &countW{ResponseRecorder: httptest.NewRecorder()}
	g := runner.Guard(func() {
		ohttp.Handler{Value: fv.Value, Ctx: s.Ctx}.ServeHTTP(cw, httptest.NewRequest("GET", "/p", nil))
	})
	o := obs{Code: cw.Code, Body: cw.Body.String(), Commits: cw.n, Headers: map[string][]string{}}
	hdr := cw.Result().Header
	for _, k := range watched {
		if v := hdr.Values(k); len(v) > 0 {
			o.Headers[k] = append([]string{}, v...)
		}
	}
	if g.Kind != "ok" {
		o.Err = g.Kind + ":" + g.Class + ":" + g.Msg + g.PanicKey
	}
	return o
}

// runWire serves the same handler over a real TCP connection (httptest.Server + net/http client):
// what the client actually receives. Content-Length / framing mistakes only show here.
var (
	wireOnce    sync.Once
	wireSrv     *httptest.Server
	wireClient  *nh.Client
	wireHandler func(w nh.ResponseWriter, r *nh.Request)
	// requests whose connection could not be established even after retries: no verdict
	wireInconclusive int
)

func runWire(seq []int) obs {
	res, s := runner.RunKeep(script(seq), runner.Opts{Setup: func(vm data.VM) { ohttp.Load(vm) }})
	defer s.Close()
	if res.Kind != "ok" {
		return obs{Err: "define:" + res.Kind + ":" + res.Msg + res.PanicKey}
	}
	fv, _ := s.Var("h").(*data.FuncValue)
	if fv == nil {
		return obs{Err: "handler closure not found"}
	}
	herr := ""
	// One listener per worker process for all sequences (a server per sequence runs the machine
	// out of ephemeral ports in the thorough tier: "bind: address already in use" is the
	// environment, not a verdict); the handler under test is swapped in for this request.
	wireOnce.Do(func() {
		wireSrv = httptest.NewServer(nh.HandlerFunc(func(w nh.ResponseWriter, r *nh.Request) { wireHandler(w, r) }))
		wireClient = &nh.Client{CheckRedirect: func(*nh.Request, []*nh.Request) error { return nh.ErrUseLastResponse }}
	})
	wireHandler = func(w nh.ResponseWriter, r *nh.Request) {
		g := runner.Guard(func() { ohttp.Handler{Value: fv.Value, Ctx: s.Ctx}.ServeHTTP(w, r) })
		if g.Kind != "ok" {
			herr = g.Kind + ":" + g.Class + ":" + g.Msg + g.PanicKey
		}
	}
	srv, client := wireSrv, wireClient
	resp, err := client.Get(srv.URL + "/p")
	for try := 0; err != nil && try < 5 && (strings.Contains(err.Error(), "dial tcp") || strings.Contains(err.Error(), "connect:")); try++ {
		// the connection could not even be established (ports / descriptors exhausted): the
		// environment, not the response under test
		time.Sleep(300 * time.Millisecond)
		resp, err = client.Get(srv.URL + "/p")
	}
	if err != nil {
		if strings.Contains(err.Error(), "dial tcp") || strings.Contains(err.Error(), "connect:") {
			wireInconclusive++
			return obs{Err: "env: " + err.Error()}
		}
		return obs{Err: "client: " + err.Error()}
	}
	defer resp.Body.Close()
	body, rerr := io.ReadAll(resp.Body)
	o := obs{Code: resp.StatusCode, Body: string(body), Headers: map[string][]string{}, Commits: -1}
	for _, k := range watched {
		if v := resp.Header.Values(k); len(v) > 0 {
			o.Headers[k] = append([]string{}, v...)
		}
	}
	if rerr != nil {
		o.Err = "client read: " + rerr.Error()
	} else if herr != "" {
		o.Err = herr
	}
	return o
}

// compareWire: like compare, without the commit count (not observable by a client) and with
// net/http's own content sniffing tolerated when the handler set no Content-Type.
func compareWire(exp, got obs) string {
	// HTTP itself forbids a body for 1xx/204/304: net/http refuses such writes (the script sees a
	// catchable error) and the client gets no body. That is the protocol, not a commit-once defect.
	if exp.Code == 204 || exp.Code == 304 || exp.Code < 200 {
		exp.Body = ""
		if strings.Contains(got.Err, "does not allow body") {
			got.Err = ""
		}
		delete(exp.Headers, "Content-Type")
		delete(got.Headers, "Content-Type")
	}
	if strings.HasPrefix(got.Err, "env: ") {
		return "" // inconclusive (counted), never a verdict
	}
	if got.Err != "" {
		return "wire-handler-error"
	}
	if got.Code != exp.Code {
		return "wire-status"
	}
	if got.Body != exp.Body {
		return "wire-body"
	}
	for _, k := range watched {
		if k == "Content-Type" && len(exp.Headers[k]) == 0 {
			continue
		}
		if strings.Join(got.Headers[k], "|") != strings.Join(exp.Headers[k], "|") {
			return "wire-header:" + k
		}
	}
	return ""
}

func expect(seq []int) obs {
	m := newModel()
	for _, o := range seq {
		m.apply(alphabet[o].name)
	}
	return m.finish()
}

// compare returns the violated clause ("" if none).
func compare(exp, got obs) string {
	if got.Err != "" {
		return "handler-error"
	}
	if got.Commits > 1 {
		return "commit-count"
	}
	if got.Code != exp.Code {
		return "status"
	}
	if got.Body != exp.Body {
		return "body"
	}
	for _, k := range watched {
		if strings.Join(got.Headers[k], "|") != strings.Join(exp.Headers[k], "|") {
			return "header:" + k
		}
	}
	if got.Commits != exp.Commits {
		return "commit-count"
	}
	return ""
}

func names(seq []int) []string {
	r := make([]string, len(seq))
	for i, o := range seq {
		r[i] = alphabet[o].name
	}
	return r
}

// reduce removes ops while the same clause keeps failing.
func reduce(seq []int, clause string) []int {
	cur := append([]int{}, seq...)
	for changed := true; changed; {
		changed = false
		for i := 0; i < len(cur); i++ {
			cand := append(append([]int{}, cur[:i]...), cur[i+1:]...)
			if compare(expect(cand), runReal(cand)) == clause {
				cur = cand
				changed = true
				break
			}
		}
	}
	return cur
}

type seqShard struct {
	Prefix []int `json:"prefix"`
	Len    int   `json:"len"` // total length
	NSym   int   `json:"nsym"`
	Wire   bool  `json:"wire,omitempty"` // also serve over a real connection
}

type rec struct {
	Kind    string   `json:"kind"` // "count" | "fail" | "sample" | "outcome"
	N       int64    `json:"n,omitempty"`
	Key     string   `json:"key,omitempty"`
	Clause  string   `json:"clause,omitempty"`
	Case    any      `json:"case,omitempty"`
	Detail  string   `json:"detail,omitempty"`
	Size    int      `json:"size,omitempty"`
	Outcome []string `json:"outcome,omitempty"`
}

func seqWorker(w *pool.W, arg json.RawMessage) {
	var sh seqShard
	json.Unmarshal(arg, &sh)
	seq := make([]int, sh.Len)
	copy(seq, sh.Prefix)
	var n int64
	outcomes := map[string]bool{}
	failed := map[string]bool{}
	var rec_ func(pos int)
	rec_ = func(pos int) {
		if pos == sh.Len {
			if !w.Item(fmt.Sprint(seq)) {
				return
			}
			n++
			exp := expect(seq)
			got := runReal(seq)
			outcomes[fmt.Sprintf("%d/%d/%s/%v", got.Code, got.Commits, got.Body, len(got.Headers))] = true
			if sh.Wire {
				n++
				gw := runWire(seq)
				if cl := compareWire(exp, gw); cl != "" {
					red := append([]int{}, seq...)
					for changed := true; changed; {
						changed = false
						for i := 0; i < len(red); i++ {
							cand := append(append([]int{}, red[:i]...), red[i+1:]...)
							if compareWire(expect(cand), runWire(cand)) == cl {
								red, changed = cand, true
								break
							}
						}
					}
					key := cl + ":" + strings.Join(names(red), ",")
					if !failed[key] {
						failed[key] = true
						eb, _ := json.Marshal(expect(red))
						gb, _ := json.Marshal(runWire(red))
						w.Emit(rec{Kind: "fail", Key: key, Clause: cl, Size: len(red), Case: map[string]any{"kind": "wire", "ops": names(red), "script": script(red)}, Detail: fmt.Sprintf("over a real connection: expected %s\nclient received %s", eb, gb)})
					}
				}
			}
			if cl := compare(exp, got); cl != "" {
				red := reduce(seq, cl)
				key := cl + ":" + strings.Join(names(red), ",")
				if !failed[key] {
					failed[key] = true
					eb, _ := json.Marshal(expect(red))
					gb, _ := json.Marshal(runReal(red))
					w.Emit(rec{Kind: "fail", Key: key, Clause: cl, Size: len(red), Case: map[string]any{"kind": "seq", "ops": names(red), "script": script(red)}, Detail: fmt.Sprintf("expected %s\nobserved %s", eb, gb)})
				}
			}
			return
		}
		for o := 0; o < sh.NSym; o++ {
			seq[pos] = o
			rec_(pos + 1)
		}
	}
	rec_(len(sh.Prefix))
	var oc []string
	for k := range outcomes {
		oc = append(oc, k)
	}
	w.Emit(rec{Kind: "count", N: n, Outcome: oc})
	if len(sh.Prefix) > 0 && sh.Prefix[0] == 0 {
		w.Emit(rec{Kind: "sample", Case: map[string]any{"ops": names(seq), "expected": expect(seq)}})
	}
}

// ---- middleware stacks -----------------------------------------------------------------

type mwShard struct {
	Stacks [][]int `json:"stacks"`          // priorities in registration order
	Kinds  bool    `json:"kinds,omitempty"` // also every non-zero closure / class-instance mask
}

// stack middlewares registered as class instances (bit i of kinds set) use this class
const mwStackClassSrc = `class MwS {
  public $i = 0;
  public $stop = false;
  public function __construct($i, $stop) { $this->i = $i; $this->stop = $stop; }
  public function handle($r, $w, $next) {
    echo "<" . $this->i;
    if ($this->stop) { echo "!" . $this->i; return; }
    $next($r, $w);
    echo ">" . $this->i;
  }
}
`

func kindString(n int, kinds uint) string {
	b := make([]byte, n)
	for i := range b {
		b[i] = 'c'
		if kinds&(1<<uint(i)) != 0 {
			b[i] = 'k'
		}
	}
	return string(b)
}

func mwScript(prios []int, short int, kinds uint) string {
	var sb strings.Builder
	if kinds != 0 {
		sb.WriteString(mwStackClassSrc)
	}
	sb.WriteString("$server = new Net\\Http\\Server('127.0.0.1', 0);\n")
	for i, p := range prios {
		if kinds&(1<<uint(i)) != 0 {
			stop := "false"
			if i == short {
				stop = "true"
			}
			fmt.Fprintf(&sb, "$server->middleware(new MwS(%d, %s), %d);\n", i, stop, p)
			continue
		}
		if i == short {
			fmt.Fprintf(&sb, "$server->middleware(function($r, $w, $next) { echo \"<%d\"; echo \"!%d\"; }, %d);\n", i, i, p)
		} else {
			fmt.Fprintf(&sb, "$server->middleware(function($r, $w, $next) { echo \"<%d\"; $next($r, $w); echo \">%d\"; }, %d);\n", i, i, p)
		}
	}
	sb.WriteString("$server->get('/p', function($r, $w) { echo \"H\"; $w->write(\"x\"); });\n")
	return sb.String()
}

func mwExpect(prios []int, short int) string {
	idx := make([]int, len(prios))
	for i := range idx {
		idx[i] = i
	}
	sort.SliceStable(idx, func(a, b int) bool { return prios[idx[a]] < prios[idx[b]] })
	var in []string
	var out []string
	stopped := false
	for _, i := range idx {
		in = append(in, fmt.Sprintf("<%d", i))
		if i == short {
			in = append(in, fmt.Sprintf("!%d", i))
			stopped = true
			break
		}
		out = append([]string{fmt.Sprintf(">%d", i)}, out...)
	}
	s := strings.Join(in, "")
	if !stopped {
		s += "H"
	}
	return s + strings.Join(out, "")
}

func mwRun(prios []int, short int, kinds uint) (string, string) {
	res, s := runner.RunKeep(mwScript(prios, short, kinds), runner.Opts{Setup: func(vm data.VM) { ohttp.Load(vm) }})
	defer s.Close()
	if res.Kind != "ok" {
		return "", "define:" + res.Kind + ":" + res.Msg + res.PanicKey
	}
	cv, _ := s.Var("server").(*data.ClassValue)
	if cv == nil {
		return "", "server object not found"
	}
	mux, _ := cv.GetSource().(*nh.ServeMux)
	if mux == nil {
		return "", "mux not reachable"
	}
	rec := httptest.NewRecorder()
	g := runner.Guard(func() { mux.ServeHTTP(rec, httptest.NewRequest("GET", "/p", nil)) })
	if g.Kind != "ok" {
		return s.Out(), g.Kind + ":" + g.Msg + g.PanicKey
	}
	return s.Out(), ""
}

func mwWorker(w *pool.W, arg json.RawMessage) {
	var sh mwShard
	json.Unmarshal(arg, &sh)
	var n int64
	outcomes := map[string]bool{}
	for _, st := range sh.Stacks {
		maxShort := len(st)
		if len(st) > 6 {
			maxShort = 0 // large stacks: order only
		}
		nmask := uint(1)
		if sh.Kinds && len(st) <= 6 {
			nmask = 1 << uint(len(st))
		}
		for kinds := uint(0); kinds < nmask; kinds++ {
			if sh.Kinds && kinds == 0 {
				continue // the all-closure stacks are enumerated by the plain shards
			}
			for short := -1; short < maxShort; short++ {
				id := fmt.Sprint(st, short)
				if kinds != 0 {
					id += " " + kindString(len(st), kinds)
				}
				if !w.Item(id) {
					continue
				}
				n++
				exp := mwExpect(st, short)
				got, err := mwRun(st, short, kinds)
				outcomes[got] = true
				if err != "" || got != exp {
					cl := "middleware-order"
					if err != "" {
						cl = "middleware-error"
					}
					key := fmt.Sprintf("%s:prios=%v short=%d", cl, st, short)
					if kinds != 0 {
						key += " kinds=" + kindString(len(st), kinds)
					}
					w.Emit(rec{Kind: "fail", Key: key, Clause: cl, Size: len(st)*10 + short + 1, Case: map[string]any{"kind": "mw", "prios": st, "short": short, "kinds": kinds, "script": mwScript(st, short, kinds)}, Detail: fmt.Sprintf("expected %q\nobserved %q %s", exp, got, err)})
				}
			}
		}
	}
	var oc []string
	for k := range outcomes {
		oc = append(oc, k)
	}
	w.Emit(rec{Kind: "count", N: n, Outcome: oc})
}

// ---- groups: middlewares inherited by sibling groups ------------------------------------------

// groupScript: a parent with `parents` middlewares, two sibling groups with ga / gb own middlewares,
// routes registered after both groups were configured (order = which group is configured first).
func groupScript(parents, ga, gb int, apiFirst bool) string {
	var sb strings.Builder
	sb.WriteString("$server = new Net\\Http\\Server('127.0.0.1', 0);\n")
	for i := 0; i < parents; i++ {
		fmt.Fprintf(&sb, "$server->middleware(function($r, $w, $next) { echo \"p%d>\"; $next($r, $w); });\n", i)
	}
	mk := func(v, prefix, tag string, n int) {
		fmt.Fprintf(&sb, "$%s = $server->group('%s');\n", v, prefix)
		for i := 0; i < n; i++ {
			fmt.Fprintf(&sb, "$%s->middleware(function($r, $w, $next) { echo \"%s%d>\"; $next($r, $w); });\n", v, tag, i)
		}
	}
	if apiFirst {
		mk("ga", "/a", "A", ga)
		mk("gb", "/b", "B", gb)
	} else {
		mk("gb", "/b", "B", gb)
		mk("ga", "/a", "A", ga)
	}
	sb.WriteString("$ga->get('/x', function($r, $w) { echo \"ha\"; $w->write(\"a\"); });\n")
	sb.WriteString("$gb->get('/x', function($r, $w) { echo \"hb\"; $w->write(\"b\"); });\n")
	sb.WriteString("$server->get('/x', function($r, $w) { echo \"hr\"; $w->write(\"r\"); });\n")
	return sb.String()
}

func groupExpect(parents, ga, gb int) map[string]string {
	pre := ""
	for i := 0; i < parents; i++ {
		pre += fmt.Sprintf("p%d>", i)
	}
	a, b := pre, pre
	for i := 0; i < ga; i++ {
		a += fmt.Sprintf("A%d>", i)
	}
	for i := 0; i < gb; i++ {
		b += fmt.Sprintf("B%d>", i)
	}
	return map[string]string{"/a/x": a + "ha", "/b/x": b + "hb", "/x": pre + "hr"}
}

type groupShard struct {
	Parents []int `json:"parents"`
}

func groupWorker(w *pool.W, arg json.RawMessage) {
	var sh groupShard
	json.Unmarshal(arg, &sh)
	var n int64
	outcomes := map[string]bool{}
	for _, parents := range sh.Parents {
		for ga := 0; ga <= 2; ga++ {
			for gb := 0; gb <= 2; gb++ {
				for _, apiFirst := range []bool{true, false} {
					id := fmt.Sprint("group ", parents, ga, gb, apiFirst)
					if !w.Item(id) {
						continue
					}
					src := groupScript(parents, ga, gb, apiFirst)
					res, s := runner.RunKeep(src, runner.Opts{Setup: func(vm data.VM) { ohttp.Load(vm) }})
					got := map[string]string{}
					errs := ""
					if res.Kind != "ok" {
						errs = "define:" + res.Kind + ":" + res.Msg + res.PanicKey
					} else if cv, _ := s.Var("server").(*data.ClassValue); cv == nil {
						errs = "server object not found"
					} else if mux, _ := cv.GetSource().(*nh.ServeMux); mux == nil {
						errs = "mux not reachable"
					} else {
						for _, path := range []string{"/a/x", "/b/x", "/x"} {
							rec := httptest.NewRecorder()
							g := runner.Guard(func() { mux.ServeHTTP(rec, httptest.NewRequest("GET", path, nil)) })
							got[path] = s.Out()
							if g.Kind != "ok" {
								errs += path + ":" + g.Kind + ":" + g.Msg + g.PanicKey + " "
							}
						}
					}
					s.Close()
					n++
					exp := groupExpect(parents, ga, gb)
					bad := errs != ""
					for k, v := range exp {
						outcomes[got[k]] = true
						if got[k] != v {
							bad = true
						}
					}
					if bad {
						key := fmt.Sprintf("group-middlewares:own=%d/%d", ga, gb)
						if errs != "" {
							key = "group-error"
						}
						w.Emit(rec{Kind: "fail", Key: key, Clause: "middleware-order", Size: parents*100 + ga*10 + gb, Case: map[string]any{"kind": "group", "parents": parents, "ga": ga, "gb": gb, "api_first": apiFirst, "script": src}, Detail: fmt.Sprintf("parent middlewares=%d, group /a own=%d, group /b own=%d\nexpected %v\nobserved %v %s", parents, ga, gb, exp, got, errs)})
					}
				}
			}
		}
	}
	var oc []string
	for k := range outcomes {
		oc = append(oc, k)
	}
	w.Emit(rec{Kind: "count", N: n * 3, Outcome: oc})
}

func main() {
	if pool.IsWorker() {
		pool.Serve(map[string]pool.Handler{"seq": seqWorker, "mw": mwWorker, "group": groupWorker, "hist": histWorker})
	}
	c := ev.New("C13")
	defer runner.Cleanup()
	if c.Replay != "" {
		replay(c)
		return
	}
	maxLen, nsym := 4, 12
	if !c.Quick() {
		maxLen, nsym = 5, 16
	}
	c.SetBudget(4*time.Minute, 40*time.Minute)
	var shards []pool.Shard
	wireLen := 3
	if !c.Quick() {
		wireLen = 4
	}
	for l := 0; l <= maxLen; l++ {
		if l < 3 {
			shards = append(shards, pool.Shard{Kind: "seq", Arg: seqShard{Prefix: []int{}, Len: l, NSym: nsym, Wire: l <= wireLen}})
			continue
		}
		for a := 0; a < nsym; a++ {
			for b := 0; b < nsym; b++ {
				shards = append(shards, pool.Shard{Kind: "seq", Arg: seqShard{Prefix: []int{a, b}, Len: l, NSym: nsym, Wire: l <= wireLen}})
			}
		}
	}
	// middleware stacks
	prios := []int{-1, 0, 1, 5}
	var stacks [][]int
	var gen func(cur []int, n int)
	gen = func(cur []int, n int) {
		if len(cur) == n {
			stacks = append(stacks, append([]int{}, cur...))
			return
		}
		for _, p := range prios {
			gen(append(cur, p), n)
		}
	}
	maxStack := 5
	for n := 0; n <= maxStack; n++ {
		gen(nil, n)
	}
	// Large stacks: sorting algorithms switch strategy with size (insertion sort below ~12 elements),
	// so stability must also be exercised beyond it. Not exhaustible (4^13 stacks); a fixed family
	// of tie-rich patterns for every size 13..24 is enumerated instead and reported as such.
	nbig := 0
	for n := 13; n <= 24; n++ {
		for k := 2; k <= 4; k++ {
			for m := 1; m <= 5; m++ {
				st := make([]int, n)
				for i := range st {
					st[i] = prios[(i*m+i/k)%k]
				}
				stacks = append(stacks, st)
				nbig++
				rv := make([]int, n)
				for i := range rv {
					rv[i] = prios[(k-1)-((i*m)%k)]
				}
				stacks = append(stacks, rv)
				nbig++
			}
		}
	}
	c.Set("large_patterned_middleware_stacks", nbig)
	for i := 0; i < len(stacks); i += 32 {
		j := i + 32
		if j > len(stacks) {
			j = len(stacks)
		}
		shards = append(shards, pool.Shard{Kind: "mw", Arg: mwShard{Stacks: stacks[i:j]}})
	}
	// the same stacks with every non-empty choice of which entries are class instances (handle()
	// method) instead of closures: the two registration branches are separate code
	kindStackMax := 4
	if !c.Quick() {
		kindStackMax = 5
	}
	nkind := 0
	for i := 0; i < len(stacks); i += 8 {
		var part [][]int
		for _, st := range stacks[i:min(i+8, len(stacks))] {
			if len(st) >= 1 && len(st) <= kindStackMax {
				part = append(part, st)
				nkind += (1<<uint(len(st)) - 1) * (len(st) + 1)
			}
		}
		if len(part) > 0 {
			shards = append(shards, pool.Shard{Kind: "mw", Arg: mwShard{Stacks: part, Kinds: true}})
		}
	}
	c.Set("stacks_with_class_instance_entries", nkind)
	// configuration histories (history.go)
	hbs := []histBound{{MaxLen: 5, MaxObj: 3, NPrio: 2, NForm: 3, MaxKind: 1, Serve: true}}
	if !c.Quick() {
		// longer histories over the small alphabet + the full alphabet (4 priority forms, post) at length 5
		hbs = []histBound{{MaxLen: 6, MaxObj: 3, NPrio: 2, NForm: 3, MaxKind: 1, Serve: true}, {MaxLen: 5, MaxObj: 3, NPrio: 4, NForm: 4, MaxKind: 1, Serve: true}}
	}
	if v := os.Getenv("VERIF_C13_HISTBOUND"); v != "" { // experiments: JSON array of bounds
		hbs = nil
		if err := json.Unmarshal([]byte(v), &hbs); err != nil {
			c.HarnessError("VERIF_C13_HISTBOUND: %v", err)
		}
	}
	if os.Getenv("VERIF_C13_COUNT") != "" { // size of the history family, nothing is run
		for _, hb := range hbs {
			fmt.Printf("bound %+v: %d histories\n", hb, countHist(hb))
		}
		return
	}
	staticDir, derr := makeStaticDir()
	if derr != nil {
		c.HarnessError("static dir: %v", derr)
	}
	var histGenerated int64
	for _, hb := range hbs {
		histGenerated += countHist(hb)
		shards = append(shards, histShards(hb, staticDir, 3)...)
	}
	// sibling groups inheriting 0..12 parent middlewares (slice capacities differ with the count)
	for p := 0; p <= 12; p++ {
		shards = append(shards, pool.Shard{Kind: "group", Arg: groupShard{Parents: []int{p}}})
	}
	var total, histN, histRoutes, histUnreduced int64
	outcomes := map[string]bool{}
	pool.Run(shards, pool.Options{}, func(si int, rb json.RawMessage) {
		var r rec
		json.Unmarshal(rb, &r)
		switch r.Kind {
		case "count":
			total += r.N
			for _, o := range r.Outcome {
				if !outcomes[o] {
					outcomes[o] = true
					c.Outcome(o)
				}
			}
		case "fail":
			c.Fail(r.Key, r.Clause, r.Size, r.Case, r.Detail)
		case "sample":
			c.Sample(r.Case)
		case "histcount":
			histRoutes += r.N
			histUnreduced += int64(r.Size)
		}
		if r.Kind == "count" && shards[si].Kind == "hist" {
			histN += r.N
		}
	}, func(d pool.Death) {
		c.Fail("worker-death:"+runner.FatalFrame(d.Stderr), "no-crash", 0, map[string]any{"item": d.Item, "reason": d.Reason}, d.Stderr)
	})
	os.RemoveAll(staticDir)
	c.Set("max_sequence_length", maxLen)
	c.Set("alphabet", func() []string {
		var a []string
		for _, o := range alphabet[:nsym] {
			a = append(a, o.name)
		}
		return a
	}())
	c.Set("middleware_stacks", len(stacks))
	c.Set("config_histories", histN)
	c.Set("config_history_route_requests", histRoutes)
	c.Set("config_history_bound", hbs)
	c.Set("config_history_example", histExample())
	if histN != histGenerated && !c.Expired() {
		c.HarnessError("configuration histories: generator counts %d, workers ran %d", histGenerated, histN)
	}
	if histUnreduced > 0 {
		c.Set("config_history_failures_not_reduced", histUnreduced)
	}
	if histN < 1000 {
		c.HarnessError("vacuous: only %d configuration histories", histN)
	}
	c.Assume("configuration histories: a middleware registered after a route (on the route's object or an ancestor) may or may not apply to it (statement and docs are silent; origami snapshots at registration) but must sit at its priority place if it runs; how nested group prefixes compose is not judged")
	c.Assume("httptest.ResponseRecorder stands for the connection: headers are snapshotted at the first WriteHeader like net/http does")
	c.Assume("sequences longer than the bound and response methods outside the alphabet (view, file, success, error, format) are not explored")
	if len(outcomes) < 10 {
		c.HarnessError("vacuous: only %d distinct outcomes", len(outcomes))
	}
	c.Finish(int64(len(outcomes)), total, total, fmt.Sprintf("all response-op sequences of length <= %d over %d symbols through a handler script + all middleware stacks <= %d entries x short-circuit position; distinct = distinct observed (status, commits, body, headers) / marker traces", maxLen, nsym, maxStack))
}

func replay(c *ev.Check) {
	var cs struct {
		Kind  string   `json:"kind"`
		Ops   []string `json:"ops"`
		Prios []int    `json:"prios"`
		Short int      `json:"short"`
		Kinds uint     `json:"kinds"`
		Hist  []hop    `json:"hist"`
	}
	key, err := ev.LoadReplay(c.Replay, &cs)
	if err != nil {
		fmt.Println("replay:", err)
		return
	}
	if cs.Kind == "hist" {
		dir, derr := makeStaticDir()
		if derr != nil {
			c.HarnessError("static dir: %v", derr)
		}
		cl, detail, _, _ := histClause(cs.Hist, dir)
		fmt.Printf("history %s\n%s\n%s\n", histString(cs.Hist), histScript(cs.Hist, dir), detail)
		ho, routes, _ := histRun(cs.Hist, dir)
		for _, q := range ho.Reqs {
			fmt.Printf("route %d at %s: expected %q observed %q\n", q.Route, q.At, expectTrace(routes[q.Route]), q.Trace)
		}
		os.RemoveAll(dir)
		if cl != "" {
			c.Fail(key, cl, 0, cs, "replayed: "+detail)
		}
	} else if cs.Kind == "mw" {
		got, e := mwRun(cs.Prios, cs.Short, cs.Kinds)
		exp := mwExpect(cs.Prios, cs.Short)
		fmt.Printf("expected %q\nobserved %q %s\n", exp, got, e)
		if got != exp || e != "" {
			c.Fail(key, "middleware-order", 0, cs, "replayed")
		}
	} else {
		var seq []int
		for _, n := range cs.Ops {
			for i, a := range alphabet {
				if a.name == n {
					seq = append(seq, i)
				}
			}
		}
		exp, got := expect(seq), runReal(seq)
		eb, _ := json.Marshal(exp)
		gb, _ := json.Marshal(got)
		fmt.Printf("expected %s\nobserved %s\n", eb, gb)
		if cl := compare(exp, got); cl != "" {
			c.Fail(key, cl, 0, cs, "replayed")
		}
	}
	c.Finish(1, 1, 1, "replay")
}
