// C13, form C: server *configuration histories*.
//
// A server is configured by a sequence of calls: middleware(closure), middleware(class instance),
// route registrations (get / any / static / post) and group creation, on the root server or on a
// group. Every such history up to a bound is emitted as a real script, every registered route is
// requested (twice) through the script-built mux and the trace of markers written by the
// middlewares is compared with a reference chain.
//
// Reference (what origami does on the unchanged tree, and the only reading under which "each
// wrapping all later ones" is decidable per route): a route is wrapped by the middlewares that were
// on its server/group object's chain when the route was registered; a group starts with a copy of
// its parent's chain at creation. These are REQUIRED. The statement and the docs are silent about a
// middleware registered on the object (or an ancestor) *after* that point, so such a middleware is
// OPTIONAL: it may or may not run, but if it runs it must sit at its (priority, registration order)
// place. A middleware of an unrelated object (sibling / child group) must never run.
package main

import (
	"encoding/json"
	"fmt"
	nh "net/http"
	"net/http/httptest"
	"os"
	"path/filepath"
	"sort"
	"strconv"
	"strings"

	"github.com/php-any/origami/data"
	"github.com/php-any/origami/node"
	ohttp "github.com/php-any/origami/std/net/http"

	"verif/engine/pool"
	"verif/engine/runner"
)

type hop struct {
	Op   string `json:"op"`             // "M" middleware | "R" route | "G" group creation | "Q" serve a request to every route registered so far
	Obj  int    `json:"obj"`            // object the call is made on (0 = root server, k = k-th created group)
	Kind int    `json:"kind,omitempty"` // M: 0 closure, 1 class instance with handle()
	Prio int    `json:"prio,omitempty"` // M: index into prioTab
	Form int    `json:"form,omitempty"` // R: index into formTab
}

type prioDef struct {
	label string
	arg   string // source text appended after the middleware argument
	val   int
}

// index 0 is the omitted argument (documented default 0)
var prioTab = []prioDef{{"d", "", 0}, {"1", ", 1", 1}, {"-1", ", -1", -1}, {"0", ", 0", 0}}
var formTab = []string{"get", "any", "static", "post"}

type histBound struct {
	MaxLen  int  `json:"max_len"`
	MaxObj  int  `json:"max_obj"` // root + groups
	NPrio   int  `json:"nprio"`
	NForm   int  `json:"nform"`
	MaxKind int  `json:"max_kind"`
	Serve   bool `json:"serve"` // "Q" in the alphabet: requests served between configuration calls
}

type histShard struct {
	Prefix []hop     `json:"prefix"`
	B      histBound `json:"b"`
	Dir    string    `json:"dir"`
}

func (o hop) String() string {
	switch o.Op {
	case "M":
		k := "c"
		if o.Kind == 1 {
			k = "k"
		}
		return fmt.Sprintf("M%s.%s@%d", k, prioTab[o.Prio].label, o.Obj)
	case "R":
		return fmt.Sprintf("R%s@%d", formTab[o.Form], o.Obj)
	case "Q":
		return "Q"
	}
	return fmt.Sprintf("G@%d", o.Obj)
}

func histString(h []hop) string {
	p := make([]string, len(h))
	for i, o := range h {
		p[i] = o.String()
	}
	return strings.Join(p, " ")
}

// nextOps lists every op that may follow history h inside the bound (validity only, no pruning).
func nextOps(h []hop, b histBound) []hop {
	nobj := 1
	routes := 0
	anyUsed := map[int]bool{}
	for _, o := range h {
		if o.Op == "G" {
			nobj++
		}
		if o.Op == "R" {
			routes++
		}
		if o.Op == "R" && formTab[o.Form] == "any" {
			anyUsed[o.Obj] = true
		}
	}
	var r []hop
	if b.Serve && routes > 0 && h[len(h)-1].Op != "Q" {
		r = append(r, hop{Op: "Q"})
	}
	for obj := 0; obj < nobj; obj++ {
		for k := 0; k <= b.MaxKind; k++ {
			for p := 0; p < b.NPrio; p++ {
				r = append(r, hop{Op: "M", Obj: obj, Kind: k, Prio: p})
			}
		}
		for f := 0; f < b.NForm; f++ {
			if formTab[f] == "any" && anyUsed[obj] {
				continue // the mux refuses a duplicate pattern: not a valid configuration
			}
			r = append(r, hop{Op: "R", Obj: obj, Form: f})
		}
		if nobj < b.MaxObj {
			r = append(r, hop{Op: "G", Obj: obj})
		}
	}
	return r
}

// valid: object references exist, at most one any() per object.
func histValid(h []hop) bool {
	nobj := 1
	routes := 0
	anyUsed := map[int]bool{}
	for i, o := range h {
		if o.Obj < 0 || o.Obj >= nobj {
			return false
		}
		switch o.Op {
		case "G":
			nobj++
		case "Q":
			if routes == 0 || h[i-1].Op == "Q" {
				return false
			}
		case "R":
			routes++
			if formTab[o.Form] == "any" {
				if anyUsed[o.Obj] {
					return false
				}
				anyUsed[o.Obj] = true
			}
		}
	}
	return true
}

// worthRunning: the history registers a route, and every created group is used afterwards
// (an unused group object is inert).
func worthRunning(h []hop) bool {
	routes := 0
	nobj := 1
	used := map[int]bool{}
	if len(h) > 0 && h[len(h)-1].Op == "Q" {
		return false // every route is requested after the last call anyway
	}
	for _, o := range h {
		if o.Op == "Q" {
			continue
		}
		used[o.Obj] = true
		if o.Op == "G" {
			nobj++
		}
		if o.Op == "R" {
			routes++
		}
	}
	if routes == 0 {
		return false
	}
	for k := 1; k < nobj; k++ {
		if !used[k] {
			return false
		}
	}
	return true
}

// ---- reference ---------------------------------------------------------------------------

type mwInfo struct {
	id   int // ordinal of the M op = marker number
	prio int
}

type routeExp struct {
	Route    int   // ordinal of the R op = marker number
	Obj      int   // object it was registered on
	Form     int   //
	Required []int // middleware ids in expected order (priority, then registration)
	Optional []int // ids that may additionally run (registered later on the object or an ancestor)
}

func histReference(h []hop) (routes []routeExp, prioOf map[int]int) {
	prioOf = map[int]int{}
	parent := []int{-1}
	chains := [][]int{nil} // per object: ids in registration order (inherited copy first)
	var routeAt []int      // index in h of each route
	mwObj := map[int]int{}
	nm, nr := 0, 0
	for i, o := range h {
		switch o.Op {
		case "M":
			prioOf[nm] = prioTab[o.Prio].val
			mwObj[nm] = o.Obj
			chains[o.Obj] = append(chains[o.Obj], nm)
			nm++
		case "G":
			parent = append(parent, o.Obj)
			chains = append(chains, append([]int{}, chains[o.Obj]...))
		case "R":
			req := append([]int{}, chains[o.Obj]...)
			sort.SliceStable(req, func(a, b int) bool { return prioOf[req[a]] < prioOf[req[b]] })
			routes = append(routes, routeExp{Route: nr, Obj: o.Obj, Form: o.Form, Required: req})
			routeAt = append(routeAt, i)
			nr++
		}
	}
	// optional: every middleware of the object or one of its ancestors that is not required
	for ri := range routes {
		anc := map[int]bool{}
		for o := routes[ri].Obj; o >= 0; o = parent[o] {
			anc[o] = true
		}
		isReq := map[int]bool{}
		for _, id := range routes[ri].Required {
			isReq[id] = true
		}
		for id := 0; id < nm; id++ {
			if anc[mwObj[id]] && !isReq[id] {
				routes[ri].Optional = append(routes[ri].Optional, id)
			}
		}
	}
	_ = routeAt
	return
}

func expectTrace(r routeExp) string {
	var sb strings.Builder
	for _, id := range r.Required {
		fmt.Fprintf(&sb, "<%d ", id)
	}
	if formTab[r.Form] != "static" {
		fmt.Fprintf(&sb, "H%d ", r.Route)
	}
	for i := len(r.Required) - 1; i >= 0; i-- {
		fmt.Fprintf(&sb, ">%d ", r.Required[i])
	}
	return sb.String()
}

// judge returns the violated clause for one observed trace ("" = fine).
func judge(r routeExp, prioOf map[int]int, trace string, staticServed bool) string {
	toks := strings.Fields(trace)
	var opens []int
	i := 0
	for ; i < len(toks) && strings.HasPrefix(toks[i], "<"); i++ {
		n, err := strconv.Atoi(toks[i][1:])
		if err != nil {
			return "mw-wrap"
		}
		opens = append(opens, n)
	}
	ran := map[int]bool{}
	for _, id := range opens {
		ran[id] = true
	}
	// a marker anywhere in the trace counts as "ran" for the set clauses
	for _, t := range toks {
		if strings.HasPrefix(t, "<") {
			if n, err := strconv.Atoi(t[1:]); err == nil {
				ran[n] = true
			}
		}
	}
	allowed := map[int]bool{}
	for _, id := range r.Required {
		allowed[id] = true
		if !ran[id] {
			return "mw-missing"
		}
	}
	for _, id := range r.Optional {
		allowed[id] = true
	}
	for id := range ran {
		if !allowed[id] {
			return "mw-foreign"
		}
	}
	for k := 1; k < len(opens); k++ {
		a, b := opens[k-1], opens[k]
		if prioOf[a] > prioOf[b] || (prioOf[a] == prioOf[b] && a >= b) {
			return "mw-order"
		}
	}
	// well-nested: opens, the handler marker once, closes in reverse
	if formTab[r.Form] != "static" {
		if i >= len(toks) || toks[i] != fmt.Sprintf("H%d", r.Route) {
			return "mw-wrap"
		}
		i++
	} else if !staticServed {
		return "mw-wrap"
	}
	for k := len(opens) - 1; k >= 0; k-- {
		if i >= len(toks) || toks[i] != fmt.Sprintf(">%d", opens[k]) {
			return "mw-wrap"
		}
		i++
	}
	if i != len(toks) {
		return "mw-wrap"
	}
	return ""
}

// ---- real side ---------------------------------------------------------------------------

const mwClassSrc = `class MwK {
  public $i = 0;
  public function __construct($i) { $this->i = $i; }
  public function handle($r, $w, $next) { echo "<" . $this->i . " "; $next($r, $w); echo ">" . $this->i . " "; }
}
`

func histScript(h []hop, dir string) string {
	var sb strings.Builder
	for _, o := range h {
		if o.Op == "M" && o.Kind == 1 {
			sb.WriteString(mwClassSrc)
			break
		}
	}
	sb.WriteString("$s0 = new Net\\Http\\Server('127.0.0.1', 0);\n")
	nobj, nm, nr := 1, 0, 0
	for _, o := range h {
		switch o.Op {
		case "M":
			if o.Kind == 1 {
				fmt.Fprintf(&sb, "$s%d->middleware(new MwK(%d)%s);\n", o.Obj, nm, prioTab[o.Prio].arg)
			} else {
				fmt.Fprintf(&sb, "$s%d->middleware(function($r, $w, $next) { echo \"<%d \"; $next($r, $w); echo \">%d \"; }%s);\n", o.Obj, nm, nm, prioTab[o.Prio].arg)
			}
			nm++
		case "G":
			fmt.Fprintf(&sb, "$s%d = $s%d->group('/g%d');\n", nobj, o.Obj, nobj)
			nobj++
		case "R":
			switch formTab[o.Form] {
			case "get", "post":
				fmt.Fprintf(&sb, "$s%d->%s('/r%d', function($r, $w) { echo \"H%d \"; $w->write(\"x\"); });\n", o.Obj, formTab[o.Form], nr, nr)
			case "any":
				fmt.Fprintf(&sb, "$s%d->any(function($r, $w) { echo \"H%d \"; $w->write(\"x\"); });\n", o.Obj, nr)
			case "static":
				fmt.Fprintf(&sb, "$s%d->static('/t%d', '%s');\n", o.Obj, nr, dir)
			}
			nr++
		case "Q":
			sb.WriteString("vq($s0);\n")
		}
	}
	sb.WriteString("vq($s0);\n")
	return sb.String()
}

// candidate request targets of a route: how group prefixes compose is not part of the property, so
// both the concatenated and the bare prefix are tried; the one for which the mux answers with
// exactly the pattern this registration must have produced is used.
type target struct{ method, path, pattern string }

func routeTargets(h []hop, r routeExp) []target {
	parent := []int{-1}
	for _, o := range h {
		if o.Op == "G" {
			parent = append(parent, o.Obj)
		}
	}
	full := ""
	for o := r.Obj; o > 0; o = parent[o] {
		full = fmt.Sprintf("/g%d", o) + full
	}
	bare := ""
	if r.Obj > 0 {
		bare = fmt.Sprintf("/g%d", r.Obj)
	}
	prefixes := []string{full}
	if bare != full {
		prefixes = append(prefixes, bare)
	}
	var ts []target
	for _, p := range prefixes {
		switch formTab[r.Form] {
		case "get":
			ts = append(ts, target{"GET", fmt.Sprintf("%s/r%d", p, r.Route), fmt.Sprintf("GET %s/r%d", p, r.Route)})
		case "post":
			ts = append(ts, target{"POST", fmt.Sprintf("%s/r%d", p, r.Route), fmt.Sprintf("POST %s/r%d", p, r.Route)})
		case "any":
			ts = append(ts, target{"GET", fmt.Sprintf("%s/zz%d", p, r.Route), "GET " + p + "/"})
		case "static":
			ts = append(ts, target{"GET", fmt.Sprintf("%s/t%d/f.txt", p, r.Route), fmt.Sprintf("GET %s/t%d/", p, r.Route)})
		}
	}
	return ts
}

// one served request
type reqObs struct {
	Route  int    `json:"route"`
	At     string `json:"at"` // "Q<k>" (between configuration calls) | "end1" | "end2"
	Trace  string `json:"trace"`
	Static bool   `json:"static_served"`
	NM     int    `json:"-"` // middlewares registered so far
}

type histObs struct {
	Reqs []reqObs
	Err  string
}

// vqFunc is the script-callable `vq($server)`: it serves one request per registered route through
// the server's mux at that point of the configuration (Go callback, no script involved).
type vqFunc struct{ cb func(mux *nh.ServeMux) }

func (f vqFunc) Call(ctx data.Context) (data.GetValue, data.Control) {
	v, _ := ctx.GetIndexValue(0)
	var mux *nh.ServeMux
	if cv, ok := v.(*data.ClassValue); ok && cv != nil {
		mux, _ = cv.GetSource().(*nh.ServeMux)
	}
	f.cb(mux)
	return nil, nil
}
func (f vqFunc) GetName() string { return "vq" }
func (f vqFunc) GetParams() []data.GetValue {
	return []data.GetValue{node.NewParameter(nil, "s", 0, nil, nil)}
}
func (f vqFunc) GetVariables() []data.Variable {
	return []data.Variable{node.NewVariable(nil, "s", 0, nil)}
}

func histRun(h []hop, dir string) (histObs, []routeExp, map[int]int) {
	routes, prioOf := histReference(h)
	var o histObs
	// what is registered at each vq() call
	type point struct {
		nr, nm int
		label  string
	}
	var points []point
	nr, nm, nq := 0, 0, 0
	for _, op := range h {
		switch op.Op {
		case "R":
			nr++
		case "M":
			nm++
		case "Q":
			nq++
			points = append(points, point{nr, nm, fmt.Sprintf("Q%d", nq)})
		}
	}
	points = append(points, point{nr, nm, "end"})
	calls := 0
	serve := func(mux *nh.ServeMux, ri int, at string, nm int) {
		r := routes[ri]
		var req *nh.Request
		for _, t := range routeTargets(h, r) {
			cand := httptest.NewRequest(t.method, t.path, nil)
			if _, pat := mux.Handler(cand); pat == t.pattern {
				req = cand
				break
			}
		}
		if req == nil {
			o.Err += fmt.Sprintf("route %d (%s on s%d) not reachable at %v; ", r.Route, formTab[r.Form], r.Obj, routeTargets(h, r))
			return
		}
		var buf strings.Builder
		saved := data.WriteOutput
		data.WriteOutput = func(x string) { buf.WriteString(x) }
		rec := httptest.NewRecorder()
		g := runner.Guard(func() { mux.ServeHTTP(rec, req) })
		data.WriteOutput = saved
		if g.Kind != "ok" {
			o.Err += fmt.Sprintf("route %d at %s: %s:%s:%s%s; ", r.Route, at, g.Kind, g.Class, g.Msg, g.PanicKey)
		}
		st := true
		if formTab[r.Form] == "static" {
			st = rec.Code == 200 && rec.Body.String() == "F"
		}
		o.Reqs = append(o.Reqs, reqObs{Route: ri, At: at, Trace: buf.String(), Static: st, NM: nm})
	}
	cb := func(mux *nh.ServeMux) {
		if calls >= len(points) {
			o.Err += "vq called too often; "
			return
		}
		pt := points[calls]
		calls++
		if mux == nil {
			o.Err += "mux not reachable; "
			return
		}
		if pt.label != "end" {
			for ri := 0; ri < pt.nr; ri++ {
				serve(mux, ri, pt.label, pt.nm)
			}
			return
		}
		for ri := 0; ri < pt.nr; ri++ {
			serve(mux, ri, "end1", pt.nm)
		}
		for ri := pt.nr - 1; ri >= 0; ri-- { // every route a second time, in reverse order
			serve(mux, ri, "end2", pt.nm)
		}
	}
	res := runner.Run(histScript(h, dir), runner.Opts{Setup: func(vm data.VM) {
		ohttp.Load(vm)
		vm.AddFunc(vqFunc{cb: cb})
	}})
	if res.Kind != "ok" {
		o.Err = "define:" + res.Kind + ":" + res.Class + ":" + res.Msg + res.PanicKey + "; " + o.Err
	} else if calls != len(points) {
		o.Err += fmt.Sprintf("vq ran %d times, expected %d; ", calls, len(points))
	}
	return o, routes, prioOf
}

// histClause: first violated clause over all served requests, with a description.
func histClause(h []hop, dir string) (clause, detail, sig string, nreq int) {
	o, routes, prioOf := histRun(h, dir)
	var sigs []string
	for _, q := range o.Reqs {
		if q.At != "end2" {
			sigs = append(sigs, q.Trace)
		}
	}
	sig = strings.Join(sigs, "|")
	nreq = len(o.Reqs)
	if o.Err != "" {
		return "mw-error", o.Err, sig, nreq
	}
	for _, q := range o.Reqs {
		r := routes[q.Route]
		// a middleware that is not registered yet cannot be expected or tolerated
		var opt []int
		for _, id := range r.Optional {
			if id < q.NM {
				opt = append(opt, id)
			}
		}
		r.Optional = opt
		if cl := judge(r, prioOf, q.Trace, q.Static); cl != "" {
			return cl, fmt.Sprintf("route %d (%s on object s%d), request served at %s:\nrequired chain %v (optional %v)\nexpected trace %q\nobserved trace %q (static file served: %v)",
				r.Route, formTab[r.Form], r.Obj, q.At, r.Required, r.Optional, expectTrace(r), q.Trace, q.Static), sig, nreq
		}
	}
	return "", "", sig, nreq
}

// ---- reduction -----------------------------------------------------------------------------

// dropOp removes op i; removing a group creation re-homes the group's calls on its parent.
func dropOp(h []hop, i int) []hop {
	out := make([]hop, 0, len(h)-1)
	if h[i].Op != "G" {
		out = append(out, h[:i]...)
		return append(out, h[i+1:]...)
	}
	gone := 1
	for _, o := range h[:i] {
		if o.Op == "G" {
			gone++
		}
	}
	par := h[i].Obj
	remap := func(obj int) int {
		switch {
		case obj == gone:
			return par
		case obj > gone:
			return obj - 1
		}
		return obj
	}
	for j, o := range h {
		if j == i {
			continue
		}
		o.Obj = remap(o.Obj)
		out = append(out, o)
	}
	return out
}

func reduceHist(h []hop, clause, dir string) []hop {
	cur := append([]hop{}, h...)
	try := func(cand []hop) bool {
		if !histValid(cand) {
			return false
		}
		cl, _, _, _ := histClause(cand, dir)
		return cl == clause
	}
	for changed := true; changed; {
		changed = false
		for i := 0; i < len(cur) && !changed; i++ {
			if cand := dropOp(cur, i); try(cand) {
				cur, changed = cand, true
			}
		}
		for i := 0; i < len(cur) && !changed; i++ {
			o := cur[i]
			var alts []hop
			if o.Op == "M" && o.Prio != 0 {
				a := o
				a.Prio = 0
				alts = append(alts, a)
			}
			if o.Op == "M" && o.Kind != 0 {
				a := o
				a.Kind = 0
				alts = append(alts, a)
			}
			if o.Op == "R" && o.Form != 0 {
				a := o
				a.Form = 0
				alts = append(alts, a)
			}
			for _, a := range alts {
				cand := append([]hop{}, cur...)
				cand[i] = a
				if try(cand) {
					cur, changed = cand, true
					break
				}
			}
		}
	}
	return cur
}

// ---- worker --------------------------------------------------------------------------------

const maxReductionsPerClause = 3

func histWorker(w *pool.W, arg json.RawMessage) {
	var sh histShard
	json.Unmarshal(arg, &sh)
	var n, routesN, unreduced int64
	outcomes := map[string]bool{}
	failed := map[string]bool{}
	reduced := map[string]int{}
	var sample []hop
	visit := func(h []hop) {
		if !worthRunning(h) {
			return
		}
		if !w.Item(histString(h)) {
			return
		}
		n++
		cl, _, sig, nreq := histClause(h, sh.Dir)
		outcomes[sig] = true
		routesN += int64(nreq)
		sample = append(sample[:0], h...)
		if cl == "" {
			return
		}
		if reduced[cl] >= maxReductionsPerClause {
			unreduced++
			return
		}
		reduced[cl]++
		red := reduceHist(h, cl, sh.Dir)
		key := cl + ":" + histString(red)
		if failed[key] {
			return
		}
		failed[key] = true
		_, detail, _, _ := histClause(red, sh.Dir)
		w.Emit(rec{Kind: "fail", Key: key, Clause: cl, Size: len(red), Case: map[string]any{"kind": "hist", "hist": red, "script": histScript(red, "<dir>")}, Detail: "configuration history " + histString(red) + "\n" + detail})
	}
	var rec_ func(h []hop)
	rec_ = func(h []hop) {
		visit(h)
		if len(h) >= sh.B.MaxLen {
			return
		}
		for _, o := range nextOps(h, sh.B) {
			rec_(append(append([]hop{}, h...), o))
		}
	}
	rec_(sh.Prefix)
	var oc []string
	for k := range outcomes {
		oc = append(oc, "hist:"+k)
	}
	w.Emit(rec{Kind: "count", N: n, Outcome: oc})
	w.Emit(rec{Kind: "histcount", N: routesN, Size: int(unreduced)})
	if len(sample) == sh.B.MaxLen && len(sh.Prefix) > 0 && sh.Prefix[0].Op == "M" && sh.Prefix[0].Kind == 1 && sh.Prefix[0].Prio == 1 {
		if routes, _ := histReference(sample); len(routes) > 0 {
			w.Emit(rec{Kind: "sample", Case: map[string]any{"history": histString(sample), "route": routes[len(routes)-1].Route, "expected_trace": expectTrace(routes[len(routes)-1])}})
		}
	}
}

// histShards: one shard for all histories shorter than splitAt, and one per valid prefix of length
// splitAt (the prefix and its whole subtree up to the bound).
func histShards(b histBound, dir string, splitAt int) []pool.Shard {
	if splitAt > b.MaxLen {
		splitAt = b.MaxLen
	}
	short := b
	short.MaxLen = splitAt - 1
	shards := []pool.Shard{{Kind: "hist", Arg: histShard{Prefix: []hop{}, B: short, Dir: dir}}}
	var gen func(h []hop)
	gen = func(h []hop) {
		if len(h) == splitAt {
			shards = append(shards, pool.Shard{Kind: "hist", Arg: histShard{Prefix: append([]hop{}, h...), B: b, Dir: dir}})
			return
		}
		for _, o := range nextOps(h, b) {
			gen(append(append([]hop{}, h...), o))
		}
	}
	gen(nil)
	return shards
}

func makeStaticDir() (string, error) {
	d, err := os.MkdirTemp("", "verif-c13-static-")
	if err != nil {
		return "", err
	}
	return d, os.WriteFile(filepath.Join(d, "f.txt"), []byte("F"), 0o644)
}

// countHist: number of histories the bound contains (generator only, nothing is run) - the parent
// cross-checks it against what the workers report.
func countHist(b histBound) int64 {
	var n int64
	var rec_ func(h []hop)
	rec_ = func(h []hop) {
		if worthRunning(h) {
			n++
		}
		if len(h) >= b.MaxLen {
			return
		}
		for _, o := range nextOps(h, b) {
			rec_(append(h[:len(h):len(h)], o))
		}
	}
	rec_(nil)
	return n
}

// histExample: one written-out history for the evidence file.
func histExample() any {
	h := []hop{{Op: "M", Prio: 1}, {Op: "R"}, {Op: "G"}, {Op: "M", Kind: 1}, {Op: "Q"}, {Op: "M", Obj: 1, Kind: 1, Prio: 2}, {Op: "R", Obj: 1, Form: 1}}
	routes, _ := histReference(h)
	var exp []string
	for _, r := range routes {
		exp = append(exp, fmt.Sprintf("route %d: required %v optional %v trace %q", r.Route, r.Required, r.Optional, expectTrace(r)))
	}
	return map[string]any{"history": histString(h), "script": histScript(h, "<dir>"), "expected": exp}
}
