package main

// An independent, deliberately crude tokenizer. It is NOT origami's lexer: it only decides
// where the *token boundaries* of a corpus file lie, so that prefixes / deletions /
// duplications cut the text between lexical units and (for strings) at the interpolation
// seams. It never fails: any byte sequence is split into spans that cover every non-blank byte.

type span struct{ s, e int } // [s,e)

var multiOps = []string{
	"<<<", "<=>", "**=", "...", "===", "!==", "<<=", ">>=", "??=", "?->",
	"<?php", "<?=", "?>",
	"=>", "->", "::", "??", "==", "!=", "<>", "<=", ">=", "&&", "||", "++", "--", "+=", "-=", "*=", "/=", ".=", "%=", "&=", "|=", "^=", "<<", ">>", "**", "//", "/*", "*/", "#[",
}

func isIdentStart(c byte) bool {
	return c == '_' || c == '\\' || (c >= 'a' && c <= 'z') || (c >= 'A' && c <= 'Z') || c >= 0x80
}
func isIdentPart(c byte) bool { return isIdentStart(c) || (c >= '0' && c <= '9') }
func isDigit(c byte) bool     { return c >= '0' && c <= '9' }
func isBlank(c byte) bool     { return c == ' ' || c == '\t' || c == '\r' || c == '\n' }

// crudeTokens splits src into token spans. inner=true additionally reports cut points inside
// double-quoted strings and heredocs (after the opener, before each '$', '{', '}' and before the closer).
func crudeTokens(src string) (toks []span, innerCuts []int) {
	n := len(src)
	i := 0
	for i < n {
		c := src[i]
		if isBlank(c) {
			i++
			continue
		}
		st := i
		switch {
		case c == '$' && i+1 < n && isIdentStart(src[i+1]) && src[i+1] != '\\':
			i += 2
			for i < n && isIdentPart(src[i]) && src[i] != '\\' {
				i++
			}
		case isIdentStart(c):
			i++
			for i < n && isIdentPart(src[i]) {
				i++
			}
		case isDigit(c):
			i++
			for i < n && (isDigit(src[i]) || src[i] == '.' || src[i] == '_' || src[i] == 'x' || src[i] == 'e' || (src[i] >= 'a' && src[i] <= 'f') || (src[i] >= 'A' && src[i] <= 'F')) {
				i++
			}
		case c == '"' || c == '\'' || c == '`':
			i++
			for i < n && src[i] != c {
				if src[i] == '\\' && i+1 < n {
					i++
				} else if c == '"' && (src[i] == '$' || src[i] == '{' || src[i] == '}') {
					innerCuts = append(innerCuts, i)
				}
				i++
			}
			if i < n {
				innerCuts = append(innerCuts, i) // before the closing quote
				i++
			}
			if st+1 < i {
				innerCuts = append(innerCuts, st+1) // right after the opener
			}
		case c == '#' && !(i+1 < n && src[i+1] == '['), c == '/' && i+1 < n && src[i+1] == '/':
			for i < n && src[i] != '\n' {
				i++
			}
		case c == '/' && i+1 < n && src[i+1] == '*':
			i += 2
			for i < n && !(src[i] == '*' && i+1 < n && src[i+1] == '/') {
				i++
			}
			if i < n {
				i += 2
			}
			if st+2 < i {
				innerCuts = append(innerCuts, st+2)
			}
		default:
			matched := false
			for _, op := range multiOps {
				if len(op) <= n-i && src[i:i+len(op)] == op {
					i += len(op)
					matched = true
					break
				}
			}
			if !matched {
				i++
			}
		}
		toks = append(toks, span{st, i})
	}
	return
}
