package main

import (
	"fmt"
	"os"
	"syscall"
	"time"

	"github.com/php-any/origami/parser"
	"github.com/php-any/origami/runtime"
)

type cpuT time.Duration

func cpuNow() time.Duration {
	var ru syscall.Rusage
	syscall.Getrusage(syscall.RUSAGE_SELF, &ru)
	return time.Duration(ru.Utime.Nano() + ru.Stime.Nano())
}

func bench() {
	if os.Getenv("VERIF_C01_BENCH") == "" {
		return
	}
	N := 20000
	t := cpuNow()
	for i := 0; i < N; i++ {
		p := parser.NewParser()
		_ = runtime.NewVM(p)
	}
	fmt.Println("NewParser+NewVM", (cpuNow()-t)/time.Duration(N))
	t = cpuNow()
	for i := 0; i < N; i++ {
		check("$a = 1 + ;", 0, false)
	}
	fmt.Println("check plain", (cpuNow()-t)/time.Duration(N))
	t = cpuNow()
	for i := 0; i < N; i++ {
		check("<?php $a = 1 + ;", 1, false)
	}
	fmt.Println("check template", (cpuNow()-t)/time.Duration(N))
	t = cpuNow()
	for i := 0; i < 2000; i++ {
		check("$a = $ ", 0, false)
	}
	fmt.Println("check panic", (cpuNow()-t)/time.Duration(2000))
	t = cpuNow()
	for i := 0; i < 50; i++ {
		hangCache = map[string][2]string{}
		check("$a = { : 1", 0, false)
	}
	fmt.Println("check hang (uncached)", (cpuNow()-t)/time.Duration(50))
	t = cpuNow()
	for i := 0; i < 50; i++ {
		check("$a = { : 1", 0, false)
	}
	fmt.Println("check hang (cached)", (cpuNow()-t)/time.Duration(50))
	os.Exit(0)
}
