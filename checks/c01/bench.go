package main

import (
	"fmt"
	"os"
	"time"

	"github.com/php-any/origami/parser"
	"github.com/php-any/origami/runtime"
)

var dbgTests int

func bench() {
	if os.Getenv("VERIF_C01_CORPUS_PARSE") != "" {
		for _, f := range corpusFiles() {
			b, _ := os.ReadFile(repoRoot() + "/" + f)
			r := parseOnly(string(b), 1, 50_000_000)
			fmt.Println(f, r.Kind, r.PanicKey, r.Line)
		}
		os.Exit(0)
	}
	if file := os.Getenv("VERIF_C01_SEQ"); file != "" {
		var from, to int
		fmt.Sscan(os.Getenv("VERIF_C01_SEQ_RANGE"), &from, &to)
		for i := from; i < to; i++ {
			src, _ := caseSrc(kase{Mode: 1, Note: fmt.Sprintf("%s prefix #%d", file, i)})
			v := check(src, 1, false)
			if v.Clause != "" {
				fmt.Println(i, v.Key, len(hangCache))
			}
		}
		os.Exit(0)
	}
	if note := os.Getenv("VERIF_C01_ATTR"); note != "" {
		src, ok := caseSrc(kase{Mode: 1, Note: note})
		fmt.Println("src", len(src), ok)
		t := cpuNow()
		n := 0
		red := reduceText(src, 1, func(s string) bool { n++; return parseOnly(s, 1, probe(len(s))).Kind == "fuel" })
		fmt.Printf("reduce: %d tests, %v cpu, -> %d bytes %q\n", n, cpuNow()-t, len(red), red)
		t = cpuNow()
		k, d, _, _ := decideHang(src, 1)
		fmt.Println("attribute total:", cpuNow()-t, k, d)
		os.Exit(0)
	}
	if src := os.Getenv("VERIF_C01_STACK"); src != "" {
		mode := 0
		if len(src) > 5 && src[:5] == "<?php" {
			mode = 1
		}
		fr, ex := fuelStack(src, mode, probe(len(src)))
		fmt.Println("exhausted", ex, "depth", len(fr))
		if os.Getenv("VERIF_C01_STACK_SERIES") != "" {
			common := fr
			for k := int64(1); k < 400; k++ {
				f2, _ := fuelStack(src, mode, probe(len(src))+k)
				common = commonPrefix(common, f2)
				last := ""
				if len(f2) > 0 {
					last = f2[len(f2)-1]
				}
				fmt.Println(k, "depth", len(f2), "common", len(common), last)
			}
			fmt.Println("=>", common[len(common)-1])
			os.Exit(0)
		}
		for i, f := range fr {
			if i < 60 || i > len(fr)-40 {
				fmt.Println(i, f)
			}
		}
		os.Exit(0)
	}
	if os.Getenv("VERIF_C01_BENCH") == "" {
		return
	}
	N := 20000
	t := cpuNow()
	for i := 0; i < N; i++ {
		p := parser.NewParser()
		_ = runtime.NewVM(p)
	}
	fmt.Println("NewParser+NewVM", (cpuNow()-t)/time.Duration(N))
	t = cpuNow()
	for i := 0; i < N; i++ {
		check("$a = 1 + ;", 0, false)
	}
	fmt.Println("check plain", (cpuNow()-t)/time.Duration(N))
	t = cpuNow()
	for i := 0; i < N; i++ {
		check("<?php $a = 1 + ;", 1, false)
	}
	fmt.Println("check template", (cpuNow()-t)/time.Duration(N))
	t = cpuNow()
	for i := 0; i < 2000; i++ {
		check("$a = $ ", 0, false)
	}
	fmt.Println("check panic", (cpuNow()-t)/time.Duration(2000))
	t = cpuNow()
	for i := 0; i < 50; i++ {
		hangCache = map[string][2]string{}
		check("$a = { : 1", 0, false)
	}
	fmt.Println("check hang (uncached)", (cpuNow()-t)/time.Duration(50))
	t = cpuNow()
	for i := 0; i < 50; i++ {
		check("$a = { : 1", 0, false)
	}
	fmt.Println("check hang (cached)", (cpuNow()-t)/time.Duration(50))
	os.Exit(0)
}
