package main

import (
	"encoding/json"
	"fmt"
	"strings"

	"verif/engine/pool"
)

// ---- (f) character units inside lexical containers ---------------------------------------------
//
// Families (b)/(c) put their bytes AFTER a stem, never before a mode switch (`<?php`, `?>`, `<?=`)
// and never inside a string / comment / heredoc that is followed by more source. Scanners that
// search a transformed copy of the text (lower-cased, decoded, trimmed) and reuse the offset on the
// original, or that count runes where bytes are meant, go wrong exactly when a character whose
// transformed length differs stands BEFORE the thing searched for, and the drift adds up with every
// further such character. So: every sequence of <= 3 units (thorough: 4; and every homogeneous run
// up to 12, plus 16/32/64) over an alphabet of characters chosen by byte-length behaviour, and every single byte
// value, in every container below.
var unitAlphabet = []string{
	"\xe9", "\x80", "\xff", "\xc3", // invalid UTF-8: lone Latin-1 letter, lone continuation, never-valid byte, truncated lead
	"\u00e9",     // e-acute: 2 bytes, case mapping keeps the length
	"\u0130",     // I with dot above: 2 bytes, lower case is 3 bytes
	"\u023a",     // A with stroke: 2 bytes, lower case is 3 bytes
	"\u212a",     // Kelvin sign: 3 bytes, lower case is 1 byte
	"\u017f",     // long s: 2 bytes, upper case is 1 byte
	"\u4e2d",     // CJK: 3 bytes, no case
	"\u3000",     // full-width space (the lexers skip it by a 3-byte look-ahead)
	"\U0001F600", // 4 bytes
	"\ufeff",     // BOM
	"\u2028",     // line separator
	"A", "\n",
}

var unitRuns = []int{4, 5, 6, 7, 8, 9, 10, 11, 12, 16, 32, 64}

// unitSeqs(L): all 256 single bytes, every unit sequence of length 1..L, every homogeneous run.
// The order is fixed (case ids index into it).
var unitSeqCache = map[int][]string{}

func unitSeqs(maxLen int) []string {
	if s, ok := unitSeqCache[maxLen]; ok {
		return s
	}
	seen := map[string]bool{}
	var out []string
	add := func(s string) {
		if !seen[s] {
			seen[s] = true
			out = append(out, s)
		}
	}
	for b := 0; b < 256; b++ {
		add(string([]byte{byte(b)}))
	}
	var rec func(cur string, n int)
	rec = func(cur string, n int) {
		if n > 0 {
			add(cur)
		}
		if n == maxLen {
			return
		}
		for _, u := range unitAlphabet {
			rec(cur+u, n+1)
		}
	}
	rec("", 0)
	for _, a := range unitAlphabet {
		for _, r := range unitRuns {
			add(strings.Repeat(a, r))
		}
	}
	unitSeqCache[maxLen] = out
	return out
}

type unitContainer struct {
	Mode      int
	Pre, Post string
}

var unitContainers = func() []unitContainer {
	// template files: the sequence in the inline-HTML segments around the mode switches, and in
	// comment / string / code position of blocks that take the alternative-syntax rewriting path
	// (`if (..): ... endif;`), which re-scans the block text before it is tokenized
	t := []unitContainer{
		{1, "", "<?php"},
		{1, "", "<?php echo 1;"},
		{1, "", "<?php echo 1; ?>"},
		{1, "<?php echo 1; ?>", ""},
		{1, "<?php echo 1; ?>", "<?php echo 2;"},
		{1, "", "<?= 1 ?>"},
		{1, "", "<?PHP echo 1;"},
		{1, "", "<?ph"},
		{1, "", "?>"},
		{1, "<p>", "</p><?php echo 1;"},
		{1, "<p a=\"", "\"><?php echo 1; ?></p>"},
		{1, "<p>{$a}", "</p>"},
		{1, "<?php if (1): ?>", "<?php endif; ?>"},
		{1, "", "<?php if (1): echo 1; endif;"},
		{1, "<?php /*", "*/ if (1): echo 1; endif;"},
		{1, "<?php $s = \"", "\"; foreach ([1] as $v): echo $v; endforeach;"},
		{1, "<?php #", "\nwhile (0): endwhile;"},
		{1, "<?php $s = '", "'; if (0): echo 1; else: echo 2; endif;"},
		{1, "<?php ", " if (1): endif;"},
		{1, "<?php for (;0;): endfor; ?>", "<?php switch (1): endswitch;"},
	}
	// inside a script: every lexical container, in both modes
	s := []struct{ pre, post string }{
		{`$s = "`, `"; $a = 1;`},
		{`$s = '`, `'; $a = 1;`},
		{"$s = `", "`; $a = 1;"},
		{`$s = "\`, `"; $a = 1;`},
		{`$s = "{$a}`, `$a"; $a = 1;`},
		{"$s = <<<EOT\n", "\nEOT;\n$a = 1;"},
		{"$s = <<<'EOT'\n", "\nEOT;\n$a = 1;"},
		{"/*", "*/ $a = 1;"},
		{"//", "\n$a = 1;"},
		{"#", "\n$a = 1;"},
		{"$", " = 1;"},
		{"", ";"},
		{"$a->", ";"},
		{"f(", ");"},
		{"function ", "() {}"},
		{"class ", " {}"},
		{"$a = 1", ";"},
	}
	for _, c := range s {
		t = append(t, unitContainer{0, c.pre, c.post}, unitContainer{1, "<?php " + c.pre, c.post})
	}
	return t
}()

func unitSrc(c, maxLen, q int) string {
	return unitContainers[c].Pre + unitSeqs(maxLen)[q] + unitContainers[c].Post
}

type unitShard struct {
	C    int `json:"c"`
	L    int `json:"l"` // sequences of <= L units
	From int `json:"from"`
	To   int `json:"to"`
}

func unitWorker(w *pool.W, arg json.RawMessage) {
	if aborted() {
		w.Emit(sumRec{Kind: "sum", Fam: "aborted", Outcomes: map[string]int{"shard-skipped-after-abort": 1}})
		return
	}
	defer shardCleanup()
	var sh unitShard
	json.Unmarshal(arg, &sh)
	a := newAcc(w, "f-units-in-containers")
	for q := sh.From; q < sh.To && q < len(unitSeqs(sh.L)); q++ {
		a.one(fmt.Sprintf("unit|%d|%d|%d", sh.C, sh.L, q), a.sum.Fam, unitContainers[sh.C].Mode, unitSrc(sh.C, sh.L, q), false, "")
	}
	a.flush()
}

// ---- (g) complete programs whose operands are parsed more than once ------------------------------
//
// The parser speculates: an expression that starts with `$var ,` is first parsed as a candidate
// multi-assignment list, then the position is rewound and the caller parses the same tokens again
// (once more per leading `$var ,`). Everything that the first pass leaves behind - rewritten token
// slices, nested token lists of interpolated strings that a sub-parser works on, scopes of closures
// declared inside the operand - is seen by the second pass. Family (e) never places an operand with
// a nested token list behind `$var ,`. Here every operand E (carrier x body) is put at every site;
// all programs are complete by construction (each operator piece brings its own operand) and only
// compute on locals, so they are run and the accepted-is-complete clause is applied.
const reparsePrelude = `class K { public $p = 3; public $q = 0; function __construct($u = 0, $v = 0) { $this->q = $v; } function m() { return 4; } function m2($u, $v) { return $v; } static function s2($u, $v) { return $v; } }
function f2($u, $v) { return $v; }
$a = [10, 20]; $o = new K(); $i = 1; $x = 7; $y = 8;
`

// sites: %E is the operand. Site 0 is the neutral one (operand parsed once, nothing before it).
var reparseSites = []string{
	`echo %E;`,
	`$r = %E; echo $r;`,
	`echo $x, %E;`,
	`echo $x, $y, %E;`,
	`echo $x, %E, "|", %E;`,
	`$r = [$x, %E]; echo $r[1];`,
	`$r = [$x, $y, %E]; echo $r[2];`,
	`$r = [$x, "k" => %E]; echo $r["k"];`,
	`$r = array($x, %E); echo $r[1];`,
	`echo f2($x, %E);`,
	`echo $o->m2($x, %E);`,
	`echo K::s2($x, %E);`,
	`$n = new K($x, %E); echo $n->q;`,
	`[$u, $v] = [$x, %E]; echo $v;`,
	`echo $x, %E ? "t" : "f";`,
	`if ($x) { echo $x, %E; }`,
}

// carriers: %B is the body. Strings and heredocs carry the body as a nested token list.
var reparseCarriers = []struct{ Kind, Text string }{
	{"interpolated-string", `"{%B}"`},
	{"interpolated-string", `"v={%B};"`},
	{"interpolated-string", `"{%B}{%B}"`},
	{"interpolated-string", "<<<EOT\nv={%B}\nEOT\n"},
	{"parenthesized", `(%B)`},
	{"arrow-fn-call", `(fn($w) => %B)(1)`},
	{"closure-call", `(function() use ($a, $o, $i) { return %B; })()`},
}

var reparseHeads = []string{"$a", "$o"}

// pieces: postfix / infix continuations, each complete in itself. (No double-quoted string inside
// a body: origami's string scanner ends the literal at the first inner quote, so "{$a . "s"}" is
// three juxtaposed tokens in this language, not a complete operand.)
var reparsePieces = []string{
	"[0]", "[$i]", "->p", "->m()",
	" -1", " +1", " -1.5", " - 1", " -$i", " * 2", " ** 2", " . 's'", " ?? 0", " ? 1 : 2",
}

func reparseBodies(maxLen int) []string {
	var out []string
	for _, h := range reparseHeads {
		var rec func(cur string, n int)
		rec = func(cur string, n int) {
			out = append(out, cur)
			if n == maxLen {
				return
			}
			for _, p := range reparsePieces {
				rec(cur+p, n+1)
			}
		}
		rec(h, 0)
	}
	return out
}

var noSpeculation = strings.NewReplacer("$x,", "7,", "$y,", "8,")

// reparseSrc returns the program, its no-speculation twin (same site, the leading variables of the
// list replaced by literals, so the operand is parsed once) and the operand alone at `echo E;`.
func reparseSrc(mode, site, carrier int, body string) (src, alt, alt0 string) {
	e := strings.ReplaceAll(reparseCarriers[carrier].Text, "%B", body)
	head := reparsePrelude
	if mode == 1 {
		head = "<?php\n" + head
	}
	src = head + strings.ReplaceAll(reparseSites[site], "%E", e) + "\n"
	alt = head + strings.ReplaceAll(noSpeculation.Replace(reparseSites[site]), "%E", e) + "\n"
	alt0 = head + strings.ReplaceAll(reparseSites[0], "%E", e) + "\n"
	return
}

type reparseShard struct {
	Mode    int `json:"mode"`
	Site    int `json:"site"`
	Carrier int `json:"carrier"`
	MaxLen  int `json:"max_len"`
}

func reparseWorker(w *pool.W, arg json.RawMessage) {
	if aborted() {
		w.Emit(sumRec{Kind: "sum", Fam: "aborted", Outcomes: map[string]int{"shard-skipped-after-abort": 1}})
		return
	}
	defer shardCleanup()
	var sh reparseShard
	json.Unmarshal(arg, &sh)
	a := newAcc(w, "g-reparsed-operands")
	ran := 0
	for bi, body := range reparseBodies(sh.MaxLen) {
		src, alt, alt0 := reparseSrc(sh.Mode, sh.Site, sh.Carrier, body)
		before := a.sum.Outcomes["run:ok"]
		a.oneAlt(fmt.Sprintf("rep|%d|%d|%d|%d|%d", sh.Mode, sh.Site, sh.Carrier, sh.MaxLen, bi), a.sum.Fam, sh.Mode, src, reparseCarriers[sh.Carrier].Kind+"\x00"+alt+"\x00"+alt0, "")
		ran += a.sum.Outcomes["run:ok"] - before
	}
	if ran == 0 && !a.stop {
		// no body at all ran to completion here: the site/carrier is not valid in this language
		a.sum.Outcomes[fmt.Sprintf("unexpected:site-never-runs:%d:%d:%d", sh.Mode, sh.Site, sh.Carrier)]++
	}
	a.flush()
}
