package main

import (
	"encoding/json"
	"fmt"
	"strconv"
	"strings"

	"verif/engine/pool"
)

// ---- (i) optional syntax parts, present or omitted, in programs that are RUN -------------------
//
// Family (e) runs mutants of 40 fixed programs and family (g) varies operands; neither omits an
// OPTIONAL part of a statement (the catch variable, the default arm, a for clause, a parameter
// default, ...) in a program that is then executed along the path that uses that part. Every
// template below is a complete runnable program with slots; alternative 0 of a slot is the reference
// form (the part written out in full), the others are the shorter / omitted / alternative spellings.
// All combinations are built and run with the strict runner. A combination need not be valid (a
// rejected program or a script-level error is a fine answer); what may not happen is an internal
// crash: a Go panic, or a Go panic that a try statement recovered and re-labelled as a script error.
//
// Attribution: if the all-reference twin of the template runs without the crash, the crash is
// caused by a part that was omitted / written in its short form: key
// accept-then-crash:optional-part@<frame meeting the nil> (one construct node = one key, whatever
// template shows it); the detail names the minimal set of non-reference slots that keeps the crash
// (greedy restore). Otherwise accept-then-crash:complete-source@<frame>.
type optSlot struct {
	Name string
	Alts []string
}

type optTemplate struct {
	Name      string
	BothModes bool   // quick tier: also in template mode
	Text      string // %0 %1 ... are the slots
	Slots     []optSlot
}

const optMark = "\x01opt\x00"

var optTemplates = []optTemplate{
	{"try", true, `function r($n) { if ($n > 1) { throw new LogicException("b"); } return $n; }
try { %0 } %1 %2 %3
echo "end";`, []optSlot{
		{"try-body", []string{`echo r(2);`, `throw new LogicException("b");`, `echo r(1);`, `echo intdiv(1, 0);`}},
		{"catch-variable", []string{
			`catch (LogicException $e) { echo "c1", get_class($e); }`,
			`catch (LogicException) { echo "c1"; }`,
			`catch (InvalidArgumentException | LogicException $e) { echo "c1", $e->getMessage(); }`,
			`catch (InvalidArgumentException | LogicException) { echo "c1"; }`,
			`catch (Throwable) { echo "c1"; }`,
			`catch (\Throwable) { echo "c1"; }`,
			`catch (InvalidArgumentException $e) { echo "no"; }`,
			`catch (InvalidArgumentException) { echo "no"; }`,
			``}},
		{"second-catch", []string{`catch (Exception $f) { echo "c2", $f->getMessage(); }`, `catch (Exception) { echo "c2"; }`, `catch (Throwable) { echo "c2"; }`, ``}},
		{"finally", []string{`finally { echo "f"; }`, ``}},
	}},
	{"try-nested", false, `function t() { try { %0 } %1 %2 return "t"; }
try { echo t(); } catch (Throwable $o) { echo "outer", get_class($o); }`, []optSlot{
		{"try-body", []string{`throw new RuntimeException("x");`, `return "r";`, `echo "nothrow";`}},
		{"catch-variable", []string{`catch (RuntimeException $e) { echo "c"; throw $e; }`, `catch (RuntimeException) { echo "c"; throw new LogicException("y"); }`, `catch (RuntimeException) { return "cr"; }`, `catch (RuntimeException $e) { echo "c"; }`, `catch (RuntimeException) { }`, ``}},
		{"finally", []string{`finally { echo "f"; }`, `finally { return "fr"; }`, `finally { }`, ``}},
	}},
	{"function", false, `$x = 5;
function f(%0)%1 { %2 }
echo f(%3), "|";`, []optSlot{
		{"parameters", []string{`int $a = 1, ?int $b = null`, `$a, $b = 2`, `$a`, ``, `$a = 1, ...$r`, `...$r`, `int|string $a = 1`}},
		{"return-type", []string{`: int`, ``, `: ?int`, `: mixed`, `: void`}},
		{"body", []string{`return 1;`, ``, `return;`}},
		{"arguments", []string{`1, 2`, `1`, ``, `a: 1`, `...[1]`, `1, 2, 3`}},
	}},
	{"closure", false, `$x = 5; $y = 6;
$f = %0function(%1)%2%3 { %4 };
echo $f(%5), "|";`, []optSlot{
		{"static", []string{`static `, ``}},
		{"parameters", []string{`int $a = 1, ?int $b = null`, `$a, $b = 2`, ``, `$a = 1, ...$r`}},
		{"use-list", []string{` use ($x, &$y)`, ` use ($x)`, ` use (&$y)`, ``}},
		{"return-type", []string{`: int`, ``, `: ?int`}},
		{"body", []string{`return 1;`, ``, `return $x ?? 0;`}},
		{"arguments", []string{`1, 2`, `1`, ``, `...[1]`}},
	}},
	{"arrow-fn", false, `$x = 5;
$f = %0fn(%1)%2 => %3;
echo $f(%4), "|";`, []optSlot{
		{"static", []string{`static `, ``}},
		{"parameters", []string{`int $a = 1, ?int $b = null`, `$a, $b = 2`, ``, `$a = 1, ...$r`, `&$a = 1`}},
		{"return-type", []string{`: int`, ``, `: ?int`}},
		{"body", []string{`$x + 1`, `1`, `$a ?? 0`, `fn() => $x`, `null`}},
		{"arguments", []string{`1, 2`, `1`, ``, `...[1]`}},
	}},
	{"method", false, `class C { %0 %1function m(%2)%3 { %4 } function go() { return %5m(%6); } }
echo (new C)->go(), "|";`, []optSlot{
		{"visibility", []string{`public`, ``, `private`, `protected`, `final public`}},
		{"static", []string{``, `static `}},
		{"parameters", []string{`int $a = 1, ?int $b = null`, `$a = 1`, ``, `$a = 1, ...$r`}},
		{"return-type", []string{`: int`, ``, `: static`, `: ?self`}},
		{"body", []string{`return 1;`, ``, `return $this;`}},
		{"receiver", []string{`$this->`, `self::`, `static::`}},
		{"arguments", []string{`1, 2`, `1`, ``, `b: 2`}},
	}},
	{"for", false, `$i = 0; $j = 0;
for (%0; %1; %2) { echo $i; if ($i++ >= 2) { break; } %3 }
echo "|", $i;`, []optSlot{
		{"init", []string{`$i = 0`, ``, `$i = 0, $j = 1`}},
		{"condition", []string{`$i < 5`, ``, `$j < 9, $i < 5`}},
		{"step", []string{`$j++`, ``, `$j++, $j++`}},
		{"body-tail", []string{`continue;`, ``, `if ($j > 50) { break; }`}},
	}},
	{"foreach", false, `$arr = ["k" => 1, "l" => 2]; $pairs = [[1, 2], [3, 4]];
foreach (%0 as %1) { %2 }
echo "|";`, []optSlot{
		{"source", []string{`$arr`, `[1, 2]`, `[]`, `$pairs`}},
		{"binding", []string{`$k => $v`, `$v`, `$k => &$v`, `&$v`, `[$p, $q]`, `$k => [$p, $q]`, `[, $q]`}},
		{"body", []string{`echo $v ?? "n", $k ?? "n", $q ?? "n";`, ``, `continue;`, `break;`}},
	}},
	{"switch", false, `$s = %0;
switch ($s) { %1 %2 %3 }
echo "|";`, []optSlot{
		{"subject", []string{`2`, `1`, `9`, `"x"`}},
		{"first-case", []string{`case 1: echo "a"; break;`, `case 1: echo "a";`, `case 1:`, ``, `default: echo "d0"; break;`}},
		{"second-case", []string{`case 2: echo "b"; break;`, `case 2: case 3: echo "b"; break;`, `case 2: { echo "b"; break; }`, ``}},
		{"default", []string{`default: echo "d"; break;`, `default: echo "d";`, `default:`, ``}},
	}},
	{"match", false, `$s = %0;
echo match(%1) { %2%3 };
echo "|";`, []optSlot{
		{"subject-value", []string{`2`, `9`, `true`}},
		{"subject", []string{`$s`, `true`}},
		{"arms", []string{`1 => "a", 2 => "b"`, `1, 2 => "ab"`, `$s > 1 => "gt"`, `1 => "a", 2 => "b",`}},
		{"default", []string{`, default => "d"`, ``, `, default => "d",`, `, default => throw new LogicException("m")`}},
	}},
	{"class", false, `class B { public $w = 1; function __construct($v = 0) { $this->w = $v; } function b() { return "b"; } }
interface I { } interface J { }
%0class C%1%2 { %3 %4 %5 }
$o = new C%6; echo $o->m(), "|";`, []optSlot{
		{"modifier", []string{``, `final `}},
		{"extends", []string{` extends B`, ``}},
		{"implements", []string{` implements I, J`, ` implements I`, ``}},
		{"constructor", []string{`public $v = 3; function __construct($v = 3) { $this->v = $v; }`, `function __construct(public int $v = 3) { }`, `public $v = 3;`, `public $v;`, `public ?int $v = null;`}},
		{"constant", []string{`const K = 1;`, ``, `public const K = 1;`}},
		{"method", []string{`function m() { return $this->v; }`, `function m(): ?int { return $this->v; }`, `function m() { return $this->v ?? "n"; }`}},
		{"new-arguments", []string{`(5)`, `()`, ``}},
	}},
	{"short-forms", false, `class N { public $p = 1; function m() { return 2; } }
$a = %0; $n = %1; $u = null;
echo %2, "|";`, []optSlot{
		{"value", []string{`1`, `0`, `null`, `"s"`}},
		{"object", []string{`new N()`, `null`}},
		{"form", []string{`$a ? "t" : "f"`, `$a ?: "f"`, `$a ?? "f"`, `$n?->p`, `$n?->m()`, `$n?->p ?? "d"`, `$a ? "t" : ($u ?: "g")`, `$u ??= 4`, `$n->p ?? "d"`, `$a ?: $u ?: "h"`}},
	}},
	{"destructure", false, `$a = 0; $b = 0; $c = 0;
%0 = %1;
echo $a, $b, $c, "|";`, []optSlot{
		{"pattern", []string{`[$a, $b, $c]`, `[$a, , $c]`, `list($a, , $c)`, `[, , $c]`, `list(, $b)`, `["x" => $a, "y" => $c]`, `[$a, [$b, $c]]`, `[$a, [, $c]]`, `list($a, list($b))`}},
		{"source", []string{`[1, 2, 3]`, `["x" => 1, "y" => 3]`, `[1, [2, 3]]`, `[1]`, `null`}},
	}},
	{"call-arguments", false, `function g($a = 0, $b = 2, ...$r) { return $a + $b + count($r); }
class G { function g($a = 0, $b = 2, ...$r) { return $a + $b + count($r); } static function s($a = 0, $b = 2, ...$r) { return $a + $b; } function __construct($a = 0, $b = 2) { $this->t = $a + $b; } public $t = 0; }
$o = new G(); $f = function($a = 0, $b = 2, ...$r) { return $a + $b; };
echo %0%1, "|";`, []optSlot{
		{"callee", []string{`g`, `$o->g`, `G::s`, `$f`, `(new G)->g`}},
		{"arguments", []string{`(1, 2)`, `(1)`, `()`, `(1, 2, 3, 4)`, `(a: 1)`, `(b: 5, a: 1)`, `(1, b: 5)`, `(...[1, 2])`, `(1, ...[2, 3])`, `(...["a" => 1])`, `(1, 2,)`}},
	}},
	{"if-else", false, `$a = %0; $b = %1;
%2
echo "|";`, []optSlot{
		{"a", []string{`1`, `0`}},
		{"b", []string{`1`, `0`}},
		{"form", []string{
			`if ($a) { echo 1; } elseif ($b) { echo 2; } else { echo 3; }`,
			`if ($a) { echo 1; } else if ($b) { echo 2; } else { echo 3; }`,
			`if ($a) { echo 1; } elseif ($b) { echo 2; }`,
			`if ($a) { echo 1; } else { echo 3; }`,
			`if ($a) { echo 1; }`,
			`if ($a) echo 1; elseif ($b) echo 2; else echo 3;`,
			`if ($a) echo 1; else echo 3;`,
			`if ($a) echo 1;`,
			`if ($a) { } else { echo 3; }`,
			`if ($a): echo 1; elseif ($b): echo 2; else: echo 3; endif;`,
			`if ($a) { echo 1; } elseif ($b) { }`}},
	}},
	{"jump-operands", false, `function h($n) { foreach ([1, 2] as $p) { foreach ([3, 4] as $q) { if ($q == $n) { %0 } echo $q; } echo $p; } %1 }
echo h(%2), "|";`, []optSlot{
		{"jump", []string{`break 2;`, `break;`, `continue 2;`, `continue;`, `return;`, `return $q;`, `break 1;`}},
		{"return", []string{`return "r";`, `return;`, ``}},
		{"n", []string{`3`, `4`, `9`}},
	}},
	{"property", false, `class P { %0 %1$x%2; %3 function g() { return $this->x ?? "n"; } }
$p = new P(); echo $p->g(), "|";`, []optSlot{
		{"visibility", []string{`public`, `private`, `protected`, `var`, `public readonly`}},
		{"type", []string{`int `, ``, `?int `, `int|string `}},
		{"default", []string{` = 1`, ``}},
		{"constructor", []string{`function __construct() { $this->x = 2; }`, ``}},
	}},
	{"static-global", false, `$w = 3;
function s() { static $z%0; %1 $z++; return $z . ($w ?? "n"); }
echo s(), s(), "|";`, []optSlot{
		{"initializer", []string{` = 1`, ``, ` = 1, $y`, ` = 1, $y = 2`}},
		{"global", []string{`global $w;`, ``, `global $w, $nope;`}},
	}},
	{"enum", false, `enum E%0 { case A%1; case B%2; %3 }
echo E::A->name, %4, "|";`, []optSlot{
		{"backing", []string{`: int`, ``, `: string`}},
		{"value-a", []string{` = 1`, ``, ` = "a"`}},
		{"value-b", []string{` = 2`, ``, ` = "b"`}},
		{"method", []string{`function l() { return $this->name; }`, ``, `const D = self::A;`}},
		{"use", []string{`E::A->value`, `E::B->name`, `E::A === E::A ? 1 : 0`, `count(E::cases())`}},
	}},
	{"interface-abstract", false, `interface Q { %0function q(%1)%2; }
abstract class R implements Q { %3 }
class S extends R { function q($a = 1) { return $a; } %4 }
echo (new S)->q(), "|";`, []optSlot{
		{"visibility", []string{`public `, ``}},
		{"parameters", []string{`$a = 1`, ``, `int $a = 1`}},
		{"return-type", []string{`: mixed`, ``}},
		{"abstract-member", []string{`abstract function z();`, ``, `abstract protected function z(): int;`}},
		{"implementation", []string{`function z() { return 1; }`, ``, `function z(): int { return 1; }`}},
	}},
}

func (t *optTemplate) count() int {
	n := 1
	for _, s := range t.Slots {
		n *= len(s.Alts)
	}
	return n
}

// combo decodes a combination index (mixed radix, slot 0 least significant).
func (t *optTemplate) combo(ix int) []int {
	c := make([]int, len(t.Slots))
	for i, s := range t.Slots {
		c[i] = ix % len(s.Alts)
		ix /= len(s.Alts)
	}
	return c
}

func (t *optTemplate) build(mode int, combo []int) string {
	pairs := make([]string, 0, 2*len(t.Slots))
	for i, s := range t.Slots {
		pairs = append(pairs, "%"+strconv.Itoa(i), s.Alts[combo[i]])
	}
	src := strings.NewReplacer(pairs...).Replace(t.Text) + "\n"
	if mode == 1 {
		src = "<?php\n" + src
	}
	return src
}

func optByName(name string) *optTemplate {
	for i := range optTemplates {
		if optTemplates[i].Name == name {
			return &optTemplates[i]
		}
	}
	return nil
}

func optSummary() []string {
	var out []string
	for i := range optTemplates {
		t := &optTemplates[i]
		var sl []string
		for _, s := range t.Slots {
			sl = append(sl, fmt.Sprintf("%s:%d", s.Name, len(s.Alts)))
		}
		out = append(out, fmt.Sprintf("%s = %d (%s)", t.Name, t.count(), strings.Join(sl, " x ")))
	}
	return out
}

type optShard struct {
	T    int `json:"t"`
	Mode int `json:"mode"`
	From int `json:"from"`
	To   int `json:"to"`
}

func optWorker(w *pool.W, arg json.RawMessage) {
	if aborted() {
		w.Emit(sumRec{Kind: "sum", Fam: "aborted", Outcomes: map[string]int{"shard-skipped-after-abort": 1}})
		return
	}
	defer shardCleanup()
	var sh optShard
	json.Unmarshal(arg, &sh)
	a := newAcc(w, "i-optional-parts")
	t := &optTemplates[sh.T]
	if sh.From == 0 {
		// the all-reference program must be valid and run to completion, else the template is wrong
		if r := runStrict(t.build(sh.Mode, t.combo(0)), sh.Mode, budget(4096)+runFuel); r.Kind != "ok" {
			a.sum.Outcomes[fmt.Sprintf("unexpected:reference-program-not-ok:%s:%d:%s:%s", t.Name, sh.Mode, r.Kind, clip(r.Msg+r.PanicKey))]++
		}
	}
	for ix := sh.From; ix < sh.To && ix < t.count(); ix++ {
		src := t.build(sh.Mode, t.combo(ix))
		a.oneX(fmt.Sprintf("opt|%d|%d|%d", sh.Mode, sh.T, ix), a.sum.Fam, sh.Mode, src, true, optMark+t.Name+"|"+strconv.Itoa(ix), "")
	}
	a.flush()
}

// checkOpt judges one combination of a template (id = "<template>|<index>").
func checkOpt(src string, mode int, id string) verdict {
	var t *optTemplate
	ix := -1
	if i := strings.LastIndexByte(id, '|'); i > 0 {
		t = optByName(id[:i])
		ix, _ = strconv.Atoi(id[i+1:])
	}
	fuel := budget(len(src)) + runFuel
	r := runStrict(src, mode, fuel)
	switch {
	case r.Kind == "ok" || r.Kind == "throw" || r.Kind == "exit" || r.Kind == "control":
		return verdict{Outcome: "run:" + r.Kind}
	case r.Kind == "panic" && !r.PanicInParse:
	default:
		// rejected, out of fuel or a crash while parsing: judged like any other input (parse only)
		return checkAlt(src, mode, false, "")
	}
	crashes := func(s string) bool {
		x := runStrict(s, mode, fuel)
		return x.Kind == "panic" && !x.PanicInParse && nilClass.MatchString(strings.TrimPrefix(x.PanicKey, "panic:"))
	}
	v := verdict{Outcome: "run:other-panic", Detail: r.PanicKey}
	isNil := nilClass.MatchString(strings.TrimPrefix(r.PanicKey, "panic:"))
	if isNil {
		v.Outcome = "run:nil-crash"
		v.Clause = "accepted-is-complete"
		v.Key = "accept-then-crash:complete-source@" + frameOf(r.PanicKey)
		v.Detail = r.PanicMsg + " in " + frameOf(r.PanicKey)
	}
	if !isNil || t == nil || ix < 0 || ix >= t.count() {
		// other panic classes (explicit "implement me", operator type assertions) are internal errors
		// too, but not "caused by a missing operand or clause": counted, left to other properties
		return v
	}
	if ix == 0 || crashes(t.build(mode, t.combo(0))) {
		return v // the all-reference form crashes too: not a matter of an omitted part
	}
	// minimal set of non-reference slots that keeps the crash (greedy restore, slot order)
	combo := t.combo(ix)
	for s := range combo {
		if combo[s] == 0 {
			continue
		}
		c2 := append([]int(nil), combo...)
		c2[s] = 0
		if crashes(t.build(mode, c2)) {
			combo = c2
		}
	}
	var parts []string
	for s := range combo {
		if combo[s] != 0 {
			parts = append(parts, fmt.Sprintf("%s.%s = `%s` (reference `%s`)", t.Name, t.Slots[s].Name, t.Slots[s].Alts[combo[s]], t.Slots[s].Alts[0]))
		}
	}
	v.Key = "accept-then-crash:optional-part@" + frameOf(r.PanicKey)
	v.Detail = r.PanicMsg + " in " + frameOf(r.PanicKey) + "; the all-reference form of the template runs; the crash needs only: " + strings.Join(parts, "; ")
	return v
}
