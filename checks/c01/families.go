package main

import (
	"fmt"
	"strings"
)

// ---- (b) token strings --------------------------------------------------------------------

// One token per shortcut visible in the lexer/parser code, plus the unterminated openers.
var alphabet = []string{
	"$a", "1", "-1", "1.5", `"s"`, `"a{$b}"`, `'s'`,
	"(", ")", "[", "]", "{", "}", ",", ";",
	"=", "+", "-", ">", "?", ":", "=>", "->", "::", "??", "&", "...",
	"if", "else", "while", "for", "foreach", "as", "function", "fn", "class", "new", "return", "echo", "try", "catch", "match", "switch", "case",
	"$", `"`, "<<<X\n", "/*", "<?php", "?>",
}

// the 24-token core used for the longest length in the thorough tier
var coreIdx = func() []int {
	core := []string{"$a", "1", `"a{$b}"`, "(", ")", "[", "]", "{", "}", ",", ";", "=", "-", "?", ":", "=>", "->", "::", "&", "if", "function", "fn", "class", "new"}
	var r []int
	for _, c := range core {
		for i, a := range alphabet {
			if a == c {
				r = append(r, i)
			}
		}
	}
	return r
}()

var plainStems = []string{"", "$a = ", "f(function() { return ", "class A { "}

// template mode: "" = the bytes are the whole .php file (inline-HTML path), the others open PHP first
var templStems = []string{"<?php ", "<?php $a = ", "<?php f(function() { return ", "<?php class A { ", ""}

func stems(mode int) []string {
	if mode == 1 {
		return templStems
	}
	return plainStems
}

func joinToks(idx []int) string {
	var sb strings.Builder
	for i, t := range idx {
		if i > 0 {
			sb.WriteByte(' ')
		}
		sb.WriteString(alphabet[t])
	}
	return sb.String()
}

// ---- (c) byte strings -----------------------------------------------------------------------

var hotBytes = []byte{
	0xE3, 0x80, 0xC3, 0xF0, 0x9F, 0xBF, 0xFF, 0x00, '\r', '\n', ' ', '"', '\'', '`', '$', '\\', '{', '}', '<', '>', '?', '0', '1', '9', 'e', 'x', '.', '/', '*', '#', '-', '=', ':', '(', '[', 'a', '_', '@', '&', ';',
}

// ---- (d) nesting ladders --------------------------------------------------------------------

type ladder struct {
	Name             string
	Head, Open, Core string
	Close, Tail      string
}

var ladders = []ladder{
	{"paren", "$a = ", "(", "1", ")", ";"},
	{"array", "$a = ", "[", "1", "]", ";"},
	{"block", "", "{ ", "$a = 1;", " }", ""},
	{"not", "$a = ", "!", "1", "", ";"},
	{"neg", "$a = ", "- ", "1", "", ";"},
	{"ternary", "$a = ", "1 ? 2 : ", "3", "", ";"},
	{"arrowfn", "$a = ", "fn() => ", "1", "", ";"},
	{"closure", "$a = ", "function() { return ", "1", "; }", ";"},
	{"interp", "$a = ", "\"{$a[", "1", "]}\"", ";"},
	{"arrow-chain", "$a", "->b", "", "", ";"},
	{"anon-class", "$a = ", "new class { function f() { return ", "1", "; } }", ";"},
	{"if", "", "if (1) { ", "$a = 1;", " }", ""},
	{"call", "$a = ", "f(", "1", ")", ";"},
	{"index-chain", "$a = $b", "[0]", "", "", ";"},
	{"concat", "$a = 1", " . 1", "", "", ";"},
	{"paren-unclosed", "$a = ", "(", "", "", ""},
	{"array-unclosed", "$a = ", "[", "", "", ""},
	{"block-unclosed", "", "{ ", "", "", ""},
}

func (l ladder) build(depth int) string {
	var sb strings.Builder
	sb.Grow(len(l.Head) + depth*(len(l.Open)+len(l.Close)) + len(l.Core) + len(l.Tail))
	sb.WriteString(l.Head)
	for i := 0; i < depth; i++ {
		sb.WriteString(l.Open)
	}
	sb.WriteString(l.Core)
	for i := 0; i < depth; i++ {
		sb.WriteString(l.Close)
	}
	sb.WriteString(l.Tail)
	return sb.String()
}

func ladderByName(n string) (ladder, bool) {
	for _, l := range ladders {
		if l.Name == n {
			return l, true
		}
	}
	return ladder{}, false
}

// ---- (e) small side-effect-free programs -------------------------------------------------------
//
// Every program only computes on locals and echoes; no I/O builtin, no include, no growth that a
// single-token mutation could turn into an exponential blow-up (loop bodies only add or count).
var basePrograms = []string{
	`$a = 1; $b = $a + 2; echo $b;`,
	`$a = 5; if ($a > 3) { echo "y"; } else { echo "n"; }`,
	`$a = 2; if ($a > 3) { echo 1; } elseif ($a > 1) { echo 2; } else { echo 3; }`,
	`$i = 0; while ($i < 3) { $i++; } echo $i;`,
	`for ($i = 0; $i < 3; $i++) { echo $i; }`,
	`$s = 0; foreach ([1, 2, 3] as $v) { $s += $v; } echo $s;`,
	`foreach (["a" => 1, "b" => 2] as $k => $v) { echo $k, $v; }`,
	`function f($x, $y = 2) { return $x * $y; } echo f(3);`,
	`$f = function($x) { return $x + 1; }; echo $f(1);`,
	`$g = fn($x) => $x * 2; echo $g(4);`,
	`$a = [1, 2, 3]; echo $a[1]; $a[] = 4; echo count($a);`,
	`$a = ["k" => "v"]; echo $a["k"] ?? "d";`,
	`$a = 3; echo $a > 2 ? "big" : "small";`,
	`$a = null; echo $a ?? "z"; echo $a ?: "e";`,
	`$n = "w"; echo "hi {$n} and $n!";`,
	`class P { public $x = 1; function get() { return $this->x; } } $p = new P(); echo $p->get();`,
	`class Q { static function m($v) { return $v; } const C = 7; } echo Q::m(2), Q::C;`,
	`class R { function __construct(public int $v = 0) {} } $r = new R(5); echo $r->v;`,
	`$x = 2; switch ($x) { case 1: echo "a"; break; case 2: echo "b"; break; default: echo "c"; }`,
	`$x = 2; echo match($x) { 1 => "a", 2 => "b", default => "c" };`,
	`try { throw new Exception("m"); } catch (Exception $e) { echo $e->getMessage(); } finally { echo "f"; }`,
	`$i = 0; do { $i++; } while ($i < 2); echo $i;`,
	`$a = 1; $a += 2; $a -= 1; $a *= 3; echo $a . "x";`,
	`$a = true && false || !true; echo $a ? 1 : 0;`,
	`echo -1 + (2 * 3) - 4 / 2 % 3;`,
	`$a = [1, [2, 3]]; echo $a[1][0]; [$p, $q] = [1, 2]; echo $p + $q;`,
	`function g(int ...$xs) { $t = 0; foreach ($xs as $x) { $t += $x; } return $t; } echo g(1, 2);`,
	`interface I { function m(); } class S implements I { function m() { return 1; } } echo (new S())->m();`,
	`abstract class T { abstract function n(); } class U extends T { function n() { return 2; } } $u = new U(); echo $u->n();`,
	`$a = "5"; echo (int)$a + 1; echo isset($a) ? 1 : 0; unset($a);`,
	`$o = new stdClass(); $o->p = 1; echo $o->p; echo $o instanceof stdClass ? "y" : "n";`,
	`$f = function() use (&$c) { $c = 1; }; $f(); echo $c;`,
	`$i = 0; while (true) { $i++; if ($i > 2) { break; } continue; } echo $i;`,
	`$i = 1; $h = <<<EOT
a {$i} b
EOT;
echo $h;`,
	`static $z = 1; global $w; const K = 3; echo K;`,
	`$s = 'a' . "b" . 1; echo strlen($s), strtoupper($s);`,
	`$a = [3, 1, 2]; sort($a); echo implode(",", $a);`,
	`namespace N; use Foo\Bar; function h() { return 1; } echo h();`,
	`enum E { case A; case B; } echo E::A === E::A ? 1 : 0;`,
	`$a = 1; $b = &$a; $b = 2; echo $a; $c = clone new stdClass();`,
}

func describeLadder(name string, depth int) string { return fmt.Sprintf("%s^%d", name, depth) }

// ---- (b') string-body tokens -------------------------------------------------------------------
//
// The lexer's string scanners and the preprocessor's interpolation pass look ahead several
// characters inside string bodies ($.SERVER( , {$ , ${ , $x[ , $x-> , @{ , \x \u{ octal escapes,
// heredoc terminators). For every such trigger, string tokens are generated whose body ENDS at
// every prefix of the trigger (and continues past it), in every string container, after a few
// leads (plain text, one backslash, two backslashes).
var strTriggers = []string{
	"$.SERVER($a)", "$.SERVER(f($a))x", "$.SERVERx",
	"{$a}", "{$a->b}", "{$a->b()}", "{$a[0]}", "{$a[\"k\"]}", "{$a{$b}}", "{$1}", "{$", "${a}", "${a[0]}",
	"$a[0]", "$a[k]", "$a->b", "$a->b->c", "$a::b", "$ab_1", "$1", "$中", "$é",
	"@{f()}", "@{a{b}c}", "@{",
	"\\x41", "\\xZ", "\\u{41}", "\\u{", "\\101", "\\0", "\\8", "\\$a", "\\{$a}", "\\\"", "\\'", "\\e", "\\n", "\\",
	"<?php", "?>", "/*", "//", "#",
}

var strLeads = []string{"", "a", "\\", "\\\\"}

// containers: %s is the body
var strContainers = []struct{ open, close string }{
	{`"`, `"`}, {`'`, `'`}, {"`", "`"},
	{"<<<EOT\n", "\nEOT"}, {"<<<'EOT'\n", "\nEOT"}, {"<<<\"EOT\"\n", "\nEOT"},
}

// unterminated / partially terminated heredocs: every prefix of the closing sequence
var heredocTails = func() []string {
	full := "\n  EOT;\n"
	var r []string
	for i := 0; i <= len(full); i++ {
		r = append(r, "<<<EOT\nx $a y"+full[:i])
	}
	return r
}()

var strTokens = func() []string {
	seen := map[string]bool{}
	var out []string
	add := func(s string) {
		if !seen[s] {
			seen[s] = true
			out = append(out, s)
		}
	}
	for _, tr := range strTriggers {
		rs := []rune(tr)
		for n := 1; n <= len(rs); n++ {
			body := string(rs[:n])
			for _, lead := range strLeads {
				for _, c := range strContainers {
					add(c.open + lead + body + c.close)
				}
			}
		}
	}
	for _, h := range heredocTails {
		add(h)
	}
	return out
}()

var strSuffixes = []string{"", " ;", " . 1 ;"}
