package main

import (
	"syscall"
	"time"
)

func cpuNow() time.Duration {
	var ru syscall.Rusage
	syscall.Getrusage(syscall.RUSAGE_SELF, &ru)
	return time.Duration(ru.Utime.Nano() + ru.Stime.Nano())
}
