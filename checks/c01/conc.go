package main

// Family (h): concurrent lexing + parsing. The LSP server, spawn'ed coroutines that include files and
// per-request VMs all lex and parse at the same time in one process, each with its own Parser.
// "Never a crash" therefore also quantifies over schedules: two (thorough: three) threads of the
// controlled scheduler each build a Parser + bare VM and parse one source; every interleaving at
// the instrumented accesses to package-level state of lexer / parser / token / node / data that
// two threads touch with at least one write (learned per scenario) is explored inside a
// preemption bound. Oracle on every execution: no panic, no logical data race (vector clocks;
// unsynchronised shared state = "concurrent map writes" in a free-running process), and every
// thread's verdict (accepted / the diagnostic text) equals what the same source gives alone.

import (
	"encoding/json"
	"fmt"
	"sort"
	"strings"
	"time"

	"github.com/php-any/origami/data"
	"github.com/php-any/origami/parser"
	"github.com/php-any/origami/runtime"

	"verif/engine/pool"
	"verif/engine/sched"
)

// sources chosen to walk different lexer / preprocessor / parser paths (identifiers with every
// delimiter class, numbers, all string forms, heredoc, interpolation, comments, casts, classes,
// closures, match, generics, a syntax error)
var concSources = []string{
	`$a = 1 + 2.5e3 * 0x1F; $b = "x{$a}y $a[0] {$o->p}"; echo $a, $b;`,
	"$s = <<<EOT\nline {$a} and $b\nEOT;\n$t = <<<'N'\nraw $x\nN;\n",
	`class A extends B implements C { public int $p = 1; static function f(?int $x = null): ?A { return new static(); } }`,
	`function g(int ...$xs) { foreach ($xs as $k => $v) { if ($v <=> 1) { continue; } } return fn($y) => $y ** 2; }`,
	`$m = match(true) { $a > 1, $a < 0 => "x", default => 'y' }; $c = (int)$m . (string)1 ?: null ?? [1, 'k' => 2];`,
	"// comment\n# other\n/* block\n */ $x = !$y && ~$z || $w xor $v; $q = $x?->p?->m();",
	`$l = new List<int>(); try { throw new E("m"); } catch (A | B $e) { } finally { unset($l[0]); }`,
	`$a = ; if ( { `,
}

type concShard struct {
	Srcs    []int    `json:"srcs"`
	Bound   int      `json:"bound"`
	Solo    []string `json:"solo,omitempty"`    // verdict of each source parsed alone (computed by the parent)
	Choices []int    `json:"choices,omitempty"` // set in replay artefacts
	Sites   []string `json:"sites,omitempty"`
}

func (s concShard) String() string { return fmt.Sprintf("conc-parse %v pb=%d", s.Srcs, s.Bound) }

type concRec struct {
	Kind     string    `json:"kind"` // "concsum" | "concfail"
	Scenario string    `json:"scenario"`
	Execs    int64     `json:"execs"`
	Complete bool      `json:"complete"`
	Stop     string    `json:"stop,omitempty"`
	Sites    []string  `json:"sites,omitempty"`
	Outcomes int       `json:"outcomes"`
	Key      string    `json:"key,omitempty"`
	Detail   string    `json:"detail,omitempty"`
	Case     concShard `json:"case"`
	Choices  []int     `json:"choices,omitempty"`
}

func parseVerdict(src string) (v string) {
	p := parser.NewParser()
	vm := runtime.NewVM(p)
	vm.SetThrowControl(func(acl data.Control) {})
	prog, acl := p.ParseString(src, "c.zy")
	if acl != nil {
		return "diagnostic:" + acl.AsString()
	}
	if prog == nil {
		return "nil-program"
	}
	return "accepted"
}

func concWorker(w *pool.W, arg json.RawMessage) {
	var sh concShard
	json.Unmarshal(arg, &sh)
	w.Item(sh.String())
	// the solo verdicts come from the parent: parsing anything here before the exploration would
	// warm every lazily filled package-level cache and hide exactly the accesses under test
	solo := sh.Solo
	var got []string
	setup := func() []sched.Body {
		got = make([]string, len(sh.Srcs))
		bodies := make([]sched.Body, len(sh.Srcs))
		for i, s := range sh.Srcs {
			i, s := i, s
			bodies[i] = func(t *sched.Thread) { got[i] = parseVerdict(concSources[s]) }
		}
		return bodies
	}
	seen := map[string]bool{}
	outcomes := map[string]bool{}
	cfg := &sched.Config{Name: sh.String(), Bound: sh.Bound, Setup: setup, MaxSteps: 200000, Deadline: time.Now().Add(3 * time.Minute)}
	emit := func(x *sched.Exec, key, detail string) {
		if seen[key] {
			return
		}
		seen[key] = true
		w.Emit(concRec{Kind: "concfail", Scenario: sh.String(), Key: key, Case: sh, Choices: x.Choices(), Sites: sched.RelevantSites(),
			Detail: detail + "\nscenario: " + sh.String() + "\nsources:\n  " + strings.Join(srcsOf(sh), "\n  ") + "\nschedule (last 12 steps): " + strings.Join(lastN(x.Schedule(), 12), " ")})
	}
	cfg.Check = func(x *sched.Exec) {
		outcomes[strings.Join(got, " | ")] = true
		if x.Stuck != "" {
			emit(x, "conc-parse:stuck", x.Stuck)
			return
		}
		for _, t := range x.Threads {
			if t.Panic != "" {
				emit(x, "conc-parse:"+t.PanicKey, "a parsing thread panicked: "+t.Panic)
			}
		}
		for _, r := range x.Races {
			a, b := sched.SiteStable(r.SiteA), sched.SiteStable(r.SiteB)
			if a > b {
				a, b = b, a
			}
			emit(x, "conc-parse:race:"+a+"/"+b, fmt.Sprintf("%s race between two parsing threads: %s then %s (no lock orders them)", r.Kind, r.SiteA, r.SiteB))
		}
		if x.Deadlock {
			emit(x, "conc-parse:deadlock", "parsing threads left parked")
		}
		if x.Horizon || len(x.Races) > 0 || x.Deadlock {
			return
		}
		for i := range got {
			panicked := false
			for _, t := range x.Threads {
				if t.ID == i && t.Panic != "" {
					panicked = true
				}
			}
			if !panicked && got[i] != solo[i] {
				emit(x, "conc-parse:verdict-differs-from-solo", fmt.Sprintf("thread %d: alone %q, next to the other thread(s) %q", i, solo[i], got[i]))
			}
		}
	}
	st := sched.Explore(cfg)
	w.Emit(concRec{Kind: "concsum", Scenario: sh.String(), Execs: st.Execs, Complete: st.Complete, Stop: st.StopReason, Sites: st.Relevant, Outcomes: len(outcomes), Case: sh})
}

func srcsOf(sh concShard) []string {
	var o []string
	for _, s := range sh.Srcs {
		o = append(o, fmt.Sprintf("%q", concSources[s]))
	}
	return o
}

func lastN(s []string, n int) []string {
	if len(s) > n {
		return s[len(s)-n:]
	}
	return s
}

func concShards(quick bool) []pool.Shard {
	var out []pool.Shard
	n := len(concSources)
	soloOf := make([]string, n)
	for i, s := range concSources {
		soloOf[i] = parseVerdict(s)
	}
	solo := func(ix ...int) (o []string) {
		for _, i := range ix {
			o = append(o, soloOf[i])
		}
		return
	}
	// lazily initialised shared state shows in the first (cold) execution whatever the schedule, the
	// race oracle being happens-before based; the bound only matters for torn check-then-act windows
	pb := 1
	if !quick {
		pb = 2
	}
	for a := 0; a < n; a++ {
		for b := a; b < n; b++ {
			out = append(out, pool.Shard{Kind: "conc", Arg: concShard{Srcs: []int{a, b}, Bound: pb, Solo: solo(a, b)}})
		}
	}
	if !quick {
		for a := 0; a < n; a++ {
			for b := a; b < n; b++ {
				for c := b; c < n; c++ {
					out = append(out, pool.Shard{Kind: "conc", Arg: concShard{Srcs: []int{a, b, c}, Bound: 1, Solo: solo(a, b, c)}})
				}
			}
		}
	}
	return out
}

// concReplay re-runs one recorded schedule.
func concReplay(sh concShard, choices []int, sites []string) (keys []string) {
	var got []string
	setup := func() []sched.Body {
		got = make([]string, len(sh.Srcs))
		bodies := make([]sched.Body, len(sh.Srcs))
		for i, s := range sh.Srcs {
			i, s := i, s
			bodies[i] = func(t *sched.Thread) { got[i] = parseVerdict(concSources[s]) }
		}
		return bodies
	}
	cfg := &sched.Config{Name: sh.String(), Bound: sh.Bound, Setup: setup, MaxSteps: 200000}
	x, err := sched.Replay(cfg, choices, sites)
	if err != nil || x == nil {
		return []string{"conc-parse:replay-diverged: " + fmt.Sprint(err)}
	}
	for _, t := range x.Threads {
		if t.Panic != "" {
			keys = append(keys, "conc-parse:"+t.PanicKey)
		}
	}
	for _, r := range x.Races {
		a, b := sched.SiteStable(r.SiteA), sched.SiteStable(r.SiteB)
		if a > b {
			a, b = b, a
		}
		keys = append(keys, "conc-parse:race:"+a+"/"+b)
	}
	sort.Strings(keys)
	return keys
}
