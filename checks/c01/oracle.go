package main

import (
	"encoding/hex"
	"fmt"
	"os"
	"path/filepath"
	"regexp"
	goruntime "runtime"
	"runtime/debug"
	"strings"
	"sync/atomic"

	"github.com/php-any/origami/data"
	"github.com/php-any/origami/node"
	"github.com/php-any/origami/parser"
	"github.com/php-any/origami/runtime"
	"github.com/php-any/origami/std"
	"github.com/php-any/origami/std/php"
	"github.com/php-any/origami/utils/vshim"

	"verif/engine/runner"
)

// ---- the "modest function of the input length" -------------------------------------------
//
// fuel = number of vshim.Tick() calls (one per function entry and per loop iteration of every
// instrumented origami package) spent between the start of tokenizing and the parser's return.
//
//	oracle:      fuel <= bound(n) = cQuad*(n+1)^2          for an input of n bytes
//
// cQuad was calibrated on the corpus and on every token string of family (b): the measured
// maximum of fuel/(n+1)^2 (reported as max_fuel_per_sq; it is reached by 1-byte inputs) must
// stay below cQuad/4 or the check fails itself.
//
// Spending cQuad*(n+1)^2 ticks on a 20 kB input is not affordable, so the verdict is reached in
// steps: (1) a cheap first pass with budget(n) = min(bound, linBase+linPer*(n+1)); almost every
// input finishes inside it. (2) If it does not, the input is delta-reduced (cheap probe budget)
// to a small text, and that text is run against its *own full* bound: exceeding it is the
// reported violation (a real input, minimal, with the loop's function as key). (3) If no small
// violating text is found the original is re-run with min(bound, hardCap); finishing = conforms
// (counted as "superlinear"), exhausting the true bound = violation, exhausting only the cap =
// "undecided" (counted, never an alarm).
const (
	cQuad   = 600
	linBase = 100_000
	linPer  = 1_000
	hardCap = 400_000_000
	runFuel = 400_000 // extra fuel for running an accepted program (family e)
)

func bound(n int) int64 { return int64(cQuad) * int64(n+1) * int64(n+1) }

func cappedBound(n int) int64 {
	if b := bound(n); b < hardCap {
		return b
	}
	return hardCap
}

func budget(n int) int64 {
	q := bound(n)
	l := int64(linBase) + int64(linPer)*int64(n+1)
	if q < l {
		return q
	}
	return l
}

type kase struct {
	Fam  string `json:"fam"`
	Mode int    `json:"mode"` // 0 plain (.zy via ParseString), 1 template (<?php file via ParseFile)
	Src  string `json:"src"`  // human-readable copy (invalid UTF-8 is lossy here)
	Hex  string `json:"hex"`  // the exact bytes
	Run  bool   `json:"run"`  // family (e): run the program if accepted
	Note string `json:"note,omitempty"`
	// family (g): the source is a complete program by construction; Alt is the same operand at the
	// neutral site (parsed once). Only used to name the root cause of an accept-then-crash.
	Opt     string `json:"opt,omitempty"`      // family (i): "<template>|<combination index>"
	Alt     string `json:"alt,omitempty"`      // same site, no speculation (`$x,` -> `7,`)
	Alt0    string `json:"alt0,omitempty"`     // same operand alone: `echo E;`
	AltKind string `json:"alt_kind,omitempty"` // what carries the operand body (names the finding when the operand itself is at fault)
}

func mkCase(fam string, mode int, src string, run bool, note string) kase {
	s := src
	if len(s) > 400 {
		s = s[:200] + " …[" + fmt.Sprint(len(src)) + " bytes]… " + s[len(s)-150:]
	}
	h := hex.EncodeToString([]byte(src))
	if len(src) > 4096 {
		h = "" // large ladder inputs are regenerated from Note
	}
	return kase{Fam: fam, Mode: mode, Src: s, Hex: h, Run: run, Note: note}
}

type verdict struct {
	Reduced string // hang verdicts: the small input that was actually judged (== "" if the original)
	Outcome string // coarse outcome class (vacuity statistics)
	Clause  string // "" = conforms
	Key     string
	Detail  string
	Fuel    int64
}

func rmode(m int) runner.Mode {
	if m == 1 {
		return runner.Template
	}
	return runner.Plain
}

var nilClass = regexp.MustCompile(`nil-pointer-dereference|interface-is-nil|interface-conversion:-interface-is-nil`)

// check runs one input and applies the oracle.
func check(src string, mode int, run bool) verdict { return checkAlt(src, mode, run, "") }

// checkAlt: alt != "" marks a source that is complete by construction (family g). Such a program
// is run straight away; only if that does not end in output / a script-level error / exit is the
// full verdict path (parse-only first, hang attribution, ...) taken.
func checkAlt(src string, mode int, run bool, altKind string) verdict {
	if strings.HasPrefix(altKind, optMark) {
		return checkOpt(src, mode, strings.TrimPrefix(altKind, optMark))
	}
	alt, alt0, kind := "", "", ""
	if p := strings.SplitN(altKind, "\x00", 3); len(p) == 3 {
		kind, alt, alt0 = p[0], p[1], p[2]
	}
	n := len(src)
	b := budget(n)
	if alt != "" {
		r := runStrict(src, mode, b+runFuel)
		switch {
		case r.Kind == "ok" || r.Kind == "throw" || r.Kind == "exit" || r.Kind == "control":
			return verdict{Outcome: "run:" + r.Kind}
		case r.Kind == "panic" && !r.PanicInParse:
			v := verdict{Outcome: "run:other-panic", Detail: r.PanicKey}
			if nilClass.MatchString(strings.TrimPrefix(r.PanicKey, "panic:")) {
				// Nothing is missing in the text, so the key names where the nil comes from, not which
				// node meets it. Twin 1 is the same program with the leading `$x,` of the list replaced
				// by a literal: same site, same operand, but the parser does not speculate, so the
				// operand is parsed once. (1) twin 1 does not crash: the second parse of the operand
				// is the cause; (2) the operand alone (`echo E;`) crashes too: the operand form itself
				// becomes nil, one key per carrier kind; (3) anything else: the crashing frame.
				v.Outcome = "run:nil-crash"
				v.Clause = "accepted-is-complete"
				v.Key = "accept-then-crash:complete-source@" + frameOf(r.PanicKey)
				v.Detail = r.PanicMsg + " in " + frameOf(r.PanicKey)
				crashes := func(s string) bool {
					a := runStrict(s, mode, b+runFuel)
					return a.Kind == "panic" && !a.PanicInParse && nilClass.MatchString(a.PanicKey)
				}
				switch {
				case alt != src && !crashes(alt):
					v.Key = "accept-then-crash:operand-parsed-again"
					v.Detail += "; the same program with a literal instead of the leading `$x,` (no speculative parse of the list) does not crash"
				case crashes(alt0):
					v.Key = "accept-then-crash:complete-operand:" + kind
					v.Detail += "; the operand alone (`echo E;`) crashes the same way"
				}
			}
			return v
		}
		// rejected, out of fuel or a crash while parsing: judged like any other input (parse only)
		run = false
	}
	var res runner.Result
	if run {
		// family (e): parse in the environment the program will run in (std library loaded)
		res = runner.Run(src, runner.Opts{Mode: rmode(mode), Fuel: b, ParseOnly: true})
	} else {
		res = parseOnly(src, mode, b)
	}
	v := verdict{Outcome: res.Kind, Fuel: res.FuelUsed}
	switch res.Kind {
	case "panic":
		v.Clause = "no-crash"
		v.Key = res.PanicKey
		v.Detail = res.PanicMsg
		return v
	case "fuel":
		key, detail, red, r3 := decideHang(src, mode)
		switch {
		case key != "":
			v.Clause = "terminates-within-bound"
			v.Key, v.Detail = key, detail
			v.Reduced = red
			v.Outcome = "fuel"
			return v
		case r3 == nil:
			v.Outcome = "undecided-over-cap"
			v.Detail = detail
			return v
		}
		// finished inside the true bound after all: judge the result like any other
		res = *r3
		v.Fuel = 0
		switch res.Kind {
		case "panic":
			v.Outcome = "panic"
			v.Clause = "no-crash"
			v.Key = res.PanicKey
			v.Detail = res.PanicMsg
			return v
		case "ok", "parse":
			v.Outcome = res.Kind + "-superlinear"
			return v
		}
		v.Outcome = "unexpected:" + res.Kind
		return v
	case "exit":
		v.Clause = "no-crash"
		v.Key = "exit-during-parse"
		v.Detail = fmt.Sprintf("the parser called os.Exit(%d)", res.ExitCode)
		return v
	case "parse":
		// a diagnostic: must carry a position inside the source
		lines := strings.Count(src, "\n") + 1
		if !res.HasFrom {
			v.Clause = "positioned-diagnostic"
			v.Key = "unpositioned-diagnostic:" + res.Class
			v.Detail = res.Msg
			v.Outcome = "parse-unpositioned"
		} else if res.Line < 1 || res.Line > lines+1 {
			v.Clause = "positioned-diagnostic"
			v.Key = "diagnostic-position-outside-source"
			v.Detail = fmt.Sprintf("line %d col %d reported for a %d-line source: %s", res.Line, res.Col, lines, res.Msg)
			v.Outcome = "parse-badpos"
		}
		return v
	case "ok":
		if !run {
			return v
		}
	default:
		// ParseOnly never yields throw/control; treat as harness problem via outcome
		v.Outcome = "unexpected:" + res.Kind
		return v
	}
	// accepted and runnable: the run must not end in an internal crash on a missing operand/clause
	r2 := runner.Run(src, runner.Opts{Mode: rmode(mode), Fuel: b + runFuel})
	v.Outcome = "run:" + r2.Kind
	if r2.Kind == "panic" && !r2.PanicInParse {
		cls := strings.TrimPrefix(r2.PanicKey, "panic:")
		if nilClass.MatchString(cls) {
			v.Clause = "accepted-is-complete"
			v.Key = "accept-then-crash@" + frameOf(r2.PanicKey)
			v.Detail = r2.PanicMsg + " in " + frameOf(r2.PanicKey)
			if what, where := cure(src, mode, b); what != "" {
				v.Key = "accept-then-crash:" + what
				v.Detail += "; " + where
			}
			v.Outcome = "run:nil-crash"
		} else {
			v.Outcome = "run:other-panic"
			v.Detail = r2.PanicKey
		}
	} else if r2.Kind == "panic" {
		// parse with std loaded panicked although the parser-only run accepted: report as crash
		v.Clause = "no-crash"
		v.Key = r2.PanicKey
		v.Detail = r2.PanicMsg
	}
	return v
}

// runStrict runs a program the way the command line does: the first uncaught throwable ends the
// script (the real VM prints it and exits; engine/runner only records it and lets the evaluation
// continue with a nil value, which is fine for outcomes but would make a later nil dereference look
// like a crash of an accepted program).
type strictStop struct{}

func runStrict(src string, mode int, fuel int64) (res runner.Result) {
	thrown, parsing := false, true
	var out strings.Builder
	var last data.Control
	res = runner.Guard(func() {
		saved := data.WriteOutput
		data.WriteOutput = func(s string) {
			if out.Len() < 1<<16 {
				out.WriteString(s)
			}
		}
		vshim.CatchExit = true
		defer func() {
			vshim.SetFuel(0)
			vshim.CatchExit = false
			if data.FlushAllBuffersFn != nil {
				func() {
					defer func() { recover() }()
					data.FlushAllBuffersFn()
				}()
			}
			data.WriteOutput = saved
		}()
		p := parser.NewParser()
		vm := runtime.NewVM(p)
		std.Load(vm)
		php.Load(vm)
		vm.SetThrowControl(func(acl data.Control) {
			thrown = true
			last = acl
			panic(strictStop{})
		})
		var prog *node.Program
		var acl data.Control
		if mode == 1 {
			fn := filepath.Join(scratchDir(), fmt.Sprintf("s%d.php", tmpSeq.Add(1)))
			if err := os.WriteFile(fn, []byte(src), 0o644); err != nil {
				panic(err)
			}
			defer os.Remove(fn)
			vshim.SetFuel(fuel)
			prog, acl = p.ParseFile(fn)
		} else {
			vshim.SetFuel(fuel)
			prog, acl = p.ParseString(src, "t.zy")
		}
		if acl != nil {
			panic(acl) // Guard: kind "control"; told apart by `parsing`
		}
		parsing = false
		if prog == nil {
			return
		}
		ctx := vm.CreateContext(p.GetVariables())
		if rv, ok := vm.(*runtime.VM); ok {
			rv.RegisterGlobalContext(p.GetVariables(), ctx)
		}
		if _, acl = prog.GetValue(ctx); acl != nil {
			thrown = true
			last = acl
		}
	})
	res.Out = out.String()
	// A try statement recovers Go panics of its body / catch / finally and re-labels them as a
	// throwable ("go作用域异常退出的 panic(<text>)\nstack: <go stack>"). Whether that throwable ends the
	// script or is caught and printed, it is the same internal crash as a bare Go panic.
	if text, stack, ok := relabelledPanic(res.Out + "\n" + controlText(last)); ok && !parsing {
		res.Kind = "panic"
		res.PanicMsg = text
		res.PanicKey = "panic:" + runner.PanicClass(text) + "@" + runner.FirstFrame(stack)
		return
	}
	switch {
	case thrown:
		res.Kind = "throw"
	case parsing && res.Kind == "control":
		res.Kind = "parse"
	case parsing && res.Kind == "panic":
		res.PanicInParse = true
	}
	return
}

func controlText(acl data.Control) (s string) {
	if acl == nil {
		return ""
	}
	defer func() { recover() }()
	if tv, ok := acl.(*data.ThrowValue); ok {
		if tv.Error != nil {
			return tv.Error.Error()
		}
		return ""
	}
	return acl.AsString()
}

var reRelabelled = regexp.MustCompile(`panic\(([^\n]*)\)\nstack: `)

// relabelledPanic finds the text of a Go panic that origami recovered and turned into a script
// error. The harness' own unwinding values (fuel, exit, strictStop: printed as {} / {N}) do not count.
func relabelledPanic(s string) (text, stack string, ok bool) {
	for _, m := range reRelabelled.FindAllStringSubmatchIndex(s, -1) {
		text = s[m[2]:m[3]]
		if strings.HasPrefix(text, "{") && strings.HasSuffix(text, "}") {
			continue
		}
		return text, s[m[1]:], true
	}
	return "", "", false
}

func frameOf(panicKey string) string {
	if i := strings.LastIndex(panicKey, "@"); i >= 0 {
		return panicKey[i+1:]
	}
	return "?"
}

// ---- hang attribution -----------------------------------------------------------------------

var tmpSeq atomic.Int64
var tmpDir string

// scratch directories are named after the parent check process so that it can sweep what a
// dead worker left behind.
func scratchPrefix(parent int) string { return fmt.Sprintf("verif-c01-%d-", parent) }

func scratchBase() string {
	base := "/dev/shm"
	if _, err := os.Stat(base); err != nil {
		base = os.TempDir()
	}
	return base
}

func scratchDir() string {
	if tmpDir == "" {
		d, err := os.MkdirTemp(scratchBase(), scratchPrefix(os.Getppid()))
		if err != nil {
			panic(err)
		}
		tmpDir = d
	}
	return tmpDir
}

func cleanupScratch() {
	if tmpDir != "" {
		os.RemoveAll(tmpDir)
		tmpDir = ""
	}
}

const modPrefix = "github.com/php-any/origami/"

var reClosure = regexp.MustCompile(`\.func\d+(\.\d+)*$`)

// fuelStack parses src with exactly `fuel` ticks and returns the origami frames (outermost
// first) that were active when the budget ran out; exhausted=false if the parse finished.
func fuelStack(src string, mode int, fuel int64) (frames []string, exhausted bool) {
	defer func() {
		r := recover()
		vshim.SetFuel(0)
		if r != nil {
			if _, ok := r.(vshim.FuelExhausted); ok {
				exhausted = true
				frames = callerFrames()
			}
		}
	}()
	p := parser.NewParser()
	_ = runtime.NewVM(p)
	if mode == 1 {
		fn := filepath.Join(scratchDir(), fmt.Sprintf("h%d.php", tmpSeq.Add(1)))
		if err := os.WriteFile(fn, []byte(src), 0o644); err != nil {
			panic(err)
		}
		defer os.Remove(fn)
		vshim.SetFuel(fuel)
		p.ParseFile(fn)
	} else {
		vshim.SetFuel(fuel)
		p.ParseString(src, "t.zy")
	}
	return
}

// callerFrames returns the origami frames of the panicking stack, outermost first. It walks the
// PCs itself (runtime.Callers) because debug.Stack() elides the middle of stacks deeper than 100
// frames, which would make the attribution depend on how deep the harness itself happens to be.
func callerFrames() []string {
	pcs := make([]uintptr, 1<<16)
	n := goruntime.Callers(2, pcs)
	it := goruntime.CallersFrames(pcs[:n])
	var inner []string
	for {
		f, more := it.Next()
		fn := f.Function
		if fn == "runtime.gopanic" {
			inner = inner[:0] // keep what lies below the outermost panic only
		} else if strings.HasPrefix(fn, modPrefix) && !strings.HasPrefix(fn, modPrefix+"utils/vshim.") {
			fn = strings.TrimPrefix(fn, modPrefix)
			fn = reClosure.ReplaceAllString(fn, "")
			inner = append(inner, fn)
		}
		if !more {
			break
		}
	}
	for i, j := 0, len(inner)-1; i < j; i, j = i+1, j-1 {
		inner[i], inner[j] = inner[j], inner[i]
	}
	return inner
}

func exhausts(src string, mode int) bool {
	return parseOnly(src, mode, budget(len(src))).Kind == "fuel"
}

// ownScratch makes template-mode parses use this check's own scratch file (ladder workers: a
// worker killed by a stack overflow must not leave files the parent cannot find).
var ownScratch bool

func parseOnly(src string, mode int, fuel int64) (res runner.Result) {
	if !(ownScratch && mode == 1) {
		return runner.Run(src, runner.Opts{Mode: rmode(mode), Fuel: fuel, ParseOnly: true, NoStd: true})
	}
	defer func() {
		r := recover()
		res.FuelUsed = vshim.FuelUsed()
		vshim.SetFuel(0)
		if r != nil {
			if _, ok := r.(vshim.FuelExhausted); ok {
				res.Kind = "fuel"
				return
			}
			if x, ok := r.(vshim.ExitCalled); ok {
				res.Kind, res.ExitCode = "exit", x.Code
				return
			}
			res.Kind = "panic"
			res.PanicMsg = fmt.Sprint(r)
			if len(res.PanicMsg) > 300 {
				res.PanicMsg = res.PanicMsg[:300]
			}
			res.PanicKey = "panic:" + runner.PanicClass(res.PanicMsg) + "@" + runner.FirstFrame(string(debug.Stack()))
			res.PanicInParse = true
		}
	}()
	p := parser.NewParser()
	_ = runtime.NewVM(p)
	fn := filepath.Join(scratchDir(), fmt.Sprintf("l%d.php", tmpSeq.Add(1)))
	if err := os.WriteFile(fn, []byte(src), 0o644); err != nil {
		panic(err)
	}
	defer os.Remove(fn)
	vshim.CatchExit = true
	defer func() { vshim.CatchExit = false }()
	vshim.SetFuel(fuel)
	_, acl := p.ParseFile(fn)
	if acl != nil {
		res.Kind = "parse"
		res.HasFrom = true // position clause is judged on the other families
		res.Line = 1
		return
	}
	res.Kind, res.Accepted = "ok", true
	return
}

// decideHang is called when the first-pass budget ran out. It returns a finding key (violation),
// or a completed result (the input finished inside its true bound), or neither (undecided).
//
// The input is shrunk by token deletion under a cheap probe budget; if the small result exceeds
// its own full bound, that is the violation and the function owning the non-terminating loop is
// named: the stack is sampled at consecutive ticks and the innermost frame common to all samples
// is the function that never returns.
func decideHang(src string, mode int) (key, detail, reduced string, done *runner.Result) {
	// The reduction must stay on the same loop: a candidate counts only if it exhausts the probe
	// budget AND the innermost construct-specific parser function on its stack at that moment
	// (signature) is the one of the original input. Memoised: inputs of one shard share most
	// of their reduction candidates.
	sigAt := func(s string) string {
		k := string(rune('0'+mode)) + s
		if v, ok := probeMemo[k]; ok {
			return v
		}
		v := "-" // finishes
		if fr, ex := fuelStack(s, mode, probe(len(s))); ex {
			v = signature(fr)
		}
		if len(probeMemo) > 200_000 {
			probeMemo = map[string]string{}
		}
		if len(s) <= 256 {
			probeMemo[k] = v
		}
		return v
	}
	sig0 := sigAt(src)
	probeBad := func(s string) bool { return sigAt(s) == sig0 }
	if sig0 == "-" {
		// (only possible if the probe budget is larger than the first-pass budget: it is not)
		probeBad = func(s string) bool { return parseOnly(s, mode, probe(len(s))).Kind == "fuel" }
	}
	red := canonText(reduceText(src, mode, probeBad), probeBad)
	hk := string(rune('0'+mode)) + red
	if k, ok := hangCache[hk]; ok {
		if k[0] != "" {
			return k[0], k[1], red, nil
		}
	} else if len(red) <= 2000 {
		b := cappedBound(len(red))
		if parseOnly(red, mode, b).Kind == "fuel" && b == bound(len(red)) {
			key, detail = attribute(red, mode, b)
			hangCache[hk] = [2]string{key, detail}
			return key, detail, red, nil
		}
		hangCache[hk] = [2]string{"", ""}
	}
	// no small violating text: decide the original itself
	b := cappedBound(len(src))
	r := parseOnly(src, mode, b)
	if r.Kind != "fuel" {
		return "", "", "", &r
	}
	if b == bound(len(src)) {
		key, detail = attribute(src, mode, b)
		return key, detail, "", nil
	}
	return "", fmt.Sprintf("%d-byte input needs more than %d ticks (bound %d not affordable)", len(src), b, bound(len(src))), "", nil
}

func attribute(red string, mode int, b int64) (key, detail string) {
	start := probe(len(red))
	var common []string
	samples := 0
	lastChange := int64(0)
	for k := int64(0); k < hangSamples && k-lastChange < hangStable; k++ {
		fr, ex := fuelStack(red, mode, start+k)
		if !ex {
			break
		}
		samples++
		if k == 0 {
			common = fr
		} else if c := commonPrefix(common, fr); len(c) != len(common) {
			common = c
			lastChange = k
		}
	}
	frame := "?"
	if len(common) > 0 {
		frame = common[len(common)-1]
	}
	key = "hang@" + frame
	detail = fmt.Sprintf("input of %d bytes does not finish within bound %d*(n+1)^2 = %d ticks; looping function = innermost frame common to %d consecutive-tick stack samples; input %q", len(red), cQuad, b, samples, clip400(red))
	return
}

func clip400(s string) string {
	if len(s) > 400 {
		return s[:300] + fmt.Sprintf(" …(%d bytes)", len(s))
	}
	return s
}

// stack samples at consecutive ticks: at most hangSamples, stopping once the common prefix has
// not shrunk for hangStable consecutive ticks
const hangSamples = 1200
const hangStable = 400

var hangCache = map[string][2]string{}
var probeMemo = map[string]string{}

// signature: the innermost frame that belongs to a construct-specific parser (parser.(*XxxParser).…),
// i.e. not to the generic expression-precedence chain, the Parser helpers, the lexer or the nodes.
// For a loop that spins at EOF or on a token nobody consumes, the loop body only runs generic
// frames, so this is the function owning the loop.
func signature(frames []string) string {
	for i := len(frames) - 1; i >= 0; i-- {
		f := frames[i]
		if strings.HasPrefix(f, "parser.(*") && !strings.HasPrefix(f, "parser.(*ExpressionParser).") && !strings.HasPrefix(f, "parser.(*Parser).") &&
			!strings.HasPrefix(f, "parser.(*PositionTracker).") && !strings.HasPrefix(f, "parser.(*ScopeManager).") && !strings.HasPrefix(f, "parser.(*DefaultScope).") {
			return f
		}
	}
	for i := len(frames) - 1; i >= 0; i-- {
		if frames[i] == "parser.(*Parser).parseBlock" || frames[i] == "parser.(*Parser).parseProgram" {
			return frames[i]
		}
	}
	if len(frames) > 0 {
		return frames[0]
	}
	return "?"
}

func probe(n int) int64 {
	p := int64(300*(n+1) + 5000)
	if b := budget(n); p > b {
		return b
	}
	return p
}

// canonText makes reduced inputs comparable: whitespace collapsed, then string literals,
// variables and numbers replaced by one representative each - every step only if the predicate
// still holds on the result.
func canonText(red string, bad func(string) bool) string {
	if c := strings.Join(strings.Fields(red), " "); c != red && bad(c) {
		red = c
	}
	for class := 0; class < 3; class++ {
		toks, _ := crudeTokens(red)
		var sb strings.Builder
		pos := 0
		changed := false
		for _, t := range toks {
			txt := red[t.s:t.e]
			rep := txt
			switch {
			case class == 0 && len(txt) >= 2 && (txt[0] == '"' || txt[0] == '\'') && txt[len(txt)-1] == txt[0]:
				rep = `"s"`
			case class == 1 && len(txt) >= 2 && txt[0] == '$' && txt != "$this":
				rep = "$a"
			case class == 2 && isDigit(txt[0]):
				rep = "1"
			}
			if rep != txt {
				changed = true
			}
			sb.WriteString(red[pos:t.s])
			sb.WriteString(rep)
			pos = t.e
		}
		sb.WriteString(red[pos:])
		if c := sb.String(); changed && bad(c) {
			red = c
		}
	}
	return red
}

func commonPrefix(a, b []string) []string {
	n := 0
	for n < len(a) && n < len(b) && a[n] == b[n] {
		n++
	}
	return a[:n]
}

// reduceText is a token-level delta reduction (ddmin over the check's own token spans):
// suffix windows first (cheap for truncation failures of large corpus files), then removal of
// chunks of n/2, n/4, ... 1 tokens while the predicate keeps holding. Template-mode inputs keep
// their leading "<?php" token. The number of predicate evaluations is capped; the result is
// always an input for which `bad` holds (or the original).
func reduceText(src string, mode int, bad func(string) bool) string {
	cur := src
	toks, _ := crudeTokens(cur)
	keep := 0
	if mode == 1 && len(toks) > 0 && cur[toks[0].s:toks[0].e] == "<?php" {
		keep = 1
	}
	tests := 0
	// step 0: a short failing prefix by bisection over token boundaries (the failure of a large
	// text usually sits at one place; everything behind it is irrelevant). Not monotone in
	// general, but whatever prefix the search ends on satisfies the predicate.
	if len(toks) > 24 {
		lo, hi := keep+1, len(toks) // prefix(i) = text before token i; prefix(len) = whole text
		for lo < hi && tests < 40 {
			mid := (lo + hi) / 2
			tests++
			if bad(cur[:toks[mid].s]) {
				hi = mid
			} else {
				lo = mid + 1
			}
		}
		if hi < len(toks) && bad(cur[:toks[hi].s]) {
			cur = cur[:toks[hi].s]
			toks, _ = crudeTokens(cur)
		}
	}
	if len(toks) > 12 {
		head := ""
		if keep == 1 {
			head = "<?php "
		}
		for k := 1; k <= 64 && k < len(toks)-keep; k *= 2 {
			tests++
			cand := head + cur[toks[len(toks)-k].s:]
			if bad(cand) {
				cur = cand
				break
			}
		}
	}
	const maxTests = 600
	toks, _ = crudeTokens(cur)
	chunk := (len(toks) - keep) / 2
	if chunk < 1 {
		chunk = 1
	}
	for tests < maxTests {
		removed := false
		toks, _ = crudeTokens(cur)
		end := len(toks)
		for end > keep && tests < maxTests {
			start := end - chunk
			if start < keep {
				start = keep
			}
			cand := cur[:toks[start].s] + " " + cur[toks[end-1].e:]
			tests++
			if len(strings.TrimSpace(cand)) > 0 && bad(cand) {
				cur = cand
				toks, _ = crudeTokens(cur)
				removed = true
			}
			end = start
			if end > len(toks) {
				end = len(toks)
			}
		}
		if chunk == 1 {
			if !removed {
				// 1-minimal for single tokens: now try to drop whole leading runs (enclosing
				// statements that single-token deletion cannot remove), smallest suffix first
				toks, _ = crudeTokens(cur)
				dropped := false
				if len(toks) <= 80 {
					for i := len(toks) - 1; i > keep && tests < maxTests; i-- {
						cand := cur[:toks[keep].s] + cur[toks[i].s:]
						tests++
						if bad(cand) {
							cur = cand
							dropped = true
							break
						}
					}
				}
				if !dropped {
					break
				}
			}
			continue
		}
		chunk /= 2
	}
	return cur
}

// nilCrash reports whether src is accepted and its run ends in a nil-operand crash.
func nilCrash(src string, mode int, b int64) bool {
	r := runner.Run(src, runner.Opts{Mode: rmode(mode), Fuel: b + runFuel})
	return r.Kind == "panic" && !r.PanicInParse && nilClass.MatchString(r.PanicKey)
}

// cure names the root cause of an accept-then-crash: if supplying ONE operand (a literal or a
// variable), one name or one empty block at some token boundary makes the crash go away (the
// repaired text is rejected or runs without a nil dereference), the parser accepted a source in
// which that operand / name / block was missing. Otherwise "" and the key falls back to the frame.
func cure(src string, mode int, b int64) (what, where string) {
	toks, _ := crudeTokens(src)
	cuts := []int{}
	for _, t := range toks {
		cuts = append(cuts, t.s)
		cuts = append(cuts, t.e)
	}
	cuts = append(cuts, len(src))
	if len(cuts) > 200 {
		return "", ""
	}
	for _, ins := range []struct{ text, what string }{{" 1 ", "missing-operand"}, {" $a ", "missing-operand"}, {" X ", "missing-name"}, {" {} ", "missing-block"}} {
		for i := len(cuts) - 1; i >= 0; i-- {
			c := cuts[i]
			if i+1 < len(cuts) && cuts[i+1] == c {
				continue
			}
			if mode == 1 && c < 5 {
				continue
			}
			cand := src[:c] + ins.text + src[c:]
			if !nilCrash(cand, mode, b+1000) {
				return ins.what, fmt.Sprintf("inserting %q at byte %d removes the crash", strings.TrimSpace(ins.text), c)
			}
		}
	}
	return "", ""
}
