// C01: any source text lexes and parses to a program or a positioned diagnostic, never a crash,
// stack overflow or endless loop; an accepted source is a complete program.
//
// Form P (bounded exhaustive input enumeration). Families, each enumerated completely:
//
//	(a) every token-boundary prefix (+ cuts at string-interpolation seams), every single-token
//	    deletion and every single-token duplication of every .php file under tests/ and examples/
//	(b) every token string up to length L over a 50-token alphabet, in plain and template mode,
//	    alone and after three well-formed stems
//	(c) every byte string of length <= 2 (all 256 bytes) and of length 3 over 40 structural bytes
//	(d) nesting ladders of 18 recursive constructs at depths 10..10^4 (10^6 thorough)
//	(e) run-after-accept on every prefix / deletion / duplication of 40 small side-effect-free programs
//	(f) every sequence of <= 3 character units (invalid bytes, characters whose case mapping changes
//	    the byte length, ...) and every single byte inside every lexical container: before / between /
//	    after the template tags, in strings, comments, heredocs, names (families2.go)
//	(i) runnable statement templates with every optional part present / omitted in all combinations,
//	    each executed along the path that uses the part (families3.go)
//	(g) complete programs: every operand (string / heredoc interpolation, closure, ... x body) at every
//	    list site where the parser speculates and parses the operand again; run (families2.go)
//
// Oracle: parse returns program xor positioned diagnostic; no Go panic; fuel <= budget(n); no
// worker death; for (e) the run of an accepted mutant never ends in a nil-operand crash.
package main

import (
	"encoding/hex"
	"encoding/json"
	"fmt"
	"os"
	"path/filepath"
	"runtime/debug"
	"sort"
	"strconv"
	"strings"
	"time"

	"verif/engine/ev"
	"verif/engine/pool"
	"verif/engine/runner"
	"verif/engine/sched"
)

func repoRoot() string {
	if r := os.Getenv("VERIF_REPO"); r != "" {
		return r
	}
	return "/repo"
}

// ---- records ------------------------------------------------------------------------------

type failRec struct {
	Key    string `json:"key"`
	Clause string `json:"clause"`
	Case   kase   `json:"case"`
	Detail string `json:"detail"`
	Size   int    `json:"size"`
	Count  int    `json:"count"`
}

type sumRec struct {
	Kind      string         `json:"kind"` // "sum"
	Fam       string         `json:"fam"`
	N         int64          `json:"n"`
	Outcomes  map[string]int `json:"outcomes"`
	MaxSq     float64        `json:"max_sq"`
	MaxSqSrc  string         `json:"max_sq_src"`
	MaxLin    float64        `json:"max_lin"`
	MaxLinSrc string         `json:"max_lin_src"`
	Fails     []failRec      `json:"fails"`
	Other     map[string]int `json:"other,omitempty"` // informational: non-nil run-time panics of mutants
	Skipped   int            `json:"skipped,omitempty"`
	Undecided []string       `json:"undecided,omitempty"`
	CPUOk     float64        `json:"cpu_ok"`   // CPU seconds spent on conforming cases
	CPUFail   float64        `json:"cpu_fail"` // CPU seconds spent on failing cases (incl. reduction / attribution)
	Sample    *kase          `json:"sample,omitempty"`
	SampleOut string         `json:"sample_out,omitempty"`
}

type acc struct {
	stop bool
	seen int
	w    *pool.W
	sum  sumRec
	byK  map[string]*failRec
}

func newAcc(w *pool.W, fam string) *acc {
	return &acc{w: w, sum: sumRec{Kind: "sum", Fam: fam, Outcomes: map[string]int{}, Other: map[string]int{}}, byK: map[string]*failRec{}}
}

// one runs a case (after announcing it) and folds the verdict into the shard summary.
func (a *acc) one(id string, fam string, mode int, src string, run bool, note string) {
	a.oneX(id, fam, mode, src, run, "", note)
}

// oneAlt: a complete program (family g) with its neutral-site twin; always run.
func (a *acc) oneAlt(id string, fam string, mode int, src, alt string, note string) {
	a.oneX(id, fam, mode, src, true, alt, note)
}

func (a *acc) oneX(id string, fam string, mode int, src string, run bool, alt string, note string) {
	mkCase := func(fam string, mode int, src string, run bool, note string) kase {
		k := mkCase(fam, mode, src, run, note)
		if strings.HasPrefix(alt, optMark) {
			k.Opt = strings.TrimPrefix(alt, optMark)
		} else if p := strings.SplitN(alt, "\x00", 3); len(p) == 3 {
			k.AltKind, k.Alt, k.Alt0 = p[0], p[1], p[2]
		}
		return k
	}
	if a.stop {
		return
	}
	if a.seen++; a.seen%512 == 0 && aborted() {
		a.stop = true
		a.sum.Outcomes["shard-cut-short-after-abort"]++
		return
	}
	if !a.w.Item(id) {
		return
	}
	t0 := cpuNow()
	v := checkAlt(src, mode, run, alt)
	if dt := (cpuNow() - t0).Seconds(); v.Clause == "" {
		a.sum.CPUOk += dt
	} else {
		a.sum.CPUFail += dt
	}
	a.sum.N++
	a.sum.Outcomes[v.Outcome]++
	if v.Outcome == "undecided-over-cap" && len(a.sum.Undecided) < 20 {
		u := note
		if u == "" {
			u = clip(src)
		}
		a.sum.Undecided = append(a.sum.Undecided, fmt.Sprintf("%s (mode %d)", u, mode))
	}
	if v.Outcome == "run:other-panic" {
		a.sum.Other[v.Detail]++
	}
	if v.Clause == "" {
		if v.Fuel > 0 {
			n := float64(len(src) + 1)
			if r := float64(v.Fuel) / (n * n); r > a.sum.MaxSq {
				a.sum.MaxSq, a.sum.MaxSqSrc = r, clip(src)
			}
			if len(src) >= 64 {
				if r := float64(v.Fuel) / n; r > a.sum.MaxLin {
					a.sum.MaxLin, a.sum.MaxLinSrc = r, clip(src)
				}
			}
		}
		if a.sum.Sample == nil && a.sum.N == 7 {
			k := mkCase(fam, mode, src, run, note)
			a.sum.Sample = &k
			a.sum.SampleOut = v.Outcome
		}
		return
	}
	if v.Reduced != "" && v.Reduced != src {
		// the violation was established on this smaller input: that is the recorded case
		if note == "" {
			note = clip(src)
		}
		src, note = v.Reduced, "reduced from: "+note
	}
	f := a.byK[v.Key]
	if f == nil {
		f = &failRec{Key: v.Key, Clause: v.Clause, Case: mkCase(fam, mode, src, run, note), Detail: v.Detail, Size: len(src)}
		a.byK[v.Key] = f
	} else if len(src) < f.Size {
		f.Case, f.Detail, f.Size = mkCase(fam, mode, src, run, note), v.Detail, len(src)
	}
	f.Count++
}

func (a *acc) flush() {
	keys := make([]string, 0, len(a.byK))
	for k := range a.byK {
		keys = append(keys, k)
	}
	sort.Strings(keys)
	for _, k := range keys {
		a.sum.Fails = append(a.sum.Fails, *a.byK[k])
	}
	a.w.Emit(a.sum)
}

func clip(s string) string {
	if len(s) > 80 {
		return s[:60] + fmt.Sprintf("…(%d bytes)", len(s))
	}
	return s
}

// ---- workers --------------------------------------------------------------------------------

type tokShard struct {
	Mode   int   `json:"mode"`
	Stem   int   `json:"stem"`
	Len    int   `json:"len"`
	Prefix []int `json:"prefix"`
	Core   bool  `json:"core"` // enumerate over the 24-token core only
}

func tokWorker(w *pool.W, arg json.RawMessage) {
	if aborted() {
		w.Emit(sumRec{Kind: "sum", Fam: "aborted", Skipped: 0, Outcomes: map[string]int{"shard-skipped-after-abort": 1}})
		return
	}
	defer shardCleanup()
	var sh tokShard
	json.Unmarshal(arg, &sh)
	a := newAcc(w, "b-tokens")
	stem := stems(sh.Mode)[sh.Stem]
	syms := make([]int, 0, len(alphabet))
	if sh.Core {
		syms = append(syms, coreIdx...)
	} else {
		for i := range alphabet {
			syms = append(syms, i)
		}
	}
	seq := make([]int, sh.Len)
	copy(seq, sh.Prefix)
	var rec func(pos int)
	rec = func(pos int) {
		if pos == sh.Len {
			src := stem + joinToks(seq)
			a.one(fmt.Sprintf("tok|%d|%d|%v", sh.Mode, sh.Stem, seq), "b-tokens", sh.Mode, src, false, "")
			return
		}
		for _, s := range syms {
			seq[pos] = s
			rec(pos + 1)
		}
	}
	rec(len(sh.Prefix))
	a.flush()
}

type strShard struct {
	Mode int `json:"mode"`
	Stem int `json:"stem"`
}

func strSrc(mode, stem, tok, sfx int) string {
	return stems(mode)[stem] + strTokens[tok] + strSuffixes[sfx]
}

func strWorker(w *pool.W, arg json.RawMessage) {
	if aborted() {
		w.Emit(sumRec{Kind: "sum", Fam: "aborted", Outcomes: map[string]int{"shard-skipped-after-abort": 1}})
		return
	}
	defer shardCleanup()
	var sh strShard
	json.Unmarshal(arg, &sh)
	a := newAcc(w, "b-string-bodies")
	for t := range strTokens {
		for x := range strSuffixes {
			a.one(fmt.Sprintf("str|%d|%d|%d|%d", sh.Mode, sh.Stem, t, x), "b-string-bodies", sh.Mode, strSrc(sh.Mode, sh.Stem, t, x), false, "")
		}
	}
	a.flush()
}

type byteShard struct {
	Mode  int  `json:"mode"`
	Stem  int  `json:"stem"`
	Len   int  `json:"len"`
	First int  `json:"first"` // first byte value (-1: none fixed)
	Hot   bool `json:"hot"`
}

func byteWorker(w *pool.W, arg json.RawMessage) {
	if aborted() {
		w.Emit(sumRec{Kind: "sum", Fam: "aborted", Skipped: 0, Outcomes: map[string]int{"shard-skipped-after-abort": 1}})
		return
	}
	defer shardCleanup()
	var sh byteShard
	json.Unmarshal(arg, &sh)
	a := newAcc(w, "c-bytes")
	stem := stems(sh.Mode)[sh.Stem]
	var syms []byte
	if sh.Hot {
		syms = hotBytes
	} else {
		for i := 0; i < 256; i++ {
			syms = append(syms, byte(i))
		}
	}
	buf := make([]byte, sh.Len)
	var rec func(pos int)
	rec = func(pos int) {
		if pos == sh.Len {
			src := stem + string(buf)
			a.one(fmt.Sprintf("bytes|%d|%d|%x", sh.Mode, sh.Stem, buf), "c-bytes", sh.Mode, src, false, "")
			return
		}
		for _, s := range syms {
			buf[pos] = s
			rec(pos + 1)
		}
	}
	if sh.First >= 0 && sh.Len > 0 {
		buf[0] = byte(sh.First)
		rec(1)
	} else {
		rec(0)
	}
	a.flush()
}

type corpusShard struct {
	File string `json:"file"`
	Mut  string `json:"mut"` // prefix | del | dup
	From int    `json:"from"`
	To   int    `json:"to"`
}

// mutants enumerates the mutation family of one text: returns the number of cases and a generator.
func mutantCount(src string, mut string) int {
	toks, inner := crudeTokens(src)
	if mut == "prefix" {
		return len(toks) + len(inner) + 1
	}
	return len(toks)
}

func mutant(src string, toks []span, inner []int, mut string, i int) string {
	switch mut {
	case "prefix":
		if i < len(toks) {
			return src[:toks[i].s]
		}
		if i < len(toks)+len(inner) {
			return src[:inner[i-len(toks)]]
		}
		return src
	case "del":
		return src[:toks[i].s] + src[toks[i].e:]
	default: // dup
		return src[:toks[i].e] + " " + src[toks[i].s:toks[i].e] + src[toks[i].e:]
	}
}

func corpusWorker(w *pool.W, arg json.RawMessage) {
	if aborted() {
		w.Emit(sumRec{Kind: "sum", Fam: "aborted", Skipped: 0, Outcomes: map[string]int{"shard-skipped-after-abort": 1}})
		return
	}
	defer shardCleanup()
	var sh corpusShard
	json.Unmarshal(arg, &sh)
	a := newAcc(w, "a-corpus-"+sh.Mut)
	b, err := os.ReadFile(filepath.Join(repoRoot(), sh.File))
	if err != nil {
		a.sum.Outcomes["unreadable"]++
		a.flush()
		return
	}
	src := string(b)
	toks, inner := crudeTokens(src)
	sort.Ints(inner)
	for i := sh.From; i < sh.To; i++ {
		note := fmt.Sprintf("%s %s #%d", sh.File, sh.Mut, i)
		a.one("corpus|"+sh.File+"|"+sh.Mut+"|"+strconv.Itoa(i), a.sum.Fam, 1, mutant(src, toks, inner, sh.Mut, i), false, note)
	}
	a.flush()
}

type ladderShard struct {
	Name  string `json:"name"`
	Depth int    `json:"depth"`
	Mode  int    `json:"mode"`
}

const maxLadderBytes = 8 << 20

func ladderSrc(name string, depth, mode int) (string, bool) {
	l, ok := ladderByName(name)
	if !ok {
		return "", false
	}
	if len(l.Head)+depth*(len(l.Open)+len(l.Close)) > maxLadderBytes {
		return "", false
	}
	s := l.build(depth)
	if mode == 1 {
		s = "<?php " + s
	}
	return s, true
}

func ladderWorker(w *pool.W, arg json.RawMessage) {
	if aborted() {
		w.Emit(sumRec{Kind: "sum", Fam: "aborted", Skipped: 0, Outcomes: map[string]int{"shard-skipped-after-abort": 1}})
		return
	}
	var sh ladderShard
	json.Unmarshal(arg, &sh)
	debug.SetMaxStack(1 << 30) // Go's own default on 64-bit: what the real CLI would have
	ownScratch = true
	defer cleanupScratch()
	a := newAcc(w, "d-ladders")
	src, ok := ladderSrc(sh.Name, sh.Depth, sh.Mode)
	if !ok {
		a.sum.Skipped++
		a.flush()
		return
	}
	a.one(fmt.Sprintf("ladder|%s|%d|%d", sh.Name, sh.Depth, sh.Mode), "d-ladders", sh.Mode, src, false, fmt.Sprintf("ladder %s depth %d", sh.Name, sh.Depth))
	a.flush()
}

type progShard struct {
	Prog int `json:"prog"`
	Mode int `json:"mode"`
}

func progSrc(i, mode int) string {
	if mode == 1 {
		return "<?php\n" + basePrograms[i] + "\n"
	}
	return basePrograms[i] + "\n"
}

func progWorker(w *pool.W, arg json.RawMessage) {
	if aborted() {
		w.Emit(sumRec{Kind: "sum", Fam: "aborted", Skipped: 0, Outcomes: map[string]int{"shard-skipped-after-abort": 1}})
		return
	}
	defer shardCleanup()
	var sh progShard
	json.Unmarshal(arg, &sh)
	a := newAcc(w, "e-run-after-accept")
	src := progSrc(sh.Prog, sh.Mode)
	// the unmutated program must parse and run without any crash, else the family is unsound
	base := check(src, sh.Mode, true)
	if base.Clause != "" || !(base.Outcome == "run:ok" || base.Outcome == "run:throw") {
		a.sum.Outcomes[fmt.Sprintf("base-not-clean:%d:%s:%s:%s", sh.Prog, base.Outcome, base.Key, base.Detail)]++
	}
	toks, inner := crudeTokens(src)
	sort.Ints(inner)
	for _, mut := range []string{"prefix", "del", "dup"} {
		n := mutantCount(src, mut)
		for i := 0; i < n; i++ {
			if mode1Head(sh.Mode, mut, i) {
				continue
			}
			a.one(fmt.Sprintf("prog|%d|%d|%s|%d", sh.Prog, sh.Mode, mut, i), "e-run-after-accept", sh.Mode, mutant(src, toks, inner, mut, i), true, fmt.Sprintf("program %d %s #%d", sh.Prog, mut, i))
		}
	}
	a.flush()
}

// in template mode, deleting the opening tag turns the program into inline HTML: still a valid
// case for the parser, kept; nothing is skipped today.
func mode1Head(mode int, mut string, i int) bool { return false }

// ---- reduce (one shard per finding key, run at the end) ----------------------------------------

type reduceShard struct {
	Key    string `json:"key"`
	Clause string `json:"clause"`
	Case   kase   `json:"case"`
}

func caseSrc(k kase) (string, bool) {
	if k.Hex != "" {
		b, err := hex.DecodeString(k.Hex)
		if err == nil {
			return string(b), true
		}
	}
	// ladders: regenerate from the note
	var name string
	var depth int
	if n, _ := fmt.Sscanf(k.Note, "ladder %s depth %d", &name, &depth); n == 2 {
		return ladderSrc(name, depth, k.Mode)
	}
	// corpus mutants larger than the hex limit: regenerate
	var file, mut string
	var idx int
	if n, _ := fmt.Sscanf(k.Note, "%s %s #%d", &file, &mut, &idx); n == 3 {
		b, err := os.ReadFile(filepath.Join(repoRoot(), file))
		if err == nil {
			toks, inner := crudeTokens(string(b))
			sort.Ints(inner)
			if idx < mutantCount(string(b), mut) {
				return mutant(string(b), toks, inner, mut, idx), true
			}
		}
	}
	if k.Src == "" && k.Note == "" {
		return "", true // the empty input
	}
	return "", false
}

func reduceWorker(w *pool.W, arg json.RawMessage) {
	defer shardCleanup()
	var sh reduceShard
	json.Unmarshal(arg, &sh)
	if !w.Item("reduce|" + sh.Key) {
		return
	}
	src, ok := caseSrc(sh.Case)
	if !ok || sh.Case.Fam == "d-ladders" || sh.Case.Fam == "c-bytes" || sh.Case.Alt != "" || sh.Case.Opt != "" {
		return // (family g cases are one site x carrier x body each: already minimal)
	}
	same := func(s string) bool {
		v := check(s, sh.Case.Mode, sh.Case.Run)
		return v.Key == sh.Key
	}
	if !same(src) {
		return
	}
	red := reduceText(src, sh.Case.Mode, same)
	if len(red) < len(src) {
		v := check(red, sh.Case.Mode, sh.Case.Run)
		k := mkCase(sh.Case.Fam, sh.Case.Mode, red, sh.Case.Run, "reduced from: "+sh.Case.Note)
		w.Emit(failRec{Key: sh.Key, Clause: sh.Clause, Case: k, Detail: v.Detail, Size: len(red)})
	}
}

// oneWorker runs a single recorded case (replay) inside a worker.
func oneWorker(w *pool.W, arg json.RawMessage) {
	defer shardCleanup()
	var k kase
	json.Unmarshal(arg, &k)
	if k.Fam == "d-ladders" {
		debug.SetMaxStack(1 << 30)
		ownScratch = true
	}
	src, ok := caseSrc(k)
	if !ok {
		w.Emit(map[string]any{"error": "cannot rebuild the input from " + k.Note})
		return
	}
	if !w.Item("one") {
		return
	}
	v := checkAlt(src, k.Mode, k.Run, altArg(k))
	w.Emit(map[string]any{"outcome": v.Outcome, "clause": v.Clause, "key": v.Key, "detail": v.Detail, "fuel": v.Fuel, "budget": budget(len(src)), "len": len(src), "src": clip(src)})
}

// abortFlag is a file the parent creates when the number of failing cases makes finishing the
// enumeration pointless (a tree on which nearly every rejected input hangs); workers then skip
// their remaining shards and the run is reported as non-exhaustive.
func abortFlag(parent int) string {
	return filepath.Join(scratchBase(), scratchPrefix(parent)+"abort")
}

func aborted() bool {
	_, err := os.Stat(abortFlag(os.Getppid()))
	return err == nil
}

func shardCleanup() {
	runner.Cleanup()
	cleanupScratch()
}

// sweep removes scratch directories left by workers of this run (dead ladder workers).
func sweep() {
	m, _ := filepath.Glob(filepath.Join(scratchBase(), scratchPrefix(os.Getpid())+"*"))
	for _, d := range m {
		os.RemoveAll(d)
	}
}

// ---- parent -----------------------------------------------------------------------------------

func corpusFiles() []string {
	var files []string
	for _, d := range []string{"tests", "examples"} {
		filepath.Walk(filepath.Join(repoRoot(), d), func(p string, info os.FileInfo, err error) error {
			if err == nil && !info.IsDir() && strings.HasSuffix(p, ".php") {
				rel, _ := filepath.Rel(repoRoot(), p)
				files = append(files, rel)
			}
			return nil
		})
	}
	sort.Strings(files)
	return files
}

func deathKey(d pool.Death) (key, clause string) {
	id := d.Item
	reason := "worker-death"
	switch {
	case d.Reason == "hang":
		reason = "wall-clock-watchdog"
	case strings.Contains(d.Stderr, "stack overflow") || strings.Contains(d.Stderr, "goroutine stack exceeds"):
		reason = "stack-overflow"
	case strings.Contains(d.Stderr, "out of memory") || strings.Contains(d.Stderr, "cannot allocate"):
		reason = "out-of-memory"
	}
	// frames in the trace: the recursion cycle; name it by a stable representative
	count := map[string]int{}
	for _, l := range strings.Split(d.Stderr, "\n") {
		if strings.HasPrefix(l, modPrefix) && !strings.HasPrefix(l, modPrefix+"utils/vshim.") {
			f := strings.TrimPrefix(l, modPrefix)
			if i := strings.LastIndex(f, "("); i > 0 {
				f = f[:i]
			}
			count[reClosure.ReplaceAllString(f, "")]++
		}
	}
	pkg, frame := "?", "?"
	var fs []string
	for f := range count {
		fs = append(fs, f)
	}
	sort.Strings(fs)
	if len(fs) > 0 {
		frame = fs[0]
		pkg = frame
		if i := strings.Index(pkg, "."); i > 0 {
			pkg = pkg[:i]
		}
	}
	if strings.HasPrefix(id, "ladder|") && reason == "stack-overflow" {
		// unbounded recursive descent: one root cause per package (no nesting-depth policy)
		return "stack-overflow:deep-nesting@" + pkg, "no-stack-overflow"
	}
	return reason + "@" + frame, "no-crash"
}

func caseFromID(id string) kase {
	p := strings.Split(id, "|")
	switch p[0] {
	case "ladder":
		if len(p) == 4 {
			d, _ := strconv.Atoi(p[2])
			m, _ := strconv.Atoi(p[3])
			return kase{Fam: "d-ladders", Mode: m, Src: describeLadder(p[1], d), Note: fmt.Sprintf("ladder %s depth %d", p[1], d)}
		}
	case "tok":
		if len(p) == 4 {
			m, _ := strconv.Atoi(p[1])
			st, _ := strconv.Atoi(p[2])
			var seq []int
			for _, f := range strings.Fields(strings.Trim(p[3], "[]")) {
				x, _ := strconv.Atoi(f)
				seq = append(seq, x)
			}
			return mkCase("b-tokens", m, stems(m)[st]+joinToks(seq), false, "")
		}
	case "str":
		if len(p) == 5 {
			m, _ := strconv.Atoi(p[1])
			st, _ := strconv.Atoi(p[2])
			t, _ := strconv.Atoi(p[3])
			x, _ := strconv.Atoi(p[4])
			return mkCase("b-string-bodies", m, strSrc(m, st, t, x), false, "")
		}
	case "bytes":
		if len(p) == 4 {
			m, _ := strconv.Atoi(p[1])
			st, _ := strconv.Atoi(p[2])
			b, _ := hex.DecodeString(p[3])
			return mkCase("c-bytes", m, stems(m)[st]+string(b), false, "")
		}
	case "unit":
		if len(p) == 4 {
			ci, _ := strconv.Atoi(p[1])
			l, _ := strconv.Atoi(p[2])
			q, _ := strconv.Atoi(p[3])
			if ci < len(unitContainers) && l >= 1 && l <= 4 && q < len(unitSeqs(l)) {
				return mkCase("f-units-in-containers", unitContainers[ci].Mode, unitSrc(ci, l, q), false, "")
			}
		}
	case "opt":
		if len(p) == 4 {
			md, _ := strconv.Atoi(p[1])
			ti, _ := strconv.Atoi(p[2])
			ix, _ := strconv.Atoi(p[3])
			if ti < len(optTemplates) && ix < optTemplates[ti].count() {
				k := mkCase("i-optional-parts", md, optTemplates[ti].build(md, optTemplates[ti].combo(ix)), true, "")
				k.Opt = fmt.Sprintf("%s|%d", optTemplates[ti].Name, ix)
				return k
			}
		}
	case "rep":
		if len(p) == 6 {
			var n [5]int
			for i := range n {
				n[i], _ = strconv.Atoi(p[i+1])
			}
			if bodies := reparseBodies(n[3]); n[1] < len(reparseSites) && n[2] < len(reparseCarriers) && n[4] < len(bodies) {
				src, alt, alt0 := reparseSrc(n[0], n[1], n[2], bodies[n[4]])
				k := mkCase("g-reparsed-operands", n[0], src, true, "")
				k.AltKind, k.Alt, k.Alt0 = reparseCarriers[n[2]].Kind, alt, alt0
				return k
			}
		}
	case "corpus":
		if len(p) == 4 {
			return kase{Fam: "a-corpus-" + p[2], Mode: 1, Note: fmt.Sprintf("%s %s #%s", p[1], p[2], p[3])}
		}
	case "prog":
		if len(p) == 5 {
			pi, _ := strconv.Atoi(p[1])
			m, _ := strconv.Atoi(p[2])
			i, _ := strconv.Atoi(p[4])
			src := progSrc(pi, m)
			toks, inner := crudeTokens(src)
			sort.Ints(inner)
			return mkCase("e-run-after-accept", m, mutant(src, toks, inner, p[3], i), true, fmt.Sprintf("program %d %s #%d", pi, p[3], i))
		}
	}
	return kase{Note: id}
}

func main() {
	if pool.IsWorker() {
		defer cleanupScratch()
		pool.Serve(map[string]pool.Handler{"tok": tokWorker, "str": strWorker, "bytes": byteWorker, "corpus": corpusWorker, "ladder": ladderWorker, "prog": progWorker, "unit": unitWorker, "reparse": reparseWorker, "opt": optWorker, "reduce": reduceWorker, "one": oneWorker, "conc": concWorker})
	}
	c := ev.New("C01")
	if c.Replay != "" {
		replay(c)
		return
	}
	c.SetBudget(6*time.Minute, 40*time.Minute)
	t0 := time.Now()
	quick := c.Quick()

	var shards []pool.Shard
	// (e) first: slowest per case
	for i := range basePrograms {
		for m := 0; m < 2; m++ {
			shards = append(shards, pool.Shard{Kind: "prog", Arg: progShard{Prog: i, Mode: m}})
		}
	}
	// (b)
	maxLen, coreLen := 3, 0
	if !quick {
		maxLen, coreLen = 4, 5
	}
	_ = coreLen
	// quick: every string of <= 3 tokens after every stem in both modes.
	// thorough: additionally length 4 over the full alphabet after the empty stem of each mode and
	// over the 24-token core after the other stems, and length 5 over the core (plain mode, no stem).
	for mode := 0; mode < 2; mode++ {
		for st := range stems(mode) {
			for l := 0; l <= 3; l++ {
				if l < 3 {
					shards = append(shards, pool.Shard{Kind: "tok", Arg: tokShard{Mode: mode, Stem: st, Len: l}})
					continue
				}
				for a := range alphabet {
					shards = append(shards, pool.Shard{Kind: "tok", Arg: tokShard{Mode: mode, Stem: st, Len: l, Prefix: []int{a}}})
				}
			}
			if quick {
				continue
			}
			if st == 0 {
				for a := range alphabet {
					shards = append(shards, pool.Shard{Kind: "tok", Arg: tokShard{Mode: mode, Stem: st, Len: 4, Prefix: []int{a}}})
				}
			} else {
				for _, a := range coreIdx {
					shards = append(shards, pool.Shard{Kind: "tok", Arg: tokShard{Mode: mode, Stem: st, Len: 4, Prefix: []int{a}, Core: true}})
				}
			}
			if mode == 0 && st == 0 {
				for _, a := range coreIdx {
					for _, b := range coreIdx {
						shards = append(shards, pool.Shard{Kind: "tok", Arg: tokShard{Mode: mode, Stem: st, Len: 5, Prefix: []int{a, b}, Core: true}})
					}
				}
			}
		}
	}
	// (b') string-body tokens: both tiers
	for mode := 0; mode < 2; mode++ {
		for st := range stems(mode) {
			shards = append(shards, pool.Shard{Kind: "str", Arg: strShard{Mode: mode, Stem: st}})
		}
	}
	// (g) complete programs with re-parsed operands: bodies of <= 2 pieces (thorough: 3)
	bodyLen := 2
	if !quick {
		bodyLen = 3
	}
	for mode := 0; mode < 2; mode++ {
		for si := range reparseSites {
			for ci := range reparseCarriers {
				if quick && mode == 1 && reparseCarriers[ci].Kind != "interpolated-string" {
					continue // template mode differs in the lexer only: quick keeps it for the string carriers
				}
				shards = append(shards, pool.Shard{Kind: "reparse", Arg: reparseShard{Mode: mode, Site: si, Carrier: ci, MaxLen: bodyLen}})
			}
		}
	}
	// (i) statement templates with every optional part present / omitted, run (families3.go)
	for ti := range optTemplates {
		for mode := 0; mode < 2; mode++ {
			if quick && mode == 1 && !optTemplates[ti].BothModes {
				continue
			}
			n := optTemplates[ti].count()
			for from := 0; from < n; from += 400 {
				shards = append(shards, pool.Shard{Kind: "opt", Arg: optShard{T: ti, Mode: mode, From: from, To: from + 400}})
			}
		}
	}
	// (f) character units inside lexical containers: sequences of <= 3 units (thorough: 4)
	unitLen := 3
	if !quick {
		unitLen = 4
	}
	for ci := range unitContainers {
		for from := 0; from < len(unitSeqs(unitLen)); from += 1250 {
			shards = append(shards, pool.Shard{Kind: "unit", Arg: unitShard{C: ci, L: unitLen, From: from, To: from + 1250}})
		}
	}
	// (c)
	for mode := 0; mode < 2; mode++ {
		for st := range stems(mode) {
			shards = append(shards, pool.Shard{Kind: "bytes", Arg: byteShard{Mode: mode, Stem: st, Len: 0, First: -1}})
			shards = append(shards, pool.Shard{Kind: "bytes", Arg: byteShard{Mode: mode, Stem: st, Len: 1, First: -1}})
			for f := 0; f < 256; f += 1 {
				shards = append(shards, pool.Shard{Kind: "bytes", Arg: byteShard{Mode: mode, Stem: st, Len: 2, First: f}})
			}
			if !quick {
				for _, f := range hotBytes {
					shards = append(shards, pool.Shard{Kind: "bytes", Arg: byteShard{Mode: mode, Stem: st, Len: 3, First: int(f), Hot: true}})
				}
			} else {
				shards = append(shards, pool.Shard{Kind: "bytes", Arg: byteShard{Mode: mode, Stem: st, Len: 3, First: 0xE3, Hot: true}})
				shards = append(shards, pool.Shard{Kind: "bytes", Arg: byteShard{Mode: mode, Stem: st, Len: 3, First: '$', Hot: true}})
				shards = append(shards, pool.Shard{Kind: "bytes", Arg: byteShard{Mode: mode, Stem: st, Len: 3, First: '"', Hot: true}})
				shards = append(shards, pool.Shard{Kind: "bytes", Arg: byteShard{Mode: mode, Stem: st, Len: 3, First: '<', Hot: true}})
			}
		}
	}
	// (a)
	files := corpusFiles()
	corpusCases := 0
	for _, f := range files {
		if sub := os.Getenv("VERIF_C01_FILE"); sub != "" && !strings.Contains(f, sub) {
			continue
		}
		b, err := os.ReadFile(filepath.Join(repoRoot(), f))
		if err != nil {
			continue
		}
		for _, mut := range []string{"prefix", "del", "dup"} {
			n := mutantCount(string(b), mut)
			corpusCases += n
			step := 400
			if len(b) > 8000 {
				step = 100
			}
			for from := 0; from < n; from += step {
				to := from + step
				if to > n {
					to = n
				}
				shards = append(shards, pool.Shard{Kind: "corpus", Arg: corpusShard{File: f, Mut: mut, From: from, To: to}})
			}
		}
	}
	// (d) ladders run in a second, narrower pool (deep stacks need memory)
	depths := []int{10, 100, 1000, 10000}
	if !quick {
		depths = append(depths, 100000, 1000000)
	}
	var lshards []pool.Shard
	for _, l := range ladders {
		for _, d := range depths {
			for m := 0; m < 2; m++ {
				lshards = append(lshards, pool.Shard{Kind: "ladder", Arg: ladderShard{Name: l.Name, Depth: d, Mode: m}})
			}
		}
	}

	// development aid: VERIF_C01_FAM=abcde restricts the families (evidence is then marked non-exhaustive)
	if fam := os.Getenv("VERIF_C01_FAM"); fam != "" {
		keep := map[string]string{"prog": "e", "corpus": "a", "tok": "b", "str": "s", "bytes": "c", "ladder": "d", "unit": "f", "reparse": "g", "opt": "i"}
		filter := func(in []pool.Shard) (out []pool.Shard) {
			for _, s := range in {
				if strings.Contains(fam, keep[s.Kind]) {
					out = append(out, s)
				}
			}
			return
		}
		shards, lshards = filter(shards), filter(lshards)
		c.NotExhaustive("VERIF_C01_FAM=" + fam)
	}
	total := map[string]int64{}
	outcomes := map[string]int64{}
	other := map[string]int{}
	reps := map[string]*failRec{}
	var maxSq, maxLin float64
	var maxSqSrc, maxLinSrc string
	skipped := 0
	samples := map[string]bool{}
	var watchdog, undecided []string
	var failing int64
	abortRaised := false
	abortAfter := int64(100_000) // unchanged tree: ~28k failing cases in quick, ~370k in thorough
	if !quick {
		abortAfter = 1_500_000
	}
	cpuOk, cpuFail := map[string]float64{}, map[string]float64{}
	onRec := func(si int, rb json.RawMessage) {
		var r sumRec
		if json.Unmarshal(rb, &r) != nil || r.Kind != "sum" {
			return
		}
		if r.Fam != "aborted" {
			total[r.Fam] += r.N
		}
		cpuOk[r.Fam] += r.CPUOk
		cpuFail[r.Fam] += r.CPUFail
		skipped += r.Skipped
		undecided = append(undecided, r.Undecided...)
		for o, n := range r.Outcomes {
			outcomes[o] += int64(n)
		}
		for o, n := range r.Other {
			other[o] += n
		}
		if r.MaxSq > maxSq {
			maxSq, maxSqSrc = r.MaxSq, r.MaxSqSrc
		}
		if r.MaxLin > maxLin {
			maxLin, maxLinSrc = r.MaxLin, r.MaxLinSrc
		}
		if r.Sample != nil && !samples[r.Fam] {
			samples[r.Fam] = true
			c.Sample(map[string]any{"family": r.Fam, "mode": r.Sample.Mode, "src": r.Sample.Src, "note": r.Sample.Note, "outcome": r.SampleOut})
		}
		for i := range r.Fails {
			failing += int64(r.Fails[i].Count)
		}
		if failing > abortAfter && !abortRaised {
			abortRaised = true
			os.WriteFile(abortFlag(os.Getpid()), []byte("x"), 0o644)
		}
		for i := range r.Fails {
			f := r.Fails[i]
			for k := 0; k < f.Count; k++ {
				c.Fail(f.Key, f.Clause, f.Size, f.Case, f.Detail)
			}
			if old := reps[f.Key]; old == nil || f.Size < old.Size {
				reps[f.Key] = &f
			}
		}
	}
	onDeath := func(d pool.Death) {
		if d.Reason == "hang" {
			// the pool's wall-clock watchdog is never an oracle: inconclusive, flagged as harness error
			watchdog = append(watchdog, d.Item)
			return
		}
		key, clause := deathKey(d)
		k := caseFromID(d.Item)
		size := len(k.Hex) / 2
		if size == 0 {
			size = 1 << 30
			if k.Fam == "d-ladders" {
				var nm string
				fmt.Sscanf(k.Note, "ladder %s depth %d", &nm, &size)
			}
		}
		c.Fail(key, clause, size, k, d.Reason+"\n"+firstLines(d.Stderr, 14))
		outcomes["worker-death"]++
	}
	var st1, st2 pool.Stats
	if len(shards) > 0 {
		st1 = pool.Run(shards, pool.Options{HangTimeout: 10 * time.Minute}, onRec, onDeath)
	}
	t1 := time.Since(t0)
	if len(lshards) > 0 {
		st2 = pool.Run(lshards, pool.Options{Workers: 6, MemLimit: 16 << 30, HangTimeout: 10 * time.Minute}, onRec, onDeath)
	}
	c.Set("wall_main_pool_s", t1.Seconds())
	c.Set("wall_ladder_pool_s", (time.Since(t0) - t1).Seconds())

	// final pass: delta-reduce the representative of every in-process finding key
	var rshards []pool.Shard
	var rkeys []string
	for k := range reps {
		rkeys = append(rkeys, k)
	}
	sort.Strings(rkeys)
	for _, k := range rkeys {
		if strings.HasPrefix(k, "hang@") || reps[k].Size <= 16 {
			continue // already minimal (hang verdicts are established on the reduced input)
		}
		rshards = append(rshards, pool.Shard{Kind: "reduce", Arg: reduceShard{Key: k, Clause: reps[k].Clause, Case: reps[k].Case}})
	}
	if len(rshards) > 0 {
		pool.Run(rshards, pool.Options{}, func(si int, rb json.RawMessage) {
			var f failRec
			if json.Unmarshal(rb, &f) == nil && f.Key != "" {
				c.Fail(f.Key, f.Clause, f.Size, f.Case, f.Detail)
			}
		}, func(d pool.Death) {})
	}

	// (h) concurrent lexing + parsing under the controlled scheduler (conc.go)
	var concExecs int64
	concScen, concComplete := 0, 0
	concSites := map[string]bool{}
	if fam := os.Getenv("VERIF_C01_FAM"); fam != "" && !strings.Contains(fam, "h") {
		// restricted development run
	} else {
		// cheap (a few seconds): always run, whatever is left of the budget
		pool.Run(concShards(quick), pool.Options{HangTimeout: 10 * time.Minute, FreshProcess: true}, func(si int, rb json.RawMessage) {
			var r concRec
			if json.Unmarshal(rb, &r) != nil {
				return
			}
			switch r.Kind {
			case "concfail":
				cs := r.Case
				cs.Choices, cs.Sites = r.Choices, r.Sites
				c.Fail(r.Key, "never-a-crash:under-any-schedule", len(r.Choices), map[string]any{"conc": cs}, r.Detail)
			case "concsum":
				concScen++
				concExecs += r.Execs
				for _, s := range r.Sites {
					concSites[sched.SiteStable(s)] = true
				}
				if r.Complete {
					concComplete++
				} else {
					c.NotExhaustive(fmt.Sprintf("scenario %s stopped (%s) after %d executions", r.Scenario, r.Stop, r.Execs))
				}
			}
		}, func(d pool.Death) {
			c.Fail("conc-parse:worker-death:"+firstLines(d.Stderr, 1), "never-a-crash:under-any-schedule", 0, map[string]any{"item": d.Item}, d.Reason+"\n"+firstLines(d.Stderr, 14))
		})
	}
	total["h-concurrent-parse"] = concExecs
	c.Set("conc_parse_scenarios", concScen)
	c.Set("conc_parse_scenarios_complete", concComplete)
	var cps []string
	for s := range concSites {
		cps = append(cps, s)
	}
	sort.Strings(cps)
	c.Set("conc_parse_shared_sites", cps)

	sweep()
	var execs int64
	for f, n := range total {
		c.Set("cases_"+f, n)
		execs += n
	}
	for o, n := range outcomes {
		for i := int64(0); i < 1; i++ {
			c.Outcome(o)
		}
		c.Set("outcome_"+o, n)
	}
	c.Set("corpus_files", len(files))
	c.Set("corpus_cases_planned", corpusCases)
	c.Set("token_alphabet", alphabet)
	c.Set("string_body_tokens", len(strTokens))
	c.Set("token_max_len", maxLen)
	c.Set("token_core_len", coreLen)
	c.Set("ladder_depths", depths)
	c.Set("ladders_skipped_over_8MB", skipped)
	c.Set("base_programs", len(basePrograms))
	c.Set("unit_alphabet", fmt.Sprintf("%q", unitAlphabet))
	c.Set("unit_sequences", fmt.Sprintf("%d (all 256 bytes, <= %d units, runs %v)", len(unitSeqs(unitLen)), unitLen, unitRuns))
	c.Set("unit_containers", len(unitContainers))
	c.Set("optional_part_templates", optSummary())
	c.Set("reparse_sites", reparseSites)
	c.Set("reparse_carriers", reparseCarriers)
	c.Set("reparse_bodies", fmt.Sprintf("%d (heads %v x <= %d of %d pieces)", len(reparseBodies(bodyLen)), reparseHeads, bodyLen, len(reparsePieces)))
	c.Set("fuel_bound", fmt.Sprintf("%d*(n+1)^2 ticks for n input bytes (first pass %d+%d*(n+1); absolute cap %d, beyond it undecided)", cQuad, linBase, linPer, int64(hardCap)))
	c.Set("max_fuel_per_sq", fmt.Sprintf("%.1f on %q", maxSq, maxSqSrc))
	c.Set("max_fuel_per_byte", fmt.Sprintf("%.1f on %q", maxLin, maxLinSrc))
	c.Set("other_runtime_panics_of_mutants_not_judged_here", other)
	c.Set("worker_deaths", st1.Deaths+st2.Deaths)
	sort.Strings(undecided)
	c.Set("undecided_inputs", undecided)
	c.Set("cpu_s_conforming_cases", cpuOk)
	c.Set("cpu_s_failing_cases", cpuFail)
	c.Assume("only the enumerated finite families are decided; byte strings longer than the bounds that are neither corpus mutants nor token strings, and inputs > 8 MB, are outside")
	c.Assume("token boundaries of corpus files come from the check's own crude tokenizer (independent of origami's lexer)")
	c.Assume("ladder workers run with Go's default 1 GiB goroutine stack limit; a ladder that needs more is a stack overflow of the real CLI too")
	c.Assume("run-time panics of accepted mutants that are not nil-operand dereferences (e.g. operator type assertions) are counted but left to C03")
	if maxSq > cQuad/4 {
		c.HarnessError("fuel bound not generous enough: measured max %.1f ticks per (n+1)^2, cQuad=%d must be >= 4x that", maxSq, cQuad)
	}
	if outcomes["undecided-over-cap"] > 0 {
		c.NotExhaustive(fmt.Sprintf("%d input(s) needed more than %d ticks while their bound cQuad*(n+1)^2 is larger: undecided", outcomes["undecided-over-cap"], int64(hardCap)))
	}
	if abortRaised {
		c.NotExhaustive(fmt.Sprintf("enumeration abandoned after %d failing cases (%d shards skipped): the tree fails on a large share of all inputs", failing, outcomes["shard-skipped-after-abort"]))
	}
	if len(watchdog) > 0 {
		c.HarnessError("inconclusive: %d item(s) killed by the pool's wall-clock watchdog (no verdict): %v", len(watchdog), watchdog)
	}
	for o := range outcomes {
		if strings.HasPrefix(o, "base-not-clean") || strings.HasPrefix(o, "unexpected") || o == "unreadable" {
			c.HarnessError("harness outcome %s (%d)", o, outcomes[o])
		}
	}
	if os.Getenv("VERIF_C01_FAM") == "" && (outcomes["ok"] == 0 || outcomes["parse"] == 0 || outcomes["run:ok"] == 0 || len(outcomes) < 5) {
		c.HarnessError("vacuous: outcomes %v", outcomes)
	}
	c.Finish(execs, execs, execs, fmt.Sprintf("every input of families (a)-(g) inside the bound parsed once on the instrumented lexer+parser (families e and g also run); states = inputs; %d corpus files, token strings <= %d over %d tokens x %d stems x 2 modes, ladders to depth %d", len(files), maxLen, len(alphabet), len(plainStems)+len(templStems), depths[len(depths)-1]))
}

// altArg packs the neutral twin of a family (g) case for checkAlt ("" for every other family).
func altArg(k kase) string {
	if k.Opt != "" {
		return optMark + k.Opt
	}
	if k.Alt == "" {
		return ""
	}
	return k.AltKind + "\x00" + k.Alt + "\x00" + k.Alt0
}

func firstLines(s string, n int) string {
	l := strings.Split(s, "\n")
	if len(l) > n {
		l = l[:n]
	}
	return strings.Join(l, "\n")
}

func replay(c *ev.Check) {
	var k kase
	var ck struct {
		Conc *concShard `json:"conc"`
	}
	if key, err := ev.LoadReplay(c.Replay, &ck); err == nil && ck.Conc != nil {
		fmt.Printf("recorded key: %s\nscenario: %s\n", key, ck.Conc.String())
		keys := concReplay(*ck.Conc, ck.Conc.Choices, ck.Conc.Sites)
		if len(keys) == 0 {
			fmt.Println("conforms")
		}
		for _, kk := range keys {
			fmt.Println("violates never-a-crash:under-any-schedule:", kk)
			c.Fail(kk, "never-a-crash:under-any-schedule", 0, ck, "replayed")
		}
		c.Finish(1, 1, 1, "replay")
		return
	}
	key, err := ev.LoadReplay(c.Replay, &k)
	if err != nil {
		fmt.Println("replay:", err)
		os.Exit(2)
	}
	fmt.Printf("recorded key: %s\n", key)
	pool.Run([]pool.Shard{{Kind: "one", Arg: k}}, pool.Options{Workers: 1, MemLimit: 16 << 30, HangTimeout: 10 * time.Minute}, func(si int, rb json.RawMessage) {
		var r map[string]any
		json.Unmarshal(rb, &r)
		if e, ok := r["error"]; ok {
			c.HarnessError("replay: %v", e)
			return
		}
		fmt.Printf("input (%v bytes, mode %d): %q\noutcome=%v fuel=%v budget=%v\n", r["len"], k.Mode, r["src"], r["outcome"], r["fuel"], r["budget"])
		if cl, _ := r["clause"].(string); cl != "" {
			fmt.Printf("violates %s: %v\n  %v\n", cl, r["key"], r["detail"])
			c.Fail(fmt.Sprint(r["key"]), cl, 0, k, fmt.Sprint(r["detail"]))
		} else {
			fmt.Println("conforms")
		}
	}, func(d pool.Death) {
		if d.Reason == "hang" {
			c.HarnessError("replay: killed by the wall-clock watchdog, no verdict")
			return
		}
		d.Item = "ladder|" // deep-nesting classification applies to ladder cases only
		if k.Fam != "d-ladders" {
			d.Item = "one"
		}
		dk, cl := deathKey(d)
		fmt.Printf("worker died: %s\n%s\n", dk, firstLines(d.Stderr, 8))
		c.Fail(dk, cl, 0, k, "replayed: "+firstLines(d.Stderr, 4))
	})
	sweep()
	c.Finish(1, 1, 1, "replay")
}
