package main

// The CLI route: a pool program is run the way cmd.RunScriptFile runs a script file - a file on
// disk, a fresh parser + VM with the std and php libraries, VM.LoadAndRun, the parser's own
// ShowControl for whatever comes back or reaches the VM's uncaught handler, the shutdown
// callbacks, a status - with
// NOTHING of the process-level output machinery replaced by the harness: data.WriteOutput stays
// whatever the process has, os.Stdout and os.Stderr are pointed at scratch files and read back
// byte for byte. This is the observable the property statement names ("output, diagnostics and
// exit status"): the diagnostics printer, the "user output already emitted" flag, the output
// buffer stack and the registered handlers are all on this path and on no other.

import (
	"fmt"
	"os"
	"path/filepath"
	"runtime/debug"
	"strings"

	"github.com/php-any/origami/data"
	"github.com/php-any/origami/parser"
	"github.com/php-any/origami/runtime"
	"github.com/php-any/origami/std"
	"github.com/php-any/origami/std/php"
	"github.com/php-any/origami/utils/vshim"

	"verif/engine/runner"
)

func progFile(dir, name string) string { return filepath.Join(dir, name+".zy") }

// writePrograms puts every pool program into dir (one file per program, fixed names, so that the
// file name inside a diagnostic is the same in every process of one run).
func writePrograms(dir string) error {
	for _, p := range programs {
		if err := os.WriteFile(progFile(dir, p.Name), []byte(p.Src), 0o644); err != nil {
			return err
		}
	}
	return nil
}

func runLikeCLI(dir, name string, sel map[string]int) (o obsv) {
	file := progFile(dir, name)
	outF, err1 := os.CreateTemp(dir, ".out-")
	errF, err2 := os.CreateTemp(dir, ".err-")
	if err1 != nil || err2 != nil {
		return obsv{Kind: "harness-error", Msg: fmt.Sprint(err1, err2)}
	}
	defer func() {
		outF.Close()
		errF.Close()
		os.Remove(outF.Name())
		os.Remove(errF.Name())
	}()
	vshim.OnIter = func(n int, site string) int { return sel[site] }
	savedOut, savedErr := os.Stdout, os.Stderr
	os.Stdout, os.Stderr = outF, errF
	vshim.CatchExit = true
	vshim.SetFuel(3_000_000)
	func() {
		defer func() {
			r := recover()
			vshim.SetFuel(0)
			vshim.CatchExit = false
			if r == nil {
				return
			}
			switch x := r.(type) {
			case vshim.FuelExhausted:
				o.Kind = "fuel"
			case vshim.ExitCalled:
				o.Kind, o.Exit = "exit", x.Code
			default:
				// the real CLI dies here with a Go stack trace on stderr and status 2
				st := string(debug.Stack())
				msg := fmt.Sprint(r)
				if len(msg) > 300 {
					msg = msg[:300]
				}
				o.Kind, o.Exit = "panic", 2
				o.Msg = "panic:" + runner.PanicClass(msg) + "@" + runner.FirstFrame(st)
			}
		}()
		p := parser.NewParser()
		vm := runtime.NewVM(p)
		std.Load(vm)
		php.Load(vm)
		rvm := vm.(*runtime.VM)
		// The one thing an embedder that runs several programs in a process has to change: the VM's
		// default handler for an uncaught control prints it and calls os.Exit(1). Here it prints it the
		// same way (the parser's ShowControl) and remembers the status instead of ending the process.
		uncaught := false
		vm.SetThrowControl(func(acl data.Control) {
			uncaught = true
			p.ShowControl(acl)
		})
		_, acl := rvm.LoadAndRun(file)
		if acl != nil {
			p.ShowControl(acl)
			uncaught = true
		}
		rvm.RunShutdownCallbacks()
		o.Kind = "done"
		if uncaught {
			o.Exit = 1
		}
	}()
	os.Stdout, os.Stderr = savedOut, savedErr
	vshim.OnIter = nil
	read := func(f *os.File) string {
		n, _ := f.Seek(0, 1)
		if n <= 0 {
			return ""
		}
		b := make([]byte, n)
		f.ReadAt(b, 0)
		s := strings.ReplaceAll(string(b), dir, "<DIR>")
		return reAddr.ReplaceAllString(s, "0xADDR")
	}
	o.Out, o.Err = read(outF), read(errF)
	o.Msg = reAddr.ReplaceAllString(o.Msg, "0xADDR")
	return o
}
