// C20: sequential programs are deterministic and leave nothing behind for the next VM.
//
// Forms E + H. (i) Go map iteration order is an environment answer the harness owns
// (vshim.OnIter, planted by govis at every range-over-map with an ordered key type): for each
// pool program the run with every site ascending is compared with every single-site deviation
// (descending; every permutation for maps of <= 4 entries) and every pair of deviating sites.
// (ii) every insertion sequence of <= 4 distinct keys into arrays and objects must be
// enumerated back in insertion order; and (hist.go) every HISTORY of set / overwrite / unset /
// re-insert ops over <= 4 keys, on every way a container can be born (list-backed, map-backed,
// auto-vivified, constructor results, nested, by reference; stdClass, declared class, $this, ...),
// read back through every enumeration route, each with all map ranges ascending and descending;
// plus bulk histories that cross deletion / compaction thresholds. (iii) every ordered pair (A, B)
// of pool programs: B on a fresh VM after A must behave like B alone in a brand-new process -
// through the in-process route (captured output writer) AND through the CLI route (cliroute.go:
// file + LoadAndRun + ShowControl + shutdown callbacks; stdout, stderr and exit status byte for
// byte), with a pool that pairs every kind of end state of A (output / var_dump only / silent /
// open buffers / handlers / died) with every kind of diagnostic B can end in. (iv) every pool
// program run repeatedly through the real CLI gives identical stdout / stderr / exit status.
package main

import (
	"bytes"
	"encoding/json"
	"flag"
	"fmt"
	"os"
	"os/exec"
	"reflect"
	"regexp"
	"sort"
	"strings"
	"sync"
	"sync/atomic"
	"time"

	"github.com/php-any/origami/std/php/core"
	"github.com/php-any/origami/utils/vshim"

	"verif/engine/ev"
	"verif/engine/pool"
	"verif/engine/runner"
	"verif/engine/sched"
)

type obsv struct {
	Out   string `json:"out"`
	Err   string `json:"err,omitempty"` // CLI route only: what went to os.Stderr, byte for byte
	Kind  string `json:"kind"`
	Class string `json:"class,omitempty"`
	Msg   string `json:"msg,omitempty"`
	Exit  int    `json:"exit,omitempty"`
}

var reAddr = regexp.MustCompile(`0x[0-9a-f]{6,}`)

func observe(src string) obsv { return observeFuel(src, 3_000_000) }

func observeFuel(src string, fuel int64) obsv {
	r := runner.Run(src, runner.Opts{Fuel: fuel, CaptureStdout: true})
	o := obsv{Out: r.Out, Kind: r.Kind, Class: r.Class, Msg: r.Msg, Exit: r.ExitCode}
	if r.Stdout != "" {
		// what var_dump & co. print bypasses the output writer; it is part of the program's output
		o.Out += "\n--stdout--\n" + r.Stdout
	}
	if r.Kind == "panic" {
		o.Msg = r.PanicKey
	}
	// Go pointer values inside diagnostics differ from run to run by construction of the host
	// language; they are masked so that only script-visible nondeterminism is compared.
	o.Msg = reAddr.ReplaceAllString(o.Msg, "0xADDR")
	o.Out = reAddr.ReplaceAllString(o.Out, "0xADDR")
	return o
}

func (o obsv) String() string { b, _ := json.Marshal(o); return string(b) }

func findProg(name string) prog {
	for _, p := range pool_() {
		if p.Name == name {
			return p
		}
	}
	panic("no program " + name)
}

func pool_() []prog { return programs }

type rec struct {
	Kind    string         `json:"kind"`
	N       int64          `json:"n,omitempty"`
	Key     string         `json:"key,omitempty"`
	Clause  string         `json:"clause,omitempty"`
	Detail  string         `json:"detail,omitempty"`
	Size    int            `json:"size,omitempty"`
	Case    any            `json:"case,omitempty"`
	Sites   []string       `json:"sites,omitempty"`
	Outcome string         `json:"outcome,omitempty"`
	Sample  any            `json:"sample,omitempty"`
	Stats   map[string]int `json:"stats,omitempty"`
	Raw     *rawFail       `json:"raw,omitempty"`
}

// ---- (i) map iteration order ---------------------------------------------------------

type orderCase struct {
	Prog string         `json:"prog"`
	Sel  map[string]int `json:"sel"`
}

func runWithOrder(src string, sel map[string]int, hits map[string]int) obsv {
	vshim.OnIter = func(n int, site string) int {
		if hits != nil && n > hits[site] {
			hits[site] = n
		}
		return sel[site]
	}
	defer func() { vshim.OnIter = nil }()
	return observe(src)
}

func fact(n int) int {
	f := 1
	for i := 2; i <= n; i++ {
		f *= i
	}
	return f
}

func orderWorker(w *pool.W, arg json.RawMessage) {
	var name string
	json.Unmarshal(arg, &name)
	p := findProg(name)
	if !w.Item("order:" + name) {
		return
	}
	hits := map[string]int{}
	// in-process runs inside a long-lived worker: a set_time_limit deadline left behind by a program
	// this worker ran earlier must not kill a later run (see evalScriptDir)
	inProc := func(sel map[string]int, hits map[string]int) obsv {
		core.SetExecutionDeadline(0)
		return runWithOrder(p.Src, sel, hits)
	}
	base := inProc(map[string]int{}, hits)
	again := inProc(map[string]int{}, nil)
	var n int64 = 2
	run := func(sel map[string]int) obsv { return inProc(sel, nil) }
	if base != again {
		// the program leaves residue that changes its own next run (clause iii reports that);
		// for the map-order clause every run of it is made in a brand-new process instead
		run = func(sel map[string]int) obsv {
			r, err := selfExec(execSpec{Progs: []string{name}, Sel: sel})
			if err != nil {
				return obsv{Kind: "harness-exec-error", Msg: err.Error()}
			}
			return r.Obs
		}
		base = run(map[string]int{})
		if again = run(map[string]int{}); base != again {
			w.Emit(rec{Kind: "fail", Key: "unstable-baseline:" + name, Clause: "determinism", Case: orderCase{Prog: name}, Detail: fmt.Sprintf("two runs in new processes with every map order fixed differ:\n%s\n%s", base, again)})
		}
	}
	var sites []string
	for s, k := range hits {
		if k >= 2 {
			sites = append(sites, s)
		}
	}
	sort.Strings(sites)
	failedSingle := map[string]bool{}
	report := func(sel map[string]int, got obsv) {
		var ks []string
		for s := range sel {
			ks = append(ks, sched.SiteStable(s))
		}
		sort.Strings(ks)
		key := "maporder:" + strings.Join(ks, "+")
		w.Emit(rec{Kind: "fail", Key: key, Clause: "map-order-independence", Size: len(p.Src), Case: orderCase{Prog: name, Sel: sel},
			Detail: fmt.Sprintf("program %q: with every range-over-map ascending: %s\nwith %v deviating: %s", name, base, sel, got)})
	}
	for _, s := range sites {
		alts := []int{1}
		if hits[s] <= 4 {
			alts = nil
			for k := 1; k < fact(hits[s]); k++ {
				alts = append(alts, k)
			}
		}
		for _, a := range alts {
			sel := map[string]int{s: a}
			got := run(sel)
			n++
			if got != base && !failedSingle[s] {
				failedSingle[s] = true
				report(sel, got)
			}
		}
	}
	for i, s := range sites {
		if failedSingle[s] {
			continue
		}
		for _, t := range sites[i+1:] {
			if failedSingle[t] {
				continue
			}
			sel := map[string]int{s: 1, t: 1}
			got := run(sel)
			n++
			if got != base {
				report(sel, got)
			}
		}
	}
	var ss []string
	for _, s := range sites {
		ss = append(ss, sched.SiteStable(s))
	}
	w.Emit(rec{Kind: "count", N: n, Sites: ss, Outcome: name + ":" + base.Kind + ":" + fmt.Sprint(len(base.Out))})
	if name == "class-casefold" || name == "json-decode-assoc" {
		w.Emit(rec{Kind: "sample", Sample: map[string]any{"program": name, "source": p.Src, "baseline": base, "range_sites_hit": len(sites), "runs": n}})
	}
}

// ---- (ii) insertion order ----------------------------------------------------------------

var keyPool = []string{"b", "a", "10", "2", "x y", "B"}

func insertionScript(keys []string) string {
	var sb strings.Builder
	sb.WriteString("$a = []; $o = new stdClass();\n")
	for i, k := range keys {
		fmt.Fprintf(&sb, "$k = %q; $a[$k] = %d; $o->$k = %d;\n", k, i, i)
	}
	sb.WriteString(`foreach ($a as $k => $v) { echo $k, "\x1f"; } echo "\n";` + "\n")
	sb.WriteString(`foreach ($o as $k => $v) { echo $k, "\x1f"; } echo "\n";` + "\n")
	sb.WriteString(`echo json_encode(array_keys($a)), "\n", json_encode($a), "\n", json_encode($o), "\n";` + "\n")
	return sb.String()
}

func jsonKeyOrder(s string) ([]string, bool) {
	dec := json.NewDecoder(strings.NewReader(s))
	tok, err := dec.Token()
	if err != nil {
		return nil, false
	}
	var keys []string
	switch tok {
	case json.Delim('{'):
		for dec.More() {
			k, err := dec.Token()
			if err != nil {
				return nil, false
			}
			keys = append(keys, fmt.Sprint(k))
			var v any
			if dec.Decode(&v) != nil {
				return nil, false
			}
		}
	case json.Delim('['):
		for dec.More() {
			var v any
			if dec.Decode(&v) != nil {
				return nil, false
			}
			keys = append(keys, fmt.Sprint(v))
		}
	default:
		return nil, false
	}
	return keys, true
}

func insertionWorker(w *pool.W, arg json.RawMessage) {
	var first int
	json.Unmarshal(arg, &first)
	var n int64
	var rec_ func(cur []int)
	failed := map[string]bool{}
	rec_ = func(cur []int) {
		if len(cur) >= 1 {
			keys := make([]string, len(cur))
			for i, c := range cur {
				keys[i] = keyPool[c]
			}
			if w.Item(fmt.Sprint("ins:", keys)) {
				n++
				core.SetExecutionDeadline(0) // see evalScriptDir
				o := observe(insertionScript(keys))
				lines := strings.Split(o.Out, "\n")
				want := strings.Join(keys, ",")
				fail := func(obs, got string) {
					k := "insertion-order:" + obs
					if !failed[k] {
						failed[k] = true
						w.Emit(rec{Kind: "fail", Key: k, Clause: "insertion-order", Size: len(keys), Case: map[string]any{"keys": keys, "script": insertionScript(keys)}, Detail: fmt.Sprintf("inserted %v; %s enumerates %s; run: %s", keys, obs, got, o)})
					}
				}
				if o.Kind != "ok" || len(lines) < 5 {
					fail("script-error", o.String())
				} else {
					split := func(l string) string { return strings.Join(strings.Split(strings.TrimSuffix(l, "\x1f"), "\x1f"), ",") }
					if g := split(lines[0]); g != want {
						fail("array:foreach", g)
					}
					if g := split(lines[1]); g != want {
						fail("object:foreach", g)
					}
					for i, obs := range []string{"array:array_keys", "array:json_encode", "object:json_encode"} {
						ks, ok := jsonKeyOrder(lines[2+i])
						if !ok {
							// a list-shaped array encodes as a JSON list: no keys to compare
							continue
						}
						if obs == "array:json_encode" && strings.HasPrefix(lines[2+i], "[") {
							continue
						}
						if g := strings.Join(ks, ","); g != want {
							fail(obs, g)
						}
					}
				}
			}
		}
		if len(cur) == 4 {
			return
		}
		for k := range keyPool {
			used := false
			for _, c := range cur {
				if c == k {
					used = true
				}
			}
			if used || (len(cur) == 0 && k != first) {
				continue
			}
			rec_(append(cur, k))
		}
	}
	rec_(nil)
	w.Emit(rec{Kind: "count", N: n})
}

// ---- (iii) cross-VM residue ---------------------------------------------------------------

const marker = "@@C20@@"

// Package-level caches that are pure functions of compile-time constants (filled lazily, never
// invalidated): reading a fuller cache cannot change behaviour, so they are not residue carriers.
var idempotentCaches = map[string]bool{
	"tree": true, // token/token.go: token-definition trie per token type
}

type execSpec struct {
	Progs []string       `json:"progs"` // run in this order, each on a fresh VM; the last one is observed
	Sel   map[string]int `json:"sel,omitempty"`
	Trace bool           `json:"trace,omitempty"`
	// CLI selects the CLI route (cliroute.go): the programs are the files <Dir>/<name>.zy
	CLI bool   `json:"cli,omitempty"`
	Dir string `json:"dir,omitempty"`
}

type execResult struct {
	Obs obsv `json:"obs"`
	// Infeasible: an earlier program of the spec ended through os.Exit (exit(), the time limit). In reality the process is gone at that point, so "the next
	// program in the same process" does not exist; the harness only got here because it turns
	// os.Exit into a panic.
	Infeasible bool              `json:"infeasible,omitempty"`
	Carriers   []string          `json:"carriers,omitempty"`
	Shapes     map[string]string `json:"shapes,omitempty"` // expr -> shape of the value when the last program first read it
}

// shape renders a value coarsely (two levels): enough to tell "nil vs set", lengths and scalars
// apart between two processes without following arbitrary object graphs.
func shape(v reflect.Value, depth int) string {
	if !v.IsValid() {
		return "invalid"
	}
	switch v.Kind() {
	case reflect.Bool, reflect.Int, reflect.Int8, reflect.Int16, reflect.Int32, reflect.Int64, reflect.Uint, reflect.Uint8, reflect.Uint16, reflect.Uint32, reflect.Uint64, reflect.Float32, reflect.Float64:
		return fmt.Sprint(v)
	case reflect.String:
		s := v.String()
		if len(s) > 40 {
			s = s[:40]
		}
		return fmt.Sprintf("%q", s)
	case reflect.Map, reflect.Slice:
		if v.IsNil() {
			return v.Kind().String() + ":nil"
		}
		return fmt.Sprintf("%s:%d", v.Kind(), v.Len())
	case reflect.Func, reflect.Chan, reflect.UnsafePointer:
		if v.IsNil() {
			return "nil"
		}
		return fmt.Sprintf("%s@%x", v.Kind(), v.Pointer())
	case reflect.Ptr, reflect.Interface:
		if v.IsNil() {
			return "nil"
		}
		if depth <= 0 {
			return "set"
		}
		return "&" + shape(v.Elem(), depth-1)
	case reflect.Struct:
		if depth <= 0 {
			return "struct"
		}
		var fs []string
		for i := 0; i < v.NumField() && i < 12; i++ {
			fs = append(fs, shape(v.Field(i), depth-1))
		}
		return "{" + strings.Join(fs, " ") + "}"
	case reflect.Array:
		return fmt.Sprintf("array:%d", v.Len())
	}
	return v.Kind().String()
}

var flakyChildCrashes atomic.Int64

// selfExec runs the spec in a brand-new process. A child that dies is retried twice: only a
// crash that reproduces every time is believed (and returned as an error); a crash that does
// not reproduce is counted and reported in the evidence, never as a verdict.
func selfExec(spec execSpec) (execResult, error) {
	var r execResult
	var err error
	for attempt := 0; attempt < 3; attempt++ {
		r, err = selfExecOnce(spec)
		if err == nil {
			if attempt > 0 {
				flakyChildCrashes.Add(1)
			}
			return r, nil
		}
	}
	return r, err
}

func selfExecOnce(spec execSpec) (execResult, error) {
	exe, _ := os.Executable()
	sb, _ := json.Marshal(spec)
	cmd := exec.Command(exe, "--exec", string(sb))
	cmd.Env = append(os.Environ(), "VERIF_WORKER=")
	var out, errb bytes.Buffer
	cmd.Stdout = &out
	cmd.Stderr = &errb
	err := cmd.Run()
	var r execResult
	if err != nil {
		es := errb.String()
		if len(es) > 1500 {
			es = es[:1500]
		}
		err = fmt.Errorf("%v: %s", err, es)
	}
	for _, l := range strings.Split(out.String(), "\n") {
		if strings.HasPrefix(l, marker) {
			if e := json.Unmarshal([]byte(l[len(marker):]), &r); e != nil {
				return r, e
			}
			return r, nil
		}
	}
	if err == nil {
		err = fmt.Errorf("no result line in child output")
	}
	return r, err
}

// execMain is the child side of selfExec.
func execMain(arg string) {
	var spec execSpec
	if err := json.Unmarshal([]byte(arg), &spec); err != nil {
		fmt.Println("bad spec", err)
		os.Exit(3)
	}
	written := map[any]string{}
	firstInB := map[any]int{}
	shapes := map[string]string{}
	carriers := map[string]bool{}
	last := len(spec.Progs) - 1
	phase := 0
	if spec.Trace {
		// package-level variables keep their address for the life of the process, so "A wrote
		// the location B later touched" is decided by address identity
		vshim.OnPoint = func(kind int, addr any, site string) {
			parts := strings.SplitN(site, "|", 3)
			if len(parts) < 3 || (kind != vshim.KRead && kind != vshim.KWrite) {
				return
			}
			if phase < last {
				if kind == vshim.KWrite {
					written[addr] = parts[1]
				}
				return
			}
			// a location B overwrites before reading cannot carry anything from A into B
			if _, seen := firstInB[addr]; !seen {
				firstInB[addr] = kind
			}
			if kind == vshim.KRead {
				// value at the program's first read of the location (after its own
				// initialisation, if it initialises it)
				if _, dup := shapes[parts[1]]; !dup {
					func() {
						defer func() { recover() }()
						shapes[parts[1]] = shape(reflect.ValueOf(addr), 3)
					}()
				}
			}
			if name, ok := written[addr]; ok && firstInB[addr] == vshim.KRead {
				carriers[name] = true
			}
		}
	}
	var ob obsv
	infeasible := false
	for i, name := range spec.Progs {
		phase = i
		// map iteration order is always pinned (ascending unless the spec deviates), so that the
		// only thing that can differ between two child processes is what the spec varies
		sel := map[string]int{}
		if i == last && spec.Sel != nil {
			sel = spec.Sel
		}
		if spec.CLI {
			ob = runLikeCLI(spec.Dir, name, sel)
		} else {
			ob = runWithOrder(findProg(name).Src, sel, nil)
		}
		if i < last && ob.Kind == "exit" {
			infeasible = true
		}
	}
	vshim.OnPoint = nil
	r := execResult{Obs: ob, Shapes: shapes, Infeasible: infeasible}
	for cname := range carriers {
		r.Carriers = append(r.Carriers, cname)
	}
	sort.Strings(r.Carriers)
	b, _ := json.Marshal(r)
	fmt.Println()
	fmt.Println(marker + string(b))
}

func pairWorker(w *pool.W, arg json.RawMessage) { pairWork(w, arg, false) }

func pairCLIWorker(w *pool.W, arg json.RawMessage) { pairWork(w, arg, true) }

func pairWork(w *pool.W, arg json.RawMessage, cli bool) {
	var bname string
	json.Unmarshal(arg, &bname)
	b := findProg(bname)
	dir, tag, route := "", "pair:", ""
	if cli {
		dir, tag, route = os.Getenv("C20_PROGDIR"), "pairc:", " (CLI route: file + LoadAndRun + ShowControl + shutdown callbacks, stdout/stderr/exit status compared byte for byte)"
	}
	sr, err := selfExec(execSpec{Progs: []string{bname}, Trace: true, CLI: cli, Dir: dir})
	if err != nil {
		w.Emit(rec{Kind: "fail", Key: "harness:solo-exec", Clause: "harness", Detail: fmt.Sprint(err)})
		return
	}
	solo := sr.Obs
	var n, infeasible, unconfirmed int64
	for _, a := range pool_() {
		if (cliOnly[a.Name] || cliOnly[bname]) && !cli {
			continue
		}
		if !w.Item(tag + a.Name + ";" + bname) {
			continue
		}
		n++
		// every pair runs in a brand-new process (A then B, nothing else), so the verdict does not
		// depend on what this worker happened to run before
		pr, err := selfExec(execSpec{Progs: []string{a.Name, bname}, Trace: true, CLI: cli, Dir: dir})
		if err != nil {
			w.Emit(rec{Kind: "fail", Key: "harness:pair-exec", Clause: "harness", Detail: fmt.Sprint(a.Name, ";", bname, ": ", err)})
			continue
		}
		if pr.Infeasible {
			infeasible++
			continue
		}
		if pr.Obs == solo {
			continue
		}
		// a residue is deterministic: the difference has to show again in a second brand-new process
		// (this keeps a process that was starved for seconds on a loaded machine - e.g. across a
		// set_time_limit deadline - from being reported)
		if pr2, err := selfExec(execSpec{Progs: []string{a.Name, bname}, Trace: true, CLI: cli, Dir: dir}); err != nil || pr2.Obs != pr.Obs {
			unconfirmed++
			continue
		}
		// carriers: package-level locations A wrote, B read before overwriting, and whose value at
		// that read differs (coarsely) from what B alone sees there
		var car []string
		for _, cn := range pr.Carriers {
			if idempotentCaches[cn] {
				continue
			}
			if ss, ok := sr.Shapes[cn]; !ok || ss != pr.Shapes[cn] {
				car = append(car, cn)
			}
		}
		key := "residue:via=" + strings.Join(car, ",")
		if len(car) == 0 {
			key = "residue:unattributed:after=" + a.Name
		} else if len(car) > 3 {
			key = "residue:via=" + strings.Join(car[:3], ",") + ",+" + fmt.Sprint(len(car)-3)
		}
		w.Emit(rec{Kind: "fail", Key: key, Clause: "fresh-vm-independence", Size: len(a.Src) + len(b.Src), Case: map[string]any{"a": a.Name, "b": bname, "cli": cli},
			Detail: fmt.Sprintf("B=%q alone in a new process"+route+": %s\nB on a fresh VM after A=%q: %s\npackage-level variables written by A and read by B with a different value than B alone sees: %v (all candidates: %v)", bname, solo, a.Name, pr.Obs, car, pr.Carriers)})
	}
	w.Emit(rec{Kind: "count", N: n, Stats: map[string]int{"pairs-skipped:A-ended-through-os.Exit": int(infeasible), "pair-differences-not-reproduced-in-a-second-process": int(unconfirmed)}})
	if f := flakyChildCrashes.Swap(0); f > 0 {
		w.Emit(rec{Kind: "flaky", N: f})
	}
}

// ---- (iv) CLI repetition -------------------------------------------------------------------

func cliRun(bin, file string) string {
	cmd := exec.Command(bin, file)
	var so, se bytes.Buffer
	cmd.Stdout, cmd.Stderr = &so, &se
	err := cmd.Run()
	code := 0
	if ee, ok := err.(*exec.ExitError); ok {
		code = ee.ExitCode()
	} else if err != nil {
		code = -1
	}
	return fmt.Sprintf("exit=%d\nstdout=%s\nstderr=%s", code, reAddr.ReplaceAllString(so.String(), "0xADDR"), reAddr.ReplaceAllString(se.String(), "0xADDR"))
}

func main() {
	if len(os.Args) > 2 && os.Args[1] == "--exec" {
		execMain(os.Args[2])
		runner.Cleanup()
		return
	}
	if pool.IsWorker() {
		pool.Serve(map[string]pool.Handler{"order": orderWorker, "insertion": insertionWorker, "pair": pairWorker, "pairc": pairCLIWorker, "hist": histWorker, "bulk": bulkWorker})
	}
	c := ev.New("C20")
	defer runner.Cleanup()
	if c.Replay != "" {
		replay(c)
		return
	}
	_ = flag.Args
	var shards []pool.Shard
	for _, p := range programs {
		shards = append(shards, pool.Shard{Kind: "order", Arg: p.Name})
	}
	for k := range keyPool {
		shards = append(shards, pool.Shard{Kind: "insertion", Arg: k})
	}
	for _, p := range programs {
		shards = append(shards, pool.Shard{Kind: "pair", Arg: p.Name})
	}
	for _, p := range programs {
		shards = append(shards, pool.Shard{Kind: "pairc", Arg: p.Name})
	}
	// histories: quick = every history of <= 5 ops over <= 4 keys; thorough adds 6 ops over <= 4 keys
	// and 7 ops over <= 3 keys
	maxLen := 5
	if !c.Quick() {
		maxLen = 7
	}
	for n := 1; n <= maxLen; n++ {
		of := 1
		for i := 3; i < n; i++ {
			of *= 4
		}
		keys := 4
		if n >= 7 {
			keys = 3
		}
		for s := 0; s < of; s++ {
			shards = append(shards, pool.Shard{Kind: "hist", Arg: map[string]int{"Len": n, "Keys": keys, "Shard": s, "Of": of}})
		}
	}
	for s := 0; s < 8; s++ {
		shards = append(shards, pool.Shard{Kind: "bulk", Arg: map[string]any{"Quick": c.Quick(), "Shard": s, "Of": 8}})
	}
	if only := os.Getenv("C20_ONLY"); only != "" {
		// development aid: run one family only (never used by vcheck's normal invocation)
		var keep []pool.Shard
		for _, s := range shards {
			if strings.Contains(only, s.Kind) {
				keep = append(keep, s)
			}
		}
		shards = keep
	}
	var total int64
	allSites := map[string]bool{}
	routeStats := map[string]int64{}
	rawFails := map[string]*rawFail{}
	rawCount := map[string]int{}
	progDir, _ := os.MkdirTemp("/dev/shm", "c20-progs-")
	defer os.RemoveAll(progDir)
	if err := writePrograms(progDir); err != nil {
		c.HarnessError("writing the pool programs failed: %v", err)
	}
	pool.Run(shards, pool.Options{HangTimeout: 5 * time.Minute, Env: []string{"C20_PROGDIR=" + progDir}}, func(si int, rb json.RawMessage) {
		var r rec
		json.Unmarshal(rb, &r)
		switch r.Kind {
		case "count":
			total += r.N
			for _, s := range r.Sites {
				allSites[s] = true
			}
			if r.Outcome != "" {
				c.Outcome(r.Outcome)
			}
			for k, v := range r.Stats {
				routeStats[k] += int64(v)
			}
		case "fail":
			c.Fail(r.Key, r.Clause, r.Size, r.Case, r.Detail)
		case "histfail":
			ck := r.Raw.HKind + ":" + r.Raw.Class
			if old, ok := rawFails[ck]; !ok || r.Raw.less(old) {
				rawFails[ck] = r.Raw
			}
			rawCount[ck]++
		case "flaky":
			c.Add("child_process_crashes_not_reproduced_on_retry", r.N)
		case "sample":
			c.Sample(r.Sample)
		}
	}, func(d pool.Death) {
		c.Fail("worker-death:"+runner.FatalFrame(d.Stderr), "no-crash", 0, map[string]any{"item": d.Item, "reason": d.Reason}, d.Stderr)
	})
	// every class of history failure is named after the first history of the canonical enumeration that shows it
	for ck, r := range rawFails {
		for i := 0; i < rawCount[ck]; i++ {
			c.Fail(r.key(), "insertion-order", r.Size, r.Case, r.detail())
		}
	}
	// (iv) the real CLI, twice per program
	repo := os.Getenv("VERIF_REPO")
	if repo == "" {
		repo = "/repo"
	}
	bin := ev.Root + "/.bin/origami-cli-c20"
	build := exec.Command("go", "build", "-o", bin, ".")
	build.Dir = repo
	build.Env = append(os.Environ(), "GOFLAGS=-mod=mod", "GOPROXY=off")
	if os.Getenv("C20_ONLY") != "" {
		// development aid: the CLI repetitions are skipped
	} else if out, err := build.CombinedOutput(); err != nil {
		c.HarnessError("building the CLI failed: %v %s", err, out)
	} else {
		dir := progDir
		reps := 5
		if !c.Quick() {
			reps = 20
		}
		// each program's repetitions are sequential; different programs run side by side
		var wg sync.WaitGroup
		var mu sync.Mutex
		sem := make(chan struct{}, 16)
		for _, p := range programs {
			wg.Add(1)
			sem <- struct{}{}
			go func(p prog) {
				defer func() { <-sem; wg.Done() }()
				f := progFile(dir, p.Name)
				first := cliRun(bin, f)
				runs := int64(1)
				for i := 1; i < reps; i++ {
					runs++
					if got := cliRun(bin, f); got != first {
						mu.Lock()
						c.Fail("cli-nondeterminism:"+p.Name, "process-determinism", len(p.Src), map[string]any{"prog": p.Name}, fmt.Sprintf("two runs of the CLI on the same file differ:\n%s\n---\n%s", first, got))
						mu.Unlock()
						break
					}
				}
				mu.Lock()
				total += runs
				mu.Unlock()
			}(p)
		}
		wg.Wait()
	}
	var sites []string
	for s := range allSites {
		sites = append(sites, s)
	}
	sort.Strings(sites)
	c.Set("pool_programs", len(programs))
	c.Set("range_sites_with_2plus_entries_hit", sites)
	c.Set("ordered_pairs", len(programs)*len(programs))
	c.Set("history_max_ops", maxLen)
	c.Assume("the CLI route runs a pool program the way cmd.RunScriptFile does (file, fresh parser+VM, std+php libraries, LoadAndRun, ShowControl, shutdown callbacks) but inside the harness process; the VM's uncaught handler prints through the parser's ShowControl like the default one but does not end the process (what any embedder that runs several programs has to do); a pair whose first program ends through os.Exit (exit(), the execution time limit) is not a reachable state of a real process and is skipped")
	c.Assume("for OBJECT properties the meaning of unset is left open (origami assigns null or ignores it, PHP removes the property): any one of the three readings must explain every enumeration route of the container; for arrays unset removes the entry and a later set of the key is a new insertion")
	c.Assume("nondeterminism that is not routed through a Go map range with an ordered key type (pointer-keyed maps, time, OS, addresses) is not controlled; Go pointer values printed inside diagnostics are masked")
	c.Assume("order dependences that need three or more deviating range sites at once are outside the bound")
	c.Set("enumeration_routes", routeStats)
	if len(sites) < 5 && os.Getenv("C20_ONLY") == "" {
		c.HarnessError("vacuous: only %d range-over-map sites were reached", len(sites))
	}
	os.RemoveAll(progDir)
	runner.Cleanup()
	c.Finish(int64(len(programs)*len(programs)+len(sites)), total, total, fmt.Sprintf("%d pool programs x (all-ascending baseline + every single-site deviation incl. all permutations of maps <= 4 entries + every pair of deviating sites); all insertion sequences of <= 4 distinct keys from a pool of 6 into arrays and objects; every set/unset history of <= %d ops over <= 4 keys (7 ops: <= 3 keys; up to key renaming) x 4 key assignments x every container birth x every enumeration route, each with all Go map ranges ascending and descending, plus bulk histories crossing deletion thresholds; all %d ordered pairs (A;B) vs B alone in a new process, through the in-process route and through the CLI route (stdout, stderr and exit status byte for byte); CLI repetitions", len(programs), maxLen, len(programs)*len(programs)))
}

func replay(c *ev.Check) {
	b, _ := os.ReadFile(c.Replay)
	var r struct {
		Key  string          `json:"key"`
		Case json.RawMessage `json:"case"`
	}
	json.Unmarshal(b, &r)
	switch {
	case strings.HasPrefix(r.Key, "maporder:"):
		var oc orderCase
		json.Unmarshal(r.Case, &oc)
		p := findProg(oc.Prog)
		base := runWithOrder(p.Src, map[string]int{}, nil)
		got := runWithOrder(p.Src, oc.Sel, nil)
		fmt.Printf("ascending: %s\ndeviating %v: %s\n", base, oc.Sel, got)
		if base != got {
			c.Fail(r.Key, "map-order-independence", 0, oc, "replayed")
		}
	case strings.HasPrefix(r.Key, "residue:"):
		var pc struct {
			A, B string
			CLI  bool
		}
		json.Unmarshal(r.Case, &pc)
		dir := ""
		if pc.CLI {
			dir, _ = os.MkdirTemp("/dev/shm", "c20-progs-")
			defer os.RemoveAll(dir)
			writePrograms(dir)
		}
		solo, _ := selfExec(execSpec{Progs: []string{pc.B}, CLI: pc.CLI, Dir: dir})
		pair, _ := selfExec(execSpec{Progs: []string{pc.A, pc.B}, Trace: true, CLI: pc.CLI, Dir: dir})
		os.RemoveAll(dir)
		fmt.Printf("B alone: %s\nafter A: %s carriers=%v\n", solo.Obs, pair.Obs, pair.Carriers)
		if solo.Obs != pair.Obs {
			c.Fail(r.Key, "fresh-vm-independence", 0, pc, "replayed")
		}
	case strings.HasPrefix(r.Key, "history-order:"):
		var hc histCase
		json.Unmarshal(r.Case, &hc)
		var fs []histFailure
		if hc.Bulk != "" {
			var b bulkSpec
			fmt.Sscanf(strings.NewReplacer(",", " ", "=", " ").Replace(hc.Bulk), "n %d del %s re %s ext %d", &b.N, &b.Del, &b.Re, &b.Ext)
			fs, _ = evalBulk(b, hc.Assign, map[string]int{})
			fmt.Printf("bulk history %s, %s keys\n", b, hc.Assign)
		} else {
			for _, a := range assigns {
				if a.Name == hc.Assign {
					fs, _, _ = evalHistory(hc.Hist, a, map[string]int{})
					fmt.Printf("history %s, keys %s\nscript:\n%s\n", histString(hc.Hist), a.Name, histScript(buildContainers(hc.Hist, a)))
				}
			}
		}
		for _, f := range fs {
			fmt.Printf("%s born as %q, route %s: %s\n  enumerated: %s\n  insertion order: %s\n", f.Kind, f.Birth, f.Route, f.Why, clip(f.Got, 400), clip(f.Want, 400))
			if strings.HasPrefix(r.Key, "history-order:"+f.Kind+":"+f.Class+":") {
				c.Fail(r.Key, "insertion-order", len(hc.Hist), hc, "replayed: "+f.Why)
			}
		}
	case strings.HasPrefix(r.Key, "insertion-order:"):
		var ic struct{ Keys []string }
		json.Unmarshal(r.Case, &ic)
		o := observe(insertionScript(ic.Keys))
		fmt.Printf("inserted %v\n%s\n", ic.Keys, o.Out)
		c.Fail(r.Key, "insertion-order", 0, ic, "replayed (inspect output)")
	}
	c.Finish(1, 1, 1, "replay")
}
