package main

// The program pool: small single-threaded programs chosen to (a) reach Go map iteration inside
// the interpreter and library visibly and (b) touch package-level mutable state of node, data,
// runtime, std/php/core and std/php/spl, so that order dependence and cross-VM residue have
// something to show up in. A program that ends in a script-level error is still a valid member:
// its diagnostics are part of the compared observables.

type prog struct {
	Name string
	Src  string
}

// cliOnly: the program's point is the process-level output machinery (open output buffers); the
// in-process route replaces the output writer itself, so there these programs would only report
// the harness's own doing. They take part in the CLI route (and the CLI repetitions) only.
var cliOnly = map[string]bool{"end-ob-nested-open": true, "end-ob-callback-open": true, "end-ob-open-then-uncaught": true, "end-ob-open-then-fatal": true, "end-ob-open-then-exit": true}

var programs = []prog{
	{"class-casefold", `class Foo { public $a = 1; function m() { return "m"; } }
class fOO2 { }
$o = new FOO(); echo get_class($o), "|", $o->m(), "\n";
$p = new Foo2(); echo get_class($p), "\n";
echo class_exists("foo") ? "y" : "n", class_exists("FOO2") ? "y" : "n", "\n";`},
	{"class-casefold-two", `class Abc { function who() { return "Abc"; } }
class ABc2 { function who() { return "ABc2"; } }
class aBC3 { function who() { return "aBC3"; } }
$a = new abc(); echo $a->who(), "\n";
$b = new abc2(); echo $b->who(), "\n";
$c = new ABC3(); echo $c->who(), "\n";`},
	{"object-props-order", `class P { public $z = 1; public $a = 2; public $m = 3; }
$o = new P(); $o->k = 4; $o->b = 5;
foreach ($o as $k => $v) { echo $k, "=", $v, ","; }
echo "\n", json_encode($o), "\n";
var_dump($o);
echo serialize($o), "\n";
var_export($o); echo "\n";`},
	{"assoc-array-order", `$a = ["z" => 1, "a" => 2, 10 => 3, "m" => 4, 2 => 5];
$a["k"] = 6; $a[1] = 7;
foreach ($a as $k => $v) { echo $k, "=", $v, ","; }
echo "\n", json_encode($a), "\n", json_encode(array_keys($a)), "\n";
var_export($a); echo "\n"; echo serialize($a), "\n";`},
	{"json-decode-assoc", `$d = json_decode('{"b":1,"a":2,"z":{"y":1,"x":2,"w":[3,{"q":1,"p":2}]},"c":3}', true);
echo json_encode($d), "\n";
foreach ($d as $k => $v) { echo $k, ","; }
echo "\n";
foreach ($d["z"] as $k => $v) { echo $k, ","; }
echo "\n", json_encode(array_keys($d)), "\n";`},
	{"json-decode-object", `$d = json_decode('{"b":1,"a":2,"z":{"y":1,"x":2},"c":3}');
echo json_encode($d), "\n";
foreach ($d as $k => $v) { echo $k, ","; }
echo "\n"; var_dump($d);`},
	{"unserialize-order", `$s = serialize(["q" => 1, "b" => [3, 2, 1], "a" => ["y" => 1, "x" => 2]]);
echo $s, "\n"; $u = unserialize($s); echo json_encode($u), "\n";
foreach ($u as $k => $v) { echo $k, ","; }
echo "\n";`},
	{"array-functions", `$a = ["c" => 3, "a" => 1, "b" => 2];
echo json_encode(array_flip($a)), json_encode(array_merge($a, ["z" => 0, "a" => 9])), "\n";
echo json_encode(array_combine(["x", "y", "z"], [1, 2, 3])), json_encode(array_fill_keys(["k", "j", "i"], 0)), "\n";
echo json_encode(array_unique([3, 1, 3, 2, 1])), json_encode(array_diff(["a" => 1, "b" => 2, "c" => 3], [2])), "\n";
echo json_encode(array_intersect_key(["a" => 1, "b" => 2, "c" => 3], ["c" => 0, "a" => 0])), "\n";
echo json_encode(array_replace($a, ["b" => 7, "d" => 8])), json_encode(array_merge_recursive(["a" => [1], "b" => 2], ["a" => [3], "c" => 4])), "\n";
echo json_encode(array_filter(["x" => 1, "y" => 0, "z" => 2])), json_encode(array_map(function($v) { return $v * 2; }, $a)), "\n";
ksort($a); echo json_encode($a); krsort($a); echo json_encode($a), "\n";
echo http_build_query(["b" => 1, "a" => [1, 2], "c" => "x y"]), "\n";`},
	{"extract-vars", `$r = extract(["p" => 1, "q" => 2, "o" => 3]); echo $r, ":", $p, $q, $o, "\n";`},
	{"hierarchy-lists", `interface I1 {} interface I2 extends I1 {} interface I3 {}
class A implements I2 {} class B extends A implements I3 {} class C extends B {}
echo json_encode(class_implements("C")), "\n", json_encode(class_parents("C")), "\n";
$c = new C(); echo ($c instanceof I1) ? "y" : "n", ($c instanceof I3) ? "y" : "n", "\n";`},
	{"reflection-lists", `class R { public $b = 1; protected $a = 2; private $c = 3; const K2 = 2; const K1 = 1;
 function zeta() {} function alpha() {} static function mid() {} }
$r = new ReflectionClass("R");
foreach ($r->getProperties() as $p) { echo $p->getName(), ","; }
echo "\n";
foreach ($r->getMethods() as $m) { echo $m->getName(), ","; }
echo "\n";`},
	{"constants", `define("ZK", 1); define("AK", 2); echo ZK + AK, defined("ZK") ? "y" : "n", defined("NOPE") ? "y" : "n", "\n";
class K { const B = 2; const A = 1; } echo K::A, K::B, "\n";`},
	{"static-props-and-locals", `class S { static $n = 0; static function inc() { S::$n = S::$n + 1; return S::$n; } }
function counter() { static $c = 0; $c = $c + 1; return $c; }
echo S::inc(), S::inc(), counter(), counter(), counter(), "\n";`},
	{"output-buffering", `echo "a"; ob_start(); echo "hidden"; $x = ob_get_clean(); echo "[", $x, "]"; ob_start(); echo "kept"; echo ob_get_level(), "\n";`},
	{"output-buffer-left-open", `ob_start(); echo "left-open";`},
	{"headers", `header("X-A: 1"); echo headers_sent() ? "sent" : "not", "\n"; echo http_response_code(), "\n";
header_register_callback(function() { echo "cb"; }); echo "body\n";`},
	{"ini-and-env", `echo ini_get("memory_limit"), "|"; ini_set("memory_limit", "77M"); echo ini_get("memory_limit"), "|";
ini_set("display_errors", "0"); echo ini_get("display_errors"), "|"; echo error_reporting(), "|"; error_reporting(0); echo error_reporting(), "\n";
putenv("C20_PROBE=1"); echo getenv("C20_PROBE"), "\n";`},
	{"timezone-locale", `echo date_default_timezone_get(), "|"; date_default_timezone_set("Asia/Tokyo"); echo date_default_timezone_get(), "|"; echo setlocale(0, "C") === false ? "f" : "ok", "\n";`},
	{"exception-handler", `set_exception_handler(function($e) { echo "handled:", $e->getMessage(), "\n"; }); echo "before\n"; throw new Exception("boom");`},
	{"uncaught", `echo "before\n"; throw new RuntimeException("unhandled");`},
	{"error-handler", `set_error_handler(function($no, $str) { echo "err:", $str, "\n"; return true; }); trigger_error("custom", 1024); echo "after\n";`},
	{"shutdown", `register_shutdown_function(function() { echo "shutdown\n"; }); echo "main\n";`},
	{"autoload", `spl_autoload_register(function($c) { echo "autoload:", $c, "\n"; }); echo count(spl_autoload_functions()), "\n"; echo class_exists("NoSuchClassXyz") ? "y" : "n", "\n";`},
	{"time-limit", `set_time_limit(5); echo "ok\n";`},
	{"superglobals", `echo json_encode($_GET), "|", isset($_SERVER["argv"]) ? "argv" : "noargv", "|", json_encode($_POST), "|", json_encode($_COOKIE), "\n"; $_SERVER = new stdClass(); echo "set\n";`},
	{"globals-keyword", `$g1 = 5; function rg() { global $g1; $g1 = $g1 + 1; return $g1; } echo rg(), rg(), $g1, "\n";`},
	{"include-once-cache", `echo function_exists("never_defined_fn") ? "y" : "n", "\n"; echo json_encode(spl_classes() === spl_classes()), "\n";`},
	{"spl-structures", `$s = new SplObjectStorage(); $a = new stdClass(); $b = new stdClass(); $s->attach($b); $s->attach($a); echo count($s), "\n";
$h = new SplMinHeap(); $h->insert(3); $h->insert(1); $h->insert(2); echo $h->extract(), $h->extract(), "\n";
$q = new SplQueue(); $q->enqueue("x"); $q->enqueue("y"); echo $q->dequeue(), "\n";
$f = new SplFixedArray(3); $f[0] = 1; echo $f->getSize(), "\n";
$o = new ArrayObject(["b" => 1, "a" => 2]); foreach ($o as $k => $v) { echo $k, ","; } echo "\n";`},
	{"hashmap-list", `$m = new HashMap(); $m->put("b", 1); $m->put("a", 2); $m->put("c", 3); echo json_encode($m->keys()), "\n";`},
	{"object-ids", `$a = new stdClass(); $b = new stdClass(); echo spl_object_id($a) === spl_object_id($a) ? "same" : "diff", spl_object_id($a) === spl_object_id($b) ? "same" : "diff", "\n";`},
	{"closures-use", `$x = 1; $f = function($y) use ($x) { return $x + $y; }; $g = fn($z) => $z * 2; echo $f(2), $g(4), "\n"; echo json_encode(array_map($g, [1, 2, 3])), "\n";`},
	{"string-funcs", `echo sprintf("%05d|%s|%.2f", 42, "x", 1.5), "|", number_format(1234567.891, 2), "|", str_pad("a", 3, "-"), "|", ucwords("ab cd"), "|", md5("a"), "\n";
echo json_encode(explode(",", "a,b,,c")), implode("-", [1, 2, 3]), json_encode(str_split("abcdef", 4)), "\n"; echo json_encode(preg_split("/[,;]/", "a,b;c")), preg_replace("/b+/", "X", "abbbc"), "\n";`},
	{"match-switch", `function f($v) { switch ($v) { case 1: return "one"; case 2: return "two"; default: return "many"; } }
echo f(1), f(2), f(3), "|", match(2) { 1 => "a", 2 => "b", default => "c" }, "\n";`},
	{"try-finally", `function t() { try { throw new InvalidArgumentException("x"); } catch (LogicException $e) { echo "L:", get_class($e); return 1; } finally { echo "|F"; } }
echo t(), "\n";`},
	{"generics", `class Box<T> { public T $v; function set(T $x) { $this->v = $x; return $this; } }
$a = new Box<int>(); $a->set(1); $b = new Box<string>(); $b->set("s"); echo $a->v, $b->v, "\n";`},
	{"class-alias-dyn", `class Orig { function n() { return "orig"; } } class_alias("Orig", "Ali"); $x = new Ali(); echo $x->n(), get_class($x), "\n"; $n = "Orig"; $y = new $n(); echo $y->n(), "\n";`},
	{"datetime", `$d = new DateTime("2020-01-02 03:04:05"); echo $d->format("Y-m-d H:i:s"), "\n"; echo gmdate("Y-m-d", 86400), "\n";`},
	{"runtime-error-diagnostic", `function deep($n) { if ($n == 0) { return undefined_fn_c20(); } return deep($n - 1); } echo "start\n"; deep(3);`},
	{"type-error-diagnostic", `function typed(int $x) { return $x; } echo typed(1), "\n"; echo typed("abc"), "\n";`},
	{"parse-error-diagnostic", `echo "a"; if ($x > ) { echo 1; `},
	{"exit-code", `echo "bye\n"; exit(3);`},
	// the same class / function / constant names defined differently by different programs: any
	// process-level cache keyed by name shows up as a difference between "B alone" and "B after A"
	{"samename-hier-1", `interface Shape {} class Base {} class Item extends Base implements Shape { public $p = 1; const K = "k1"; static $s = 10; function who() { return "item1"; } }
$i = new Item(); echo ($i instanceof Shape) ? "shape" : "no-shape", "|", ($i instanceof Base) ? "base" : "no-base", "|", $i->who(), "|", $i->p, "|", Item::K, "|", Item::$s, "\n";
foreach ($i as $k => $v) { echo $k, "=", $v, ","; } echo "\n"; echo json_encode(class_implements("Item")), json_encode(class_parents("Item")), "\n";`},
	{"samename-hier-2", `interface Shape {} class Base {} class Item { public $q = 2; public $p = 5; const K = "k2"; static $s = 20; function who() { return "item2"; } }
$i = new Item(); echo ($i instanceof Shape) ? "shape" : "no-shape", "|", ($i instanceof Base) ? "base" : "no-base", "|", $i->who(), "|", $i->p, "|", Item::K, "|", Item::$s, "\n";
foreach ($i as $k => $v) { echo $k, "=", $v, ","; } echo "\n"; echo json_encode(class_implements("Item")), json_encode(class_parents("Item")), "\n";`},
	{"samename-func-1", `function helper($x = 1) { static $calls = 0; $calls = $calls + 1; return "h1:" . $x . ":" . $calls; } define("SHARED", "one"); echo helper(), helper(5), SHARED, "\n";`},
	{"samename-func-2", `function helper($x = 2, $y = "z") { static $calls = 100; $calls = $calls + 1; return "h2:" . $x . $y . ":" . $calls; } define("SHARED", "two"); echo helper(), helper(7), SHARED, "\n";`},
	{"samename-abstract-1", `abstract class Model { abstract function table(); function describe() { return "T:" . $this->table(); } } class User extends Model { function table() { return "users"; } } $u = new User(); echo $u->describe(), "\n";`},
	{"samename-abstract-2", `class Model { function describe() { return "plain"; } } class User extends Model { } $u = new User(); echo $u->describe(), (method_exists($u, "table")) ? "has" : "hasnot", "\n";`},
	{"samename-generic-1", `class Box<T> { public T $v; } $b = new Box<int>(); $b->v = 1; echo $b->v; try { $b->v = "s"; echo "accepted"; } catch (Throwable $e) { echo "rejected"; } echo "\n";`},
	{"samename-generic-2", `class Box<T> { public T $v; } $b = new Box<string>(); $b->v = "s"; echo $b->v; try { $b->v = 1; echo "accepted"; } catch (Throwable $e) { echo "rejected"; } echo "\n";`},
	{"vardump-dynamic", `$o = new stdClass(); $o->zeta = 1; $o->alpha = 2; $o->mid = [1, 2]; var_dump($o); $a = ["y" => 1, "x" => [true, null]]; var_dump($a); var_export($o); echo "\n";`},
	// every sort function x every flag on inputs with ties (keys / values that compare equal under
	// the flag), and every builtin taking a callback by NAME (string) on user functions that other
	// pool programs define differently
	{"sort-flags-ties", `$y = ["b" => 1, "a" => 4, "c" => 0, "10" => 7, "9" => 8, "01" => 2, "1" => 3];
foreach ([0, SORT_NUMERIC, SORT_STRING] as $f) { $k = $y; ksort($k, $f); echo json_encode($k), "|"; $k = $y; krsort($k, $f); echo json_encode($k), "\n"; }
$v = ["10", "9", "1e1", "a", "A", "b", 10, 9.0, "09"];
foreach ([0, SORT_NUMERIC, SORT_STRING] as $f) { $k = $v; sort($k, $f); echo json_encode($k), "|"; $k = $v; rsort($k, $f); echo json_encode($k), "\n"; }
$u = [["k" => 1, "n" => "x"], ["k" => 1, "n" => "y"], ["k" => 0, "n" => "z"], ["k" => 1, "n" => "w"]];
usort($u, function($p, $q) { return $p["k"] <=> $q["k"]; }); echo json_encode($u), "\n";
echo json_encode(array_unique(["a", "A", "1", 1, "01", 1.0, "a"])), json_encode(array_search("1", ["x" => "01", "y" => 1, "z" => "1"])), "\n";
echo json_encode(array_keys(["b" => 1, "a" => 1, "c" => 2], 1)), json_encode(array_flip(["x" => 1, "y" => 1, "z" => 2])), "\n";`},
	{"named-callbacks-1", `function helper($x) { static $n = 0; $n = $n + 1; return "A#" . $n . ":" . ($x * 100); }
function pred($x) { return $x > 1; } function cmp($p, $q) { return $p <=> $q; } function acc($c, $x) { return $c + $x; }
echo implode(",", array_map("helper", [7, 8])), "|", call_user_func("helper", 9), "|", json_encode(array_filter([1, 2, 3], "pred")), "|";
$a = [3, 1, 2]; usort($a, "cmp"); echo json_encode($a), "|", array_reduce([1, 2, 3], "acc", 0), "|", is_callable("helper") ? "c" : "n", function_exists("pred") ? "f" : "n", "\n";`},
	{"named-callbacks-2", `function helper($x) { static $n = 3; $n = $n + 1; return "B#" . $n . ":" . ($x + 1); }
function pred($x) { return $x < 3; } function cmp($p, $q) { return $q <=> $p; } function acc($c, $x) { return $c * $x; }
echo implode(",", array_map("helper", [7, 8])), "|", call_user_func("helper", 9), "|", json_encode(array_filter([1, 2, 3], "pred")), "|";
$a = [3, 1, 2]; usort($a, "cmp"); echo json_encode($a), "|", array_reduce([1, 2, 3], "acc", 1), "|", is_callable("helper") ? "c" : "n", function_exists("pred") ? "f" : "n", "\n";`},
	// ---- end states x diagnostics (clause iii through the CLI route) ------------------------------
	// Programs that END IN A DIAGNOSTIC before printing anything themselves (what the diagnostics
	// printer adds - blank line, prefix, trace - depends on process-level state such as "user output
	// already emitted"), one per diagnostic kind the runtime has, and the same after own output:
	{"diag-abstract-new", `abstract class Shape { abstract function area(); } $s = new Shape();`},
	{"diag-abstract-new-after-output", `echo "before\n"; abstract class Shape { abstract function area(); } $s = new Shape();`},
	{"diag-abstract-new-in-function", `abstract class Shape {} function mk() { return new Shape(); } function outer() { return mk(); } outer();`},
	{"diag-parent-abstract-call", `abstract class Pa { abstract function run(); } class Ch extends Pa { function run() { return parent::run(); } } $c = new Ch(); $c->run();`},
	{"diag-missing-abstract", `abstract class Model { abstract function table(); } class User extends Model { } $u = new User(); echo "unreached\n";`},
	{"diag-final-abstract", `abstract class F { final abstract function x(); }`},
	{"diag-parse-error", `class { }`},
	{"diag-parse-error-after-code", `echo "never-printed\n"; foreach ($a as ) { }`},
	{"diag-uncaught-silent", `throw new RuntimeException("unhandled-silent");`},
	{"diag-uncaught-custom-in-function", `class MyEx extends Exception {} function thrower() { throw new MyEx("custom", 7); } thrower();`},
	{"diag-undefined-function-silent", `undefined_fn_c20_silent(1);`},
	{"diag-type-error-silent", `function typed(int $x) { return $x; } typed("abc");`},
	{"diag-trigger-error-unhandled", `trigger_error("warn-c20", E_USER_WARNING); echo "unreached\n";`},
	{"diag-deprecated-callable", `class Dep { static function sm() { return "sm"; } } $o = new Dep(); $r = call_user_func([$o, "Dep::sm"]); echo $r, "\n";`},
	{"diag-deprecated-callable-after-output", `class Dep { static function sm() { return "sm"; } } $o = new Dep(); echo "first\n"; $r = call_user_func([$o, "Dep::sm"]); echo $r, "\n";`},
	{"diag-magic-visibility-warning", `class Mg { private function __get($n) { return 1; } } echo "after-warning\n";`},
	{"diag-null-offset-deprecated", `$a = ["" => 1]; $k = null; echo $a[$k], "\n";`},
	{"diag-null-key-exists-deprecated", `$a = ["" => 1]; echo array_key_exists(null, $a) ? "y" : "n", "\n";`},
	{"diag-raw-post-warning", `$r = $HTTP_RAW_POST_DATA; echo "done\n";`},
	{"diag-overloaded-notice", `class Ov implements ArrayAccess { function offsetGet($o) { return [1]; } function offsetSet($o, $v) {} function offsetExists($o) { return true; } function offsetUnset($o) {} } $o = new Ov(); $o["a"][] = 2; echo "done\n";`},
	{"diag-exit-code-silent", `exit(4);`},
	{"diag-exit-message", `exit("bye-msg");`},
	{"diag-handler-silent", `set_exception_handler(function($e) { echo "handled:", get_class($e), ":", $e->getMessage(), "\n"; }); throw new LogicException("to-handler");`},
	{"diag-handler-rethrows", `set_exception_handler(function($e) { throw new RuntimeException("from-handler"); }); throw new LogicException("first");`},
	{"diag-shutdown-throws", `register_shutdown_function(function() { throw new RuntimeException("in-shutdown"); });`},
	{"diag-shutdown-after-fatal", `register_shutdown_function(function() { echo "shutdown-ran\n"; }); abstract class Sh {} new Sh();`},
	// End states of an earlier program that the pool did not have yet: no output at all, output only
	// through var_dump (which writes to stdout directly), buffers left open in every shape, and
	// buffers left open by a program that then dies.
	{"end-silent", `$x = 1 + 1; $y = [$x];`},
	{"end-vardump-only", `var_dump(42);`},
	{"end-ob-nested-open", `ob_start(); echo "one"; ob_start(); echo "two";`},
	{"end-ob-callback-open", `ob_start(function($b) { return strtoupper($b); }); echo "shout";`},
	{"end-ob-open-then-uncaught", `ob_start(); echo "buffered"; throw new RuntimeException("with-open-buffer");`},
	{"end-ob-open-then-fatal", `ob_start(); echo "buffered"; abstract class Ob {} new Ob();`},
	{"end-ob-open-then-exit", `ob_start(); echo "buffered-exit"; exit(5);`},
	{"end-error-handler-left", `set_error_handler(function($no, $str) { echo "EH:", $str, "\n"; return true; }); echo "installed\n";`},
}
