package main

// The program pool: small single-threaded programs chosen to (a) reach Go map iteration inside
// the interpreter and library visibly and (b) touch package-level mutable state of node, data,
// runtime, std/php/core and std/php/spl, so that order dependence and cross-VM residue have
// something to show up in. A program that ends in a script-level error is still a valid member:
// its diagnostics are part of the compared observables.

type prog struct {
	Name string
	Src  string
}

// cliOnly: the program's point is the process-level output machinery (open output buffers); the
// in-process route replaces the output writer itself, so there these programs would only report
// the harness's own doing. They take part in the CLI route (and the CLI repetitions) only.
var cliOnly = map[string]bool{"end-ob-nested-open": true, "end-ob-callback-open": true, "end-ob-open-then-uncaught": true, "end-ob-open-then-fatal": true, "end-ob-open-then-exit": true}

var programs = []prog{
	{"class-casefold", `class Foo { public $a = 1; function m() { return "m"; } }
class fOO2 { }
$o = new FOO(); echo get_class($o), "|", $o->m(), "\n";
$p = new Foo2(); echo get_class($p), "\n";
echo class_exists("foo") ? "y" : "n", class_exists("FOO2") ? "y" : "n", "\n";`},
	{"class-casefold-two", `class Abc { function who() { return "Abc"; } }
class ABc2 { function who() { return "ABc2"; } }
class aBC3 { function who() { return "aBC3"; } }
$a = new abc(); echo $a->who(), "\n";
$b = new abc2(); echo $b->who(), "\n";
$c = new ABC3(); echo $c->who(), "\n";`},
	{"object-props-order", `class P { public $z = 1; public $a = 2; public $m = 3; }
$o = new P(); $o->k = 4; $o->b = 5;
foreach ($o as $k => $v) { echo $k, "=", $v, ","; }
echo "\n", json_encode($o), "\n";
var_dump($o);
echo serialize($o), "\n";
var_export($o); echo "\n";`},
	{"assoc-array-order", `$a = ["z" => 1, "a" => 2, 10 => 3, "m" => 4, 2 => 5];
$a["k"] = 6; $a[1] = 7;
foreach ($a as $k => $v) { echo $k, "=", $v, ","; }
echo "\n", json_encode($a), "\n", json_encode(array_keys($a)), "\n";
var_export($a); echo "\n"; echo serialize($a), "\n";`},
	{"json-decode-assoc", `$d = json_decode('{"b":1,"a":2,"z":{"y":1,"x":2,"w":[3,{"q":1,"p":2}]},"c":3}', true);
echo json_encode($d), "\n";
foreach ($d as $k => $v) { echo $k, ","; }
echo "\n";
foreach ($d["z"] as $k => $v) { echo $k, ","; }
echo "\n", json_encode(array_keys($d)), "\n";`},
	{"json-decode-object", `$d = json_decode('{"b":1,"a":2,"z":{"y":1,"x":2},"c":3}');
echo json_encode($d), "\n";
foreach ($d as $k => $v) { echo $k, ","; }
echo "\n"; var_dump($d);`},
	{"unserialize-order", `$s = serialize(["q" => 1, "b" => [3, 2, 1], "a" => ["y" => 1, "x" => 2]]);
echo $s, "\n"; $u = unserialize($s); echo json_encode($u), "\n";
foreach ($u as $k => $v) { echo $k, ","; }
echo "\n";`},
	{"array-functions", `$a = ["c" => 3, "a" => 1, "b" => 2];
echo json_encode(array_flip($a)), json_encode(array_merge($a, ["z" => 0, "a" => 9])), "\n";
echo json_encode(array_combine(["x", "y", "z"], [1, 2, 3])), json_encode(array_fill_keys(["k", "j", "i"], 0)), "\n";
echo json_encode(array_unique([3, 1, 3, 2, 1])), json_encode(array_diff(["a" => 1, "b" => 2, "c" => 3], [2])), "\n";
echo json_encode(array_intersect_key(["a" => 1, "b" => 2, "c" => 3], ["c" => 0, "a" => 0])), "\n";
echo json_encode(array_replace($a, ["b" => 7, "d" => 8])), json_encode(array_merge_recursive(["a" => [1], "b" => 2], ["a" => [3], "c" => 4])), "\n";
echo json_encode(array_filter(["x" => 1, "y" => 0, "z" => 2])), json_encode(array_map(function($v) { return $v * 2; }, $a)), "\n";
ksort($a); echo json_encode($a); krsort($a); echo json_encode($a), "\n";
echo http_build_query(["b" => 1, "a" => [1, 2], "c" => "x y"]), "\n";`},
	{"extract-vars", `$r = extract(["p" => 1, "q" => 2, "o" => 3]); echo $r, ":", $p, $q, $o, "\n";`},
	{"hierarchy-lists", `interface I1 {} interface I2 extends I1 {} interface I3 {}
class A implements I2 {} class B extends A implements I3 {} class C extends B {}
echo json_encode(class_implements("C")), "\n", json_encode(class_parents("C")), "\n";
$c = new C(); echo ($c instanceof I1) ? "y" : "n", ($c instanceof I3) ? "y" : "n", "\n";`},
	{"reflection-lists", `class R { public $b = 1; protected $a = 2; private $c = 3; const K2 = 2; const K1 = 1;
 function zeta() {} function alpha() {} static function mid() {} }
$r = new ReflectionClass("R");
foreach ($r->getProperties() as $p) { echo $p->getName(), ","; }
echo "\n";
foreach ($r->getMethods() as $m) { echo $m->getName(), ","; }
echo "\n";`},
	{"constants", `define("ZK", 1); define("AK", 2); echo ZK + AK, defined("ZK") ? "y" : "n", defined("NOPE") ? "y" : "n", "\n";
class K { const B = 2; const A = 1; } echo K::A, K::B, "\n";`},
	{"static-props-and-locals", `class S { static $n = 0; static function inc() { S::$n = S::$n + 1; return S::$n; } }
function counter() { static $c = 0; $c = $c + 1; return $c; }
echo S::inc(), S::inc(), counter(), counter(), counter(), "\n";`},
	{"output-buffering", `echo "a"; ob_start(); echo "hidden"; $x = ob_get_clean(); echo "[", $x, "]"; ob_start(); echo "kept"; echo ob_get_level(), "\n";`},
	{"output-buffer-left-open", `ob_start(); echo "left-open";`},
	{"headers", `header("X-A: 1"); echo headers_sent() ? "sent" : "not", "\n"; echo http_response_code(), "\n";
header_register_callback(function() { echo "cb"; }); echo "body\n";`},
	{"ini-and-env", `echo ini_get("memory_limit"), "|"; ini_set("memory_limit", "77M"); echo ini_get("memory_limit"), "|";
ini_set("display_errors", "0"); echo ini_get("display_errors"), "|"; echo error_reporting(), "|"; error_reporting(0); echo error_reporting(), "\n";
putenv("C20_PROBE=1"); echo getenv("C20_PROBE"), "\n";`},
	{"timezone-locale", `echo date_default_timezone_get(), "|"; date_default_timezone_set("Asia/Tokyo"); echo date_default_timezone_get(), "|"; echo setlocale(0, "C") === false ? "f" : "ok", "\n";`},
	{"exception-handler", `set_exception_handler(function($e) { echo "handled:", $e->getMessage(), "\n"; }); echo "before\n"; throw new Exception("boom");`},
	{"uncaught", `echo "before\n"; throw new RuntimeException("unhandled");`},
	{"error-handler", `set_error_handler(function($no, $str) { echo "err:", $str, "\n"; return true; }); trigger_error("custom", 1024); echo "after\n";`},
	{"shutdown", `register_shutdown_function(function() { echo "shutdown\n"; }); echo "main\n";`},
	{"autoload", `spl_autoload_register(function($c) { echo "autoload:", $c, "\n"; }); echo count(spl_autoload_functions()), "\n"; echo class_exists("NoSuchClassXyz") ? "y" : "n", "\n";`},
	{"time-limit", `set_time_limit(5); echo "ok\n";`},
	{"superglobals", `echo json_encode($_GET), "|", isset($_SERVER["argv"]) ? "argv" : "noargv", "|", json_encode($_POST), "|", json_encode($_COOKIE), "\n"; $_SERVER = new stdClass(); echo "set\n";`},
	{"globals-keyword", `$g1 = 5; function rg() { global $g1; $g1 = $g1 + 1; return $g1; } echo rg(), rg(), $g1, "\n";`},
	{"include-once-cache", `echo function_exists("never_defined_fn") ? "y" : "n", "\n"; echo json_encode(spl_classes() === spl_classes()), "\n";`},
	{"spl-structures", `$s = new SplObjectStorage(); $a = new stdClass(); $b = new stdClass(); $s->attach($b); $s->attach($a); echo count($s), "\n";
$h = new SplMinHeap(); $h->insert(3); $h->insert(1); $h->insert(2); echo $h->extract(), $h->extract(), "\n";
$q = new SplQueue(); $q->enqueue("x"); $q->enqueue("y"); echo $q->dequeue(), "\n";
$f = new SplFixedArray(3); $f[0] = 1; echo $f->getSize(), "\n";
$o = new ArrayObject(["b" => 1, "a" => 2]); foreach ($o as $k => $v) { echo $k, ","; } echo "\n";`},
	{"hashmap-list", `$m = new HashMap(); $m->put("b", 1); $m->put("a", 2); $m->put("c", 3); echo json_encode($m->keys()), "\n";`},
	{"object-ids", `$a = new stdClass(); $b = new stdClass(); echo spl_object_id($a) === spl_object_id($a) ? "same" : "diff", spl_object_id($a) === spl_object_id($b) ? "same" : "diff", "\n";`},
	{"closures-use", `$x = 1; $f = function($y) use ($x) { return $x + $y; }; $g = fn($z) => $z * 2; echo $f(2), $g(4), "\n"; echo json_encode(array_map($g, [1, 2, 3])), "\n";`},
	{"string-funcs", `echo sprintf("%05d|%s|%.2f", 42, "x", 1.5), "|", number_format(1234567.891, 2), "|", str_pad("a", 3, "-"), "|", ucwords("ab cd"), "|", md5("a"), "\n";
echo json_encode(explode(",", "a,b,,c")), implode("-", [1, 2, 3]), json_encode(str_split("abcdef", 4)), "\n"; echo json_encode(preg_split("/[,;]/", "a,b;c")), preg_replace("/b+/", "X", "abbbc"), "\n";`},
	{"match-switch", `function f($v) { switch ($v) { case 1: return "one"; case 2: return "two"; default: return "many"; } }
echo f(1), f(2), f(3), "|", match(2) { 1 => "a", 2 => "b", default => "c" }, "\n";`},
	{"try-finally", `function t() { try { throw new InvalidArgumentException("x"); } catch (LogicException $e) { echo "L:", get_class($e); return 1; } finally { echo "|F"; } }
echo t(), "\n";`},
	{"generics", `class Box<T> { public T $v; function set(T $x) { $this->v = $x; return $this; } }
$a = new Box<int>(); $a->set(1); $b = new Box<string>(); $b->set("s"); echo $a->v, $b->v, "\n";`},
	{"class-alias-dyn", `class Orig { function n() { return "orig"; } } class_alias("Orig", "Ali"); $x = new Ali(); echo $x->n(), get_class($x), "\n"; $n = "Orig"; $y = new $n(); echo $y->n(), "\n";`},
	{"datetime", `$d = new DateTime("2020-01-02 03:04:05"); echo $d->format("Y-m-d H:i:s"), "\n"; echo gmdate("Y-m-d", 86400), "\n";`},
	{"runtime-error-diagnostic", `function deep($n) { if ($n == 0) { return undefined_fn_c20(); } return deep($n - 1); } echo "start\n"; deep(3);`},
	{"type-error-diagnostic", `function typed(int $x) { return $x; } echo typed(1), "\n"; echo typed("abc"), "\n";`},
	{"parse-error-diagnostic", `echo "a"; if ($x > ) { echo 1; `},
	{"exit-code", `echo "bye\n"; exit(3);`},
	// the same class / function / constant names defined differently by different programs: any
	// process-level cache keyed by name shows up as a difference between "B alone" and "B after A"
	{"samename-hier-1", `interface Shape {} class Base {} class Item extends Base implements Shape { public $p = 1; const K = "k1"; static $s = 10; function who() { return "item1"; } }
$i = new Item(); echo ($i instanceof Shape) ? "shape" : "no-shape", "|", ($i instanceof Base) ? "base" : "no-base", "|", $i->who(), "|", $i->p, "|", Item::K, "|", Item::$s, "\n";
foreach ($i as $k => $v) { echo $k, "=", $v, ","; } echo "\n"; echo json_encode(class_implements("Item")), json_encode(class_parents("Item")), "\n";`},
	{"samename-hier-2", `interface Shape {} class Base {} class Item { public $q = 2; public $p = 5; const K = "k2"; static $s = 20; function who() { return "item2"; } }
$i = new Item(); echo ($i instanceof Shape) ? "shape" : "no-shape", "|", ($i instanceof Base) ? "base" : "no-base", "|", $i->who(), "|", $i->p, "|", Item::K, "|", Item::$s, "\n";
foreach ($i as $k => $v) { echo $k, "=", $v, ","; } echo "\n"; echo json_encode(class_implements("Item")), json_encode(class_parents("Item")), "\n";`},
	{"samename-func-1", `function helper($x = 1) { static $calls = 0; $calls = $calls + 1; return "h1:" . $x . ":" . $calls; } define("SHARED", "one"); echo helper(), helper(5), SHARED, "\n";`},
	{"samename-func-2", `function helper($x = 2, $y = "z") { static $calls = 100; $calls = $calls + 1; return "h2:" . $x . $y . ":" . $calls; } define("SHARED", "two"); echo helper(), helper(7), SHARED, "\n";`},
	{"samename-abstract-1", `abstract class Model { abstract function table(); function describe() { return "T:" . $this->table(); } } class User extends Model { function table() { return "users"; } } $u = new User(); echo $u->describe(), "\n";`},
	{"samename-abstract-2", `class Model { function describe() { return "plain"; } } class User extends Model { } $u = new User(); echo $u->describe(), (method_exists($u, "table")) ? "has" : "hasnot", "\n";`},
	{"samename-generic-1", `class Box<T> { public T $v; } $b = new Box<int>(); $b->v = 1; echo $b->v; try { $b->v = "s"; echo "accepted"; } catch (Throwable $e) { echo "rejected"; } echo "\n";`},
	{"samename-generic-2", `class Box<T> { public T $v; } $b = new Box<string>(); $b->v = "s"; echo $b->v; try { $b->v = 1; echo "accepted"; } catch (Throwable $e) { echo "rejected"; } echo "\n";`},
	{"vardump-dynamic", `$o = new stdClass(); $o->zeta = 1; $o->alpha = 2; $o->mid = [1, 2]; var_dump($o); $a = ["y" => 1, "x" => [true, null]]; var_dump($a); var_export($o); echo "\n";`},
	// every sort function x every flag on inputs with ties (keys / values that compare equal under
	// the flag), and every builtin taking a callback by NAME (string) on user functions that other
	// pool programs define differently
	{"sort-flags-ties", `$y = ["b" => 1, "a" => 4, "c" => 0, "10" => 7, "9" => 8, "01" => 2, "1" => 3];
foreach ([0, SORT_NUMERIC, SORT_STRING] as $f) { $k = $y; ksort($k, $f); echo json_encode($k), "|"; $k = $y; krsort($k, $f); echo json_encode($k), "\n"; }
$v = ["10", "9", "1e1", "a", "A", "b", 10, 9.0, "09"];
foreach ([0, SORT_NUMERIC, SORT_STRING] as $f) { $k = $v; sort($k, $f); echo json_encode($k), "|"; $k = $v; rsort($k, $f); echo json_encode($k), "\n"; }
$u = [["k" => 1, "n" => "x"], ["k" => 1, "n" => "y"], ["k" => 0, "n" => "z"], ["k" => 1, "n" => "w"]];
usort($u, function($p, $q) { return $p["k"] <=> $q["k"]; }); echo json_encode($u), "\n";
echo json_encode(array_unique(["a", "A", "1", 1, "01", 1.0, "a"])), json_encode(array_search("1", ["x" => "01", "y" => 1, "z" => "1"])), "\n";
echo json_encode(array_keys(["b" => 1, "a" => 1, "c" => 2], 1)), json_encode(array_flip(["x" => 1, "y" => 1, "z" => 2])), "\n";`},
	{"named-callbacks-1", `function helper($x) { static $n = 0; $n = $n + 1; return "A#" . $n . ":" . ($x * 100); }
function pred($x) { return $x > 1; } function cmp($p, $q) { return $p <=> $q; } function acc($c, $x) { return $c + $x; }
echo implode(",", array_map("helper", [7, 8])), "|", call_user_func("helper", 9), "|", json_encode(array_filter([1, 2, 3], "pred")), "|";
$a = [3, 1, 2]; usort($a, "cmp"); echo json_encode($a), "|", array_reduce([1, 2, 3], "acc", 0), "|", is_callable("helper") ? "c" : "n", function_exists("pred") ? "f" : "n", "\n";`},
	{"named-callbacks-2", `function helper($x) { static $n = 3; $n = $n + 1; return "B#" . $n . ":" . ($x + 1); }
function pred($x) { return $x < 3; } function cmp($p, $q) { return $q <=> $p; } function acc($c, $x) { return $c * $x; }
echo implode(",", array_map("helper", [7, 8])), "|", call_user_func("helper", 9), "|", json_encode(array_filter([1, 2, 3], "pred")), "|";
$a = [3, 1, 2]; usort($a, "cmp"); echo json_encode($a), "|", array_reduce([1, 2, 3], "acc", 1), "|", is_callable("helper") ? "c" : "n", function_exists("pred") ? "f" : "n", "\n";`},
	// ---- end states x diagnostics (clause iii through the CLI route) ------------------------------
	// Programs that END IN A DIAGNOSTIC before printing anything themselves (what the diagnostics
	// printer adds - blank line, prefix, trace - depends on process-level state such as "user output
	// already emitted"), one per diagnostic kind the runtime has, and the same after own output:
	{"diag-abstract-new", `abstract class Shape { abstract function area(); } $s = new Shape();`},
	{"diag-abstract-new-after-output", `echo "before\n"; abstract class Shape { abstract function area(); } $s = new Shape();`},
	{"diag-abstract-new-in-function", `abstract class Shape {} function mk() { return new Shape(); } function outer() { return mk(); } outer();`},
	{"diag-parent-abstract-call", `abstract class Pa { abstract function run(); } class Ch extends Pa { function run() { return parent::run(); } } $c = new Ch(); $c->run();`},
	{"diag-missing-abstract", `abstract class Model { abstract function table(); } class User extends Model { } $u = new User(); echo "unreached\n";`},
	{"diag-final-abstract", `abstract class F { final abstract function x(); }`},
	{"diag-parse-error", `class { }`},
	{"diag-parse-error-after-code", `echo "never-printed\n"; foreach ($a as ) { }`},
	{"diag-uncaught-silent", `throw new RuntimeException("unhandled-silent");`},
	{"diag-uncaught-custom-in-function", `class MyEx extends Exception {} function thrower() { throw new MyEx("custom", 7); } thrower();`},
	{"diag-undefined-function-silent", `undefined_fn_c20_silent(1);`},
	{"diag-type-error-silent", `function typed(int $x) { return $x; } typed("abc");`},
	{"diag-trigger-error-unhandled", `trigger_error("warn-c20", E_USER_WARNING); echo "unreached\n";`},
	{"diag-deprecated-callable", `class Dep { static function sm() { return "sm"; } } $o = new Dep(); $r = call_user_func([$o, "Dep::sm"]); echo $r, "\n";`},
	{"diag-deprecated-callable-after-output", `class Dep { static function sm() { return "sm"; } } $o = new Dep(); echo "first\n"; $r = call_user_func([$o, "Dep::sm"]); echo $r, "\n";`},
	{"diag-magic-visibility-warning", `class Mg { private function __get($n) { return 1; } } echo "after-warning\n";`},
	{"diag-null-offset-deprecated", `$a = ["" => 1]; $k = null; echo $a[$k], "\n";`},
	{"diag-null-key-exists-deprecated", `$a = ["" => 1]; echo array_key_exists(null, $a) ? "y" : "n", "\n";`},
	{"diag-raw-post-warning", `$r = $HTTP_RAW_POST_DATA; echo "done\n";`},
	{"diag-overloaded-notice", `class Ov implements ArrayAccess { function offsetGet($o) { return [1]; } function offsetSet($o, $v) {} function offsetExists($o) { return true; } function offsetUnset($o) {} } $o = new Ov(); $o["a"][] = 2; echo "done\n";`},
	{"diag-exit-code-silent", `exit(4);`},
	{"diag-exit-message", `exit("bye-msg");`},
	{"diag-handler-silent", `set_exception_handler(function($e) { echo "handled:", get_class($e), ":", $e->getMessage(), "\n"; }); throw new LogicException("to-handler");`},
	{"diag-handler-rethrows", `set_exception_handler(function($e) { throw new RuntimeException("from-handler"); }); throw new LogicException("first");`},
	{"diag-shutdown-throws", `register_shutdown_function(function() { throw new RuntimeException("in-shutdown"); });`},
	{"diag-shutdown-after-fatal", `register_shutdown_function(function() { echo "shutdown-ran\n"; }); abstract class Sh {} new Sh();`},
	// End states of an earlier program that the pool did not have yet: no output at all, output only
	// through var_dump (which writes to stdout directly), buffers left open in every shape, and
	// buffers left open by a program that then dies.
	{"end-silent", `$x = 1 + 1; $y = [$x];`},
	{"end-vardump-only", `var_dump(42);`},
	{"end-ob-nested-open", `ob_start(); echo "one"; ob_start(); echo "two";`},
	{"end-ob-callback-open", `ob_start(function($b) { return strtoupper($b); }); echo "shout";`},
	{"end-ob-open-then-uncaught", `ob_start(); echo "buffered"; throw new RuntimeException("with-open-buffer");`},
	{"end-ob-open-then-fatal", `ob_start(); echo "buffered"; abstract class Ob {} new Ob();`},
	{"end-ob-open-then-exit", `ob_start(); echo "buffered-exit"; exit(5);`},
	{"end-error-handler-left", `set_error_handler(function($no, $str) { echo "EH:", $str, "\n"; return true; }); echo "installed\n";`},
	// ---- round 4 -------------------------------------------------------------------------------------
	// (a) residue carried by a shared VALUE OBJECT rather than by a package-level variable: programs
	// that mutate values in place through every library route that writes into a value it was handed
	// (typed json_decode hydration, sort/splice/walk/by-reference arguments, default parameter values,
	// property defaults, class constants, statics, unserialize / reflection / clone / casts), and a probe
	// that prints every literal and constant kind through every consumer (truthiness, comparison,
	// builtins that answer true/false, encoders, default parameters, class constants, statics, property
	// defaults, loops, casts, decoders). "B after A == B alone" over all pairs shows the corruption
	// whatever carries it.
	// (b) library functions whose result depends on the ORDER in which a table argument is walked:
	// strtr / str_replace over every table of 2 and 3 pairs with keys from {a,b,ab,ba,c} and
	// replacements from {a,b,c,ab,""} (overlapping and prefix keys, replacements that contain other
	// keys), and one program with every array function taking a string-keyed map.
	{"probe-literals", `function dflt($a = false, $b = true, $c = null, $d = 0, $e = "", $f = [], $g = 1.5, $h = "s") { return json_encode([$a, $b, $c, $d, $e, $f, $g, $h]); }
class Lit { const F = false; const T = true; const N = null; const Z = 0; const E = ""; const A = []; const S = "k"; const FL = 0.5;
 static $sf = false; static $st = true; static $sn = null; static $sz = 0; static $sa = []; public $pf = false; public $pt = true; public $pn = null; public $pz = 0; public $pe = ""; public $pa = []; public bool $tb = false; public int $ti = 0; public string $ts = ""; public ?array $ta = null; }
function t($v) { return $v ? "T" : "F"; }
echo "lit:", t(false), t(true), t(null), t(0), t(1), t(-1), t(""), t("0"), t("a"), t([]), t([0]), t(0.0), t(0.5), "\n";
echo "cmp:", t(1 == 2), t(1 == 1), t(1 === 1), t("a" === "b"), t(1 < 2), t(2 < 1), t(!true), t(!false), t(true && false), t(true || false), t(null === null), t(isset($nope)), t(empty($nope)), "\n";
echo "fn:", t(in_array("x", ["a", "b"])), t(in_array("a", ["a", "b"])), t(is_string(5)), t(is_string("s")), t(is_int(5)), t(is_bool(false)), t(is_null(null)), t(is_array([])), t(array_key_exists("k", ["k" => 1])), t(array_key_exists("z", ["k" => 1])), t(function_exists("nope_c20")), t(class_exists("Lit")), t(str_contains("abc", "z")), t(array_search("z", ["a"])), "\n";
echo "json:", json_encode([false, true, null, 0, 1, -1, "", "0", [], 0.5, 1.0]), json_encode(["f" => false, "t" => true, "n" => null]), "\n";
echo "dflt:", dflt(), dflt(), "\n";
echo "const:", json_encode([Lit::F, Lit::T, Lit::N, Lit::Z, Lit::E, Lit::A, Lit::S, Lit::FL, PHP_EOL, PHP_INT_MAX, PHP_INT_SIZE, E_USER_WARNING, SORT_STRING, M_PI > 3]), "\n";
echo "static:", json_encode([Lit::$sf, Lit::$st, Lit::$sn, Lit::$sz, Lit::$sa]), "\n";
$o = new Lit(); echo "props:", json_encode($o), "\n"; $p = new Lit(); echo "props2:", json_encode($p), "\n";
$i = 0; $n = 0; while ($i < 3) { $i++; $n = $n + $i; } for ($j = 0; $j < 2; $j++) { $n++; } echo "loop:", $i, ",", $n, "\n";
var_dump(false, true, null, 0, "", 1.5); var_export([false, true, null]); echo "\n";
echo "cast:", t((bool)0), t((bool)1), t((bool)""), t((bool)"x"), (int)"12", "|", (string)false, "|", (string)true, "|", (int)false, (int)true, "|", 0 + false, 1 + true, "\n";
echo "dec:", json_encode(json_decode("[false,true,null,0,\"\",[]]")), json_encode(json_decode('{"a":false,"b":true}', true)), serialize([false, true, null, 0]), json_encode(unserialize("a:2:{i:0;b:0;i:1;b:1;}")), "\n";
echo "tern:", false ? "x" : "y", true ? "x" : "y", null ?? "d", 0 ?: "e", match(false) { true => "mt", false => "mf" }, "\n";
switch (false) { case true: echo "sw:T"; break; case false: echo "sw:F"; break; } echo "\n";`},
	{"mutate-typed-hydrate", `class Flags { public bool $on = false; public bool $off = true; public int $n = 0; public string $s = ""; public float $f = 0.0; public array $list = []; public ?string $opt = null; public $untyped = false; }
$a = json_decode('{"on":true,"off":false,"n":7,"s":"txt","f":2.5,"list":[1,2],"opt":"o","untyped":true}', Flags::class);
echo json_encode($a), "\n";
$b = json_decode('{"on":false,"off":true,"n":0,"s":"","f":0.0,"list":[],"opt":null,"untyped":null}', Flags::class);
echo json_encode($b), "\n";
$c = new Flags(); echo json_encode($c), "\n";`},
	{"mutate-array-args", `$a = [3, 1, 2]; sort($a); rsort($a); usort($a, function($p, $q) { return $p <=> $q; }); echo json_encode($a);
$k = ["b" => 1, "a" => 2]; ksort($k); krsort($k); echo json_encode($k);
$s = [1, 2, 3]; array_push($s, 4, false, true, null); echo array_pop($s), "|", json_encode(array_pop($s)), json_encode(array_shift($s)); array_unshift($s, 0, ""); $r = array_splice($s, 1, 2, [false, true]); echo json_encode($s), json_encode($r), "\n";
$w = [false, true, null, 0, "", []]; array_walk($w, function(&$v, $k) { $v = !$v; }); echo json_encode($w);
foreach ($w as $i => &$ref) { $ref = $i; } unset($ref); echo json_encode($w);
$m = []; $ok = preg_match("/(a)(b)?/", "ac", $m); echo $ok, json_encode($m); $cnt = 0; $o = str_replace("a", "b", "aaa", $cnt); echo $o, $cnt, "\n";
function byref(&$x) { $x = !$x; return $x; } $f = false; $t = true; $n = null; $z = 0; byref($f); byref($t); byref($n); byref($z); echo json_encode([$f, $t, $n, $z]);
function inc(&$x) { $x++; $x .= ""; } $i = 0; inc($i); $e = ""; $e .= "x"; $fl = 0.0; $fl += 1.5; $nn = null; $nn[] = 1; $q = false; $q = $q || true; $u = true; $u = $u && false; echo json_encode([$i, $e, $fl, $nn, $q, $u]), "\n";
$arr = [false, true]; $arr[0] = !$arr[0]; $cp = $arr; $cp[1] = "changed"; echo json_encode($arr), json_encode($cp);
extract(["xf" => false, "xt" => true]); $xf = !$xf; $xt = !$xt; echo json_encode([$xf, $xt]), "\n";`},
	{"mutate-defaults-statics", `function acc($item, $list = [], $flag = false, $n = 0, $s = "") { $list[] = $item; $flag = !$flag; $n++; $s .= "x"; return json_encode([$list, $flag, $n, $s]); }
echo acc(1), acc(2), "\n";
class Cfg { const DEF = ["a" => false, "b" => [1]]; const OFF = false; const ON = true; const ZERO = 0; public $opts = ["x" => false]; public $on = false; public $cnt = 0; public $name = ""; static $reg = []; static $flag = false; static $n = 0;
 function tweak() { $this->opts["x"] = true; $this->opts["y"] = 1; $this->on = !$this->on; $this->cnt++; $this->name .= "n"; self::$reg[] = "r"; self::$flag = !self::$flag; self::$n++; return $this; } }
$a = new Cfg(); $a->tweak()->tweak(); echo json_encode($a), json_encode(Cfg::$reg), json_encode(Cfg::$flag), Cfg::$n, "\n";
$d = Cfg::DEF; $d["a"] = true; $d["b"][] = 2; $o = Cfg::OFF; $o = !$o; $z = Cfg::ZERO; $z++; echo json_encode($d), json_encode(Cfg::DEF), json_encode([$o, Cfg::OFF, $z, Cfg::ZERO]), "\n";
$b = new Cfg(); echo json_encode($b), "\n";
function counter() { static $c = 0; static $seen = []; static $f = false; $c++; $seen[] = $c; $f = !$f; return json_encode([$c, $seen, $f]); } echo counter(), counter(), "\n";
$t = true; $f = false; $nul = null; $t2 = $t; $t2 = !$t2; $pe = PHP_EOL; $pe .= "x"; $mx = PHP_INT_MAX; $mx--; echo json_encode([$t, $f, $nul, $t2, PHP_EOL, PHP_INT_MAX === $mx]), "\n";`},
	{"mutate-reflection-unserialize", `class Box2 { public $flag = false; public bool $tb = false; public $items = []; private $hidden = false; function hidden() { return $this->hidden; } }
$u = unserialize('a:3:{s:4:"flag";b:1;s:2:"tb";b:0;s:5:"items";a:2:{i:0;b:1;i:1;b:0;}}'); $u["flag"] = !$u["flag"]; $u["items"][1] = !$u["items"][1]; echo json_encode($u), "\n";
$r = new ReflectionClass("Box2"); $o = $r->newInstance(); $o->flag = !$o->flag; $o->tb = !$o->tb; $o->items[] = false; echo json_encode($o), "\n";
try { $rp = new ReflectionProperty("Box2", "hidden"); $rp->setAccessible(true); $rp->setValue($o, true); echo json_encode($o->hidden()), "\n"; } catch (Throwable $e) { echo "E:", get_class($e), "\n"; }
$c = clone $o; $c->flag = !$c->flag; $c->items[0] = !$c->items[0]; echo json_encode($c), json_encode($o), "\n";
$so = (object)["f" => false, "t" => true]; $so->f = !$so->f; $arr = (array)$so; $arr["t"] = null; echo json_encode($so), json_encode($arr), "\n";
$j = json_decode('{"f":false,"t":true,"n":null,"l":[false]}'); $j->f = !$j->f; $j->l[] = true; $ja = json_decode('{"f":false,"l":[false,true]}', true); $ja["f"] = !$ja["f"]; $ja["l"][0] = !$ja["l"][0]; echo json_encode($j), json_encode($ja), "\n";
$n = new Box2(); echo json_encode($n), "\n";`},
	{"table-strtr", `$K = ["a", "b", "ab", "ba", "c"]; $V = ["a", "b", "c", "ab", ""]; $s = "aabbabcba";
for ($i = 0; $i < 5; $i++) { for ($j = $i + 1; $j < 5; $j++) { foreach ($V as $v1) { foreach ($V as $v2) { echo strtr($s, [$K[$i] => $v1, $K[$j] => $v2]), ","; } } echo "\n"; } }
for ($i = 0; $i < 5; $i++) { for ($j = $i + 1; $j < 5; $j++) { for ($l = $j + 1; $l < 5; $l++) { foreach ($V as $v1) { foreach ($V as $v2) { foreach ($V as $v3) { echo strtr($s, [$K[$i] => $v1, $K[$j] => $v2, $K[$l] => $v3]), ","; } } } echo "\n"; } } }
echo strtr("abcabc", "ab", "ba"), strtr("Hi all", ["Hi" => "Hello", "Hello" => "Hi", "all" => "everyone", "every" => "no"]), "\n";`},
	{"table-str-replace", `$K = ["a", "b", "ab", "ba", "c"]; $V = ["a", "b", "c", "ab", ""]; $s = "aabbabcba";
for ($i = 0; $i < 5; $i++) { for ($j = 0; $j < 5; $j++) { if ($i == $j) { continue; } foreach ($V as $v1) { foreach ($V as $v2) { echo str_replace([$K[$i], $K[$j]], [$v1, $v2], $s), ","; } } echo "\n"; } }
for ($i = 0; $i < 5; $i++) { for ($j = 0; $j < 5; $j++) { for ($l = 0; $l < 5; $l++) { if ($i == $j || $j == $l || $i == $l) { continue; } foreach ($V as $v1) { foreach ($V as $v2) { echo str_replace([$K[$i], $K[$j], $K[$l]], [$v1, $v2, "x"], $s), ",", str_replace([$K[$i], $K[$j], $K[$l]], $v1, $s), ","; } } echo "\n"; } } }
echo str_replace(["k1" => "a", "k0" => "b"], ["k1" => "b", "k0" => "c"], "ab"), str_ireplace(["A", "b"], ["b", "c"], "aAbB"), json_encode(str_replace("a", "b", ["y" => "aa", "x" => "ab"])), "\n";
echo preg_replace(["/a/", "/b/"], ["b", "c"], "ab"), preg_replace(["/b/", "/a/"], ["c", "b"], "ab"), json_encode(preg_replace("/a/", "z", ["q" => "a1", "p" => "a2"])), "\n";`},
	{"table-array-functions", `$m = ["b" => "x", "a" => "y", "ab" => "x", "c" => "z"]; $n = null; $n["q"] = 2; $n["p"] = 1; $n["r"] = 2;
echo implode(",", $m), "|", implode(",", $n), "|", join("-", ["k2" => "v2", "k1" => "v1"]), "\n";
echo json_encode(array_search("x", $m)), json_encode(array_search(2, $n)), json_encode(in_array("z", $m)), json_encode(array_keys($m, "x")), json_encode(array_keys($n, 2)), "\n";
echo json_encode(array_unique($m)), json_encode(array_unique($n)), json_encode(array_flip($m)), json_encode(array_flip($n)), "\n";
echo json_encode(array_intersect($m, ["x"])), json_encode(array_intersect_key($m, ["ab" => 1, "b" => 1])), json_encode(array_diff($m, ["y"])), json_encode(array_diff($n, [1])), "\n";
echo json_encode(array_merge($m, $n)), json_encode(array_replace($m, $n)), json_encode($m + $n), json_encode(array_combine(array_keys($m), array_values($n + ["s" => 4]))), "\n";
echo json_encode(array_values($m)), json_encode(array_values($n)), json_encode(array_reverse($m)), json_encode(array_slice($m, 1, 2)), json_encode(array_map(function($v) { return $v . "!"; }, $n)), "\n";
echo json_encode(array_filter($n, function($v) { return $v > 1; })), array_reduce($m, function($c, $v) { return $c . $v; }, ""), json_encode(min($n)), json_encode(max($n)), json_encode(min($m)), json_encode(max($m)), "\n";
$w = ""; array_walk($m, function($v, $k) use (&$w) { $w .= $k . $v; }); echo $w, "|", json_encode(array_key_first($n)), count($m), count($n), "\n";
echo vsprintf("%s-%s-%s", $n), "|", sprintf("%2\$s %1\$s", "w", "h"), "|", http_build_query($m), "|", http_build_query($n), "\n";
echo json_encode(array_fill_keys(array_keys($n), 0)), json_encode(array_pad($n, 5, 0)), json_encode(array_merge_recursive(["t" => $m], ["t" => $n])), json_encode(array_replace_recursive(["t" => $m], ["t" => $n])), "\n";
extract($n); echo $q, $p, $r, "|", json_encode(iterator_to_array(new ArrayIterator($m))), serialize($n), "\n"; var_export($n); echo "\n";`},
}
