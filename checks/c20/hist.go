package main

// Clause (ii), histories: "array entries and object properties are always enumerated in insertion
// order" is a statement about every history of a container, not only about insertion sequences.
// The alphabet is {set(k), unset(k)} over <= 4 keys: set of an absent key inserts at the end, set
// of a present key overwrites in place (position kept), unset removes, set after unset is a NEW
// insertion (goes to the end). Every history up to the tier's length bound is enumerated up to
// renaming of keys (keys make their first appearance in the order k0, k1, k2, k3); the renaming is
// then undone by running each history under several key assignments (identifiers, int-like
// strings, int literals, mixed). Each history is applied to every way a container can come into
// being (births: empty list literal, null / undefined variable that auto-vivifies, key=>value
// literal, array_merge / array_combine / json_decode / unserialize / (array) cast result, nested
// element, array held in an object property, by-reference parameter; stdClass, variable property
// names, declared class, $this, json_decode object, (object) cast) and the end state is read back
// through every enumeration route the library offers.

import (
	"encoding/json"
	"fmt"
	"net/url"
	"regexp"
	"sort"
	"strconv"
	"strings"

	"github.com/php-any/origami/std/php/core"
	"github.com/php-any/origami/utils/vshim"

	"verif/engine/pool"
)

type hop struct {
	Unset bool `json:"u,omitempty"`
	K     int  `json:"k"`
}

func (o hop) String() string {
	if o.Unset {
		return fmt.Sprintf("unset(k%d)", o.K)
	}
	return fmt.Sprintf("set(k%d)", o.K)
}

func histString(h []hop) string {
	var s []string
	for _, o := range h {
		s = append(s, o.String())
	}
	return strings.Join(s, ";")
}

// akey is one concrete key: Lit is the PHP index expression, Name what every route must print.
type akey struct{ Lit, Name string }

type assign struct {
	Name  string
	Keys  [4]akey
	Ident bool // every key is a valid identifier (declared-property births need that)
}

var assigns = []assign{
	{"ident", [4]akey{{`"b"`, "b"}, {`"a"`, "a"}, {`"B"`, "B"}, {`"c"`, "c"}}, true},
	{"intstr", [4]akey{{`"10"`, "10"}, {`"2"`, "2"}, {`"7"`, "7"}, {`"0"`, "0"}}, false},
	{"int", [4]akey{{`10`, "10"}, {`2`, "2"}, {`7`, "7"}, {`0`, "0"}}, false},
	{"mixed", [4]akey{{`"x y"`, "x y"}, {`10`, "10"}, {`"a"`, "a"}, {`"2"`, "2"}}, false},
}

func intLike(name string) bool {
	n, err := strconv.Atoi(name)
	return err == nil && strconv.Itoa(n) == name
}

// ---- the reference model ---------------------------------------------------------------------

type entry struct{ K, V string }

// model replays a history on an ordered dictionary. mode selects the reading of unset: for arrays
// there is one (the entry is removed). For OBJECT properties origami implements unset($o->p) as
// "assign null" and ignores unset($o->{"p"}); whether that is right is a language-semantics
// question outside this property (the statement is about enumeration order), so for objects any of
// the three readings is accepted - as long as one reading explains every route of the container.
func model(h []hop, keys [4]akey, mode int) []entry {
	var es []entry
	find := func(k string) int {
		for i, e := range es {
			if e.K == k {
				return i
			}
		}
		return -1
	}
	for i, o := range h {
		k := keys[o.K].Name
		v := strconv.Itoa(i + 1)
		if o.Unset {
			switch mode {
			case unsetRemoves:
				if j := find(k); j >= 0 {
					es = append(es[:j:j], es[j+1:]...)
				}
				continue
			case unsetIgnored:
				continue
			}
			v = "null"
		}
		if j := find(k); j >= 0 {
			es[j].V = v
		} else {
			es = append(es, entry{k, v})
		}
	}
	return es
}

const (
	unsetRemoves = iota // the entry is gone; a later set of the key is a new insertion (arrays: the only reading)
	unsetNulls          // objects only: origami implements unset($o->p) as "assign null" (the property stays listed)
	unsetIgnored        // objects only: origami ignores unset($o->{"p"}) / unset($o->$p)
)

func entriesString(es []entry) string {
	var s []string
	for _, e := range es {
		s = append(s, e.K+"="+e.V)
	}
	return strings.Join(s, ",")
}

// ---- canonical histories -----------------------------------------------------------------------

// eachHistory calls fn for every history of exactly n ops over <= maxKeys keys in which keys make
// their first appearance in the order k0, k1, ...
func eachHistory(n, maxKeys int, fn func(h []hop)) {
	h := make([]hop, 0, n)
	var rec func(used int)
	rec = func(used int) {
		if len(h) == n {
			fn(h)
			return
		}
		for k := 0; k <= used && k < maxKeys; k++ {
			nu := used
			if k == used {
				nu = used + 1
			}
			for _, u := range []bool{false, true} {
				h = append(h, hop{u, k})
				rec(nu)
				h = h[:len(h)-1]
			}
		}
	}
	rec(0)
}

// ---- script generation -------------------------------------------------------------------------

type container struct {
	Tag    string // c<N>
	Kind   string // "array" | "object"
	Birth  string
	Script string // the statements that create the container and apply the history
	Subj   string // the PHP expression that denotes the container afterwards
}

const histPrelude = `function st(&$r, $k, $v) { $r[$k] = $v; }
function un(&$r, $k) { unset($r[$k]); }
class TH { function st($k, $v) { $this->$k = $v; } function un($k) { unset($this->$k); } }
function dumpA($t, $x) {
 try { echo $t, "|arg-foreach|"; foreach ($x as $k => $v) { echo $k, "\x1e", json_encode($v), "\x1f"; } echo "\n"; } catch (Throwable $e) { echo "\n", $t, "|arg-foreach|ERR\n"; }
 try { echo $t, "|foreach-ref|"; foreach ($x as $k => &$w) { echo $k, "\x1e", json_encode($w), "\x1f"; } unset($w); echo "\n"; } catch (Throwable $e) { echo "\n", $t, "|foreach-ref|ERR\n"; }
 try { $s = json_encode(array_keys($x)); echo $t, "|array_keys|", $s, "\n"; } catch (Throwable $e) { echo $t, "|array_keys|ERR\n"; }
 try { $s = json_encode(array_values($x)); echo $t, "|array_values|", $s, "\n"; } catch (Throwable $e) { echo $t, "|array_values|ERR\n"; }
 try { $s = serialize($x); echo $t, "|serialize|", $s, "\n"; } catch (Throwable $e) { echo $t, "|serialize|ERR\n"; }
 try { $s = http_build_query($x); echo $t, "|http_build_query|", $s, "\n"; } catch (Throwable $e) { echo $t, "|http_build_query|ERR\n"; }
 try { $s = var_export($x, true); echo $t, "|var_export|", json_encode($s), "\n"; } catch (Throwable $e) { echo $t, "|var_export|ERR\n"; }
 try { echo $t, "|ArrayIterator|"; $it = new ArrayIterator($x); foreach ($it as $k => $v) { echo $k, "\x1e", json_encode($v), "\x1f"; } echo "\n"; } catch (Throwable $e) { echo "\n", $t, "|ArrayIterator|ERR\n"; }
 try { $d = $x; $d["zz9"] = 0; echo $t, "|copy-foreach|"; foreach ($x as $k => $v) { echo $k, "\x1e", json_encode($v), "\x1f"; } echo "\n"; } catch (Throwable $e) { echo "\n", $t, "|copy-foreach|ERR\n"; }
 try { $s = json_encode((object)$x); echo $t, "|object-cast|", $s, "\n"; } catch (Throwable $e) { echo $t, "|object-cast|ERR\n"; }
 try { $s = json_encode(array_slice($x, 0, null, true)); echo $t, "|array_slice|", $s, "\n"; } catch (Throwable $e) { echo $t, "|array_slice|ERR\n"; }
 try { $s = json_encode(array_filter($x, function($v) { return true; })); echo $t, "|array_filter|", $s, "\n"; } catch (Throwable $e) { echo $t, "|array_filter|ERR\n"; }
 try { $s = json_encode(array_map(function($v) { return $v; }, $x)); echo $t, "|array_map|", $s, "\n"; } catch (Throwable $e) { echo $t, "|array_map|ERR\n"; }
 try { $s = json_encode(array_reverse($x, true)); echo $t, "|array_reverse|", $s, "\n"; } catch (Throwable $e) { echo $t, "|array_reverse|ERR\n"; }
 try { $s = json_encode($x + []); echo $t, "|union|", $s, "\n"; } catch (Throwable $e) { echo $t, "|union|ERR\n"; }
 try { $s = json_encode(array_replace($x, [])); echo $t, "|array_replace|", $s, "\n"; } catch (Throwable $e) { echo $t, "|array_replace|ERR\n"; }
 try { $s = json_encode(array_flip($x)); echo $t, "|array_flip|", $s, "\n"; } catch (Throwable $e) { echo $t, "|array_flip|ERR\n"; }
 try { $s = implode(",", $x); echo $t, "|implode|", $s, "\n"; } catch (Throwable $e) { echo $t, "|implode|ERR\n"; }
 try { $s = count($x); echo $t, "|count|", $s, "\n"; } catch (Throwable $e) { echo $t, "|count|ERR\n"; }
}
function dumpO($t, $x) {
 try { echo $t, "|arg-foreach|"; foreach ($x as $k => $v) { echo $k, "\x1e", json_encode($v), "\x1f"; } echo "\n"; } catch (Throwable $e) { echo "\n", $t, "|arg-foreach|ERR\n"; }
 try { $s = serialize($x); echo $t, "|serialize|", $s, "\n"; } catch (Throwable $e) { echo $t, "|serialize|ERR\n"; }
 try { $s = json_encode(array_keys((array)$x)); echo $t, "|array-cast-keys|", $s, "\n"; } catch (Throwable $e) { echo $t, "|array-cast-keys|ERR\n"; }
 try { $s = json_encode((array)$x); echo $t, "|array-cast|", $s, "\n"; } catch (Throwable $e) { echo $t, "|array-cast|ERR\n"; }
 try { $d = clone $x; echo $t, "|clone-foreach|"; foreach ($d as $k => $v) { echo $k, "\x1e", json_encode($v), "\x1f"; } echo "\n"; } catch (Throwable $e) { echo "\n", $t, "|clone-foreach|ERR\n"; }
 try { $d = clone $x; $s = json_encode($d); echo $t, "|clone-json|", $s, "\n"; } catch (Throwable $e) { echo $t, "|clone-json|ERR\n"; }
}
`

func phpStr(s string) string { return strconv.Quote(s) }

// buildContainers returns the containers a history is applied to under one key assignment.
func buildContainers(h []hop, as assign) []container {
	keys := as.Keys
	// p = length of the maximal prefix of sets of pairwise distinct keys (what a constructor can hold)
	p := 0
	seen := map[int]bool{}
	for _, o := range h {
		if o.Unset || seen[o.K] {
			break
		}
		seen[o.K] = true
		p++
	}
	allStr := true // no int-like key in the prefix (array_merge renumbers those)
	for i := 0; i < p; i++ {
		if intLike(keys[h[i].K].Name) {
			allStr = false
		}
	}
	var out []container
	n := 0
	add := func(kind, birth, subj, init string, from int, set func(lit, name string, v int) string, unset func(lit, name string) string) {
		n++
		var sb strings.Builder
		sb.WriteString(init)
		for i := from; i < len(h); i++ {
			k := keys[h[i].K]
			if h[i].Unset {
				sb.WriteString(unset(k.Lit, k.Name))
			} else {
				sb.WriteString(set(k.Lit, k.Name, i+1))
			}
			sb.WriteString(" ")
		}
		tag := fmt.Sprintf("c%d", n)
		out = append(out, container{Tag: tag, Kind: kind, Birth: birth, Script: strings.ReplaceAll(sb.String(), "$@", "$"+tag), Subj: strings.ReplaceAll(subj, "$@", "$"+tag)})
	}
	idxSet := func(path string) func(lit, name string, v int) string {
		return func(lit, name string, v int) string { return fmt.Sprintf("%s[%s] = %d;", path, lit, v) }
	}
	idxUnset := func(path string) func(lit, name string) string {
		return func(lit, name string) string { return fmt.Sprintf("unset(%s[%s]);", path, lit) }
	}
	pairs := func(upto int, sep string) string { // k => v, ...
		var s []string
		for i := 0; i < upto; i++ {
			s = append(s, fmt.Sprintf("%s %s %d", keys[h[i].K].Lit, sep, i+1))
		}
		return strings.Join(s, ", ")
	}
	jsonObj := func(upto int) string {
		var s []string
		for i := 0; i < upto; i++ {
			s = append(s, fmt.Sprintf("%s:%d", strconv.Quote(keys[h[i].K].Name), i+1))
		}
		return "{" + strings.Join(s, ",") + "}"
	}
	// --- arrays
	add("array", "empty-literal", "$@", "$@ = []; ", 0, idxSet("$@"), idxUnset("$@"))
	add("array", "null-vivified", "$@", "$@ = null; ", 0, idxSet("$@"), idxUnset("$@"))
	add("array", "undefined-vivified", "$@", "", 0, idxSet("$@"), idxUnset("$@"))
	add("array", "nested-element", `$@["in"]`, `$@ = []; $@["in"] = []; `, 0, idxSet(`$@["in"]`), idxUnset(`$@["in"]`))
	add("array", "nested-vivified", `$@["in"]`, `$@ = []; `, 0, idxSet(`$@["in"]`), idxUnset(`$@["in"]`))
	add("array", "object-property", "$@->arr", "$@ = new stdClass(); $@->arr = []; ", 0, idxSet("$@->arr"), idxUnset("$@->arr"))
	byrefSet := func(lit, name string, v int) string { return fmt.Sprintf("st($@, %s, %d);", lit, v) }
	byrefUnset := func(lit, name string) string { return fmt.Sprintf("un($@, %s);", lit) }
	add("array", "byref-null", "$@", "$@ = null; ", 0, byrefSet, byrefUnset)
	add("array", "byref-list", "$@", "$@ = []; ", 0, byrefSet, byrefUnset)
	if p >= 1 {
		add("array", "kv-literal", "$@", fmt.Sprintf("$@ = [%s]; ", pairs(p, "=>")), p, idxSet("$@"), idxUnset("$@"))
		if p > 1 {
			add("array", "kv-literal-1", "$@", fmt.Sprintf("$@ = [%s]; ", pairs(1, "=>")), 1, idxSet("$@"), idxUnset("$@"))
		}
		var ks, vs []string
		for i := 0; i < p; i++ {
			ks = append(ks, keys[h[i].K].Lit)
			vs = append(vs, strconv.Itoa(i+1))
		}
		add("array", "array_combine", "$@", fmt.Sprintf("$@ = array_combine([%s], [%s]); ", strings.Join(ks, ", "), strings.Join(vs, ", ")), p, idxSet("$@"), idxUnset("$@"))
		add("array", "json_decode-assoc", "$@", fmt.Sprintf("$@ = json_decode(%s, true); ", phpStr(jsonObj(p))), p, idxSet("$@"), idxUnset("$@"))
		add("array", "unserialize", "$@", fmt.Sprintf("$@ = unserialize(serialize([%s])); ", pairs(p, "=>")), p, idxSet("$@"), idxUnset("$@"))
		var ob strings.Builder
		ob.WriteString("$@ = new stdClass(); ")
		for i := 0; i < p; i++ {
			fmt.Fprintf(&ob, "$@->{%s} = %d; ", phpStr(keys[h[i].K].Name), i+1)
		}
		ob.WriteString("$@ = (array)$@; ")
		add("array", "array-cast", "$@", ob.String(), p, idxSet("$@"), idxUnset("$@"))
		if allStr {
			var parts []string
			for i := 0; i < p; i++ {
				parts = append(parts, fmt.Sprintf("[%s => %d]", keys[h[i].K].Lit, i+1))
			}
			if p == 1 {
				parts = append(parts, "[]")
			}
			add("array", "array_merge", "$@", fmt.Sprintf("$@ = array_merge(%s); ", strings.Join(parts, ", ")), p, idxSet("$@"), idxUnset("$@"))
		}
	}
	// --- objects
	braceSet := func(lit, name string, v int) string { return fmt.Sprintf("$@->{%s} = %d;", phpStr(name), v) }
	braceUnset := func(lit, name string) string { return fmt.Sprintf("unset($@->{%s});", phpStr(name)) }
	add("object", "stdClass", "$@", "$@ = new stdClass(); ", 0, braceSet, braceUnset)
	add("object", "stdClass-variable-name", "$@", "$@ = new stdClass(); ", 0,
		func(lit, name string, v int) string { return fmt.Sprintf("$p = %s; $@->$p = %d;", phpStr(name), v) },
		func(lit, name string) string { return fmt.Sprintf("$p = %s; unset($@->$p);", phpStr(name)) })
	add("object", "this", "$@", "$@ = new TH(); ", 0,
		func(lit, name string, v int) string { return fmt.Sprintf("$@->st(%s, %d);", phpStr(name), v) },
		func(lit, name string) string { return fmt.Sprintf("$@->un(%s);", phpStr(name)) })
	if p >= 1 {
		add("object", "json_decode-object", "$@", fmt.Sprintf("$@ = json_decode(%s); ", phpStr(jsonObj(p))), p, braceSet, braceUnset)
		add("object", "object-cast", "$@", fmt.Sprintf("$@ = (object)[%s]; ", pairs(p, "=>")), p, braceSet, braceUnset)
		if as.Ident {
			var decl strings.Builder
			decl.WriteString("class DC { ")
			for i := 0; i < p; i++ {
				fmt.Fprintf(&decl, "public $%s = %d; ", keys[h[i].K].Name, i+1)
			}
			decl.WriteString("} $@ = new DC(); ")
			add("object", "declared-class", "$@", decl.String(), p,
				func(lit, name string, v int) string { return fmt.Sprintf("$@->%s = %d;", name, v) },
				func(lit, name string) string { return fmt.Sprintf("unset($@->%s);", name) })
		}
	}
	return out
}

func histScript(cs []container) string {
	var sb strings.Builder
	sb.WriteString(histPrelude)
	for _, c := range cs {
		sb.WriteString(c.Script)
		sb.WriteString("\n")
		t := phpStr(c.Tag)
		// the routes that must see the container itself, not a by-value copy of it
		fmt.Fprintf(&sb, `echo %s, "|foreach|"; foreach (%s as $k => $v) { echo $k, "\x1e", json_encode($v), "\x1f"; } echo "\n";`+"\n", t, c.Subj)
		fmt.Fprintf(&sb, `echo %s, "|json_encode|", json_encode(%s), "\n";`+"\n", t, c.Subj)
		fmt.Fprintf(&sb, `var_dump("@@%s"); var_dump(%s);`+"\n", c.Tag, c.Subj)
		if c.Kind == "array" {
			fmt.Fprintf(&sb, "dumpA(%s, %s);\n", t, c.Subj)
		} else {
			fmt.Fprintf(&sb, "dumpO(%s, %s);\n", t, c.Subj)
		}
	}
	sb.WriteString(`echo "end|end|end\n";` + "\n")
	return sb.String()
}

// ---- reading the routes back ---------------------------------------------------------------------

// A route's output is reduced to a list of entries. K == "\x00" means the route does not show
// keys (array_values, implode, ...); V == "\x00" means it does not show values (array_keys).
const hidden = "\x00"

func normVal(v any) string {
	switch x := v.(type) {
	case nil:
		return "null"
	case float64:
		return strconv.FormatFloat(x, 'f', -1, 64)
	case json.Number:
		return x.String()
	case string:
		return x
	}
	b, _ := json.Marshal(v)
	return string(b)
}

// jsonEntries decodes a JSON object (ordered) or list into entries.
func jsonEntries(s string) ([]entry, bool) {
	dec := json.NewDecoder(strings.NewReader(s))
	dec.UseNumber()
	tok, err := dec.Token()
	if err != nil {
		return nil, false
	}
	var es []entry
	switch tok {
	case json.Delim('{'):
		for dec.More() {
			k, err := dec.Token()
			if err != nil {
				return nil, false
			}
			var v any
			if dec.Decode(&v) != nil {
				return nil, false
			}
			es = append(es, entry{fmt.Sprint(k), normVal(v)})
		}
	case json.Delim('['):
		for dec.More() {
			var v any
			if dec.Decode(&v) != nil {
				return nil, false
			}
			es = append(es, entry{hidden, normVal(v)})
		}
	default:
		return nil, false
	}
	return es, true
}

func foreachEntries(s string) ([]entry, bool) {
	var es []entry
	for _, part := range strings.Split(s, "\x1f") {
		if part == "" {
			continue
		}
		kv := strings.SplitN(part, "\x1e", 2)
		if len(kv) != 2 {
			return nil, false
		}
		es = append(es, entry{kv[0], kv[1]})
	}
	return es, true
}

var reSerTok = regexp.MustCompile(`^(?:s:\d+:"([^"]*)";|i:(-?\d+);|(N);)`)

func serializeEntries(s string) ([]entry, bool) {
	i := strings.Index(s, "{")
	if i < 0 || !strings.HasSuffix(s, "}") {
		return nil, false
	}
	body := s[i+1 : len(s)-1]
	var toks []string
	for body != "" {
		m := reSerTok.FindStringSubmatch(body)
		if m == nil {
			return nil, false
		}
		switch {
		case m[3] != "":
			toks = append(toks, "null")
		case m[2] != "":
			toks = append(toks, m[2])
		default:
			toks = append(toks, m[1])
		}
		body = body[len(m[0]):]
	}
	if len(toks)%2 != 0 {
		return nil, false
	}
	var es []entry
	for j := 0; j < len(toks); j += 2 {
		es = append(es, entry{toks[j], toks[j+1]})
	}
	return es, true
}

func httpEntries(s string) ([]entry, bool) {
	var es []entry
	if s == "" {
		return es, true
	}
	for _, part := range strings.Split(s, "&") {
		kv := strings.SplitN(part, "=", 2)
		if len(kv) != 2 {
			return nil, false
		}
		k, e1 := url.QueryUnescape(kv[0])
		v, e2 := url.QueryUnescape(kv[1])
		if e1 != nil || e2 != nil {
			return nil, false
		}
		es = append(es, entry{k, v})
	}
	return es, true
}

var reExportLine = regexp.MustCompile(`^  (?:'([^']*)'|(-?\d+)) => (-?\d+|NULL),$`)

func exportEntries(s string) ([]entry, bool) {
	var es []entry
	for _, l := range strings.Split(s, "\n") {
		if m := reExportLine.FindStringSubmatch(l); m != nil {
			v := m[3]
			if v == "NULL" {
				v = "null"
			}
			es = append(es, entry{m[1] + m[2], v})
		}
	}
	return es, true
}

var reDumpKey = regexp.MustCompile(`^  \[(?:"([^"]*)"|(-?\d+))\]=>$`)
var reDumpVal = regexp.MustCompile(`^  (?:int\((-?\d+)\)|(NULL))$`)

func dumpEntries(s string) ([]entry, bool) {
	var es []entry
	lines := strings.Split(s, "\n")
	for i := 0; i+1 < len(lines); i++ {
		if m := reDumpKey.FindStringSubmatch(lines[i]); m != nil {
			v := reDumpVal.FindStringSubmatch(lines[i+1])
			if v == nil {
				return nil, false
			}
			val := v[1]
			if v[2] != "" {
				val = "null"
			}
			es = append(es, entry{m[1] + m[2], val})
		}
	}
	return es, true
}

func reverseEntries(es []entry) []entry {
	out := make([]entry, len(es))
	for i, e := range es {
		out[len(es)-1-i] = e
	}
	return out
}

// exactRoutes are the routes the property statement is about (what the language itself and the
// encoders enumerate): they must list exactly the model's entries, in the model's order. Every
// other route is a library function whose own contract (which keys / values it keeps) belongs to
// other properties: there only the ORDER is judged - the entries it does list may not be inverted.
var exactRoutes = map[string]bool{
	"foreach": true, "arg-foreach": true, "foreach-ref": true, "copy-foreach": true, "clone-foreach": true,
	"json_encode": true, "clone-json": true, "array_keys": true, "array_values": true, "serialize": true, "var_dump": true, "count": true,
}

func parseRoute(route, payload string) ([]entry, bool) {
	switch route {
	case "foreach", "arg-foreach", "foreach-ref", "copy-foreach", "clone-foreach", "ArrayIterator":
		return foreachEntries(payload)
	case "json_encode", "clone-json", "object-cast", "array_slice", "array_filter", "array_map", "union", "array_replace", "array-cast":
		return jsonEntries(payload)
	case "array_reverse":
		es, ok := jsonEntries(payload)
		return reverseEntries(es), ok
	case "array_keys", "array-cast-keys":
		es, ok := jsonEntries(payload)
		for i := range es {
			es[i] = entry{es[i].V, hidden}
		}
		return es, ok
	case "array_values":
		return jsonEntries(payload)
	case "array_flip":
		es, ok := jsonEntries(payload)
		for i := range es {
			if es[i].K == hidden {
				return nil, false
			}
			es[i] = entry{hidden, es[i].K}
		}
		return es, ok
	case "implode":
		var es []entry
		for _, v := range strings.Split(payload, ",") {
			if v != "" {
				es = append(es, entry{hidden, v})
			}
		}
		return es, true
	case "serialize":
		return serializeEntries(payload)
	case "http_build_query":
		return httpEntries(payload)
	case "var_export":
		var s string
		if json.Unmarshal([]byte(payload), &s) != nil {
			return nil, false
		}
		return exportEntries(s)
	case "var_dump":
		return dumpEntries(payload)
	}
	return nil, false
}

// judge compares what a route listed with the model. It returns "" when the route is consistent
// with the model, otherwise a short reason.
func judge(route string, got []entry, want []entry, kind string) string {
	pos := map[string]int{}  // key -> model position
	vpos := map[string]int{} // value -> model position (values are unique: one per op)
	for i, e := range want {
		pos[e.K] = i
		if e.V != "null" {
			vpos[e.V] = i
		}
	}
	exact := exactRoutes[route]
	if route == "var_dump" && kind == "object" {
		exact = false // var_dump lists declared properties only; which ones it lists is not an ordering question
	}
	if exact {
		jsonList := (route == "json_encode" || route == "clone-json") && len(got) > 0 && got[0].K == hidden
		if len(got) != len(want) {
			if len(got) < len(want) {
				return fmt.Sprintf("missing: lists %d entries, the container holds %d", len(got), len(want))
			}
			return fmt.Sprintf("extra: lists %d entries, the container holds %d", len(got), len(want))
		}
		for i := range want {
			if got[i].K != hidden && !jsonList && got[i].K != want[i].K {
				return fmt.Sprintf("order: position %d holds key %q, insertion order puts %q there", i, got[i].K, want[i].K)
			}
			if got[i].V != hidden && got[i].V != want[i].V {
				return fmt.Sprintf("order: position %d holds value %s, insertion order puts %s there", i, got[i].V, want[i].V)
			}
		}
		return ""
	}
	// order only: the model positions of the listed entries must be strictly increasing
	last := -1
	for _, e := range got {
		p, ok := -1, false
		if e.K != hidden {
			p, ok = pos[e.K]
			if ok && e.V != hidden && e.V != want[p].V {
				ok = false // not the same entry (a lossy library function re-keyed it): not judged
			}
		} else if e.V != hidden {
			p, ok = vpos[e.V]
		}
		if !ok {
			continue
		}
		if p <= last {
			return fmt.Sprintf("order: lists entry %s=%s before an entry that was inserted earlier", want[p].K, want[p].V)
		}
		last = p
	}
	return ""
}

type histCase struct {
	Hist   []hop  `json:"hist"`
	Assign string `json:"assign"`
	Bulk   string `json:"bulk,omitempty"`
}

type histFailure struct {
	Kind, Birth, Route, Why, Got, Want string
	// Class groups the routes of one defect: "store" when the language's own foreach already lists the
	// container wrongly (then every other route that is wrong as well says nothing new), otherwise the
	// route that is wrong while foreach is right.
	Class string
}

// splitDumps cuts the direct-stdout stream (var_dump) into one piece per container tag.
func splitDumps(stdout string) map[string]string {
	out := map[string]string{}
	parts := strings.Split(stdout, `string(`)
	// every sentinel is printed as   string(N) "@@<tag>"   ; what follows it (minus the header line of
	// the sentinel's own dump) up to the next sentinel is the container's dump
	for _, p := range parts[1:] {
		i := strings.Index(p, `"@@`)
		if i < 0 {
			continue
		}
		rest := p[i+3:]
		j := strings.Index(rest, `"`)
		if j < 0 {
			continue
		}
		out[rest[:j]] = rest[j+1:]
	}
	return out
}

// evalHistory runs one script and judges every container x route. want(kind) gives the admissible models.
func evalScript(cs []container, wants func(kind string) [][]entry, stats map[string]int) (fails []histFailure, o obsv) {
	// Go map iteration order is the adversary (clause i): every script runs with every range-over-map
	// ascending and again with every one descending, so a route that walks a Go map fails
	// deterministically instead of once in a while.
	for _, dir := range []int{0, 1} {
		var ranged bool
		fails, o, ranged = evalScriptDir(cs, wants, stats, dir)
		if dir == 0 && !ranged && len(fails) == 0 {
			// no Go map of two or more entries was ranged over: the descending run would be the same run
			stats["scripts-without-a-map-range"]++
			return
		}
		if len(fails) > 0 {
			if dir == 1 {
				for i := range fails {
					fails[i].Why += " (with every Go map range descending; ascending agrees with the model)"
				}
			}
			return
		}
	}
	return
}

func evalScriptDir(cs []container, wants func(kind string) [][]entry, stats map[string]int, dir int) (fails []histFailure, o obsv, ranged bool) {
	vshim.OnIter = func(n int, site string) int {
		if n >= 2 {
			ranged = true
		}
		return dir
	}
	// a pool program run earlier in this worker process may have left set_time_limit's process-global
	// deadline behind (itself a residue, but one that only a wall clock shows): it must not kill this script
	core.SetExecutionDeadline(0)
	src := histScript(cs)
	o = observeFuel(src, 3_000_000+int64(len(src))*2_000) // bulk scripts are long: the budget grows with the script
	vshim.OnIter = nil
	if o.Kind != "ok" || !strings.Contains(o.Out, "end|end|end") {
		return []histFailure{{Kind: "script", Birth: "-", Route: "script-error", Why: "the generated script did not run to its end", Got: o.String()}}, o, ranged
	}
	main, stdout := o.Out, ""
	if i := strings.Index(o.Out, "\n--stdout--\n"); i >= 0 {
		main, stdout = o.Out[:i], o.Out[i+len("\n--stdout--\n"):]
	}
	byTag := map[string]map[string]string{}
	var order = map[string][]string{}
	for _, l := range strings.Split(main, "\n") {
		f := strings.SplitN(l, "|", 3)
		if len(f) != 3 {
			continue
		}
		if byTag[f[0]] == nil {
			byTag[f[0]] = map[string]string{}
		}
		if _, dup := byTag[f[0]][f[1]]; !dup {
			order[f[0]] = append(order[f[0]], f[1])
		}
		byTag[f[0]][f[1]] = f[2]
	}
	for tag, d := range splitDumps(stdout) {
		if byTag[tag] != nil {
			byTag[tag]["var_dump"] = d
			order[tag] = append(order[tag], "var_dump")
		}
	}
	for _, c := range cs {
		models := wants(c.Kind)
		type parsed struct {
			route string
			es    []entry
		}
		var ps []parsed
		var counts []string
		for _, route := range order[c.Tag] {
			payload := byTag[c.Tag][route]
			if payload == "ERR" {
				stats["route-error:"+c.Kind+":"+route]++
				continue
			}
			if route == "count" {
				// count() is the length of every enumeration
				stats["route-judged:"+c.Kind+":count"]++
				counts = append(counts, payload)
				continue
			}
			es, ok := parseRoute(route, payload)
			if !ok {
				stats["route-unparsed:"+c.Kind+":"+route]++
				continue
			}
			stats["route-judged:"+c.Kind+":"+route]++
			ps = append(ps, parsed{route, es})
		}
		// one model must explain every route of the container
		var best []histFailure
		for mi, want := range models {
			var fs []histFailure
			for _, p := range ps {
				if why := judge(p.route, p.es, want, c.Kind); why != "" {
					fs = append(fs, histFailure{Kind: c.Kind, Birth: c.Birth, Route: p.route, Why: why, Got: entriesString(p.es), Want: entriesString(want)})
				}
			}
			for _, n := range counts {
				if n != strconv.Itoa(len(want)) {
					typ := "missing"
					if g, _ := strconv.Atoi(n); g > len(want) {
						typ = "extra"
					}
					fs = append(fs, histFailure{Kind: c.Kind, Birth: c.Birth, Route: "count", Why: fmt.Sprintf("%s: count() is %s, the container holds %d entries", typ, n, len(want)), Got: n, Want: entriesString(want)})
				}
			}
			if mi == 0 || len(fs) < len(best) {
				best = fs
			}
			if len(fs) == 0 {
				break
			}
		}
		store := -1
		for i := range best {
			// the failure type (missing / extra / order) is part of the class: an entry that is lost and
			// an entry that is listed out of order are different defects
			typ := best[i].Why[:strings.Index(best[i].Why, ":")]
			best[i].Class = best[i].Route + "-" + typ
			if best[i].Route == "foreach" {
				store = i
			}
		}
		if store >= 0 {
			best[store].Class = "store-" + best[store].Why[:strings.Index(best[store].Why, ":")]
			var also []string
			for i, f := range best {
				if i != store {
					also = append(also, f.Route)
				}
			}
			if len(also) > 0 {
				best[store].Why += "; also wrong through: " + strings.Join(also, ", ")
			}
			best = []histFailure{best[store]}
		}
		fails = append(fails, best...)
	}
	return fails, o, ranged
}

func wantsFor(h []hop, as assign) func(kind string) [][]entry {
	return func(kind string) [][]entry {
		if kind == "object" {
			return [][]entry{model(h, as.Keys, unsetRemoves), model(h, as.Keys, unsetNulls), model(h, as.Keys, unsetIgnored)}
		}
		return [][]entry{model(h, as.Keys, unsetRemoves)}
	}
}

func evalHistory(h []hop, as assign, stats map[string]int) ([]histFailure, obsv, []container) {
	cs := buildContainers(h, as)
	f, o := evalScript(cs, wantsFor(h, as), stats)
	return f, o, cs
}

func histWorker(w *pool.W, arg json.RawMessage) {
	var spec struct{ Len, Keys, Shard, Of int }
	json.Unmarshal(arg, &spec)
	if spec.Keys == 0 {
		spec.Keys = 4
	}
	stats := map[string]int{}
	var n int64
	reported := map[string]bool{}
	// shards are contiguous blocks of the canonical enumeration: the extensions of one prefix sit
	// next to each other, so the verdict on a prefix is computed once per block
	total := 0
	eachHistory(spec.Len, spec.Keys, func(h []hop) { total++ })
	lo, hi := spec.Shard*total/spec.Of, (spec.Shard+1)*total/spec.Of
	idx := -1
	curPrefix, prefixFailed := "", map[string]map[string]bool{}
	prefixFails := func(h []hop, a assign, kind, birth string) bool {
		if hs := histString(h); hs != curPrefix {
			curPrefix, prefixFailed = hs, map[string]map[string]bool{}
		}
		failed, ok := prefixFailed[a.Name]
		if !ok {
			failed = map[string]bool{}
			fs, _, _ := evalHistory(h, a, map[string]int{})
			for _, f := range fs {
				failed[f.Kind+"/"+f.Birth] = true
			}
			prefixFailed[a.Name] = failed
		}
		return failed[kind+"/"+birth]
	}
	eachHistory(spec.Len, spec.Keys, func(h []hop) {
		idx++
		if idx < lo || idx >= hi {
			return
		}
		for ai, a := range assigns {
			if !w.Item(fmt.Sprintf("hist:%s:%s", a.Name, histString(h))) {
				continue
			}
			n++
			fs, o, cs := evalHistory(h, a, stats)
			for _, f := range fs {
				if reported[f.Kind+":"+f.Class] {
					continue
				}
				// A history whose proper prefix already fails on the same container says nothing new: the
				// prefix is enumerated in its own right (every length up to the bound is), and what
				// follows a first divergence is its consequence, not another defect.
				if f.Kind != "script" && len(h) > 1 && prefixFails(h[:len(h)-1], a, f.Kind, f.Birth) {
					stats["failures-derived-from-a-failing-prefix"]++
					continue
				}
				reported[f.Kind+":"+f.Class] = true
				script := ""
				for _, c := range cs {
					if c.Kind == f.Kind && c.Birth == f.Birth {
						script = c.Script
					}
				}
				emitRawFailure(w, f, fmt.Sprintf("history %s with keys %s", histString(h), a.Name), len(h), idx, ai, script, histCase{Hist: append([]hop(nil), h...), Assign: a.Name}, o)
			}
		}
	})
	emitStats(w, n, stats)
}

func emitStats(w *pool.W, n int64, stats map[string]int) {
	var ks []string
	for k := range stats {
		ks = append(ks, k)
	}
	sort.Strings(ks)
	st := map[string]int{}
	for _, k := range ks {
		st[k] = stats[k]
	}
	w.Emit(rec{Kind: "count", N: n, Stats: st})
}

// rawFail is what a worker reports: the class of the failure and the first case of its shard that
// shows it. Shards walk the canonical enumeration in order, so the smallest (Size, Idx, AssignIdx)
// over all reports is the first history of the whole enumeration that shows the class: the finding
// key is derived from that one, and every run (and both tiers) names one defect the same way.
type rawFail struct {
	HKind, Class, Birth, Route, Why, Got, Want, Where, Script string
	Size, Idx, AssignIdx                                      int
	Case                                                      histCase
}

func (r *rawFail) less(o *rawFail) bool {
	if (r.Case.Bulk != "") != (o.Case.Bulk != "") {
		return r.Case.Bulk == ""
	}
	if r.Size != o.Size {
		return r.Size < o.Size
	}
	if r.Idx != o.Idx {
		return r.Idx < o.Idx
	}
	return r.AssignIdx < o.AssignIdx
}

func (r *rawFail) key() string {
	if r.Case.Bulk != "" {
		// only a bulk history shows it (every history within the tier's length bound passes)
		return "history-order:" + r.HKind + ":" + r.Class + ":long-history"
	}
	return "history-order:" + r.HKind + ":" + r.Class + ":" + histString(r.Case.Hist)
}

func (r *rawFail) detail() string {
	return fmt.Sprintf("%s on a container born as %q (%s): route %s %s\n  enumerated: %s\n  insertion order: %s", r.Where, r.Birth, r.Script, r.Route, r.Why, r.Got, r.Want)
}

func clip(s string, n int) string {
	if len(s) > n {
		return s[:n] + "..."
	}
	return s
}

func emitRawFailure(w *pool.W, f histFailure, where string, size, idx, aidx int, script string, cs histCase, o obsv) {
	if f.Kind == "script" {
		w.Emit(rec{Kind: "fail", Key: "history-order:script-error", Clause: "insertion-order", Size: size, Case: cs,
			Detail: fmt.Sprintf("%s: %s: %s", where, f.Why, clip(f.Got, 1500))})
		return
	}
	w.Emit(rec{Kind: "histfail", Raw: &rawFail{HKind: f.Kind, Class: f.Class, Birth: f.Birth, Route: f.Route, Why: f.Why, Got: clip(f.Got, 600), Want: clip(f.Want, 600), Where: where, Script: clip(script, 400), Size: size, Idx: idx, AssignIdx: aidx, Case: cs}})
}

// ---- bulk histories: enough deletions to cross any lazy-compaction / rehash threshold ---------

type bulkSpec struct {
	N   int    `json:"n"`   // keys inserted first
	Del string `json:"del"` // which of them are unset: evens | first-half | last-half | all-but-last | all
	Re  string `json:"re"`  // which unset keys are inserted again: none | first | all-reversed | all
	Ext int    `json:"ext"` // brand-new keys appended at the end
}

func (b bulkSpec) String() string {
	return fmt.Sprintf("n=%d,del=%s,re=%s,ext=%d", b.N, b.Del, b.Re, b.Ext)
}

func bulkSpecs(quick bool) []bulkSpec {
	ns := []int{33, 64, 100}
	if !quick {
		ns = []int{9, 17, 33, 64, 65, 100, 129, 300}
	}
	var out []bulkSpec
	for _, n := range ns {
		for _, d := range []string{"evens", "first-half", "last-half", "all-but-last", "all"} {
			for _, r := range []string{"none", "first", "all-reversed", "all"} {
				for _, e := range []int{0, 2} {
					out = append(out, bulkSpec{n, d, r, e})
				}
			}
		}
	}
	return out
}

// bulkOps expands a spec into (key index, unset) ops over keys 0..N+Ext-1.
func bulkOps(b bulkSpec) (ops []hop) {
	for i := 0; i < b.N; i++ {
		ops = append(ops, hop{false, i})
	}
	var del []int
	for i := 0; i < b.N; i++ {
		switch b.Del {
		case "evens":
			if i%2 == 0 {
				del = append(del, i)
			}
		case "first-half":
			if i <= b.N/2 {
				del = append(del, i)
			}
		case "last-half":
			if i >= b.N/2 {
				del = append(del, i)
			}
		case "all-but-last":
			if i < b.N-1 {
				del = append(del, i)
			}
		case "all":
			del = append(del, i)
		}
	}
	for _, i := range del {
		ops = append(ops, hop{true, i})
	}
	switch b.Re {
	case "first":
		ops = append(ops, hop{false, del[0]})
	case "all":
		for _, i := range del {
			ops = append(ops, hop{false, i})
		}
	case "all-reversed":
		for j := len(del) - 1; j >= 0; j-- {
			ops = append(ops, hop{false, del[j]})
		}
	}
	for i := 0; i < b.Ext; i++ {
		ops = append(ops, hop{false, b.N + i})
	}
	return
}

// bulk keys: scattered k<j> strings ("str") or descending sparse ints ("int")
func bulkKey(style string, i int) akey {
	if style == "int" {
		s := strconv.Itoa(5000 - 7*i) // positive for every i the specs use (origami rejects negative indexes)
		return akey{s, s}
	}
	s := fmt.Sprintf("k%d", (i*37)%1009)
	return akey{strconv.Quote(s), s}
}

func bulkModel(ops []hop, style string, mode int) []entry {
	type slot struct {
		e    entry
		live bool
	}
	var es []slot
	at := map[string]int{}
	for i, o := range ops {
		k := bulkKey(style, o.K).Name
		v := strconv.Itoa(i + 1)
		j, ok := at[k]
		if o.Unset {
			switch mode {
			case unsetRemoves:
				if ok {
					es[j].live = false
					delete(at, k)
				}
				continue
			case unsetIgnored:
				continue
			}
			v = "null"
		}
		if ok {
			es[j].e.V = v
		} else {
			at[k] = len(es)
			es = append(es, slot{entry{k, v}, true})
		}
	}
	var out []entry
	for _, s := range es {
		if s.live {
			out = append(out, s.e)
		}
	}
	return out
}

func bulkContainers(ops []hop, style string) []container {
	var out []container
	add := func(kind, birth, init string, set func(k akey, v int) string, unset func(k akey) string) {
		tag := fmt.Sprintf("c%d", len(out)+1)
		var sb strings.Builder
		sb.WriteString(init)
		for i, o := range ops {
			k := bulkKey(style, o.K)
			if o.Unset {
				sb.WriteString(unset(k))
			} else {
				sb.WriteString(set(k, i+1))
			}
			if i%8 == 7 {
				sb.WriteString("\n")
			}
		}
		out = append(out, container{Tag: tag, Kind: kind, Birth: birth, Script: strings.ReplaceAll(sb.String(), "$@", "$"+tag), Subj: "$" + tag})
	}
	aset := func(k akey, v int) string { return fmt.Sprintf("$@[%s]=%d;", k.Lit, v) }
	aunset := func(k akey) string { return fmt.Sprintf("unset($@[%s]);", k.Lit) }
	add("array", "empty-literal", "$@ = []; ", aset, aunset)
	add("array", "null-vivified", "$@ = null; ", aset, aunset)
	add("array", "kv-literal", fmt.Sprintf("$@ = [%s => 0]; unset($@[%s]); ", strconv.Quote("seed"), strconv.Quote("seed")), aset, aunset)
	add("object", "stdClass", "$@ = new stdClass(); ",
		func(k akey, v int) string { return fmt.Sprintf("$@->{%s}=%d;", phpStr(k.Name), v) },
		func(k akey) string { return fmt.Sprintf("unset($@->{%s});", phpStr(k.Name)) })
	return out
}

func evalBulk(b bulkSpec, style string, stats map[string]int) ([]histFailure, obsv) {
	ops := bulkOps(b)
	cs := bulkContainers(ops, style)
	return evalScript(cs, func(kind string) [][]entry {
		if kind == "object" {
			return [][]entry{bulkModel(ops, style, unsetRemoves), bulkModel(ops, style, unsetNulls), bulkModel(ops, style, unsetIgnored)}
		}
		return [][]entry{bulkModel(ops, style, unsetRemoves)}
	}, stats)
}

func bulkWorker(w *pool.W, arg json.RawMessage) {
	var spec struct {
		Quick     bool
		Shard, Of int
	}
	json.Unmarshal(arg, &spec)
	stats := map[string]int{}
	var n int64
	reported := map[string]bool{}
	for i, b := range bulkSpecs(spec.Quick) {
		if i%spec.Of != spec.Shard {
			continue
		}
		for _, style := range []string{"str", "int"} {
			if !w.Item(fmt.Sprintf("bulk:%s:%s", style, b)) {
				continue
			}
			n++
			fs, o := evalBulk(b, style, stats)
			for _, f := range fs {
				if reported[f.Kind+":"+f.Class] {
					continue
				}
				reported[f.Kind+":"+f.Class] = true
				emitRawFailure(w, f, fmt.Sprintf("bulk history (insert %d keys, unset %s, insert again %s, append %d new keys; %s keys)", b.N, b.Del, b.Re, b.Ext, style), b.N, i, 0, "", histCase{Bulk: b.String(), Assign: style}, o)
			}
		}
	}
	emitStats(w, n, stats)
}
