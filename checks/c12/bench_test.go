package main

import (
	"os"
	"testing"
)

func BenchmarkExec(b *testing.B) {
	dir, _ := os.MkdirTemp("/dev/shm", "c12b")
	defer os.RemoveAll(dir)
	writeAutoFile(dir)
	nm := pickNames(0)
	h := sampleHistories()[0]
	for i := 0; i < b.N; i++ {
		execute(h, nm, dir, false)
	}
}
func BenchmarkWorld(b *testing.B) {
	dir, _ := os.MkdirTemp("/dev/shm", "c12b")
	defer os.RemoveAll(dir)
	writeAutoFile(dir)
	nm := pickNames(0)
	for i := 0; i < b.N; i++ {
		newWorld(nm, dir)
	}
}
