package main

import (
	"fmt"
	"os"
	"path/filepath"
	"regexp"
	"strings"

	"github.com/php-any/origami/data"
	"github.com/php-any/origami/parser"
	"github.com/php-any/origami/runtime"
	"github.com/php-any/origami/std"
	"github.com/php-any/origami/std/php"

	"verif/engine/runner"
)

// ---- concretisation (the seed only picks identifiers) --------------------------------------

var namePool = []string{"Zorbl", "Quixa", "Vemto", "Harnu", "Plecki", "Dwimo", "Jaxon", "Kyrel", "Mubra", "Nofti", "Ruvex", "Syldo"}

const (
	autoNS    = "Vfyns"
	autoClass = "Autol"    // F
	autoIface = "Shapi"    // G
	autoAid   = "ShapiAid" // Gb: declared in G's file
	autoSub   = "Circl"    // H extends F implements G
)

type names struct {
	Sym  [nSym]string
	Auto string // fully qualified autoloadable class F (the others are derived from the namespace)
}

func pickNames(seed int64) names {
	var n names
	off := int(((seed % int64(len(namePool))) + int64(len(namePool))) % int64(len(namePool)))
	for i := 0; i < nSym; i++ {
		n.Sym[i] = namePool[(off+i*5)%len(namePool)]
	}
	n.Auto = autoNS + "\\" + autoClass
	return n
}

func (n names) of(i int) string {
	switch i {
	case nameF:
		return n.Auto
	case nameG:
		return autoNS + "\\" + autoIface
	case nameH:
		return autoNS + "\\" + autoSub
	case nameGb:
		return autoNS + "\\" + autoAid
	}
	return n.Sym[i]
}

var unitFile = [nUnits]string{uF: autoClass + ".zy", uG: autoIface + ".zy", uH: autoSub + ".zy"}

// writeAutoFile creates the class-path directory: one file per unit.
func writeAutoFile(dir string) error {
	files := map[string]string{
		unitFile[uF]: "namespace " + autoNS + ";\nclass " + autoClass + " { const TAG = \"F\"; public function tag() { return \"F\"; } }\n",
		unitFile[uG]: "namespace " + autoNS + ";\ninterface " + autoIface + " { const TAG = \"G\"; }\nclass " + autoAid + " { const TAG = \"Gb\"; public function tag() { return \"Gb\"; } }\n",
		unitFile[uH]: "namespace " + autoNS + ";\nclass " + autoSub + " extends " + autoClass + " implements " + autoIface + " { const TAG = \"H\"; public function tag() { return \"H\"; } }\n",
	}
	for f, src := range files {
		if err := os.WriteFile(filepath.Join(dir, f), []byte(src), 0o644); err != nil {
			return err
		}
	}
	return nil
}

// ---- the real side: one base VM + request-scoped VMs ---------------------------------------

type world struct {
	nm       names
	dir      string
	bp       *parser.Parser
	base     data.VM
	temps    [maxSlots]*runtime.TempVM
	uncaught data.Control
	// pp caches, per VM, the parser used for the probe scripts of one observation round (one
	// PrepareParse per VM and round; definitions always get a parser of their own).
	pp [maxSlots]*parser.Parser
}

func newWorld(nm names, dir string) *world {
	w := &world{nm: nm, dir: dir}
	w.bp = parser.NewParser()
	w.base = runtime.NewVM(w.bp)
	std.Load(w.base)
	php.Load(w.base)
	w.base.SetThrowControl(func(acl data.Control) {
		if w.uncaught == nil {
			w.uncaught = acl
		}
	})
	w.base.AddNamespace(autoNS, dir)
	return w
}

func (w *world) vm(v int) data.VM {
	if v == 0 {
		return w.base
	}
	if w.temps[v] == nil {
		return nil
	}
	return w.temps[v]
}

// parserFor gives the parser a request would use on that VM: the base parser's clone, bound to
// the temporary VM through PrepareParse exactly as TempVM.LoadAndRun does for every file.
func (w *world) parserFor(v int) *parser.Parser {
	if v == 0 {
		return w.bp.Clone()
	}
	return w.temps[v].PrepareParse(w.bp)
}

type runRes struct {
	Kind string // ok | throw | panic | fuel | control | exit
	Out  string
	Msg  string
}

func (w *world) newRound() { w.pp = [maxSlots]*parser.Parser{} }

func (w *world) probeParser(v int) *parser.Parser {
	if w.pp[v] == nil {
		w.pp[v] = w.parserFor(v)
	}
	return w.pp[v]
}

// run parses src with a parser bound to VM v and executes it on a context of that VM.
func (w *world) run(v int, src, file string, probe bool) runRes {
	var out strings.Builder
	saved := data.WriteOutput
	data.WriteOutput = func(s string) { out.WriteString(s) }
	w.uncaught = nil
	g := runner.Guard(func() {
		var p *parser.Parser
		if probe {
			p = w.probeParser(v)
		} else {
			p = w.parserFor(v)
		}
		prog, acl := p.ParseString(src, file)
		if acl != nil {
			panic(acl)
		}
		ctx := w.vm(v).CreateContext(p.GetVariables())
		_, acl = prog.GetValue(ctx)
		if acl == nil {
			acl = w.uncaught
		}
		if acl != nil {
			panic(acl)
		}
	})
	data.WriteOutput = saved
	r := runRes{Kind: g.Kind, Out: out.String(), Msg: g.Msg}
	if g.Kind == "control" && g.Class != "" {
		r.Kind = "throw"
	}
	if g.Kind == "panic" {
		r.Msg = g.PanicKey
	}
	return r
}

// loadFile writes the definitions file of op #i (class <name> + function <name>, both tagged d<i>)
// and loads it the way include/autoload do: vm.LoadAndRun(file).
func (w *world) loadFile(v, i, name int) runRes {
	id := fmt.Sprintf("d%d", i)
	sub := filepath.Join(w.dir, fmt.Sprintf("defs-%d", os.Getpid()))
	file := filepath.Join(sub, fmt.Sprintf("%s_n%d.zy", id, name))
	if !w.written(file) {
		os.MkdirAll(sub, 0o755)
		src := defSource(kClass, w.nm.of(name), id) + defSource(kFunc, w.nm.of(name), id)
		if err := os.WriteFile(file, []byte(src), 0o644); err != nil {
			panic(err)
		}
		wroteFiles[file] = true
	}
	var out strings.Builder
	saved := data.WriteOutput
	data.WriteOutput = func(s string) { out.WriteString(s) }
	w.uncaught = nil
	g := runner.Guard(func() {
		_, acl := w.vm(v).LoadAndRun(file)
		if acl == nil {
			acl = w.uncaught
		}
		if acl != nil {
			panic(acl)
		}
	})
	data.WriteOutput = saved
	return runRes{Kind: g.Kind, Out: out.String(), Msg: g.Msg + g.PanicKey}
}

// loadAuto loads the file of a class-path unit directly through the VM (what `require` of that file
// does), instead of letting the class path manager find it.
func (w *world) loadAuto(v, unit int) runRes {
	file := filepath.Join(w.dir, unitFile[unit])
	var out strings.Builder
	saved := data.WriteOutput
	data.WriteOutput = func(s string) { out.WriteString(s) }
	w.uncaught = nil
	g := runner.Guard(func() {
		_, acl := w.vm(v).LoadAndRun(file)
		if acl == nil {
			acl = w.uncaught
		}
		if acl != nil {
			panic(acl)
		}
	})
	data.WriteOutput = saved
	return runRes{Kind: g.Kind, Out: out.String(), Msg: g.Msg + g.PanicKey}
}

// ---- the handler route ------------------------------------------------------------------------

var reqSeq int // makes the path of every required file unique in the process (include keeps a process-global cache by path)

// handlerBoot returns the boot script that leaves the callable in $h. BODY is a statement list,
// EXPR the same work as one expression (arrow functions have no statement body).
func handlerBoot(form, i int, body, expr string) string {
	cls := fmt.Sprintf("VhkS%d", i)
	fn := fmt.Sprintf("vhkf%d", i)
	switch form {
	case fPlain:
		return "$h = function($t) { " + body + " };\n"
	case fUse:
		return "$x = 1;\n$h = function($t) use ($x) { $y = $x; " + body + " };\n"
	case fUseRef:
		return "$x = 1;\n$h = function($t) use (&$x) { $x = $x + 1; " + body + " };\n"
	case fStatic:
		return "$h = static function($t) { " + body + " };\n"
	case fArrow:
		return "$h = fn($t) => " + expr + ";\n"
	case fNested:
		return "$x = 1;\n$h = function($t) use ($x) { $z = $x; $g = function($u) use ($x) { $y = $x; " + body + " }; return $g($t); };\n"
	case fViaFunc:
		return "function " + fn + "($t) { " + body + " }\n$h = function($t) { return " + fn + "($t); };\n"
	case fViaStatic:
		return "class " + cls + " { public static function run($t) { " + body + " } }\n$h = function($t) { return " + cls + "::run($t); };\n"
	case fViaNew:
		return "class " + cls + " { public function run($t) { " + body + " } }\n$h = function($t) { $s = new " + cls + "(); return $s->run($t); };\n"
	case fInMethod:
		return "class " + cls + " { public function mk() { return function($t) { " + body + " }; } }\n$k = new " + cls + "();\n$h = $k->mk();\n"
	case fInStatic:
		return "class " + cls + " { public static function mk() { return function($t) { " + body + " }; } }\n$h = " + cls + "::mk();\n"
	case fObjMethod:
		return "class " + cls + " { public function run($t) { " + body + " } }\n$s = new " + cls + "();\n$h = function($t) use ($s) { return $s->run($t); };\n"
	}
	panic("unknown handler form")
}

// handler: boot on the base VM, then serve one request on VM v exactly as HotHandler.ServeHTTP does
// (registration context -> per-request child context -> SetVM(request VM) -> Call).
func (w *world) handler(v, form, i, name int) runRes {
	id := fmt.Sprintf("d%d", i)
	reqSeq++
	sub := filepath.Join(w.dir, fmt.Sprintf("req-%d", os.Getpid()))
	os.MkdirAll(sub, 0o755)
	file := filepath.Join(sub, fmt.Sprintf("%s_r%d.zy", id, reqSeq))
	nm := w.nm.of(name)
	fileSrc := defSource(kClass, nm, id)
	body := strings.TrimSpace(defSource(kFunc, nm, id)) + " require '" + file + "'; $o = new \\" + w.nm.of(nameF) + "(); return 1;"
	expr := "[require '" + file + "', new \\" + w.nm.of(nameF) + "()]"
	if form == fArrow {
		// no statement body: the function comes from the file too (and the file returns a value:
		// an array literal element without one crashes the interpreter, which is not this property)
		fileSrc += defSource(kFunc, nm, id) + "return 1;\n"
	}
	if err := os.WriteFile(file, []byte(fileSrc), 0o644); err != nil {
		panic(err)
	}
	defer os.Remove(file)
	var out strings.Builder
	saved := data.WriteOutput
	data.WriteOutput = func(s string) { out.WriteString(s) }
	w.uncaught = nil
	g := runner.Guard(func() {
		p := w.parserFor(0)
		prog, acl := p.ParseString(handlerBoot(form, i, body, expr), id+"-boot.zy")
		if acl != nil {
			panic(acl)
		}
		vars := p.GetVariables()
		bootCtx := w.base.CreateContext(vars)
		if _, acl = prog.GetValue(bootCtx); acl == nil {
			acl = w.uncaught
		}
		if acl != nil {
			panic(acl)
		}
		var fv *data.FuncValue
		for _, vr := range vars {
			if vr.GetName() == "h" {
				if val, ok := bootCtx.GetIndexValue(vr.GetIndex()); ok {
					fv, _ = val.(*data.FuncValue)
				}
			}
		}
		if fv == nil {
			panic("boot script left no callable in $h")
		}
		fvars := fv.Value.GetVariables()
		regCtx := bootCtx.CreateContext(fvars) // newHandler: Handler{Ctx: ctx.CreateContext(vars)}
		ctx := regCtx.CreateContext(fvars)     // ServeHTTP: f.Ctx.CreateContext(vars)
		if v != 0 {
			ctx.SetVM(w.vm(v)) // ServeHTTP: ctx.SetVM(NewTempVM(...))
		}
		if len(fvars) > 0 {
			ctx.SetVariableValue(data.NewVariable("t", 0, nil), data.NewStringValue("req"))
		}
		if _, acl = fv.Value.Call(ctx); acl == nil {
			acl = w.uncaught
		}
		if acl != nil {
			panic(acl)
		}
	})
	data.WriteOutput = saved
	return runRes{Kind: g.Kind, Out: out.String(), Msg: g.Msg + g.PanicKey}
}

var wroteFiles = map[string]bool{}

func (w *world) written(file string) bool { return wroteFiles[file] }

func defSource(kind int, name, id string) string {
	switch kind {
	case kClass:
		return fmt.Sprintf("class %s { const TAG = \"%s\"; public function tag() { return \"%s\"; } }\n", name, id, id)
	case kIface:
		return fmt.Sprintf("interface %s { const TAG = \"%s\"; }\n", name, id)
	default:
		return fmt.Sprintf("function %s() { return \"%s\"; }\n", name, id)
	}
}

// ---- probes ---------------------------------------------------------------------------------

type probe struct {
	Name   string
	Kinds  []int
	Bool   bool // answers y/n instead of a definition identity
	Script bool
	NoLoad bool // does not trigger autoloading (only matters for the class-path family)
}

// autoKind: kind of each class-path name; a probe applies to it when it looks that kind up.
var autoKind = [nNames]int{nameF: kClass, nameG: kIface, nameH: kClass, nameGb: kClass}

var autoNames = []int{nameF, nameG, nameGb, nameH}

// scriptD: the script probes of phase D for the names other than F.
var scriptD = [nNames]map[string]bool{
	nameG:  {"interface_exists": true, "::TAG": true},
	nameGb: {"new": true},
	nameH:  {"new": true, "class_exists(,false)": true},
}

func (p probe) forAuto(name int) bool {
	for _, k := range p.Kinds {
		if k == autoKind[name] {
			return true
		}
	}
	return false
}

var probes = []probe{
	{Name: "GetClass", Kinds: []int{kClass}, NoLoad: true},
	{Name: "GetOrLoadClass", Kinds: []int{kClass}},
	{Name: "GetInterface", Kinds: []int{kIface}, NoLoad: true},
	{Name: "GetOrLoadInterface", Kinds: []int{kIface}},
	{Name: "LoadPkg", Kinds: []int{kClass, kIface}},
	{Name: "GetFunc", Kinds: []int{kFunc}, NoLoad: true},
	{Name: "class_exists", Kinds: []int{kClass}, Bool: true, Script: true},
	{Name: "class_exists(,false)", Kinds: []int{kClass}, Bool: true, Script: true, NoLoad: true},
	{Name: "interface_exists", Kinds: []int{kIface}, Bool: true, Script: true},
	{Name: "function_exists", Kinds: []int{kFunc}, Bool: true, Script: true, NoLoad: true},
	{Name: "new", Kinds: []int{kClass}, Script: true},
	{Name: "call", Kinds: []int{kFunc}, Script: true, NoLoad: true},
	{Name: "::TAG", Kinds: []int{kClass, kIface}, Script: true},
}

const (
	pNew  = 10
	pCall = 11
	pTag  = 12
)

// spellings of a name used by the probes: the exact one (full oracle) and two case variants
// (leak-only oracle: whether a VM finds its own / the base's definitions under a folded spelling
// is left open, but it must never find a definition owned by another temporary VM).
const (
	spExact = iota
	spLower
	spUpper
)

var spellLabel = [3]string{"", "~lower", "~UPPER"}

// judgeVariant is the leak-only oracle for a case-variant spelling.
func judgeVariant(m *model, h []Op, v int, p probe, name int, got string) (rel, exp, cat string) {
	al := m.allowed(v, p.Kinds, name)
	exp = "unresolved or one of " + ids(al)
	switch {
	case got == "y":
		if len(al) == 0 {
			if v == 0 {
				return "leak-to-base", "n", ""
			}
			return "leak-to-temp", "n", ""
		}
		return "", exp, "variant:resolved"
	case strings.HasPrefix(got, "d"):
		var d int
		if _, err := fmt.Sscanf(got, "d%d", &d); err != nil {
			return "", exp, "variant:other"
		}
		for _, a := range al {
			if a == d {
				return "", exp, "variant:resolved"
			}
		}
		if d < 0 || d >= len(h) || !h[d].defines() {
			return "foreign-definition", exp, ""
		}
		if v == 0 {
			return "leak-to-base", exp, ""
		}
		if m.status[h[d].VM] == stDead {
			return "leak-from-discarded", exp, ""
		}
		return "leak-to-temp", exp, ""
	default:
		return "", exp, "variant:unresolved"
	}
}

func srcID(src string) string {
	b := filepath.Base(src)
	switch b {
	case unitFile[uF]:
		return "F"
	case unitFile[uG]:
		return "G"
	case unitFile[uH]:
		return "H"
	}
	// "d7.zy", "d7_n1.zy" (definitions file), "d7.zy(1) : eval()'d code"
	if m := reDefSrc.FindString(b); m != "" {
		return m
	}
	return "?src:" + b
}

var reDefSrc = regexp.MustCompile(`^d\d+`)

type fromer interface{ GetFrom() data.From }

func identOf(v any) string {
	if f, ok := v.(fromer); ok {
		if fr := f.GetFrom(); fr != nil {
			return srcID(fr.GetSource())
		}
	}
	return fmt.Sprintf("?%T", v)
}

// observe runs one probe; the answer is "-" (does not resolve), "y"/"n", a definition id ("d3",
// "F") or "!<reason>" for a crash.
func (w *world) observe(v int, pi int, name int, spell int) (val string, note string) {
	p := probes[pi]
	nm := w.nm.of(name)
	switch spell {
	case spLower:
		nm = strings.ToLower(nm)
	case spUpper:
		nm = strings.ToUpper(nm)
	}
	vm := w.vm(v)
	if !p.Script {
		g := runner.Guard(func() {
			switch p.Name {
			case "GetClass":
				if c, ok := vm.GetClass(nm); ok && c != nil {
					val = identOf(c)
				}
			case "GetOrLoadClass":
				c, acl := vm.GetOrLoadClass(nm)
				if acl == nil && c != nil {
					val = identOf(c)
				} else if acl != nil {
					note = acl.AsString()
				}
			case "GetInterface":
				if c, ok := vm.GetInterface(nm); ok && c != nil {
					val = identOf(c)
				}
			case "GetOrLoadInterface":
				c, acl := vm.GetOrLoadInterface(nm)
				if acl == nil && c != nil {
					val = identOf(c)
				} else if acl != nil {
					note = acl.AsString()
				}
			case "LoadPkg":
				c, acl := vm.LoadPkg(nm)
				if acl == nil && c != nil {
					val = identOf(c)
				} else if acl != nil {
					note = acl.AsString()
				}
			case "GetFunc":
				if f, ok := vm.GetFunc(nm); ok && f != nil {
					val = identOf(f)
				}
			}
		})
		if g.Kind != "ok" {
			return "!" + g.Kind + ":" + g.PanicKey, g.Msg
		}
		if val == "" {
			val = "-"
		}
		return val, note
	}
	var src string
	switch p.Name {
	case "class_exists":
		src = "echo class_exists('" + nm + "') ? \"y\" : \"n\";"
	case "class_exists(,false)":
		src = "echo class_exists('" + nm + "', false) ? \"y\" : \"n\";"
	case "interface_exists":
		src = "echo interface_exists('" + nm + "') ? \"y\" : \"n\";"
	case "function_exists":
		src = "echo function_exists('" + nm + "') ? \"y\" : \"n\";"
	case "new":
		src = "$o = new \\" + nm + "(); echo $o->tag();"
	case "call":
		src = "echo " + nm + "();"
	case "::TAG":
		src = "echo \\" + nm + "::TAG;"
	}
	r := w.run(v, src, "probe.zy", true)
	switch r.Kind {
	case "ok":
		if r.Out == "" {
			return "?empty", ""
		}
		return r.Out, ""
	case "throw", "control":
		return "-", r.Msg
	default:
		return "!" + r.Kind + ":" + r.Msg, r.Msg
	}
}

// ---- judging one answer against the model --------------------------------------------------

type failure struct {
	Label string `json:"label"` // relation:kind
	VM    int    `json:"vm"`
	Probe string `json:"probe"`
	Name  string `json:"name"`
	Exp   string `json:"expected"`
	Got   string `json:"observed"`
	Note  string `json:"note,omitempty"`
	Step  int    `json:"step"` // index of the op after which it was seen (len(history)-1 = final matrix)
}

func kindsLabel(k []int) string {
	if len(k) == 1 {
		return kindName[k[0]]
	}
	return "class|interface"
}

func ids(a []int) string {
	s := make([]string, len(a))
	for i, d := range a {
		s[i] = fmt.Sprintf("d%d", d)
	}
	return "{" + strings.Join(s, ",") + "}"
}

// judge returns "" when the observation is admissible, else the relation violated; cat is the
// outcome category (for the vacuity guard).
func judge(m *model, h []Op, v int, p probe, name int, got string) (rel, exp, cat string) {
	if name >= nSym {
		return judgeAuto(m, v, p, name, got)
	}
	al := m.allowed(v, p.Kinds, name)
	mu := m.must(v, p.Kinds, name) // al minus the eval-requested definitions (those may stay unresolved)
	who := func(d int) string {    // relation for a definition that must not be visible on v
		if d < 0 || d >= len(h) || !h[d].defines() {
			return "foreign-definition"
		}
		if v == 0 {
			return "leak-to-base"
		}
		if m.status[h[d].VM] == stDead {
			return "leak-from-discarded"
		}
		return "leak-to-temp"
	}
	hidden := func() string {
		if v == 0 {
			return "base-lost-own"
		}
		if len(m.must(0, p.Kinds, name)) > 0 {
			return "base-def-hidden"
		}
		return "own-def-hidden"
	}
	if p.Bool {
		present := len(al) > 0
		switch {
		case got == "y" && present:
			return "", "y", "bool:present"
		case got == "y":
			if v == 0 {
				return "leak-to-base", "n", ""
			}
			return "leak-to-temp", "n", ""
		case !present:
			// "n", or the probe threw / crashed: the name does not resolve, which is what is expected
			if got == "n" {
				return "", "n", "bool:absent"
			}
			return "", "n", "bool:absent-throw"
		case len(mu) == 0:
			return "", "y or n (requested through eval only)", "eval:unresolved"
		default:
			return hidden(), "y", ""
		}
	}
	if len(al) == 0 {
		switch {
		case got == "-":
			return "", "-", "id:absent"
		case strings.HasPrefix(got, "!"):
			return "", "-", "id:absent-crash"
		case strings.HasPrefix(got, "d"):
			var d int
			fmt.Sscanf(got, "d%d", &d)
			return who(d), "-", ""
		default:
			return "foreign-definition", "-", ""
		}
	}
	for _, d := range al {
		if got == fmt.Sprintf("d%d", d) {
			cat = "id:own"
			if h[d].VM == 0 {
				cat = "id:base-on-base"
				if v != 0 {
					cat = "id:base-through-temp"
				}
			}
			if len(al) > 1 {
				cat = "open-choice->" + vmKind(h[d].VM)
			}
			if h[d].K == opEval {
				cat = "eval:resolved-on-" + vmKind(v)
			}
			return "", ids(al), cat
		}
	}
	if got == "-" || strings.HasPrefix(got, "!") {
		if len(mu) == 0 {
			return "", "unresolved or one of " + ids(al), "eval:unresolved"
		}
		return hidden(), "one of " + ids(al), ""
	}
	if strings.HasPrefix(got, "d") {
		var d int
		fmt.Sscanf(got, "d%d", &d)
		return who(d), "one of " + ids(al), ""
	}
	return "foreign-definition", "one of " + ids(al), ""
}

// autoAnswers: what a probe may print for a class-path name that resolves.
var autoAnswers = [nNames][]string{nameF: {"F", "y"}, nameG: {"G", "y"}, nameH: {"H", "y"}, nameGb: {"G", "Gb", "y"}}

// judgeAuto judges a probe of a class-path name and, for a loading probe, advances the model (the
// lookup is a trigger). Presence only: all copies of a unit come from the same file.
func judgeAuto(m *model, v int, p probe, name int, got string) (rel, exp, cat string) {
	u := unitOf[name]
	resolved := false
	for _, a := range autoAnswers[name] {
		if got == a {
			resolved = true
		}
	}
	if !resolved && got != "-" && got != "n" && !strings.HasPrefix(got, "!") {
		return "foreign-definition", "one of " + strings.Join(autoAnswers[name], "/") + " or unresolved", ""
	}
	kind := kindName[autoKind[name]]
	_ = kind
	sure, may := m.sure(v, u), m.may(v, u)
	if !p.NoLoad && autoloadable(name) {
		// loading lookup: the file is on the class path, so the name must resolve, now and ever after
		if !resolved {
			if sure {
				return hiddenAuto(m, v, u), nameLabel(name) + " (loaded for this VM before)", ""
			}
			return "autoload-broken", nameLabel(name) + " (file is on the class path; every VM could load it before)", ""
		}
		if sure {
			return "", nameLabel(name), "auto:pure-lookup"
		}
		m.trigger(v, u)
		return "", nameLabel(name), "auto:resolved"
	}
	switch {
	case resolved && !may:
		exp = "unresolved (nobody loaded " + nameLabel(unitName[u]) + " for this VM: only other temporary VMs did)"
		if v == 0 {
			return "leak-to-base", exp, ""
		}
		return "leak-to-temp", exp, ""
	case resolved && sure:
		return "", nameLabel(name), "auto:visible"
	case resolved:
		return "", nameLabel(name) + " or unresolved (autoloaded through another temporary VM: where it lands is left open)", "auto:open-resolved"
	case sure:
		return hiddenAuto(m, v, u), nameLabel(name), ""
	case may:
		return "", nameLabel(name) + " or unresolved", "auto:open-unresolved"
	default:
		return "", "unresolved", "auto:absent"
	}
}

func hiddenAuto(m *model, v, u int) string {
	if v == 0 {
		return "base-lost-own"
	}
	if m.baseYes[u] {
		return "base-def-hidden"
	}
	return "own-def-hidden"
}

func vmKind(v int) string {
	if v == 0 {
		return "base"
	}
	return "temp"
}

// ---- executing a history -------------------------------------------------------------------

type execResult struct {
	Fails []failure
	Obs   []string // final observation vector (canonicalised ids)
	Cats  map[string]int
	Raw   []string // human readable final matrix rows
}

// canonID rewrites a definition id into an owner-relative form so that observation vectors of
// different histories reaching the same situation are equal.
func canonID(m *model, h []Op, got string) string {
	if !strings.HasPrefix(got, "d") {
		return got
	}
	var d int
	if _, err := fmt.Sscanf(got, "d%d", &d); err != nil {
		return got
	}
	if v, k, n, ord, ok := m.owner(d); ok {
		return fmt.Sprintf("%d.%d.%d.%d", v, k, n, ord)
	}
	if d >= 0 && d < len(h) && h[d].defines() {
		return fmt.Sprintf("dead%d.%d.%d", h[d].VM, h[d].Kind, h[d].Name)
	}
	return got
}

// execute replays h on fresh real VMs. Intermediate lookup/new/call ops are judged when they run;
// the full observation matrix is taken after the last op.
func execute(h []Op, nm names, dir string, wantRaw bool) execResult {
	res := execResult{Cats: map[string]int{}}
	// fuel stays disarmed (a third of the run time otherwise): no op here loops; the pool's hang
	// watchdog is the backstop and reports a hung worker as a worker death.
	w := newWorld(nm, dir)
	m := newModel()
	usedNames := func() int {
		if m.used == 0 {
			return 1
		}
		return m.used
	}
	var ever [nSym]bool // names some VM (live or discarded) has defined so far
	var check func(step, v, pi, name int, final bool)
	// variant probes: same probe under the all-lower / all-upper spelling, leak-only oracle.
	checkV := func(step, v, pi, name, spell int, final bool) {
		p := probes[pi]
		got, note := w.observe(v, pi, name, spell)
		rel, exp, cat := judgeVariant(m, h, v, p, name, got)
		if rel != "" {
			res.Fails = append(res.Fails, failure{Label: rel + ":" + kindsLabel(p.Kinds) + "~case", VM: v, Probe: p.Name, Name: nameLabel(name) + spellLabel[spell], Exp: exp, Got: got, Note: note, Step: step})
		} else {
			res.Cats[cat]++
		}
		if final {
			res.Obs = append(res.Obs, canonID(m, h, got))
			if wantRaw && got != "-" && got != "n" {
				res.Raw = append(res.Raw, fmt.Sprintf("%s %s(%s%s) = %s  [allowed %s]", vmLabel(v), p.Name, nameLabel(name), spellLabel[spell], got, exp))
			}
		}
	}
	// variantRound: every live VM looks every defined name up under the variant spellings. With
	// scripts=false only the Go-level lookups run (cheap "trigger" pass: afterwards each owner has
	// looked its own names up under each variant, whatever the VM order).
	variantRound := func(step int, scripts, final bool) {
		for _, v := range m.live() {
			for n := 0; n < nSym; n++ {
				if !ever[n] {
					continue
				}
				for _, sp := range []int{spLower, spUpper} {
					for pi, p := range probes {
						if p.Script && !scripts {
							continue
						}
						checkV(step, v, pi, n, sp, final)
					}
				}
			}
		}
	}
	// autoRound observes the class-path family in phases, so that a lookup which must be pure is
	// told apart from one that legitimately loads a file:
	//   A  non-loading Go lookups of every class-path name on every VM (sweep)
	//   B  every VM (temps oldest first, base last) looks up, through every loading route, the names
	//      it surely resolves already — own direct loads, own earlier autoloads, the base's — then
	//      sweep again: nothing may have become visible anywhere else
	//   C  every VM in the same order asks for all names (first use = autoload trigger), sweep after
	//      each VM. Go API only — i.e. with whatever parser binding the preceding ops left on that
	//      TempVM (probe scripts re-bind it) and before the base has loaded anything.
	//   D  (final observation only) script probes; by now the base has loaded every unit, so every
	//      VM must resolve everything: all script routes for F, one or two for the others; last sweep.
	autoRound := func(step int, final bool) {
		order := append(m.live()[1:], 0)
		sweep := func() {
			for _, v := range m.live() {
				for _, a := range autoNames {
					for pi, p := range probes {
						if !p.Script && p.NoLoad && p.forAuto(a) {
							check(step, v, pi, a, false)
						}
					}
				}
			}
		}
		sweep()
		for _, v := range order {
			for _, a := range autoNames {
				if !m.sure(v, unitOf[a]) {
					continue
				}
				for pi, p := range probes {
					if !p.Script && !p.NoLoad && p.forAuto(a) {
						check(step, v, pi, a, false)
					}
				}
			}
		}
		sweep()
		for _, v := range order {
			for _, a := range autoNames {
				for pi, p := range probes {
					if !p.Script && p.forAuto(a) {
						check(step, v, pi, a, final)
					}
				}
			}
			sweep()
		}
		if !final {
			return
		}
		for _, v := range m.live() {
			for _, a := range autoNames {
				for pi, p := range probes {
					if p.Script && p.forAuto(a) && (a == nameF || scriptD[a][p.Name]) {
						check(step, v, pi, a, true)
					}
				}
			}
		}
		sweep()
	}
	check = func(step, v, pi, name int, final bool) {
		p := probes[pi]
		got, note := w.observe(v, pi, name, spExact)
		rel, exp, cat := judge(m, h, v, p, name, got)
		if rel != "" {
			res.Fails = append(res.Fails, failure{Label: rel + ":" + kindsLabel(p.Kinds), VM: v, Probe: p.Name, Name: nameLabel(name), Exp: exp, Got: got, Note: note, Step: step})
		} else {
			res.Cats[cat]++
		}
		if final {
			res.Obs = append(res.Obs, canonID(m, h, got))
			if wantRaw {
				res.Raw = append(res.Raw, fmt.Sprintf("%s %s(%s) = %s  [allowed %s]", vmLabel(v), p.Name, nameLabel(name), got, exp))
			}
		}
	}
	for i, o := range h {
		w.newRound()
		switch o.K {
		case opNewTemp:
			slot := m.created + 1
			t, _ := runtime.NewTempVM(w.base).(*runtime.TempVM)
			t.PrepareParse(w.bp)
			w.temps[slot] = t
		case opDiscard:
			w.temps[o.VM] = nil
		case opDefine:
			id := fmt.Sprintf("d%d", i)
			w.run(o.VM, defSource(o.Kind, nm.of(o.Name), id), id+".zy", false)
		case opLoad:
			if o.Name >= nSym {
				w.loadAuto(o.VM, unitOf[o.Name])
			} else {
				w.loadFile(o.VM, i, o.Name)
			}
		case opHandler:
			r := w.handler(o.VM, o.Form, i, o.Name)
			res.Cats["handler:"+formName[o.Form]+":"+r.Kind]++
		case opEval:
			id := fmt.Sprintf("d%d", i)
			src := ""
			for _, k := range []int{kClass, kFunc, kIface} {
				src += "eval('" + strings.TrimSpace(defSource(k, nm.of(o.Name), id)) + "');\n"
			}
			w.run(o.VM, src, id+".zy", false)
		case opLookup:
			// judged against the model as it is before the op: the lookups themselves advance it
			autoRound(i, false)
		case opNew:
			if o.Name >= nSym {
				pi := pNew
				if autoKind[o.Name] == kIface {
					pi = pTag
				}
				check(i, o.VM, pi, o.Name, false)
			}
		}
		m.apply(o, i)
		if o.defines() {
			ever[o.Name] = true
		}
		switch o.K {
		case opLookup:
			for _, v := range m.live() {
				for n := 0; n < usedNames(); n++ {
					for pi, p := range probes {
						if !p.Script {
							check(i, v, pi, n, false)
						}
					}
				}
			}
		case opNew:
			if o.Name < nSym {
				check(i, o.VM, pNew, o.Name, false)
			}
		case opCall:
			check(i, o.VM, pCall, o.Name, false)
		}
	}
	last := len(h) - 1
	w.newRound()
	autoRound(last, true)
	for _, v := range m.live() {
		for n := 0; n < nSym; n++ {
			for pi := range probes {
				check(last, v, pi, n, true)
			}
		}
	}
	// case-variant spellings: a Go-level pass in which every VM (so also every owner) looks the
	// variants up, then the full probe set for everybody — so "owner first, then the others" is
	// realised for every owner regardless of VM order.
	variantRound(last, false, false)
	variantRound(last, true, true)
	return res
}
