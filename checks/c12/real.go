package main

import (
	"fmt"
	"os"
	"path/filepath"
	"regexp"
	"strings"

	"github.com/php-any/origami/data"
	"github.com/php-any/origami/parser"
	"github.com/php-any/origami/runtime"
	"github.com/php-any/origami/std"
	"github.com/php-any/origami/std/php"

	"verif/engine/runner"
)

// ---- concretisation (the seed only picks identifiers) --------------------------------------

var namePool = []string{"Zorbl", "Quixa", "Vemto", "Harnu", "Plecki", "Dwimo", "Jaxon", "Kyrel", "Mubra", "Nofti", "Ruvex", "Syldo"}

const (
	autoNS    = "Vfyns"
	autoClass = "Autol"
)

type names struct {
	Sym  [nSym]string
	Auto string // fully qualified autoloadable class
}

func pickNames(seed int64) names {
	var n names
	off := int(((seed % int64(len(namePool))) + int64(len(namePool))) % int64(len(namePool)))
	for i := 0; i < nSym; i++ {
		n.Sym[i] = namePool[(off+i*5)%len(namePool)]
	}
	n.Auto = autoNS + "\\" + autoClass
	return n
}

func (n names) of(i int) string {
	if i == nameF {
		return n.Auto
	}
	return n.Sym[i]
}

// autoDir creates the directory holding the autoloadable class file.
func writeAutoFile(dir string) error {
	src := "namespace " + autoNS + ";\nclass " + autoClass + " { const TAG = \"F\"; public function tag() { return \"F\"; } }\n"
	return os.WriteFile(filepath.Join(dir, autoClass+".zy"), []byte(src), 0o644)
}

// ---- the real side: one base VM + request-scoped VMs ---------------------------------------

type world struct {
	nm       names
	dir      string
	bp       *parser.Parser
	base     data.VM
	temps    [maxSlots]*runtime.TempVM
	uncaught data.Control
	// pp caches, per VM, the parser used for the probe scripts of one observation round (one
	// PrepareParse per VM and round; definitions always get a parser of their own).
	pp [maxSlots]*parser.Parser
}

func newWorld(nm names, dir string) *world {
	w := &world{nm: nm, dir: dir}
	w.bp = parser.NewParser()
	w.base = runtime.NewVM(w.bp)
	std.Load(w.base)
	php.Load(w.base)
	w.base.SetThrowControl(func(acl data.Control) {
		if w.uncaught == nil {
			w.uncaught = acl
		}
	})
	w.base.AddNamespace(autoNS, dir)
	return w
}

func (w *world) vm(v int) data.VM {
	if v == 0 {
		return w.base
	}
	if w.temps[v] == nil {
		return nil
	}
	return w.temps[v]
}

// parserFor gives the parser a request would use on that VM: the base parser's clone, bound to
// the temporary VM through PrepareParse exactly as TempVM.LoadAndRun does for every file.
func (w *world) parserFor(v int) *parser.Parser {
	if v == 0 {
		return w.bp.Clone()
	}
	return w.temps[v].PrepareParse(w.bp)
}

type runRes struct {
	Kind string // ok | throw | panic | fuel | control | exit
	Out  string
	Msg  string
}

func (w *world) newRound() { w.pp = [maxSlots]*parser.Parser{} }

func (w *world) probeParser(v int) *parser.Parser {
	if w.pp[v] == nil {
		w.pp[v] = w.parserFor(v)
	}
	return w.pp[v]
}

// run parses src with a parser bound to VM v and executes it on a context of that VM.
func (w *world) run(v int, src, file string, probe bool) runRes {
	var out strings.Builder
	saved := data.WriteOutput
	data.WriteOutput = func(s string) { out.WriteString(s) }
	w.uncaught = nil
	g := runner.Guard(func() {
		var p *parser.Parser
		if probe {
			p = w.probeParser(v)
		} else {
			p = w.parserFor(v)
		}
		prog, acl := p.ParseString(src, file)
		if acl != nil {
			panic(acl)
		}
		ctx := w.vm(v).CreateContext(p.GetVariables())
		_, acl = prog.GetValue(ctx)
		if acl == nil {
			acl = w.uncaught
		}
		if acl != nil {
			panic(acl)
		}
	})
	data.WriteOutput = saved
	r := runRes{Kind: g.Kind, Out: out.String(), Msg: g.Msg}
	if g.Kind == "control" && g.Class != "" {
		r.Kind = "throw"
	}
	if g.Kind == "panic" {
		r.Msg = g.PanicKey
	}
	return r
}

// loadFile writes the definitions file of op #i (class <name> + function <name>, both tagged d<i>)
// and loads it the way include/autoload do: vm.LoadAndRun(file).
func (w *world) loadFile(v, i, name int) runRes {
	id := fmt.Sprintf("d%d", i)
	sub := filepath.Join(w.dir, fmt.Sprintf("defs-%d", os.Getpid()))
	file := filepath.Join(sub, fmt.Sprintf("%s_n%d.zy", id, name))
	if !w.written(file) {
		os.MkdirAll(sub, 0o755)
		src := defSource(kClass, w.nm.of(name), id) + defSource(kFunc, w.nm.of(name), id)
		if err := os.WriteFile(file, []byte(src), 0o644); err != nil {
			panic(err)
		}
		wroteFiles[file] = true
	}
	var out strings.Builder
	saved := data.WriteOutput
	data.WriteOutput = func(s string) { out.WriteString(s) }
	w.uncaught = nil
	g := runner.Guard(func() {
		_, acl := w.vm(v).LoadAndRun(file)
		if acl == nil {
			acl = w.uncaught
		}
		if acl != nil {
			panic(acl)
		}
	})
	data.WriteOutput = saved
	return runRes{Kind: g.Kind, Out: out.String(), Msg: g.Msg + g.PanicKey}
}

var wroteFiles = map[string]bool{}

func (w *world) written(file string) bool { return wroteFiles[file] }

func defSource(kind int, name, id string) string {
	switch kind {
	case kClass:
		return fmt.Sprintf("class %s { const TAG = \"%s\"; public function tag() { return \"%s\"; } }\n", name, id, id)
	case kIface:
		return fmt.Sprintf("interface %s { const TAG = \"%s\"; }\n", name, id)
	default:
		return fmt.Sprintf("function %s() { return \"%s\"; }\n", name, id)
	}
}

// ---- probes ---------------------------------------------------------------------------------

type probe struct {
	Name    string
	Kinds   []int
	Bool    bool // answers y/n instead of a definition identity
	Script  bool
	NoLoad  bool // does not trigger autoloading (only matters for the file-backed class)
	ForAuto bool // also applied to the autoloadable class
}

var probes = []probe{
	{Name: "GetClass", Kinds: []int{kClass}, NoLoad: true, ForAuto: true},
	{Name: "GetOrLoadClass", Kinds: []int{kClass}, ForAuto: true},
	{Name: "GetInterface", Kinds: []int{kIface}, NoLoad: true},
	{Name: "GetOrLoadInterface", Kinds: []int{kIface}},
	{Name: "LoadPkg", Kinds: []int{kClass, kIface}, ForAuto: true},
	{Name: "GetFunc", Kinds: []int{kFunc}, NoLoad: true},
	{Name: "class_exists", Kinds: []int{kClass}, Bool: true, Script: true, ForAuto: true},
	{Name: "class_exists(,false)", Kinds: []int{kClass}, Bool: true, Script: true, NoLoad: true, ForAuto: true},
	{Name: "interface_exists", Kinds: []int{kIface}, Bool: true, Script: true},
	{Name: "function_exists", Kinds: []int{kFunc}, Bool: true, Script: true, NoLoad: true},
	{Name: "new", Kinds: []int{kClass}, Script: true, ForAuto: true},
	{Name: "call", Kinds: []int{kFunc}, Script: true, NoLoad: true},
	{Name: "::TAG", Kinds: []int{kClass, kIface}, Script: true, ForAuto: true},
}

const (
	pNew  = 10
	pCall = 11
)

// spellings of a name used by the probes: the exact one (full oracle) and two case variants
// (leak-only oracle: whether a VM finds its own / the base's definitions under a folded spelling
// is left open, but it must never find a definition owned by another temporary VM).
const (
	spExact = iota
	spLower
	spUpper
)

var spellLabel = [3]string{"", "~lower", "~UPPER"}

// judgeVariant is the leak-only oracle for a case-variant spelling.
func judgeVariant(m *model, h []Op, v int, p probe, name int, got string) (rel, exp, cat string) {
	al := m.allowed(v, p.Kinds, name)
	exp = "unresolved or one of " + ids(al)
	switch {
	case got == "y":
		if len(al) == 0 {
			if v == 0 {
				return "leak-to-base", "n", ""
			}
			return "leak-to-temp", "n", ""
		}
		return "", exp, "variant:resolved"
	case strings.HasPrefix(got, "d"):
		var d int
		if _, err := fmt.Sscanf(got, "d%d", &d); err != nil {
			return "", exp, "variant:other"
		}
		for _, a := range al {
			if a == d {
				return "", exp, "variant:resolved"
			}
		}
		if d < 0 || d >= len(h) || !h[d].defines() {
			return "foreign-definition", exp, ""
		}
		if v == 0 {
			return "leak-to-base", exp, ""
		}
		if m.status[h[d].VM] == stDead {
			return "leak-from-discarded", exp, ""
		}
		return "leak-to-temp", exp, ""
	default:
		return "", exp, "variant:unresolved"
	}
}

func srcID(src string) string {
	b := filepath.Base(src)
	if b == autoClass+".zy" {
		return "F"
	}
	// "d7.zy", "d7_n1.zy" (definitions file), "d7.zy(1) : eval()'d code"
	if m := reDefSrc.FindString(b); m != "" {
		return m
	}
	return "?src:" + b
}

var reDefSrc = regexp.MustCompile(`^d\d+`)

type fromer interface{ GetFrom() data.From }

func identOf(v any) string {
	if f, ok := v.(fromer); ok {
		if fr := f.GetFrom(); fr != nil {
			return srcID(fr.GetSource())
		}
	}
	return fmt.Sprintf("?%T", v)
}

// observe runs one probe; the answer is "-" (does not resolve), "y"/"n", a definition id ("d3",
// "F") or "!<reason>" for a crash.
func (w *world) observe(v int, pi int, name int, spell int) (val string, note string) {
	p := probes[pi]
	nm := w.nm.of(name)
	switch spell {
	case spLower:
		nm = strings.ToLower(nm)
	case spUpper:
		nm = strings.ToUpper(nm)
	}
	vm := w.vm(v)
	if !p.Script {
		g := runner.Guard(func() {
			switch p.Name {
			case "GetClass":
				if c, ok := vm.GetClass(nm); ok && c != nil {
					val = identOf(c)
				}
			case "GetOrLoadClass":
				c, acl := vm.GetOrLoadClass(nm)
				if acl == nil && c != nil {
					val = identOf(c)
				} else if acl != nil {
					note = acl.AsString()
				}
			case "GetInterface":
				if c, ok := vm.GetInterface(nm); ok && c != nil {
					val = identOf(c)
				}
			case "GetOrLoadInterface":
				c, acl := vm.GetOrLoadInterface(nm)
				if acl == nil && c != nil {
					val = identOf(c)
				} else if acl != nil {
					note = acl.AsString()
				}
			case "LoadPkg":
				c, acl := vm.LoadPkg(nm)
				if acl == nil && c != nil {
					val = identOf(c)
				} else if acl != nil {
					note = acl.AsString()
				}
			case "GetFunc":
				if f, ok := vm.GetFunc(nm); ok && f != nil {
					val = identOf(f)
				}
			}
		})
		if g.Kind != "ok" {
			return "!" + g.Kind + ":" + g.PanicKey, g.Msg
		}
		if val == "" {
			val = "-"
		}
		return val, note
	}
	var src string
	switch p.Name {
	case "class_exists":
		src = "echo class_exists('" + nm + "') ? \"y\" : \"n\";"
	case "class_exists(,false)":
		src = "echo class_exists('" + nm + "', false) ? \"y\" : \"n\";"
	case "interface_exists":
		src = "echo interface_exists('" + nm + "') ? \"y\" : \"n\";"
	case "function_exists":
		src = "echo function_exists('" + nm + "') ? \"y\" : \"n\";"
	case "new":
		src = "$o = new \\" + nm + "(); echo $o->tag();"
	case "call":
		src = "echo " + nm + "();"
	case "::TAG":
		src = "echo \\" + nm + "::TAG;"
	}
	r := w.run(v, src, "probe.zy", true)
	switch r.Kind {
	case "ok":
		if r.Out == "" {
			return "?empty", ""
		}
		return r.Out, ""
	case "throw", "control":
		return "-", r.Msg
	default:
		return "!" + r.Kind + ":" + r.Msg, r.Msg
	}
}

// ---- judging one answer against the model --------------------------------------------------

type failure struct {
	Label string `json:"label"` // relation:kind
	VM    int    `json:"vm"`
	Probe string `json:"probe"`
	Name  string `json:"name"`
	Exp   string `json:"expected"`
	Got   string `json:"observed"`
	Note  string `json:"note,omitempty"`
	Step  int    `json:"step"` // index of the op after which it was seen (len(history)-1 = final matrix)
}

func kindsLabel(k []int) string {
	if len(k) == 1 {
		return kindName[k[0]]
	}
	return "class|interface"
}

func ids(a []int) string {
	s := make([]string, len(a))
	for i, d := range a {
		s[i] = fmt.Sprintf("d%d", d)
	}
	return "{" + strings.Join(s, ",") + "}"
}

// judge returns "" when the observation is admissible, else the relation violated; cat is the
// outcome category (for the vacuity guard).
func judge(m *model, h []Op, v int, p probe, name int, got string) (rel, exp, cat string) {
	if name == nameF {
		switch {
		case got == "F" || got == "y":
			return "", "F", "auto:resolved"
		case p.NoLoad && (got == "-" || got == "n"):
			return "", "F or unresolved (probe does not autoload)", "auto:not-loaded-yet"
		default:
			return "autoload-broken", "F (class file is on the class path; every VM could load it before)", ""
		}
	}
	al := m.allowed(v, p.Kinds, name)
	mu := m.must(v, p.Kinds, name) // al minus the eval-requested definitions (those may stay unresolved)
	who := func(d int) string { // relation for a definition that must not be visible on v
		if d < 0 || d >= len(h) || !h[d].defines() {
			return "foreign-definition"
		}
		if v == 0 {
			return "leak-to-base"
		}
		if m.status[h[d].VM] == stDead {
			return "leak-from-discarded"
		}
		return "leak-to-temp"
	}
	hidden := func() string {
		if v == 0 {
			return "base-lost-own"
		}
		if len(m.must(0, p.Kinds, name)) > 0 {
			return "base-def-hidden"
		}
		return "own-def-hidden"
	}
	if p.Bool {
		present := len(al) > 0
		switch {
		case got == "y" && present:
			return "", "y", "bool:present"
		case got == "y":
			if v == 0 {
				return "leak-to-base", "n", ""
			}
			return "leak-to-temp", "n", ""
		case !present:
			// "n", or the probe threw / crashed: the name does not resolve, which is what is expected
			if got == "n" {
				return "", "n", "bool:absent"
			}
			return "", "n", "bool:absent-throw"
		case len(mu) == 0:
			return "", "y or n (requested through eval only)", "eval:unresolved"
		default:
			return hidden(), "y", ""
		}
	}
	if len(al) == 0 {
		switch {
		case got == "-":
			return "", "-", "id:absent"
		case strings.HasPrefix(got, "!"):
			return "", "-", "id:absent-crash"
		case strings.HasPrefix(got, "d"):
			var d int
			fmt.Sscanf(got, "d%d", &d)
			return who(d), "-", ""
		default:
			return "foreign-definition", "-", ""
		}
	}
	for _, d := range al {
		if got == fmt.Sprintf("d%d", d) {
			cat = "id:own"
			if h[d].VM == 0 {
				cat = "id:base-on-base"
				if v != 0 {
					cat = "id:base-through-temp"
				}
			}
			if len(al) > 1 {
				cat = "open-choice->" + vmKind(h[d].VM)
			}
			if h[d].K == opEval {
				cat = "eval:resolved-on-" + vmKind(v)
			}
			return "", ids(al), cat
		}
	}
	if got == "-" || strings.HasPrefix(got, "!") {
		if len(mu) == 0 {
			return "", "unresolved or one of " + ids(al), "eval:unresolved"
		}
		return hidden(), "one of " + ids(al), ""
	}
	if strings.HasPrefix(got, "d") {
		var d int
		fmt.Sscanf(got, "d%d", &d)
		return who(d), "one of " + ids(al), ""
	}
	return "foreign-definition", "one of " + ids(al), ""
}

func vmKind(v int) string {
	if v == 0 {
		return "base"
	}
	return "temp"
}

// ---- executing a history -------------------------------------------------------------------

type execResult struct {
	Fails []failure
	Obs   []string // final observation vector (canonicalised ids)
	Cats  map[string]int
	Raw   []string // human readable final matrix rows
}

// canonID rewrites a definition id into an owner-relative form so that observation vectors of
// different histories reaching the same situation are equal.
func canonID(m *model, h []Op, got string) string {
	if !strings.HasPrefix(got, "d") {
		return got
	}
	var d int
	if _, err := fmt.Sscanf(got, "d%d", &d); err != nil {
		return got
	}
	if v, k, n, ord, ok := m.owner(d); ok {
		return fmt.Sprintf("%d.%d.%d.%d", v, k, n, ord)
	}
	if d >= 0 && d < len(h) && h[d].defines() {
		return fmt.Sprintf("dead%d.%d.%d", h[d].VM, h[d].Kind, h[d].Name)
	}
	return got
}

// execute replays h on fresh real VMs. Intermediate lookup/new/call ops are judged when they run;
// the full observation matrix is taken after the last op.
func execute(h []Op, nm names, dir string, wantRaw bool) execResult {
	res := execResult{Cats: map[string]int{}}
	// fuel stays disarmed (a third of the run time otherwise): no op here loops; the pool's hang
	// watchdog is the backstop and reports a hung worker as a worker death.
	w := newWorld(nm, dir)
	m := newModel()
	usedNames := func() int {
		if m.used == 0 {
			return 1
		}
		return m.used
	}
	var ever [nSym]bool // names some VM (live or discarded) has defined so far
	var check func(step, v, pi, name int, final bool)
	// variant probes: same probe under the all-lower / all-upper spelling, leak-only oracle.
	checkV := func(step, v, pi, name, spell int, final bool) {
		p := probes[pi]
		got, note := w.observe(v, pi, name, spell)
		rel, exp, cat := judgeVariant(m, h, v, p, name, got)
		if rel != "" {
			res.Fails = append(res.Fails, failure{Label: rel + ":" + kindsLabel(p.Kinds) + "~case", VM: v, Probe: p.Name, Name: nameLabel(name) + spellLabel[spell], Exp: exp, Got: got, Note: note, Step: step})
		} else {
			res.Cats[cat]++
		}
		if final {
			res.Obs = append(res.Obs, canonID(m, h, got))
			if wantRaw && got != "-" && got != "n" {
				res.Raw = append(res.Raw, fmt.Sprintf("%s %s(%s%s) = %s  [allowed %s]", vmLabel(v), p.Name, nameLabel(name), spellLabel[spell], got, exp))
			}
		}
	}
	// variantRound: every live VM looks every defined name up under the variant spellings. With
	// scripts=false only the Go-level lookups run (cheap "trigger" pass: afterwards each owner has
	// looked its own names up under each variant, whatever the VM order).
	variantRound := func(step int, scripts, final bool) {
		for _, v := range m.live() {
			for n := 0; n < nSym; n++ {
				if !ever[n] {
					continue
				}
				for _, sp := range []int{spLower, spUpper} {
					for pi, p := range probes {
						if p.Script && !scripts {
							continue
						}
						checkV(step, v, pi, n, sp, final)
					}
				}
			}
		}
	}
	// autoFirst: before anything else in a lookup round, every temp (oldest first), then the base,
	// asks for the autoloadable class through the Go API — i.e. with whatever parser binding the
	// preceding ops left on that TempVM (probe scripts re-bind it), and before the base has the class.
	autoFirst := func(step int) {
		order := append(m.live()[1:], 0)
		for _, v := range order {
			for pi, p := range probes {
				if !p.Script && p.ForAuto {
					check(step, v, pi, nameF, false)
				}
			}
		}
	}
	check = func(step, v, pi, name int, final bool) {
		p := probes[pi]
		got, note := w.observe(v, pi, name, spExact)
		rel, exp, cat := judge(m, h, v, p, name, got)
		if rel != "" {
			res.Fails = append(res.Fails, failure{Label: rel + ":" + kindsLabel(p.Kinds), VM: v, Probe: p.Name, Name: nameLabel(name), Exp: exp, Got: got, Note: note, Step: step})
		} else {
			res.Cats[cat]++
		}
		if final {
			res.Obs = append(res.Obs, canonID(m, h, got))
			if wantRaw {
				res.Raw = append(res.Raw, fmt.Sprintf("%s %s(%s) = %s  [allowed %s]", vmLabel(v), p.Name, nameLabel(name), got, exp))
			}
		}
	}
	for i, o := range h {
		w.newRound()
		switch o.K {
		case opNewTemp:
			slot := m.created + 1
			t, _ := runtime.NewTempVM(w.base).(*runtime.TempVM)
			t.PrepareParse(w.bp)
			w.temps[slot] = t
		case opDiscard:
			w.temps[o.VM] = nil
		case opDefine:
			id := fmt.Sprintf("d%d", i)
			w.run(o.VM, defSource(o.Kind, nm.of(o.Name), id), id+".zy", false)
		case opLoad:
			w.loadFile(o.VM, i, o.Name)
		case opEval:
			id := fmt.Sprintf("d%d", i)
			src := ""
			for _, k := range []int{kClass, kFunc, kIface} {
				src += "eval('" + strings.TrimSpace(defSource(k, nm.of(o.Name), id)) + "');\n"
			}
			w.run(o.VM, src, id+".zy", false)
		}
		m.apply(o, i)
		if o.defines() {
			ever[o.Name] = true
		}
		switch o.K {
		case opLookup:
			autoFirst(i)
			for _, v := range m.live() {
				for n := 0; n < usedNames(); n++ {
					for pi, p := range probes {
						if !p.Script {
							check(i, v, pi, n, false)
						}
					}
				}
				for pi, p := range probes {
					if !p.Script && p.ForAuto {
						check(i, v, pi, nameF, false)
					}
				}
			}
		case opNew:
			check(i, o.VM, pNew, o.Name, false)
		case opCall:
			check(i, o.VM, pCall, o.Name, false)
		}
	}
	last := len(h) - 1
	w.newRound()
	autoFirst(last)
	for _, v := range m.live() {
		for n := 0; n < nSym; n++ {
			for pi := range probes {
				check(last, v, pi, n, true)
			}
		}
		for pi, p := range probes {
			if p.ForAuto {
				check(last, v, pi, nameF, true)
			}
		}
	}
	// case-variant spellings: a Go-level pass in which every VM (so also every owner) looks the
	// variants up, then the full probe set for everybody — so "owner first, then the others" is
	// realised for every owner regardless of VM order.
	variantRound(last, false, false)
	variantRound(last, true, true)
	return res
}
