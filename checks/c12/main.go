// C12: request-scoped VMs are isolated.
//
// Form H (explicit-state search over operation histories). A state is the op list that reaches
// it; every history is replayed on a fresh real base VM (+ std/php libraries) and real TempVMs.
// Ops: newtemp, discard(T), define(vm, class|interface|function, name) done the way a request
// does it (parser cloned from the base parser and bound to the TempVM by PrepareParse =>
// parse-time AddClass/AddInterface land in the TempVM; function statements executed on
// tempVM.CreateContext => run-time AddFunc), lookup (all Go-API lookups on all VMs), new(vm,name),
// call(vm,name). After the last op the full observation matrix
//
//	VM x name x {GetClass, GetOrLoadClass, GetInterface, GetOrLoadInterface, LoadPkg, GetFunc,
//	             class_exists, class_exists(,false), interface_exists, function_exists, new, call, ::TAG}
//
// is compared with a set model (base ∪ own additions), definitions told apart by identity.
// Up to length L0 every history is executed (no merging); beyond it states are merged on
// (model state, real observation vector).
package main

import (
	"crypto/sha1"
	"encoding/hex"
	"encoding/json"
	"flag"
	"fmt"
	"os"
	"sort"
	"strings"
	"time"

	"verif/engine/ev"
	"verif/engine/pool"
	"verif/engine/runner"
)

const maxTemps = maxSlots - 1

type rec struct {
	Kind    string         `json:"kind"` // count | fail | keys | sample
	N       int64          `json:"n,omitempty"`
	ByLen   []int64        `json:"bylen,omitempty"`
	Cats    map[string]int `json:"cats,omitempty"`
	Key     string         `json:"key,omitempty"`
	Clause  string         `json:"clause,omitempty"`
	Size    int            `json:"size,omitempty"`
	Case    any            `json:"case,omitempty"`
	Detail  string         `json:"detail,omitempty"`
	Keys    []keyed        `json:"keys,omitempty"`
	Failing int64          `json:"failing,omitempty"`
	Skipped int64          `json:"skipped,omitempty"`
}

type keyed struct {
	H []Op   `json:"h"`
	K string `json:"k"`
}

type caseJSON struct {
	Ops   []Op      `json:"ops"`
	Text  string    `json:"text"`
	Names names     `json:"names"`
	Fails []failure `json:"failures,omitempty"`
}

// ---- worker side ------------------------------------------------------------------------------

type wstate struct {
	deadline time.Time
	skipped  int64
	minimal  [][]Op // 1-minimal failing histories found so far in this worker
	nm       names
	dir      string
	memo     map[string][]string // history -> distinct violated relation labels
	emitted  map[string]bool
	n        int64
	byLen    []int64
	failing  int64
	cats     map[string]int
	w        *pool.W
}

func newWState(w *pool.W) *wstate {
	var seed int64
	fmt.Sscan(os.Getenv("VERIF_C12_SEED"), &seed)
	var dl int64
	fmt.Sscan(os.Getenv("VERIF_C12_DEADLINE"), &dl)
	return &wstate{deadline: time.Unix(dl, 0), nm: pickNames(seed), dir: os.Getenv("VERIF_C12_DIR"), memo: map[string][]string{}, emitted: map[string]bool{}, cats: map[string]int{}, byLen: make([]int64, 16), w: w}
}

func labelsOf(f []failure) []string {
	seen := map[string]bool{}
	var r []string
	for _, x := range f {
		if !seen[x.Label] {
			seen[x.Label] = true
			r = append(r, x.Label)
		}
	}
	return r
}

// fails reports whether h violates some relation outside ignore.
func (s *wstate) fails(h []Op, ignore map[string]bool) bool {
	k := histString(h)
	ls, ok := s.memo[k]
	if !ok {
		ls = labelsOf(execute(h, s.nm, s.dir, false).Fails)
		if len(s.memo) > 400000 {
			s.memo = map[string][]string{}
		}
		s.memo[k] = ls
	}
	for _, l := range ls {
		if !ignore[l] {
			return true
		}
	}
	return false
}

// embeds reports whether r is obtained from h by dropping ops (then h fails because r does; r is
// itself a canonical history inside the bound and is reported on its own).
func embeds(h, r []Op) bool {
	if len(r) >= len(h) {
		return false
	}
	want := histString(r)
	drop := len(h) - len(r)
	idx := make([]int, drop)
	var rec func(start, k int) bool
	rec = func(start, k int) bool {
		if k == drop {
			cur := h
			for j := drop - 1; j >= 0; j-- {
				var ok bool
				if cur, ok = dropOp(cur, idx[j]); !ok {
					return false
				}
			}
			n, ok := normalise(cur, maxTemps)
			return ok && histString(n) == want
		}
		for i := start; i < len(h); i++ {
			idx[k] = i
			if rec(i+1, k+1) {
				return true
			}
		}
		return false
	}
	return rec(0, 0)
}

// reduce drops ops while some violation persists (1-minimal failing history).
func (s *wstate) reduce(h []Op, ignore map[string]bool) []Op {
	for _, r := range s.minimal {
		if embeds(h, r) {
			return r
		}
	}
	cur := append([]Op(nil), h...)
	for changed := true; changed; {
		changed = false
		for i := range cur {
			cand, ok := dropOp(cur, i)
			if !ok {
				continue
			}
			cand, ok = normalise(cand, maxTemps)
			if !ok {
				continue
			}
			if s.fails(cand, ignore) {
				cur = cand
				changed = true
				break
			}
		}
	}
	return cur
}

func stateKey(m string, obs []string) string {
	h := sha1.Sum([]byte(m + "#" + strings.Join(obs, ",")))
	return hex.EncodeToString(h[:12])
}

func modelOf(h []Op) *model {
	m := newModel()
	for i, o := range h {
		m.apply(o, i)
	}
	return m
}

// one executes a history, reports a failure (reduced) and returns its dedup key.
func (s *wstate) one(h []Op) string {
	if time.Now().After(s.deadline) {
		s.skipped++
		return ""
	}
	s.n++
	s.byLen[len(h)]++
	r := execute(h, s.nm, s.dir, false)
	for c, n := range r.Cats {
		s.cats[c] += n
	}
	s.memo[histString(h)] = labelsOf(r.Fails)
	if len(r.Fails) > 0 {
		s.failing++
		// canary: if a fresh base + fresh temp already deviates, state survives *between* histories
		// (process-global table): reduction would be meaningless, report that instead.
		var ignore map[string]bool
		if cf := nonAuto(execute(canary, s.nm, s.dir, false).Fails); len(cf) > 0 {
			key := "process-global-state " + cf[0].Label
			if !s.emitted[key] {
				s.emitted[key] = true
				s.w.Emit(rec{Kind: "fail", Key: key, Clause: cf[0].Label, Size: 0, Case: caseJSON{Ops: h, Text: histString(h) + " then, in the same process, " + histString(canary), Names: s.nm, Fails: capFails(cf)}, Detail: "definitions made in an earlier history are visible to brand-new VMs of the same process:\n" + detail(cf)})
			}
			// Everything else this process observes is contaminated by earlier histories (results
			// depend on what ran before), so no further key is derived from this history.
			return stateKey(modelOf(h).canon(), r.Obs)
		}
		red := s.reduce(h, ignore)
		rr := execute(red, s.nm, s.dir, false)
		rr.Fails = without(rr.Fails, ignore)
		if len(rr.Fails) == 0 {
			// not reproducible after reduction: report the unreduced history as it is
			red, rr = h, r
			rr.Fails = without(rr.Fails, ignore)
			if len(rr.Fails) == 0 {
				return stateKey(modelOf(h).canon(), r.Obs)
			}
		}
		key := findingKey(red, rr.Fails)
		if !s.emitted[key] {
			s.emitted[key] = true
			s.minimal = append(s.minimal, red)
			s.w.Emit(rec{Kind: "fail", Key: key, Clause: rr.Fails[0].Label, Size: len(red), Case: caseJSON{Ops: red, Text: histString(red), Names: s.nm, Fails: capFails(rr.Fails)}, Detail: detail(rr.Fails)})
		}
	}
	return stateKey(modelOf(h).canon(), r.Obs)
}

var canary = []Op{{K: opNewTemp}}

func nonAuto(f []failure) []failure {
	var r []failure
	for _, x := range f {
		switch x.Name {
		case "F", "G", "H", "Gb":
		default:
			r = append(r, x)
		}
	}
	return r
}

func without(f []failure, ignore map[string]bool) []failure {
	if ignore == nil {
		return f
	}
	var r []failure
	for _, x := range f {
		if !ignore[x.Label] {
			r = append(r, x)
		}
	}
	return r
}

func capFails(f []failure) []failure {
	if len(f) > 8 {
		return f[:8]
	}
	return f
}

func findingKey(red []Op, f []failure) string {
	return f[0].Label + " " + histString(red)
}

func detail(f []failure) string {
	var sb strings.Builder
	for i, x := range f {
		if i == 6 {
			fmt.Fprintf(&sb, "... and %d more\n", len(f)-i)
			break
		}
		fmt.Fprintf(&sb, "after op #%d: %s %s(%s): expected %s, observed %s", x.Step+1, vmLabel(x.VM), x.Probe, x.Name, x.Exp, x.Got)
		if x.Note != "" {
			fmt.Fprintf(&sb, " (%s)", trunc(x.Note, 80))
		}
		sb.WriteString(" -> " + x.Label + "\n")
	}
	return sb.String()
}

func trunc(s string, n int) string {
	if len(s) > n {
		return s[:n] + "..."
	}
	return s
}

func (s *wstate) flush(keys map[string][]Op) {
	r := rec{Kind: "count", N: s.n, ByLen: s.byLen, Cats: s.cats, Failing: s.failing, Skipped: s.skipped}
	s.skipped = 0
	s.w.Emit(r)
	if keys != nil {
		ks := make([]keyed, 0, len(keys))
		for k, h := range keys {
			ks = append(ks, keyed{H: h, K: k})
		}
		// chunk to keep single messages small
		for i := 0; i < len(ks); i += 2000 {
			j := i + 2000
			if j > len(ks) {
				j = len(ks)
			}
			s.w.Emit(rec{Kind: "keys", Keys: ks[i:j]})
		}
	}
	s.n, s.failing = 0, 0
	s.byLen = make([]int64, 16)
	s.cats = map[string]int{}
}

func histLess(a, b []Op) bool {
	if len(a) != len(b) {
		return len(a) < len(b)
	}
	return histString(a) < histString(b)
}

type dfsShard struct {
	Prefix []Op `json:"prefix"`
	MaxLen int  `json:"maxlen"`
	Short  bool `json:"short"` // execute the histories of length <= len(Prefix-level) instead of the extensions
	PLen   int  `json:"plen"`
	Alpha  int  `json:"alpha"` // 1: extended alphabet; only histories containing an extended op are executed
}

var ws *wstate

// dfsWorker executes every canonical history below a prefix (or, for the "short" shard, every
// history not longer than the prefix length) — no merging.
func dfsWorker(w *pool.W, arg json.RawMessage) {
	if ws == nil {
		ws = newWState(w)
	}
	ws.w = w
	var sh dfsShard
	json.Unmarshal(arg, &sh)
	keys := map[string][]Op{}
	note := func(h []Op, k string) {
		if k == "" {
			return
		}
		if old, ok := keys[k]; !ok || histLess(h, old) {
			keys[k] = append([]Op(nil), h...)
		}
	}
	var rec_ func(m *model, h []Op, limit int, execFrom int)
	rec_ = func(m *model, h []Op, limit int, execFrom int) {
		if len(h) >= execFrom && (sh.Alpha == 0 || hasExt(h)) {
			if w.Item(histString(h)) {
				note(h, ws.one(h))
			}
		}
		if len(h) == limit {
			return
		}
		for _, o := range m.enabled(maxTemps) {
			c := m.clone()
			c.apply(o, len(h))
			rec_(c, append(h, o), limit, execFrom)
		}
	}
	if sh.Short {
		rec_(newModelA(sh.Alpha), nil, sh.PLen, 0)
	} else {
		pm := modelOf(sh.Prefix)
		pm.alpha = sh.Alpha
		rec_(pm, append([]Op(nil), sh.Prefix...), sh.MaxLen, len(sh.Prefix)+1)
	}
	ws.flush(keys)
}

type bfsShard struct {
	Reps []keyed `json:"reps"`
}

// bfsWorker executes every one-op extension of the given representative states and returns the
// extensions whose (model, observation) key differs from their parent's.
func bfsWorker(w *pool.W, arg json.RawMessage) {
	if ws == nil {
		ws = newWState(w)
	}
	ws.w = w
	var sh bfsShard
	json.Unmarshal(arg, &sh)
	keys := map[string][]Op{}
	for _, rp := range sh.Reps {
		m := modelOf(rp.H)
		for _, o := range m.enabled(maxTemps) {
			h := append(append([]Op(nil), rp.H...), o)
			if !w.Item(histString(h)) {
				continue
			}
			k := ws.one(h)
			if k == rp.K || k == "" {
				continue
			}
			if old, ok := keys[k]; !ok || histLess(h, old) {
				keys[k] = h
			}
		}
	}
	ws.flush(keys)
}

// ---- parent -------------------------------------------------------------------------------------

func main() {
	if pool.IsWorker() {
		pool.Serve(map[string]pool.Handler{"dfs": dfsWorker, "bfs": bfsWorker})
	}
	started := time.Now()
	c := ev.New("C12")
	defer runner.Cleanup()
	nm := pickNames(c.Seed)
	base := "/dev/shm"
	if _, err := os.Stat(base); err != nil {
		base = os.TempDir()
	}
	dir, err := os.MkdirTemp(base, "verif-c12-")
	if err != nil {
		c.HarnessError("scratch dir: %v", err)
		c.Finish(0, 0, 0, "")
	}
	defer os.RemoveAll(dir)
	if err := writeAutoFile(dir); err != nil {
		c.HarnessError("scratch file: %v", err)
	}
	if c.Replay != "" {
		replay(c, dir)
		os.RemoveAll(dir)
		c.Finish(1, 1, 1, "replay")
		return
	}
	// full enumeration up to fullLen, merged search up to maxLen
	fullLen, maxLen, extLen := 4, 4, 3
	if !c.Quick() {
		fullLen, maxLen, extLen = 5, 5, 4
	}
	// development aid: VERIF_C12_LENS="<core>,<ext>" overrides the two length bounds
	if x := os.Getenv("VERIF_C12_LENS"); x != "" {
		fmt.Sscanf(x, "%d,%d", &fullLen, &extLen)
		maxLen = fullLen
	}
	c.SetBudget(8*time.Minute, 60*time.Minute)
	budget := 8 * time.Minute
	if !c.Quick() {
		budget = 60 * time.Minute
	}
	if f := flag.Lookup("budget"); f != nil {
		if d, err := time.ParseDuration(f.Value.String()); err == nil && d > 0 {
			budget = d
		}
	}
	deadline := started.Add(budget)
	if pre := preflight(nm, dir); pre != "" {
		c.HarnessError("%s", pre)
		os.RemoveAll(dir)
		c.Finish(0, 0, 0, "preflight")
	}
	opts := pool.Options{Env: []string{"VERIF_C12_DIR=" + dir, fmt.Sprintf("VERIF_C12_SEED=%d", c.Seed), fmt.Sprintf("VERIF_C12_DEADLINE=%d", deadline.Unix())}}

	var total, failing, skipped int64
	byLen := make([]int64, 16)
	cats := map[string]int{}
	best := map[string][]Op{} // dedup key -> least history reaching it
	found := map[string]*foundKey{}
	onRec := func(si int, rb json.RawMessage) {
		var r rec
		json.Unmarshal(rb, &r)
		switch r.Kind {
		case "count":
			total += r.N
			failing += r.Failing
			skipped += r.Skipped
			for i, n := range r.ByLen {
				byLen[i] += n
			}
			for k, n := range r.Cats {
				cats[k] += n
			}
		case "fail":
			if old, ok := found[r.Key]; ok {
				old.n++
			} else {
				found[r.Key] = &foundKey{rec: r, n: 1}
			}
		case "keys":
			for _, k := range r.Keys {
				if old, ok := best[k.K]; !ok || histLess(k.H, old) {
					best[k.K] = k.H
				}
			}
		}
	}
	onDeath := func(d pool.Death) {
		c.Fail("worker-death:"+runner.FatalFrame(d.Stderr), "no-crash", 0, map[string]any{"item": d.Item, "reason": d.Reason}, d.Stderr)
	}

	// phase 1: every canonical history of length <= fullLen over the core alphabet, then every
	// history of length <= extLen over the extended alphabet that contains an extended op
	runFull := func(alpha, limit int) {
		plen := 2
		if limit >= 5 || (alpha > 0 && limit >= 4) {
			plen = 3
		}
		if plen > limit {
			plen = limit
		}
		var shards []pool.Shard
		shards = append(shards, pool.Shard{Kind: "dfs", Arg: dfsShard{Short: true, PLen: plen, Alpha: alpha}})
		var gen func(m *model, h []Op)
		gen = func(m *model, h []Op) {
			if len(h) == plen {
				if plen < limit {
					shards = append(shards, pool.Shard{Kind: "dfs", Arg: dfsShard{Prefix: append([]Op(nil), h...), MaxLen: limit, Alpha: alpha}})
				}
				return
			}
			for _, o := range m.enabled(maxTemps) {
				cm := m.clone()
				cm.apply(o, len(h))
				gen(cm, append(h, o))
			}
		}
		gen(newModelA(alpha), nil)
		before := append([]int64(nil), byLen...)
		pool.Run(shards, opts, onRec, onDeath)
		for l, n := range countHistories(limit, maxTemps, alpha) {
			if byLen[l]-before[l] != n && skipped == 0 {
				c.HarnessError("alphabet %d, length %d: executed %d histories, model enumerates %d", alpha, l, byLen[l]-before[l], n)
			}
		}
	}
	// the (smaller) extended family first: if the budget runs out on an overloaded machine it is the
	// tail of the core enumeration that is cut
	runFull(1, extLen)
	extTotal := total
	extByLen := append([]int64(nil), byLen[:extLen+1]...)
	runFull(0, fullLen)
	coreTotal := total - extTotal
	coreByLen := append([]int64(nil), byLen...)
	for l := range extByLen {
		coreByLen[l] -= extByLen[l]
	}
	var expTotal int64
	for _, n := range countHistories(fullLen, maxTemps, 0) {
		expTotal += n
	}
	for _, n := range countHistories(extLen, maxTemps, 1) {
		expTotal += n
	}
	fullTotal := total
	if skipped > 0 {
		c.NotExhaustive(fmt.Sprintf("budget expired during the full enumeration: %d of %d histories (core <= %d, extended <= %d) executed", total, expTotal, fullLen, extLen))
	}
	distinctFull := len(best)
	completed := fullLen

	// phase 2: merged search (dedup on model state + real observation vector)
	var mergedExec int64
	levelInfo := []string{}
	frontier := []keyed{}
	for k, h := range best {
		if len(h) == fullLen {
			frontier = append(frontier, keyed{H: h, K: k})
		}
	}
	for depth := fullLen + 1; depth <= maxLen; depth++ {
		if c.Expired() || skipped > 0 {
			if skipped == 0 {
				c.NotExhaustive(fmt.Sprintf("budget expired; completed depth %d", completed))
			}
			break
		}
		sort.Slice(frontier, func(i, j int) bool { return histLess(frontier[i].H, frontier[j].H) })
		chunk := len(frontier)/256 + 1
		var shards []pool.Shard
		for i := 0; i < len(frontier); i += chunk {
			j := i + chunk
			if j > len(frontier) {
				j = len(frontier)
			}
			shards = append(shards, pool.Shard{Kind: "bfs", Arg: bfsShard{Reps: frontier[i:j]}})
		}
		before := total
		known := len(best)
		pool.Run(shards, opts, onRec, onDeath)
		mergedExec += total - before
		next := []keyed{}
		for k, h := range best {
			if len(h) == depth {
				next = append(next, keyed{H: h, K: k})
			}
		}
		levelInfo = append(levelInfo, fmt.Sprintf("depth %d: %d representative states expanded, %d executions, %d new states", depth, len(frontier), total-before, len(best)-known))
		if skipped > 0 {
			c.NotExhaustive(fmt.Sprintf("budget expired inside merged depth %d; completed depth %d", depth, completed))
			break
		}
		frontier = next
		completed = depth
		if len(frontier) == 0 {
			break
		}
	}

	c.Set("full_enumeration_max_length", fullLen)
	c.Set("histories_by_length", coreByLen[:fullLen+1])
	c.Set("core_alphabet_histories", coreTotal)
	c.Set("extended_alphabet_max_length", extLen)
	c.Set("extended_alphabet_histories_by_length", extByLen)
	c.Set("full_enumeration_histories", fullTotal)
	c.Set("distinct_states_in_full_enumeration", distinctFull)
	c.Set("merged_search_max_length", completed)
	c.Set("merged_search_levels", levelInfo)
	c.Set("merged_search_executions", mergedExec)
	reportFindings(c, found)
	c.Set("failing_histories", failing)
	c.Set("names", nm)
	c.Set("ops", "core: newtemp | discard(T) | define(vm,class|interface|function,name) | loadfile(vm,name) | evaldef(vm,name) | lookup | new(vm,name|F) | call(vm,name); extended: + handler(vm,form,name) [12 callable forms made at boot on the base VM, invoked HotHandler-style on vm; one form per history] | loadfile(vm,F|G|H) | new(vm,G|H); 1 base + <=3 temps, 3 interchangeable names (canonical order of first use) + class-path family F (class), G (interface + bystander class Gb), H (class extends F implements G)")
	c.Set("handler_forms", formName)
	c.Set("probes_per_vm_and_name", len(probes))
	for k, n := range cats {
		for i := 0; i < n && i < 1; i++ {
			c.Outcome(k)
		}
		c.Set("outcome:"+k, n)
	}
	c.Assume("redefinition of a name on the base VM is rejected by the base and is not in the alphabet; a temp may redefine freely and may then resolve to any of base ∪ own definitions (shadowing is left open by the statement)")
	c.Assume("lookups use the exact spelling that was defined; namespaces appear only in the autoloadable class")
	c.Assume("histories are enumerated up to renaming of the three interchangeable names; temps are numbered by creation and never reused")
	c.Assume("beyond the full-enumeration length states are merged on (model state, real observation vector): hidden state that no probe observes could make merged states differ")
	c.Assume("constants, globals, superglobals and the include-once cache are shared by design and are not observed here (C11/C20)")
	for _, s := range sampleHistories() {
		r := execute(s, nm, dir, true)
		c.Sample(map[string]any{"history": histString(s), "violations": len(r.Fails), "final_matrix": compactRaw(r.Raw)})
	}
	need := []string{"auto:pure-lookup", "auto:absent", "auto:visible", "auto:open-resolved", "eval:resolved-on-base", "eval:unresolved", "variant:resolved", "variant:unresolved", "id:own", "id:base-through-temp", "id:absent", "bool:present", "bool:absent", "open-choice->base", "auto:resolved"}
	for f := 0; f < nForms; f++ {
		need = append(need, "handler:"+formName[f]+":ok")
	}
	for _, n := range need {
		if cats[n] == 0 {
			c.HarnessError("vacuous: outcome class %q never observed", n)
		}
	}
	os.RemoveAll(dir)
	c.Finish(int64(len(best)), total, total, fmt.Sprintf("every canonical op history of length <= %d over the core alphabet (%d) and every history of length <= %d over the extended alphabet that contains a handler / class-path op (%d) executed on fresh real VMs, plus merged-state BFS to length %d (%d executions); after each history the full VM x name x probe matrix is compared with the set model (base ∪ own); distinct = distinct (model state, observation vector) pairs", fullLen, coreTotal, extLen, fullTotal-coreTotal, completed, mergedExec))
}

type foundKey struct {
	rec rec
	n   int
}

// opClass abstracts an op for grouping minimal failing histories of one root cause.
func opClass(o Op) string {
	switch o.K {
	case opNew, opCall:
		return "use"
	case opHandler:
		// the handler forms are grouped by what the callable's body is bound to; a defect of one
		// group must not be reported under (or hidden behind) a finding of another group
		return "handler/" + formGroup[o.Form]
	case opLoad:
		if o.Name >= nSym {
			return "loadfile/class-path"
		}
	}
	return o.K
}

// reportFindings turns the 1-minimal failing histories into finding keys. One defect often has
// many 1-minimal histories that differ only in *which* further op disturbs the VMs (e.g. any op
// that binds a parser). Per violated relation, a minimal history is reported only if no shorter
// (or equally long, lexicographically smaller) reported one of the same relation uses a subset of
// its op classes; the others are listed in the evidence as subsumed.
func reportFindings(c *ev.Check, found map[string]*foundKey) {
	type item struct {
		key   string
		f     *foundKey
		ops   []Op
		class map[string]bool
		ext   int // ops of the extended alphabet (histories over plainer ops are reported first)
	}
	var items []item
	for k, f := range found {
		cs, _ := f.rec.Case.(map[string]any)
		var ops []Op
		if cs != nil {
			b, _ := json.Marshal(cs["ops"])
			json.Unmarshal(b, &ops)
		}
		it := item{key: k, f: f, ops: ops, class: map[string]bool{}}
		for _, o := range ops {
			it.class[opClass(o)] = true
			if o.K == opLoad && o.Name < nSym {
				// a definitions file is also a plain definition: a history that fails with
				// define(...) alone subsumes the same history with loadfile(...), not vice versa
				it.class[opDefine] = true
			}
			if o.K == opHandler {
				// a handler body defines, requires a file and instantiates F: a history that
				// fails with one of the plain ops subsumes the same history with a handler op
				it.class[opDefine], it.class[opLoad], it.class["use"] = true, true, true
			}
			if o.ext() {
				it.ext++
			}
		}
		items = append(items, it)
	}
	sort.Slice(items, func(i, j int) bool {
		if items[i].f.rec.Size != items[j].f.rec.Size {
			return items[i].f.rec.Size < items[j].f.rec.Size
		}
		if items[i].ext != items[j].ext {
			return items[i].ext < items[j].ext
		}
		return items[i].key < items[j].key
	})
	var kept []item
	var subsumed []string
	for _, it := range items {
		by := -1
		if it.f.rec.Size > 0 && !strings.HasPrefix(it.key, "process-global-state") {
			for ki, k := range kept {
				if k.f.rec.Clause != it.f.rec.Clause || k.f.rec.Size == 0 {
					continue
				}
				sub := true
				for cl := range k.class {
					if !it.class[cl] {
						sub = false
						break
					}
				}
				if sub {
					by = ki
					break
				}
			}
		}
		if by >= 0 {
			subsumed = append(subsumed, it.key+"  (reported under: "+kept[by].key+")")
			kept[by].f.n += it.f.n
			continue
		}
		kept = append(kept, it)
	}
	for _, k := range kept {
		for i := 0; i < k.f.n; i++ {
			c.Fail(k.key, k.f.rec.Clause, k.f.rec.Size, k.f.rec.Case, k.f.rec.Detail)
		}
	}
	if len(subsumed) > 60 {
		subsumed = append(subsumed[:60], fmt.Sprintf("... and %d more", len(subsumed)-60))
	}
	c.Set("subsumed_minimal_histories", subsumed)
}

func compactRaw(raw []string) []string {
	var out []string
	for _, r := range raw {
		// keep the rows that resolve to something
		if !strings.Contains(r, "= -") && !strings.Contains(r, "= n ") {
			out = append(out, r)
		}
	}
	return out
}

func sampleHistories() [][]Op {
	return [][]Op{
		{{K: opNewTemp}, {K: opDefine, VM: 1, Kind: kClass, Name: 0}, {K: opNewTemp}, {K: opDefine, VM: 2, Kind: kIface, Name: 0}},
		{{K: opDefine, VM: 0, Kind: kFunc, Name: 0}, {K: opNewTemp}, {K: opDefine, VM: 1, Kind: kFunc, Name: 0}, {K: opCall, VM: 1, Name: 0}},
		{{K: opNewTemp}, {K: opDefine, VM: 1, Kind: kClass, Name: 0}, {K: opDiscard, VM: 1}, {K: opNewTemp}},
	}
}

// preflight: the chosen identifiers must be unknown to a fresh base VM, and the autoloadable class
// must load on a fresh base VM and through a fresh temp VM (otherwise the file clause is vacuous).
func preflight(nm names, dir string) string {
	r := execute(nil, nm, dir, false)
	if len(r.Fails) > 0 {
		return "preflight: the empty history already fails: " + detail(r.Fails)
	}
	r = execute([]Op{{K: opNewTemp}}, nm, dir, false)
	if len(nonAuto(r.Fails)) > 0 {
		return "preflight: a fresh temp VM already deviates: " + detail(r.Fails)
	}
	return ""
}

func replay(c *ev.Check, dir string) {
	var cs caseJSON
	key, err := ev.LoadReplay(c.Replay, &cs)
	if err != nil {
		fmt.Println("replay:", err)
		c.HarnessError("replay: %v", err)
		return
	}
	nm := cs.Names
	if nm.Auto == "" {
		nm = pickNames(c.Seed)
	}
	h, ok := normalise(cs.Ops, maxTemps)
	if !ok {
		c.HarnessError("replay: history is not executable: %s", histString(cs.Ops))
		return
	}
	if strings.HasPrefix(key, "process-global-state") {
		execute(h, nm, dir, false)
		cf := nonAuto(execute(canary, nm, dir, false).Fails)
		fmt.Println("history:", histString(h), "then, in the same process,", histString(canary))
		if len(cf) > 0 {
			fmt.Print(detail(cf))
			c.Fail(key, cf[0].Label, 0, cs, detail(cf))
		} else {
			fmt.Println("no violation")
		}
		return
	}
	r := execute(h, nm, dir, true)
	fmt.Println("history:", histString(h))
	for _, row := range r.Raw {
		fmt.Println("  ", row)
	}
	if len(r.Fails) > 0 {
		fmt.Print(detail(r.Fails))
		c.Fail(key, r.Fails[0].Label, len(h), cs, detail(r.Fails))
	} else {
		fmt.Println("no violation")
	}
}
