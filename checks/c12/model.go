package main

import (
	"fmt"
	"strings"
)

// ---- operation alphabet -------------------------------------------------------------------
//
// VM slots: 0 = base, 1..maxTemps = temporary VMs numbered by creation order (a slot is never
// reused after discard). Names 0..nSym-1 are interchangeable identifiers (histories are
// enumerated up to renaming: a name may be used only if all smaller ones were used before);
// name nameF is the autoloadable class backed by a file reachable through the class path manager.

const (
	maxSlots = 4 // base + 3 temps
	nSym     = 3
	nameF    = 3 // autoloadable class (file backed); only "new" ops and the observation touch it
)

const (
	kClass = iota
	kIface
	kFunc
	nKinds
)

var kindName = [nKinds]string{"class", "interface", "function"}

const (
	opNewTemp = "newtemp"
	opDiscard = "discard"
	opDefine  = "define"
	opLoad    = "loadfile" // vm.LoadAndRun(file): the file declares class <name> and function <name>
	opEval    = "evaldef"  // a script on vm runs eval('class <name>…'); eval('function <name>…'); eval('interface <name>…')
	opLookup  = "lookup"
	opNew     = "new"
	opCall    = "call"
)

type Op struct {
	K    string `json:"k"`
	VM   int    `json:"vm,omitempty"`
	Kind int    `json:"kind,omitempty"`
	Name int    `json:"name,omitempty"`
}

func vmLabel(i int) string {
	if i == 0 {
		return "base"
	}
	return fmt.Sprintf("T%d", i)
}

func nameLabel(n int) string {
	if n == nameF {
		return "F"
	}
	return string(rune('A' + n))
}

func (o Op) String() string {
	switch o.K {
	case opNewTemp, opLookup:
		return o.K
	case opDiscard:
		return "discard(" + vmLabel(o.VM) + ")"
	case opDefine:
		return fmt.Sprintf("define(%s,%s,%s)", vmLabel(o.VM), kindName[o.Kind], nameLabel(o.Name))
	default: // new, call, loadfile, evaldef
		return fmt.Sprintf("%s(%s,%s)", o.K, vmLabel(o.VM), nameLabel(o.Name))
	}
}

func histString(h []Op) string {
	s := make([]string, len(h))
	for i, o := range h {
		s[i] = o.String()
	}
	return "[" + strings.Join(s, "; ") + "]"
}

// ---- reference model: a set model (base ∪ own additions) ----------------------------------

const (
	stUnborn = iota
	stLive
	stDead
)

type model struct {
	status [maxSlots]int
	// defs[vm][kind][name] = ids (index of the defining op in the history) of the definitions
	// made through that VM, in order.
	defs [maxSlots][nKinds][nSym][]int
	// opt: definitions requested through eval(). Whether eval may define anything on that VM is
	// not the statement's business (today a TempVM refuses eval): such a definition may or may
	// not resolve on its own VM (and through temps if made on the base) — never anywhere else.
	opt [maxSlots][nKinds][nSym][]int
	// how many definitions came through LoadAndRun per VM (part of the merge key: the route leaves
	// state behind — parser bindings, loaded-file marks — that no lookup shows directly)
	viaFile [maxSlots]int
	created int // temps created so far
	used    int // symmetric names used so far (canonical naming)
}

func newModel() *model {
	m := &model{}
	m.status[0] = stLive
	return m
}

func (m *model) clone() *model {
	c := *m
	for v := range m.defs {
		for k := range m.defs[v] {
			for n := range m.defs[v][k] {
				c.defs[v][k][n] = append([]int(nil), m.defs[v][k][n]...)
				c.opt[v][k][n] = append([]int(nil), m.opt[v][k][n]...)
			}
		}
	}
	return &c
}

func (m *model) live() []int {
	var r []int
	for v := 0; v < maxSlots; v++ {
		if m.status[v] == stLive {
			r = append(r, v)
		}
	}
	return r
}

// baseTaken: the base VM rejects a second class/interface of a name already used by a class or
// interface, and a second function of the same name. Redefinition on the base is not something
// the statement speaks about, so such ops are not part of the alphabet.
func (m *model) baseTaken(kind, name int) bool {
	if kind == kFunc {
		return len(m.defs[0][kFunc][name])+len(m.opt[0][kFunc][name]) > 0
	}
	return len(m.defs[0][kClass][name])+len(m.defs[0][kIface][name])+len(m.opt[0][kClass][name])+len(m.opt[0][kIface][name]) > 0
}

// enabled lists the ops that may follow in state m (canonical naming enforced).
func (m *model) enabled(maxTemps int) []Op {
	var ops []Op
	names := m.used + 1
	if names > nSym {
		names = nSym
	}
	live := m.live()
	for _, v := range live {
		for k := 0; k < nKinds; k++ {
			for n := 0; n < names; n++ {
				if v == 0 && m.baseTaken(k, n) {
					continue
				}
				ops = append(ops, Op{K: opDefine, VM: v, Kind: k, Name: n})
			}
		}
	}
	for _, v := range live {
		for n := 0; n < names; n++ {
			if v == 0 && (m.baseTaken(kClass, n) || m.baseTaken(kFunc, n)) {
				continue
			}
			ops = append(ops, Op{K: opLoad, VM: v, Name: n})
		}
	}
	for _, v := range live {
		for n := 0; n < names; n++ {
			if v == 0 && (m.baseTaken(kClass, n) || m.baseTaken(kFunc, n)) {
				continue
			}
			ops = append(ops, Op{K: opEval, VM: v, Name: n})
		}
	}
	ops = append(ops, Op{K: opLookup})
	for _, v := range live {
		for n := 0; n < names; n++ {
			ops = append(ops, Op{K: opNew, VM: v, Name: n})
		}
		ops = append(ops, Op{K: opNew, VM: v, Name: nameF})
	}
	for _, v := range live {
		for n := 0; n < names; n++ {
			ops = append(ops, Op{K: opCall, VM: v, Name: n})
		}
	}
	for _, v := range live {
		if v != 0 {
			ops = append(ops, Op{K: opDiscard, VM: v})
		}
	}
	if m.created < maxTemps {
		ops = append(ops, Op{K: opNewTemp})
	}
	return ops
}

// valid reports whether op may be applied in m (used by replay / reduction).
func (m *model) valid(o Op, maxTemps int) bool {
	for _, e := range m.enabled(maxTemps) {
		if e == o {
			return true
		}
	}
	return false
}

// apply advances the model; id is the index of the op in the history (= definition id).
func (m *model) apply(o Op, id int) {
	if o.named() {
		if o.Name != nameF && o.Name >= m.used {
			m.used = o.Name + 1
		}
	}
	switch o.K {
	case opNewTemp:
		m.created++
		m.status[m.created] = stLive
	case opDiscard:
		m.status[o.VM] = stDead
		m.defs[o.VM] = [nKinds][nSym][]int{}
		m.opt[o.VM] = [nKinds][nSym][]int{}
		m.viaFile[o.VM] = 0
	case opDefine:
		m.defs[o.VM][o.Kind][o.Name] = append(m.defs[o.VM][o.Kind][o.Name], id)
	case opLoad:
		m.defs[o.VM][kClass][o.Name] = append(m.defs[o.VM][kClass][o.Name], id)
		m.defs[o.VM][kFunc][o.Name] = append(m.defs[o.VM][kFunc][o.Name], id)
		m.viaFile[o.VM]++
	case opEval:
		for k := 0; k < nKinds; k++ {
			m.opt[o.VM][k][o.Name] = append(m.opt[o.VM][k][o.Name], id)
		}
	}
}

// allowed returns the definitions VM v may resolve (kind, name) to: what the base defined plus
// what v itself defined. Exactly one element => the answer is determined; two or more => the
// statement leaves the choice open (shadowing / redefinition inside one request); none => the
// name must not resolve on v.
func (m *model) allowed(v int, kinds []int, name int) []int {
	r := m.must(v, kinds, name)
	for _, k := range kinds {
		r = append(r, m.opt[0][k][name]...)
		if v != 0 {
			r = append(r, m.opt[v][k][name]...)
		}
	}
	return r
}

// must: the definitions of which one has to resolve on v (allowed minus the eval-requested ones).
func (m *model) must(v int, kinds []int, name int) []int {
	var r []int
	for _, k := range kinds {
		r = append(r, m.defs[0][k][name]...)
		if v != 0 {
			r = append(r, m.defs[v][k][name]...)
		}
	}
	return r
}

// named: the op mentions one of the interchangeable names.
func (o Op) named() bool {
	switch o.K {
	case opDefine, opLoad, opEval, opNew, opCall:
		return true
	}
	return false
}

// defines: the op makes (or requests) definitions.
func (o Op) defines() bool { return o.K == opDefine || o.K == opLoad || o.K == opEval }

// owner describes a definition id for messages and canonical observation vectors.
func (m *model) owner(id int) (v, k, n, ord int, ok bool) {
	for v := 0; v < maxSlots; v++ {
		for k := 0; k < nKinds; k++ {
			for n := 0; n < nSym; n++ {
				for i, d := range m.defs[v][k][n] {
					if d == id {
						return v, k, n, i, true
					}
				}
				for i, d := range m.opt[v][k][n] {
					if d == id {
						return v, k, n, 100 + i, true
					}
				}
			}
		}
	}
	return 0, 0, 0, 0, false
}

// canon is the canonical model state used in the dedup key.
func (m *model) canon() string {
	var sb strings.Builder
	fmt.Fprintf(&sb, "c%du%d|", m.created, m.used)
	for v := 0; v < maxSlots; v++ {
		fmt.Fprintf(&sb, "%d:f%d:", m.status[v], m.viaFile[v])
		for k := 0; k < nKinds; k++ {
			for n := 0; n < nSym; n++ {
				fmt.Fprintf(&sb, "%d.%d,", len(m.defs[v][k][n]), len(m.opt[v][k][n]))
			}
		}
		sb.WriteByte('|')
	}
	return sb.String()
}

// ---- canonicalisation and reduction of histories -----------------------------------------

// normalise renumbers temps by creation order after ops were removed and renames the symmetric
// names by first use. It returns ok=false if the history is not executable (an op refers to a
// temp whose creation was removed, is not live, or the base would reject the definition).
func normalise(h []Op, maxTemps int) ([]Op, bool) {
	out := make([]Op, 0, len(h))
	ren := map[int]int{}
	next := 0
	m := newModel()
	for _, o := range h {
		if o.named() {
			if o.Name != nameF {
				if _, ok := ren[o.Name]; !ok {
					ren[o.Name] = next
					next++
				}
				o.Name = ren[o.Name]
			}
		}
		if !m.valid(o, maxTemps) {
			return nil, false
		}
		m.apply(o, len(out))
		out = append(out, o)
	}
	return out, true
}

// dropOp removes op i; references to temps created later are shifted when a newtemp goes away.
func dropOp(h []Op, i int) ([]Op, bool) {
	out := make([]Op, 0, len(h)-1)
	removedTemp := 0
	if h[i].K == opNewTemp {
		for j := 0; j <= i; j++ {
			if h[j].K == opNewTemp {
				removedTemp++
			}
		}
	}
	for j, o := range h {
		if j == i {
			continue
		}
		if removedTemp > 0 && o.K != opNewTemp && o.K != opLookup && o.VM > 0 {
			if o.VM == removedTemp {
				return nil, false
			}
			if o.VM > removedTemp {
				o.VM--
			}
		}
		out = append(out, o)
	}
	return out, true
}

// countHistories counts the canonical histories of exactly each length 0..maxLen (model only).
func countHistories(maxLen, maxTemps int) []int64 {
	cnt := make([]int64, maxLen+1)
	var rec func(m *model, d int)
	rec = func(m *model, d int) {
		cnt[d]++
		if d == maxLen {
			return
		}
		for _, o := range m.enabled(maxTemps) {
			c := m.clone()
			c.apply(o, d)
			rec(c, d+1)
		}
	}
	rec(newModel(), 0)
	return cnt
}
