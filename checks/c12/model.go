package main

import (
	"fmt"
	"strings"
)

// ---- operation alphabet -------------------------------------------------------------------
//
// VM slots: 0 = base, 1..maxTemps = temporary VMs numbered by creation order (a slot is never
// reused after discard). Names 0..nSym-1 are interchangeable identifiers (histories are
// enumerated up to renaming: a name may be used only if all smaller ones were used before);
// names >= nSym form the class-path family: files reachable through the class path manager
// (AddNamespace), autoloadable by every VM and also loadable directly (LoadAndRun / require):
//   F  class Autol                                   (Autol.zy)
//   G  interface Shapi + bystander class ShapiAid    (Shapi.zy; the bystander "Gb" has no file of its own)
//   H  class Circl extends Autol implements Shapi    (Circl.zy; loading it loads F and G first)

const (
	maxSlots = 4 // base + 3 temps
	nSym     = 3
	nameF    = 3 // autoloadable class
	nameG    = 4 // autoloadable interface
	nameH    = 5 // autoloadable class depending on F and G
	nameGb   = 6 // class declared next to G in G's file (never named by an op, only observed)
	nNames   = 7
)

// units: one per class-path file.
const (
	uF = iota
	uG
	uH
	nUnits
)

var unitOf = [nNames]int{nameF: uF, nameG: uG, nameH: uH, nameGb: uG}
var unitName = [nUnits]int{uF: nameF, uG: nameG, uH: nameH}
var unitDeps = [nUnits][]int{uH: {uF, uG}}

// autoloadable: the name has a file of its own on the class path (the bystander has not).
func autoloadable(n int) bool { return n == nameF || n == nameG || n == nameH }

// handler forms: how the callable that a request invokes was made at boot time on the base VM.
const (
	fPlain = iota
	fUse
	fUseRef
	fStatic
	fArrow
	fNested
	fViaFunc
	fViaStatic
	fViaNew
	fInMethod
	fInStatic
	fObjMethod
	nForms
)

var formName = [nForms]string{"closure", "closure-use", "closure-use-ref", "static-closure", "arrow-fn", "nested-closure-use", "via-base-function", "via-static-method", "via-new-object", "closure-made-in-method", "closure-made-in-static-method", "method-of-boot-object"}

// formGroup: what the body of the callable is lexically bound to (used to group minimal histories
// of one root cause): nothing / a class whose object is created inside the request / an object or
// class scope that exists since boot.
var formGroup = [nForms]string{"free", "free", "free", "free", "free", "free", "free", "request-object", "request-object", "boot-object", "boot-object", "boot-object"}

const (
	kClass = iota
	kIface
	kFunc
	nKinds
)

var kindName = [nKinds]string{"class", "interface", "function"}

const (
	opNewTemp = "newtemp"
	opDiscard = "discard"
	opDefine  = "define"
	opLoad    = "loadfile" // vm.LoadAndRun(file): the file declares class <name> and function <name>
	opEval    = "evaldef"  // a script on vm runs eval('class <name>…'); eval('function <name>…'); eval('interface <name>…')
	opLookup  = "lookup"
	opNew     = "new"
	opCall    = "call"
	// handler(vm, form, name): a callable of the given form is made by a boot script on the BASE VM
	// and then invoked the way std/net/http.HotHandler.ServeHTTP invokes a route handler: on a fresh
	// context derived from the registration context whose VM is replaced by vm. Its body declares
	// function <name>, requires a file declaring class <name>, and instantiates the autoloadable F.
	opHandler = "handler"
)

type Op struct {
	K    string `json:"k"`
	VM   int    `json:"vm,omitempty"`
	Kind int    `json:"kind,omitempty"`
	Name int    `json:"name,omitempty"`
	Form int    `json:"form,omitempty"`
}

// ext: the op belongs to the extended alphabet (enumerated to a shorter length than the core one).
func (o Op) ext() bool {
	switch o.K {
	case opHandler:
		return true
	case opLoad:
		return o.Name >= nSym
	case opNew:
		return o.Name > nameF
	}
	return false
}

func hasExt(h []Op) bool {
	for _, o := range h {
		if o.ext() {
			return true
		}
	}
	return false
}

func vmLabel(i int) string {
	if i == 0 {
		return "base"
	}
	return fmt.Sprintf("T%d", i)
}

func nameLabel(n int) string {
	switch n {
	case nameF:
		return "F"
	case nameG:
		return "G"
	case nameH:
		return "H"
	case nameGb:
		return "Gb"
	}
	return string(rune('A' + n))
}

func (o Op) String() string {
	switch o.K {
	case opNewTemp, opLookup:
		return o.K
	case opDiscard:
		return "discard(" + vmLabel(o.VM) + ")"
	case opDefine:
		return fmt.Sprintf("define(%s,%s,%s)", vmLabel(o.VM), kindName[o.Kind], nameLabel(o.Name))
	case opHandler:
		return fmt.Sprintf("handler(%s,%s,%s)", vmLabel(o.VM), formName[o.Form], nameLabel(o.Name))
	default: // new, call, loadfile, evaldef
		return fmt.Sprintf("%s(%s,%s)", o.K, vmLabel(o.VM), nameLabel(o.Name))
	}
}

func histString(h []Op) string {
	s := make([]string, len(h))
	for i, o := range h {
		s[i] = o.String()
	}
	return "[" + strings.Join(s, "; ") + "]"
}

// ---- reference model: a set model (base ∪ own additions) ----------------------------------

const (
	stUnborn = iota
	stLive
	stDead
)

type model struct {
	status [maxSlots]int
	// defs[vm][kind][name] = ids (index of the defining op in the history) of the definitions
	// made through that VM, in order.
	defs [maxSlots][nKinds][nSym][]int
	// opt: definitions requested through eval(). Whether eval may define anything on that VM is
	// not the statement's business (today a TempVM refuses eval): such a definition may or may
	// not resolve on its own VM (and through temps if made on the base) — never anywhere else.
	opt [maxSlots][nKinds][nSym][]int
	// how many definitions came through LoadAndRun per VM (part of the merge key: the route leaves
	// state behind — parser bindings, loaded-file marks — that no lookup shows directly)
	// float: definitions made by a handler whose body is bound to an object / class scope that exists
	// since boot (formGroup "boot-object"). Such code belongs to the base VM as much as to the request
	// that invokes it; whether what it defines lands in the base or in the request VM is left open
	// (today: the base). They are also entered in defs[vm] (the invoking VM must resolve them) and
	// stay allowed everywhere, also after that VM is discarded.
	float   [nKinds][nSym][]int
	viaFile [maxSlots]int
	created int // temps created so far
	used    int // symmetric names used so far (canonical naming)
	alpha   int // 0 = core alphabet, 1 = extended alphabet (handler ops, class-path family ops)
	hform   int // form shared by all handler ops of the history (-1: none yet)

	// class-path family. A unit (file) is *surely* visible on v when the base loaded it (baseYes) or
	// v itself loaded / triggered it (sees[v]). When a temp triggers an autoload, where the file's
	// definitions land is left open (today: classes in the temp, interfaces and LoadPkg loads in the
	// base): baseMaybe. A direct load through a temp (LoadAndRun / require) is a definition through
	// that temp and never sets baseMaybe.
	baseYes   [nUnits]bool
	baseMaybe [nUnits]bool
	sees      [maxSlots][nUnits]bool
}

func newModel() *model {
	m := &model{hform: -1}
	m.status[0] = stLive
	return m
}

func newModelA(alpha int) *model {
	m := newModel()
	m.alpha = alpha
	return m
}

// sure: unit u must resolve on v (any probe). may: it may resolve on v under a non-loading probe.
func (m *model) sure(v, u int) bool { return m.baseYes[u] || m.sees[v][u] }
func (m *model) may(v, u int) bool  { return m.sure(v, u) || m.baseMaybe[u] }

// depsMaybe: loading u's file may pull in the files u depends on — at once (the class path manager
// pre-loads parents and interfaces) or only when they are first needed (LoadAndRun): left open, and
// so is where they land.
func (m *model) depsMaybe(v, u int) {
	for _, d := range unitDeps[u] {
		if !m.sure(v, d) {
			m.baseMaybe[d] = true
		}
	}
}

// trigger: a loading lookup of unit u through v. A lookup of something v surely sees is pure.
func (m *model) trigger(v, u int) {
	if m.sure(v, u) {
		return
	}
	m.depsMaybe(v, u)
	if v == 0 {
		m.baseYes[u] = true
		return
	}
	m.sees[v][u] = true
	m.baseMaybe[u] = true
}

// directLoad: v.LoadAndRun(file of u). The dependencies are autoloaded through v while the file is
// parsed; the file's own definitions are made through v.
func (m *model) directLoad(v, u int) {
	if m.sure(v, u) {
		return // already loaded for v: the loaded-file mark makes it a no-op
	}
	m.depsMaybe(v, u)
	if v == 0 {
		m.baseYes[u] = true
		return
	}
	m.sees[v][u] = true
}

func (m *model) clone() *model {
	c := *m
	for v := range m.defs {
		for k := range m.defs[v] {
			for n := range m.defs[v][k] {
				c.defs[v][k][n] = append([]int(nil), m.defs[v][k][n]...)
				c.opt[v][k][n] = append([]int(nil), m.opt[v][k][n]...)
			}
		}
	}
	for k := range m.float {
		for n := range m.float[k] {
			c.float[k][n] = append([]int(nil), m.float[k][n]...)
		}
	}
	return &c
}

func (m *model) live() []int {
	var r []int
	for v := 0; v < maxSlots; v++ {
		if m.status[v] == stLive {
			r = append(r, v)
		}
	}
	return r
}

// baseTaken: the base VM rejects a second class/interface of a name already used by a class or
// interface, and a second function of the same name. Redefinition on the base is not something
// the statement speaks about, so such ops are not part of the alphabet.
func (m *model) baseTaken(kind, name int) bool {
	if kind == kFunc {
		return len(m.defs[0][kFunc][name])+len(m.opt[0][kFunc][name])+len(m.float[kFunc][name]) > 0
	}
	return len(m.defs[0][kClass][name])+len(m.defs[0][kIface][name])+len(m.opt[0][kClass][name])+len(m.opt[0][kIface][name])+len(m.float[kClass][name])+len(m.float[kIface][name]) > 0
}

// enabled lists the ops that may follow in state m (canonical naming enforced).
func (m *model) enabled(maxTemps int) []Op {
	var ops []Op
	names := m.used + 1
	if names > nSym {
		names = nSym
	}
	live := m.live()
	for _, v := range live {
		for k := 0; k < nKinds; k++ {
			for n := 0; n < names; n++ {
				if v == 0 && m.baseTaken(k, n) {
					continue
				}
				ops = append(ops, Op{K: opDefine, VM: v, Kind: k, Name: n})
			}
		}
	}
	for _, v := range live {
		for n := 0; n < names; n++ {
			if v == 0 && (m.baseTaken(kClass, n) || m.baseTaken(kFunc, n)) {
				continue
			}
			ops = append(ops, Op{K: opLoad, VM: v, Name: n})
		}
	}
	for _, v := range live {
		for n := 0; n < names; n++ {
			if v == 0 && (m.baseTaken(kClass, n) || m.baseTaken(kFunc, n)) {
				continue
			}
			ops = append(ops, Op{K: opEval, VM: v, Name: n})
		}
	}
	ops = append(ops, Op{K: opLookup})
	for _, v := range live {
		for n := 0; n < names; n++ {
			ops = append(ops, Op{K: opNew, VM: v, Name: n})
		}
		ops = append(ops, Op{K: opNew, VM: v, Name: nameF})
		if m.alpha > 0 {
			ops = append(ops, Op{K: opNew, VM: v, Name: nameG}, Op{K: opNew, VM: v, Name: nameH})
		}
	}
	if m.alpha > 0 {
		for _, v := range live {
			for _, n := range []int{nameF, nameG, nameH} {
				ops = append(ops, Op{K: opLoad, VM: v, Name: n})
			}
		}
		for _, v := range live {
			for n := 0; n < names; n++ {
				if v == 0 && (m.baseTaken(kClass, n) || m.baseTaken(kFunc, n)) {
					continue
				}
				taken := m.baseTaken(kClass, n) || m.baseTaken(kFunc, n)
				for f := 0; f < nForms; f++ {
					if m.hform >= 0 && f != m.hform {
						continue
					}
					if taken && formGroup[f] == "boot-object" {
						continue // the body may run on the base VM, which rejects the redefinition
					}
					ops = append(ops, Op{K: opHandler, VM: v, Name: n, Form: f})
				}
			}
		}
	}
	for _, v := range live {
		for n := 0; n < names; n++ {
			ops = append(ops, Op{K: opCall, VM: v, Name: n})
		}
	}
	for _, v := range live {
		if v != 0 {
			ops = append(ops, Op{K: opDiscard, VM: v})
		}
	}
	if m.created < maxTemps {
		ops = append(ops, Op{K: opNewTemp})
	}
	return ops
}

// valid reports whether op may be applied in m (used by replay / reduction).
func (m *model) valid(o Op, maxTemps int) bool {
	c := *m
	c.alpha = 1
	for _, e := range c.enabled(maxTemps) {
		if e == o {
			return true
		}
	}
	return false
}

// apply advances the model; id is the index of the op in the history (= definition id).
func (m *model) apply(o Op, id int) {
	if o.named() {
		if o.Name < nSym && o.Name >= m.used {
			m.used = o.Name + 1
		}
	}
	switch o.K {
	case opNewTemp:
		m.created++
		m.status[m.created] = stLive
	case opDiscard:
		m.status[o.VM] = stDead
		m.defs[o.VM] = [nKinds][nSym][]int{}
		m.opt[o.VM] = [nKinds][nSym][]int{}
		m.viaFile[o.VM] = 0
		m.sees[o.VM] = [nUnits]bool{}
	case opDefine:
		m.defs[o.VM][o.Kind][o.Name] = append(m.defs[o.VM][o.Kind][o.Name], id)
	case opLoad:
		if o.Name >= nSym {
			m.directLoad(o.VM, unitOf[o.Name])
			m.viaFile[o.VM]++
			break
		}
		m.defs[o.VM][kClass][o.Name] = append(m.defs[o.VM][kClass][o.Name], id)
		m.defs[o.VM][kFunc][o.Name] = append(m.defs[o.VM][kFunc][o.Name], id)
		m.viaFile[o.VM]++
	case opHandler:
		m.hform = o.Form
		m.defs[o.VM][kClass][o.Name] = append(m.defs[o.VM][kClass][o.Name], id)
		m.defs[o.VM][kFunc][o.Name] = append(m.defs[o.VM][kFunc][o.Name], id)
		if o.VM != 0 && formGroup[o.Form] == "boot-object" {
			m.float[kClass][o.Name] = append(m.float[kClass][o.Name], id)
			m.float[kFunc][o.Name] = append(m.float[kFunc][o.Name], id)
			m.baseMaybe[uF] = true // if the body runs on the base VM it is the base that autoloads F
		}
		m.viaFile[o.VM]++
		m.trigger(o.VM, uF)
	case opNew:
		if o.Name >= nSym {
			m.trigger(o.VM, unitOf[o.Name])
		}
	case opLookup:
		// every live VM (temps oldest first, the base last) asks for every class-path name
		for _, v := range append(m.live()[1:], 0) {
			for u := 0; u < nUnits; u++ {
				m.trigger(v, u)
			}
		}
	case opEval:
		for k := 0; k < nKinds; k++ {
			m.opt[o.VM][k][o.Name] = append(m.opt[o.VM][k][o.Name], id)
		}
	}
}

// allowed returns the definitions VM v may resolve (kind, name) to: what the base defined plus
// what v itself defined. Exactly one element => the answer is determined; two or more => the
// statement leaves the choice open (shadowing / redefinition inside one request); none => the
// name must not resolve on v.
func (m *model) allowed(v int, kinds []int, name int) []int {
	r := m.must(v, kinds, name)
	for _, k := range kinds {
		for _, d := range m.float[k][name] {
			dup := false
			for _, x := range r {
				dup = dup || x == d
			}
			if !dup {
				r = append(r, d)
			}
		}
		r = append(r, m.opt[0][k][name]...)
		if v != 0 {
			r = append(r, m.opt[v][k][name]...)
		}
	}
	return r
}

// must: the definitions of which one has to resolve on v (allowed minus the eval-requested ones).
func (m *model) must(v int, kinds []int, name int) []int {
	var r []int
	for _, k := range kinds {
		r = append(r, m.defs[0][k][name]...)
		if v != 0 {
			r = append(r, m.defs[v][k][name]...)
		}
	}
	return r
}

// named: the op mentions one of the interchangeable names.
func (o Op) named() bool {
	switch o.K {
	case opDefine, opLoad, opEval, opNew, opCall, opHandler:
		return true
	}
	return false
}

// defines: the op makes (or requests) definitions of one of the interchangeable names.
func (o Op) defines() bool {
	return o.K == opDefine || (o.K == opLoad && o.Name < nSym) || o.K == opEval || o.K == opHandler
}

// owner describes a definition id for messages and canonical observation vectors.
func (m *model) owner(id int) (v, k, n, ord int, ok bool) {
	for v := 0; v < maxSlots; v++ {
		for k := 0; k < nKinds; k++ {
			for n := 0; n < nSym; n++ {
				for i, d := range m.defs[v][k][n] {
					if d == id {
						return v, k, n, i, true
					}
				}
				for i, d := range m.opt[v][k][n] {
					if d == id {
						return v, k, n, 100 + i, true
					}
				}
			}
		}
	}
	for k := 0; k < nKinds; k++ {
		for n := 0; n < nSym; n++ {
			for i, d := range m.float[k][n] {
				if d == id {
					return maxSlots, k, n, 200 + i, true
				}
			}
		}
	}
	return 0, 0, 0, 0, false
}

// canon is the canonical model state used in the dedup key.
func (m *model) canon() string {
	var sb strings.Builder
	fmt.Fprintf(&sb, "c%du%dh%d|", m.created, m.used, m.hform)
	for k := 0; k < nKinds; k++ {
		for n := 0; n < nSym; n++ {
			fmt.Fprintf(&sb, "f%d", len(m.float[k][n]))
		}
	}
	for u := 0; u < nUnits; u++ {
		fmt.Fprintf(&sb, "%v%v", m.baseYes[u], m.baseMaybe[u])
		for v := 0; v < maxSlots; v++ {
			fmt.Fprintf(&sb, "%v", m.sees[v][u])
		}
	}
	for v := 0; v < maxSlots; v++ {
		fmt.Fprintf(&sb, "%d:f%d:", m.status[v], m.viaFile[v])
		for k := 0; k < nKinds; k++ {
			for n := 0; n < nSym; n++ {
				fmt.Fprintf(&sb, "%d.%d,", len(m.defs[v][k][n]), len(m.opt[v][k][n]))
			}
		}
		sb.WriteByte('|')
	}
	return sb.String()
}

// ---- canonicalisation and reduction of histories -----------------------------------------

// normalise renumbers temps by creation order after ops were removed and renames the symmetric
// names by first use. It returns ok=false if the history is not executable (an op refers to a
// temp whose creation was removed, is not live, or the base would reject the definition).
func normalise(h []Op, maxTemps int) ([]Op, bool) {
	out := make([]Op, 0, len(h))
	ren := map[int]int{}
	next := 0
	m := newModel()
	for _, o := range h {
		if o.named() {
			if o.Name < nSym {
				if _, ok := ren[o.Name]; !ok {
					ren[o.Name] = next
					next++
				}
				o.Name = ren[o.Name]
			}
		}
		if !m.valid(o, maxTemps) {
			return nil, false
		}
		m.apply(o, len(out))
		out = append(out, o)
	}
	return out, true
}

// dropOp removes op i; references to temps created later are shifted when a newtemp goes away.
func dropOp(h []Op, i int) ([]Op, bool) {
	out := make([]Op, 0, len(h)-1)
	removedTemp := 0
	if h[i].K == opNewTemp {
		for j := 0; j <= i; j++ {
			if h[j].K == opNewTemp {
				removedTemp++
			}
		}
	}
	for j, o := range h {
		if j == i {
			continue
		}
		if removedTemp > 0 && o.K != opNewTemp && o.K != opLookup && o.VM > 0 {
			if o.VM == removedTemp {
				return nil, false
			}
			if o.VM > removedTemp {
				o.VM--
			}
		}
		out = append(out, o)
	}
	return out, true
}

// countHistories counts the canonical histories of exactly each length 0..maxLen (model only).
// With alpha = 1 only the histories containing at least one op of the extended alphabet are counted
// (the others belong to the core enumeration).
func countHistories(maxLen, maxTemps, alpha int) []int64 {
	cnt := make([]int64, maxLen+1)
	var rec func(m *model, d int, ext bool)
	rec = func(m *model, d int, ext bool) {
		if alpha == 0 || ext {
			cnt[d]++
		}
		if d == maxLen {
			return
		}
		for _, o := range m.enabled(maxTemps) {
			c := m.clone()
			c.apply(o, d)
			rec(c, d+1, ext || o.ext())
		}
	}
	rec(newModelA(alpha), 0, false)
	return cnt
}
