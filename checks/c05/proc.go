package main

// G2: the process-level clause. The CLI is rebuilt from the working tree (plain `go build`, no
// instrumentation overlay) and every cell of the finite menu is run as a real subprocess.

import (
	"bytes"
	"context"
	"crypto/md5"
	"fmt"
	"os"
	"os/exec"
	"path/filepath"
	"sort"
	"strings"
	"sync"
	"time"

	"verif/engine/ev"
)

const preOut = "pre-out\n"

type ending struct {
	Name  string
	Class string // uncaught | parse | parse-include | control
	Body  string // statements after the prior-output prefix
	Inc   string // content of the included file ("" = none)
	// expectations
	Error      bool // must exit non-zero with a diagnostic
	WantStatus int  // controls: recorded status to compare against (-1 = none)
	PriorRuns  bool // the prior-output statements are executed before the ending (false: file does not parse)
}

var endings = []ending{
	{Name: "normal-end", Class: "control", Body: `echo "done\n";`, WantStatus: 0, PriorRuns: true},
	{Name: "uncaught-exception", Class: "uncaught", Body: `throw new Exception("boom");`, Error: true, PriorRuns: true},
	{Name: "uncaught-user-class", Class: "uncaught", Body: "class E1 extends Exception {}\nthrow new E1(\"boom\");", Error: true, PriorRuns: true},
	{Name: "uncaught-runtime-modzero", Class: "uncaught", Body: `$z = 1 % 0;`, Error: true, PriorRuns: true},
	{Name: "uncaught-runtime-undefined-function", Class: "uncaught", Body: `no_such_function_c05();`, Error: true, PriorRuns: true},
	{Name: "uncaught-runtime-go-level", Class: "uncaught", Body: `$z = 1 << [1];`, Error: true, PriorRuns: true},
	{Name: "uncaught-in-function", Class: "uncaught", Body: "function f() { throw new Exception(\"inf\"); }\nf();", Error: true, PriorRuns: true},
	{Name: "uncaught-in-finally", Class: "uncaught", Body: "try { echo \"t\\n\"; } finally { throw new Exception(\"fin\"); }", Error: true, PriorRuns: true},
	{Name: "uncaught-rethrown-from-catch", Class: "uncaught", Body: "try { throw new Exception(\"a\"); } catch (Exception $e) { throw new Exception(\"b\"); } finally { echo \"f\\n\"; }", Error: true, PriorRuns: true},
	{Name: "uncaught-in-coalesce-left", Class: "uncaught", Body: "function thrower() { throw new Exception(\"boom\"); }\n$v = thrower() ?? 1;\necho \"carried on\\n\";", Error: true, PriorRuns: true},
	{Name: "uncaught-in-interpolation", Class: "uncaught", Body: "class T { function m() { throw new Exception(\"boom\"); } }\n$o = new T();\n$v = \"a{$o->m()}b\";\necho \"carried on\\n\";", Error: true, PriorRuns: true},
	{Name: "uncaught-in-shutdown-function", Class: "uncaught", Body: "register_shutdown_function(function () { echo \"sd\\n\"; throw new Exception(\"late\"); });\necho \"main done\\n\";", Error: true, PriorRuns: true},
	{Name: "uncaught-in-included-file", Class: "uncaught", Body: `include "inc.EXT";` + "\necho \"after\\n\";", Inc: "throw new Exception(\"in-inc\");\n", Error: true, PriorRuns: true},
	{Name: "parse-error-unclosed-paren", Class: "parse", Body: `if (`, Error: true},
	{Name: "parse-error-stray-brace", Class: "parse", Body: `}`, Error: true},
	{Name: "parse-error-class-without-name", Class: "parse", Body: `class { }`, Error: true},
	{Name: "parse-error-in-include", Class: "parse-include", Body: `include "inc.EXT";` + "\necho \"after\\n\";", Inc: "if (\n", Error: true, PriorRuns: true},
	{Name: "parse-error-in-require", Class: "parse-include", Body: `require "inc.EXT";` + "\necho \"after\\n\";", Inc: "function {\n", Error: true, PriorRuns: true},
	{Name: "exit(0)", Class: "control", Body: `exit(0);`, WantStatus: 0, PriorRuns: true},
	{Name: "exit(1)", Class: "control", Body: `exit(1);`, WantStatus: 1, PriorRuns: true},
	{Name: "exit(2)", Class: "control", Body: `exit(2);`, WantStatus: 2, PriorRuns: true},
	{Name: "exit(255)", Class: "control", Body: `exit(255);`, WantStatus: 255, PriorRuns: true},
}

var priors = []struct{ Name, Src string }{
	{"none", ""},
	{"echo", "echo \"pre-out\\n\";\n"},
	{"ob", "ob_start();\necho \"pre-out\\n\";\n"},
}

var exts = []string{"zy", "php"}

type g2Cell struct {
	Kind   string            `json:"kind"` // "g2"
	Ending string            `json:"ending"`
	Prior  string            `json:"prior"`
	Ext    string            `json:"ext"`
	Files  map[string]string `json:"files"`
	Main   string            `json:"main"`
	// G2h cells only (proc_handler.go)
	Hist   string `json:"hist,omitempty"`   // handler history, e.g. "set(closure);restore"
	Site   string `json:"site,omitempty"`   // where the history is executed: top | func | include
	Eff    string `json:"eff,omitempty"`    // reference model: effective handler kind when the script dies
	Expect string `json:"expect,omitempty"` // error (judged) | control (recorded)
	ID     string `json:"id,omitempty"`
}

type g2Obs struct {
	Status   int    `json:"status"`
	Stdout   string `json:"stdout"`
	Stderr   string `json:"stderr"`
	TimedOut bool   `json:"timed_out,omitempty"`
	Err      string `json:"err,omitempty"`
}

type g2Fail struct {
	Cell   g2Cell
	Obs    g2Obs
	Class  string
	Clause string
}

type g2Result struct {
	Bin      string
	Cells    int
	Fails    []g2Fail
	Outcomes map[string]bool
	Harness  []string
	Controls []string
	// G2h
	HSeen     []hSeen
	HExcluded []string
	HHists    int
	HBounds   hBounds
	HTable    map[string]int
	WallS     float64
}

func endingByName(n string) *ending {
	for i := range endings {
		if endings[i].Name == n {
			return &endings[i]
		}
	}
	return nil
}

func makeCell(e ending, prior struct{ Name, Src string }, ext string) g2Cell {
	head := ""
	if ext == "php" {
		head = "<?php\n"
	}
	c := g2Cell{Kind: "g2", Ending: e.Name, Prior: prior.Name, Ext: ext, Files: map[string]string{}, Main: "main." + ext}
	c.Files[c.Main] = head + prior.Src + strings.ReplaceAll(e.Body, "EXT", ext) + "\n"
	if e.Inc != "" {
		c.Files["inc."+ext] = head + e.Inc
	}
	return c
}

func repoDir() string {
	if r := os.Getenv("VERIF_REPO"); r != "" {
		return r
	}
	return "/repo"
}

func buildCLI() (string, error) {
	repo := repoDir()
	bin := filepath.Join(ev.Root, ".bin", "origami-cli-c05")
	if repo != "/repo" {
		// same tag as vcheck / tools/trymutant.sh (`echo "$REPO" | md5sum | cut -c1-8`) so their clean-up finds it
		bin += fmt.Sprintf(".%x", md5.Sum([]byte(repo+"\n")))[:9]
	}
	os.MkdirAll(filepath.Dir(bin), 0o755)
	cmd := exec.Command("go", "build", "-o", bin, repo)
	cmd.Dir = repo
	env := []string{}
	for _, e := range os.Environ() {
		if strings.HasPrefix(e, "GOTOOLCHAIN=") || strings.HasPrefix(e, "GOSUMDB=") || strings.HasPrefix(e, "VERIF_WORKER=") {
			continue
		}
		env = append(env, e)
	}
	cmd.Env = append(env, "GOPROXY=off", "GOFLAGS=-mod=mod", "GOCACHE="+filepath.Join(ev.Root, ".gocache"))
	out, err := cmd.CombinedOutput()
	if err != nil {
		return bin, fmt.Errorf("go build %s: %v\n%s", repo, err, out)
	}
	return bin, nil
}

func runCell(bin, dir string, c g2Cell) g2Obs {
	d := filepath.Join(dir, fmt.Sprintf("%s-%s-%s", strings.NewReplacer("(", "", ")", "").Replace(c.Ending), c.Prior, c.Ext))
	if c.ID != "" {
		d = filepath.Join(dir, c.ID)
	}
	os.MkdirAll(d, 0o755)
	for n, s := range c.Files {
		os.WriteFile(filepath.Join(d, n), []byte(s), 0o644)
	}
	// backstop only: a cell normally takes ~20 ms; a hang is a harness problem, never a verdict
	ctx, cancel := context.WithTimeout(context.Background(), 120*time.Second)
	defer cancel()
	cmd := exec.CommandContext(ctx, bin, c.Main)
	cmd.Dir = d
	var so, se bytes.Buffer
	cmd.Stdout, cmd.Stderr = &so, &se
	err := cmd.Run()
	o := g2Obs{Stdout: so.String(), Stderr: se.String()}
	if ctx.Err() != nil {
		o.TimedOut = true
		return o
	}
	if err != nil {
		if ee, ok := err.(*exec.ExitError); ok {
			o.Status = ee.ExitCode()
		} else {
			o.Err = err.Error()
		}
	}
	return o
}

// judgeCell returns the violated clauses of an error ending.
func judgeCell(e *ending, c g2Cell, o g2Obs) []string {
	var cl []string
	if !e.Error || c.Expect == "control" {
		return nil
	}
	if o.Status == 0 {
		cl = append(cl, "exit-status")
	}
	rest := o.Stdout
	if i := strings.Index(rest, preOut); i >= 0 {
		rest = rest[:i] + rest[i+len(preOut):]
	}
	if strings.TrimSpace(o.Stderr) == "" && strings.TrimSpace(rest) == "" {
		cl = append(cl, "diagnostic")
	}
	if e.PriorRuns && c.Prior != "none" && !strings.Contains(o.Stdout, preOut) {
		cl = append(cl, "flush")
	}
	return cl
}

func runCells(bin string, cells []g2Cell) *g2Result {
	res := &g2Result{Bin: bin, Outcomes: map[string]bool{}}
	dir, err := os.MkdirTemp(filepath.Join(ev.Root, ".tmp"), "c05-g2-")
	if err != nil {
		res.Harness = append(res.Harness, "mkdtemp: "+err.Error())
		return res
	}
	defer os.RemoveAll(dir)
	obs := make([]g2Obs, len(cells))
	var wg sync.WaitGroup
	sem := make(chan struct{}, 16)
	for i := range cells {
		wg.Add(1)
		go func(i int) {
			defer wg.Done()
			sem <- struct{}{}
			obs[i] = runCell(bin, dir, cells[i])
			<-sem
		}(i)
	}
	wg.Wait()
	for i, c := range cells {
		o := obs[i]
		e := endingByName(c.Ending)
		res.Cells++
		if o.TimedOut || o.Err != "" {
			res.Harness = append(res.Harness, fmt.Sprintf("G2 cell %s/%s/%s did not run to completion (timeout=%v err=%s)", c.Ending, c.Prior, c.Ext, o.TimedOut, o.Err))
			continue
		}
		flushed := "n/a"
		if c.Prior != "none" && e.PriorRuns {
			flushed = fmt.Sprint(strings.Contains(o.Stdout, preOut))
		}
		if c.Hist != "" {
			// G2h cell: outcomes are aggregated over endings / extensions; keys are derived in reportHandlers
			ops := strings.Split(c.Hist, ";")
			res.Outcomes[fmt.Sprintf("g2h:last=%s site=%s eff=%s prior=%s handler-ran=%v status=%d stderr=%v", ops[len(ops)-1], c.Site, c.Eff, c.Prior, strings.Contains(o.Stdout, hMarker), o.Status, strings.TrimSpace(o.Stderr) != "")] = true
			res.HSeen = append(res.HSeen, hSeen{Cell: c, Obs: o, Clauses: judgeCell(e, c, o), Ran: strings.Contains(o.Stdout, hMarker), Threw: strings.Contains(o.Stdout, "H:throws")})
			continue
		}
		res.Outcomes[fmt.Sprintf("g2:%s/%s status=%d stderr=%v prior-on-stdout=%s", c.Ending, c.Prior, o.Status, strings.TrimSpace(o.Stderr) != "", flushed)] = true
		if e.Class == "control" {
			if e.Name == "normal-end" && (o.Status != 0 || (c.Prior != "ob" && !strings.Contains(o.Stdout, "done\n"))) {
				res.Harness = append(res.Harness, fmt.Sprintf("G2 control %s/%s/%s: a script that ends normally gave status %d stdout %q - exit statuses cannot discriminate", c.Ending, c.Prior, c.Ext, o.Status, o.Stdout))
			}
			if o.Status != e.WantStatus {
				res.Controls = append(res.Controls, fmt.Sprintf("%s/%s/%s: status %d (PHP: %d)", c.Ending, c.Prior, c.Ext, o.Status, e.WantStatus))
			}
			continue
		}
		for _, cl := range judgeCell(e, c, o) {
			res.Fails = append(res.Fails, g2Fail{Cell: c, Obs: o, Class: e.Class, Clause: cl})
		}
	}
	return res
}

func runG2(seed int64, quick bool) *g2Result {
	t0 := time.Now()
	res := runG2x(seed, quick)
	res.WallS = float64(time.Since(t0).Milliseconds()) / 1000
	return res
}

func runG2x(seed int64, quick bool) *g2Result {
	bin, err := buildCLI()
	if err != nil {
		return &g2Result{Bin: bin, Harness: []string{"cannot build the CLI: " + err.Error()}}
	}
	var cells []g2Cell
	for _, e := range endings {
		for _, p := range priors {
			for _, x := range exts {
				cells = append(cells, makeCell(e, p, x))
			}
		}
	}
	// base menu + the G2h baseline probes (each handler op alone, followed by a normal end)
	res := runCells(bin, append(cells, hControlCells()...))
	excluded := map[string]bool{}
	for _, s := range res.HSeen {
		if s.Obs.Status != 0 || !strings.Contains(s.Obs.Stdout, preOut) || !strings.Contains(s.Obs.Stdout, "done\n") {
			k := s.Cell.Hist + "@" + s.Cell.Site + "." + s.Cell.Ext
			excluded[k] = true
			res.HExcluded = append(res.HExcluded, fmt.Sprintf("%s: followed by a normal end gave status %d stdout %q stderr %q", k, s.Obs.Status, trunc(s.Obs.Stdout, 80), trunc(s.Obs.Stderr, 120)))
		}
	}
	sort.Strings(res.HExcluded)
	res.HSeen = nil
	res.HBounds = hTierBounds(quick)
	res.HTable = map[string]int{}
	// the family streams through in chunks; only verdicts, truncated outputs and (for failing cells)
	// the files are kept
	var chunk []g2Cell
	flush := func() {
		if len(chunk) == 0 {
			return
		}
		r2 := runCells(bin, chunk)
		chunk = chunk[:0]
		res.Cells += r2.Cells
		for _, s := range r2.HSeen {
			ops := strings.Split(s.Cell.Hist, ";")
			res.HTable[fmt.Sprintf("last=%s eff=%s expect=%s handler-ran=%v status=%d stderr=%v", ops[len(ops)-1], s.Cell.Eff, s.Cell.Expect, s.Ran, s.Obs.Status, strings.TrimSpace(s.Obs.Stderr) != "")]++
			s.Obs.Stdout, s.Obs.Stderr = trunc(s.Obs.Stdout, 400), trunc(s.Obs.Stderr, 400)
			if len(s.Clauses) == 0 {
				s.Cell.Files = nil
			}
			res.HSeen = append(res.HSeen, s)
		}
		res.Harness = append(res.Harness, r2.Harness...)
		for o := range r2.Outcomes {
			res.Outcomes[o] = true
		}
	}
	res.HHists = hCells(res.HBounds, excluded, func(c g2Cell) {
		chunk = append(chunk, c)
		if len(chunk) >= 4096 {
			flush()
		}
	})
	flush()
	return res
}

func replayG2(cell g2Cell) *g2Result {
	bin, err := buildCLI()
	if err != nil {
		return &g2Result{Bin: bin, Harness: []string{"cannot build the CLI: " + err.Error()}}
	}
	r := runCells(bin, []g2Cell{cell})
	for _, s := range r.HSeen {
		for _, cl := range s.Clauses {
			if s.Ran && !s.Threw && cl != "flush" {
				continue // a user handler consumed the throwable: control (see reportHandlers)
			}
			r.Fails = append(r.Fails, g2Fail{Cell: s.Cell, Obs: s.Obs, Class: "uncaught", Clause: cl})
		}
	}
	return r
}

// report turns failing cells into finding keys. One key per (ending class, clause[, prior
// mode for the flush clause]); the class is replaced by the individual endings when only a
// minority of the class fails, and the extension is named only when just one of the two fails.
func (r *g2Result) report(c *ev.Check) {
	for _, h := range r.Harness {
		c.HarnessError("%s", h)
	}
	for o := range r.Outcomes {
		c.Outcome(o)
	}
	if len(r.Controls) > 0 {
		sort.Strings(r.Controls)
		c.Set("g2_control_deviations_not_judged", r.Controls)
	}
	classSize := map[string]int{}
	for _, e := range endings {
		classSize[e.Class]++
		if e.Error && e.PriorRuns {
			classSize["error-endings"]++
		}
	}
	type grp struct {
		class, clause, prior string
	}
	groups := map[grp][]g2Fail{}
	for _, f := range r.Fails {
		g := grp{f.Class, f.Clause, ""}
		if f.Clause == "flush" {
			// losing earlier output does not depend on how the script fails
			g.class, g.prior = "error-endings", f.Cell.Prior
		}
		groups[g] = append(groups[g], f)
	}
	for g, fs := range groups {
		byEnding := map[string][]g2Fail{}
		for _, f := range fs {
			byEnding[f.Cell.Ending] = append(byEnding[f.Cell.Ending], f)
		}
		emit := func(name string, fs []g2Fail) {
			key := "proc:" + name + ":" + g.clause
			if g.prior != "" {
				key += ":prior=" + g.prior
			}
			ex := map[string]bool{}
			for _, f := range fs {
				ex[f.Cell.Ext] = true
			}
			if len(ex) == 1 {
				key += ":ext=" + fs[0].Cell.Ext
			}
			sort.Slice(fs, func(i, j int) bool {
				a, b := fs[i].Cell, fs[j].Cell
				return a.Ending+a.Prior+a.Ext < b.Ending+b.Prior+b.Ext
			})
			for i, f := range fs {
				size := 1 << 20
				if i == 0 {
					size = 0
				}
				c.Fail(key, g.clause, size, f.Cell, fmt.Sprintf("cell %s / prior=%s / .%s\nrequired: %s\nobserved: status=%d\nstdout=%q\nstderr=%q", f.Cell.Ending, f.Cell.Prior, f.Cell.Ext, requirement(g.clause), f.Obs.Status, trunc(f.Obs.Stdout, 300), trunc(f.Obs.Stderr, 300)))
			}
		}
		if 2*len(byEnding) > classSize[g.class] {
			// most endings of the class fail: one finding for the class (the cells are in the detail)
			emit(g.class, fs)
		} else {
			for en, efs := range byEnding {
				emit(en, efs)
			}
		}
	}
}

func requirement(clause string) string {
	if strings.Contains(clause, "+") {
		var p []string
		for _, c := range strings.Split(clause, "+") {
			p = append(p, requirement(c))
		}
		return strings.Join(p, "; ")
	}
	switch clause {
	case "exit-status":
		return "a script that ends with an uncaught throwable or does not parse exits with a non-zero status"
	case "diagnostic":
		return "a diagnostic is printed"
	case "flush":
		return "output produced before the failure is flushed to stdout"
	}
	return clause
}

func trunc(s string, n int) string {
	if len(s) > n {
		return s[:n] + "..."
	}
	return s
}
