package main

// Reference semantics of the generated core (PHP's try/catch/finally rules, which are also
// what docs/control-structures.md describes). It interprets the generator's own AST and
// never looks at origami.
//
//	try:     run body; if it throws, the FIRST catch whose type is the object's class, an
//	         ancestor or an implemented interface binds the SAME object and runs (a throw out of a
//	         catch body is not offered to sibling catches); then finally runs exactly once whatever
//	         the pending completion is (normal, throw, return, break, continue); if finally itself
//	         completes abruptly (return / throw) that completion replaces the pending one.
//	runtime errors are Throwables of an unspecified class: catch (Throwable) must catch them,
//	         E0/E1/E2/I must not, catch (Exception) may or may not (both answers accepted, but the
//	         same answer everywhere in one run); their class/message/identity probes are wildcards.

import (
	"fmt"
	"strings"
)

const (
	cNormal = iota
	cThrow
	cRet
	cBrk
	cCnt
)

var compName = []string{"fallthrough", "throw", "return", "break", "continue"}

type obj struct {
	id  int
	cls string // "" for runtime errors
	msg string
}

type comp struct {
	kind int
	o    *obj
	val  int
}

// probe is the expected identity observation at one catch entry ("*" = anything).
type probe struct {
	Cls, Msg, Same, Inst string
}

type refRun struct {
	rtIsException bool
	toks          []string
	probes        []probe
	last          *obj
	nextID        int
	cov           map[string]bool
}

func (r *refRun) emit(s string) { r.toks = append(r.toks, s) }

func (r *refRun) newObj(cls, msg string) *obj {
	r.nextID++
	return &obj{id: r.nextID, cls: cls, msg: msg}
}

func (r *refRun) matches(o *obj, typ string) bool {
	if o.cls == "" {
		return typ == "Throwable" || (typ == "Exception" && r.rtIsException)
	}
	return isA(o.cls, typ)
}

func (r *refRun) act(a nAct, catchVar *obj) comp {
	switch a.K {
	case "m":
		return comp{}
	case "throw":
		o := r.newObj(a.Cls, fmt.Sprintf("s%d", a.Site))
		r.last = o
		return comp{kind: cThrow, o: o}
	case "call":
		o := r.newObj(a.Cls, "f"+a.Cls)
		r.last = o
		return comp{kind: cThrow, o: o}
	case "x":
		return r.refExpr(a)
	case "re":
		return comp{kind: cThrow, o: catchVar}
	case "ret":
		return comp{kind: cRet, val: a.Site}
	case "brk":
		return comp{kind: cBrk}
	case "cnt":
		return comp{kind: cCnt}
	case "rt0", "rtm", "rth", "rtp":
		r.cov["rt:"+a.K] = true
		return comp{kind: cThrow, o: r.newObj("", "")}
	case "try":
		return r.try(a.Try, catchVar)
	}
	panic("ref: unknown action " + a.K)
}

// block = enter marker, action, exit marker (the exit marker only on normal completion).
func (r *refRun) block(enter, exit string, a nAct, catchVar *obj) comp {
	r.emit(enter)
	c := r.act(a, catchVar)
	if c.kind == cNormal {
		r.emit(exit)
	}
	return c
}

func (r *refRun) try(t *nTry, catchVar *obj) comp {
	c := r.block(fmt.Sprintf("T%d", t.ID), fmt.Sprintf("t%d", t.ID), t.Body, catchVar)
	if c.kind == cThrow {
		matched := false
		for i, cb := range t.Catches {
			if !r.matches(c.o, cb.Type) {
				continue
			}
			matched = true
			if i == 0 {
				r.cov["dispatch:first"] = true
			} else {
				r.cov["dispatch:later"] = true
			}
			o := c.o
			p := probe{Cls: o.cls, Msg: o.msg, Same: "n"}
			if o == r.last {
				p.Same = "y"
			}
			for _, ty := range instProbe {
				if isA(o.cls, ty) {
					p.Inst += "1"
				} else {
					p.Inst += "0"
				}
			}
			if o.cls == "" {
				p = probe{"*", "*", "*", "*"}
			}
			r.probes = append(r.probes, p)
			c = r.block(fmt.Sprintf("C%d.%d", t.ID, i+1), fmt.Sprintf("c%d.%d", t.ID, i+1), cb.Body, o)
			break
		}
		if !matched && len(t.Catches) > 0 {
			r.cov["dispatch:none"] = true
		}
	}
	if t.Fin != nil {
		r.cov["finally-on:"+compName[c.kind]] = true
		fc := r.block(fmt.Sprintf("F%d", t.ID), fmt.Sprintf("f%d", t.ID), *t.Fin, catchVar)
		if fc.kind != cNormal {
			r.cov["finally-overrides:"+compName[c.kind]+"->"+compName[fc.kind]] = true
			c = fc
		}
	}
	return c
}

func endTok(c comp) string {
	if c.kind == cThrow {
		if c.o.cls == "" {
			return "end=uncaught(*|*)"
		}
		return fmt.Sprintf("end=uncaught(%s|%s)", c.o.cls, c.o.msg)
	}
	return "end=ok"
}

// loop2 runs the two iterations of a loop context.
func (r *refRun) loop2(root nAct) comp {
	for i := 0; i < 2; i++ {
		r.emit("L")
		c := r.act(root, nil)
		switch c.kind {
		case cNormal:
			r.emit("A")
		case cCnt:
		case cBrk:
			return comp{}
		default:
			return c
		}
	}
	return comp{}
}

func (r *refRun) program(p Prog) {
	root := number(p)
	var c comp
	switch p.Ctx {
	case "top":
		c = r.act(root, nil)
	case "for", "while", "foreach":
		c = r.loop2(root)
	case "calls":
		for i := 0; i < 3; i++ {
			c = r.act(root, nil)
			if c.kind == cNormal {
				r.emit("A")
				c = comp{kind: cRet, val: 0}
			}
			if c.kind != cRet {
				break
			}
			r.emit(fmt.Sprintf("r=%d", c.val))
			c = comp{}
		}
	case "func", "funcloop":
		if p.Ctx == "func" {
			c = r.act(root, nil)
			if c.kind == cNormal {
				r.emit("A")
				c = comp{kind: cRet, val: 0}
			}
		} else {
			c = r.loop2(root)
			if c.kind == cNormal {
				r.emit("B")
				c = comp{kind: cRet, val: 0}
			}
		}
		if c.kind == cRet {
			r.emit(fmt.Sprintf("r=%d", c.val))
			c = comp{}
		}
	}
	if c.kind == cNormal {
		r.emit("Z")
	}
	if c.kind == cBrk || c.kind == cCnt || c.kind == cRet {
		panic("ref: completion escaped its context in " + p.canon())
	}
	r.emit(endTok(c))
}

// expectation = marker trace + per-catch-entry probes.
type expectation struct {
	Toks   []string `json:"trace"`
	Probes []probe  `json:"probes,omitempty"`
	cov    map[string]bool
}

func (e expectation) String() string { return strings.Join(e.Toks, ";") }

// reference returns the acceptable expectations of a program (one, or two when a runtime
// error meets a catch (Exception) and the two readings differ).
func reference(p Prog) []expectation {
	var out []expectation
	hasRT := usesClass2(p.Root, "x", "RT") || p.Root.uses("rt0") || p.Root.uses("rtm") || p.Root.uses("rth") || p.Root.uses("rtp")
	for _, flag := range []bool{true, false} {
		r := &refRun{rtIsException: flag, cov: map[string]bool{}}
		r.program(p)
		e := expectation{Toks: r.toks, Probes: r.probes, cov: r.cov}
		if len(out) == 1 && out[0].String() == e.String() {
			break
		}
		out = append(out, e)
		if !hasRT {
			break
		}
	}
	return out
}

// refSelfTest pins the reference model to hand-derived PHP traces (php -r output written down by
// hand; they are the textbook cases of the statement).
func refSelfTest() error {
	th := func(c string) Act { return decode(c) }
	mk := func(body Act, cs []Catch, fin *Act) Act {
		return Act{K: "try", Try: &Try{Body: body, Catches: cs, Fin: fin}}
	}
	m, ret := Act{K: "m"}, Act{K: "ret"}
	tE2 := th("tE2")
	cases := []struct {
		p    Prog
		want string
	}{
		// first matching catch wins, not the best match
		{Prog{"top", mk(th("tE0"), []Catch{{"E1", m}, {"E0", m}}, &m)}, "T1;C1.1;c1.1;F1;f1;Z;end=ok"},
		// non-matching catch is skipped; interface matches
		{Prog{"top", mk(th("tE2"), []Catch{{"E1", m}, {"I", m}}, nil)}, "T1;C1.2;c1.2;Z;end=ok"},
		// nobody matches: finally runs, exception escapes
		{Prog{"top", mk(th("tE2"), []Catch{{"E1", m}}, &m)}, "T1;F1;f1;end=uncaught(E2|s2)"},
		// return in try, finally runs before the function returns (site numbering: root=1, body=2)
		{Prog{"func", mk(ret, nil, &m)}, "T1;F1;f1;r=2;Z;end=ok"},
		// return in finally overrides a pending throw
		{Prog{"func", mk(th("tE1"), nil, &ret)}, "T1;F1;r=3;Z;end=ok"},
		// throw in finally replaces the pending exception
		{Prog{"top", mk(th("tE0"), nil, &tE2)}, "T1;F1;end=uncaught(E2|s3)"},
		// break / continue run the finally of the try they leave
		{Prog{"for", mk(Act{K: "brk"}, nil, &m)}, "L;T1;F1;f1;Z;end=ok"},
		{Prog{"for", mk(Act{K: "cnt"}, nil, &m)}, "L;T1;F1;f1;L;T1;F1;f1;Z;end=ok"},
		// rethrow from catch passes through the own finally and reaches the outer catch with its class
		{Prog{"top", mk(mk(th("tE0"), []Catch{{"Throwable", Act{K: "re"}}}, &m), []Catch{{"E2", m}, {"E1", m}}, nil)}, "T1;T2;C2.1;F2;f2;C1.2;c1.2;Z;end=ok"},
		// a throw out of a catch body is not offered to a sibling catch
		{Prog{"top", mk(th("tE0"), []Catch{{"E0", tE2}, {"E2", m}}, nil)}, "T1;C1.1;end=uncaught(E2|s3)"},
		// interface reached through a 3-level extends chain, same handler on every repetition
		{Prog{"calls", mk(th("tE3"), []Catch{{"E1", m}, {"J1", m}, {"Exception", m}}, nil)}, "T1;C1.2;c1.2;A;r=0;T1;C1.2;c1.2;A;r=0;T1;C1.2;c1.2;A;r=0;Z;end=ok"},
		// innermost try first
		{Prog{"top", mk(mk(th("tE0"), []Catch{{"E1", m}}, nil), []Catch{{"E0", m}}, nil)}, "T1;T2;C2.1;c2.1;t1;Z;end=ok"},
	}
	for _, c := range cases {
		if !c.p.valid() {
			return fmt.Errorf("self-test program invalid: %s", c.p.canon())
		}
		got := reference(c.p)
		if len(got) != 1 || got[0].String() != c.want {
			return fmt.Errorf("reference self-test: %s: got %v want %s", c.p.canon(), got, c.want)
		}
	}
	// identity probes
	e := reference(Prog{"top", mk(th("tE0"), []Catch{{"E1", m}}, nil)})[0]
	if len(e.Probes) != 1 || e.Probes[0] != (probe{"E0", "s2", "y", "110011"}) {
		return fmt.Errorf("reference self-test: probes %v", e.Probes)
	}
	// runtime error: two readings when catch (Exception) is involved
	if n := len(reference(Prog{"top", mk(Act{K: "rt0"}, []Catch{{"Exception", m}}, nil)})); n != 2 {
		return fmt.Errorf("reference self-test: runtime error readings = %d", n)
	}
	return nil
}
