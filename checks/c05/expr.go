package main

// Family d1e: the throw happens INSIDE AN EXPRESSION. Action "x" is one statement built around a
// throwing operand X (a call of a function that throws E0 / E1 / a plain Exception, or the
// runtime-error expression (1 % 0)); marker calls sit on the other operands so the trace shows
// that operands are evaluated left to right and nothing after the throwing operand runs.
// The reference: the operands listed in Pre run, then the throw propagates exactly like a
// statement-level throw from that point.

import (
	"fmt"
	"strings"
)

type exprForm struct {
	Name     string
	Stmt     string   // %X = the throwing operand
	Pre      []string // markers emitted before X is evaluated
	Base     []string // markers of the whole statement when X is the harmless mark("X") (returns 1)
	FuncOnly bool     // needs a function context (return)
	NoRT     bool     // not generated with the runtime-error operand (isset/empty are allowed to hush internal lookup errors)
	Method   bool     // X must be a method call ($xo->M())
	Dup      bool     // baseline: the operand may be evaluated more than once (not this property's business)
	Returns  bool
	OKX      string // harmless operand of the baseline probe when X must yield something else than 1 (array, object)
	Core     string // reduction: the simpler form this one is built around (tried after "plain")
}

var exprForms = []exprForm{
	{Name: "plain", Stmt: `$v = %X;`, Base: []string{"X"}},
	{Name: "coalL", Stmt: `$v = %X ?? mark("x1");`, Base: []string{"X"}},
	{Name: "coalR", Stmt: `$v = markn("x0") ?? %X;`, Pre: []string{"x0"}, Base: []string{"x0", "X"}},
	{Name: "isset", Stmt: `$xa = [1, 2]; $v = isset($xa[%X]);`, Base: []string{"X"}, NoRT: true, Dup: true},
	{Name: "empty", Stmt: `$xa = [1, 2]; $v = empty($xa[%X]);`, Base: []string{"X"}, NoRT: true, Dup: true},
	{Name: "ternC", Stmt: `$v = %X ? mark("x1") : mark("x2");`, Base: []string{"X", "x1"}},
	{Name: "ternT", Stmt: `$v = mark("x0") ? %X : mark("x2");`, Pre: []string{"x0"}, Base: []string{"x0", "X"}},
	{Name: "ternF", Stmt: `$v = markf("x0") ? mark("x1") : %X;`, Pre: []string{"x0"}, Base: []string{"x0", "X"}},
	{Name: "andL", Stmt: `$v = %X && mark("x1");`, Base: []string{"X", "x1"}},
	{Name: "andR", Stmt: `$v = mark("x0") && %X;`, Pre: []string{"x0"}, Base: []string{"x0", "X"}},
	{Name: "orL", Stmt: `$v = %X || mark("x1");`, Base: []string{"X"}},
	{Name: "orR", Stmt: `$v = markf("x0") || %X;`, Pre: []string{"x0"}, Base: []string{"x0", "X"}},
	{Name: "arr", Stmt: `$v = [mark("x0"), %X, mark("x1")];`, Pre: []string{"x0"}, Base: []string{"x0", "X", "x1"}},
	{Name: "arg", Stmt: `$v = take(mark("x0"), %X, mark("x1"));`, Pre: []string{"x0"}, Base: []string{"x0", "X", "x1", "take"}},
	{Name: "concat", Stmt: `$v = mark("x0") . %X;`, Pre: []string{"x0"}, Base: []string{"x0", "X"}},
	{Name: "interp", Stmt: `$xo = new XO(); $v = "a{%X}b";`, Base: []string{"X"}, Method: true},
	{Name: "at", Stmt: `$v = @%X;`, Base: []string{"X"}},
	{Name: "ret", Stmt: `return %X;`, Base: []string{"X"}, FuncOnly: true, Returns: true},

	// ---- round 4: throw-site contexts ------------------------------------------------------------
	// string interpolation: the interpolation is the whole string / has text on one side / two of them / heredoc,
	// and such a string in the usual places
	{Name: "interpOnly", Stmt: `$xo = new XO(); $v = "{%X}";`, Base: []string{"X"}, Method: true},
	{Name: "interpPre", Stmt: `$xo = new XO(); $v = "a{%X}";`, Base: []string{"X"}, Method: true},
	{Name: "interpPost", Stmt: `$xo = new XO(); $v = "{%X}b";`, Base: []string{"X"}, Method: true},
	{Name: "interp2L", Stmt: `$xo = new XO(); $v = "{%X}{$xo->M1()}";`, Base: []string{"X", "x1"}, Method: true},
	{Name: "interp2R", Stmt: `$xo = new XO(); $v = "{$xo->M0()}{%X}";`, Pre: []string{"x0"}, Base: []string{"x0", "X"}, Method: true},
	{Name: "interp2T", Stmt: `$xo = new XO(); $v = "{$xo->M0()}-{%X}";`, Pre: []string{"x0"}, Base: []string{"x0", "X"}, Method: true},
	{Name: "heredocOnly", Stmt: "$xo = new XO(); $v = <<<EOT\n{%X}\nEOT;", Base: []string{"X"}, Method: true},
	{Name: "heredocText", Stmt: "$xo = new XO(); $v = <<<EOT\na{%X}b\nEOT;", Base: []string{"X"}, Method: true},
	{Name: "interpArg", Stmt: `$xo = new XO(); $v = take(mark("x0"), "{%X}", mark("x1"));`, Pre: []string{"x0"}, Base: []string{"x0", "X", "x1", "take"}, Method: true, Core: "interpOnly"},
	{Name: "interpRet", Stmt: `$xo = new XO(); return "{%X}";`, Base: []string{"X"}, Method: true, FuncOnly: true, Returns: true, Core: "interpOnly"},
	{Name: "interpEcho", Stmt: `$xo = new XO(); echo "{%X}", ";";`, Base: []string{"X", "1"}, Method: true, Core: "interpOnly"},
	{Name: "interpConcat", Stmt: `$xo = new XO(); $v = "p" . "{%X}";`, Base: []string{"X"}, Method: true, Core: "interpOnly"},
	{Name: "interpArr", Stmt: `$xo = new XO(); $v = ["{%X}"];`, Base: []string{"X"}, Method: true, Core: "interpOnly"},
	{Name: "interpCond", Stmt: `$xo = new XO(); if ("{%X}") { mark("x1"); }`, Base: []string{"X", "x1"}, Method: true, Core: "interpOnly"},
	{Name: "method", Stmt: `$xo = new XO(); $v = %X;`, Base: []string{"X"}, Method: true},
	// operators and operand positions
	{Name: "stmt", Stmt: `%X;`, Base: []string{"X"}},
	{Name: "echo", Stmt: `echo %X, ";";`, Base: []string{"X", "1"}},
	{Name: "paren", Stmt: `$v = (%X);`, Base: []string{"X"}},
	{Name: "not", Stmt: `$v = !%X;`, Base: []string{"X"}},
	{Name: "neg", Stmt: `$v = -%X;`, Base: []string{"X"}},
	{Name: "cast", Stmt: `$v = (int)%X;`, Base: []string{"X"}},
	{Name: "plus", Stmt: `$v = mark("x0") + %X;`, Pre: []string{"x0"}, Base: []string{"x0", "X"}},
	{Name: "cmp", Stmt: `$v = %X == mark("x1");`, Base: []string{"X", "x1"}},
	{Name: "concatL", Stmt: `$v = %X . mark("x1");`, Base: []string{"X", "x1"}},
	{Name: "concatAssign", Stmt: `$v = "a"; $v .= %X;`, Base: []string{"X"}},
	{Name: "ternShort", Stmt: `$v = %X ?: mark("x1");`, Base: []string{"X"}, Dup: true},
	{Name: "coalAssign", Stmt: `$u = null; $u ??= %X;`, Base: []string{"X"}},
	{Name: "arrKey", Stmt: `$v = [%X => mark("x1")];`, Base: []string{"X", "x1"}},
	{Name: "arrVal", Stmt: `$v = [mark("x0") => %X];`, Pre: []string{"x0"}, Base: []string{"x0", "X"}},
	{Name: "list", Stmt: `[$la, $lb] = [mark("x0"), %X];`, Pre: []string{"x0"}, Base: []string{"x0", "X"}},
	{Name: "idx", Stmt: `$xa = [1, 2]; $v = $xa[%X];`, Base: []string{"X"}},
	{Name: "idxAssign", Stmt: `$xa = [1, 2]; $xa[0] += %X;`, Base: []string{"X"}},
	{Name: "idxBase", Stmt: `$v = %X[0];`, Base: []string{"X"}, OKX: `marka("X")`},
	{Name: "propBase", Stmt: `$v = %X->p;`, Base: []string{"X"}, OKX: `marko("X")`},
	{Name: "propAssign", Stmt: `$xo = new XO(); $xo->p = %X;`, Base: []string{"X"}},
	{Name: "methodArg", Stmt: `$xo = new XO(); $v = $xo->arg3(mark("x0"), %X, mark("x1"));`, Pre: []string{"x0"}, Base: []string{"x0", "X", "x1", "take"}},
	{Name: "staticArg", Stmt: `$v = XO::sarg3(mark("x0"), %X, mark("x1"));`, Pre: []string{"x0"}, Base: []string{"x0", "X", "x1", "take"}},
	{Name: "newArg", Stmt: `$v = new XC(mark("x0"), %X, mark("x1"));`, Pre: []string{"x0"}, Base: []string{"x0", "X", "x1", "take"}},
	// conditions and subjects of control statements
	{Name: "ifC", Stmt: `if (%X) { mark("x1"); } else { mark("x2"); }`, Base: []string{"X", "x1"}},
	{Name: "elseifC", Stmt: `if (markf("x0")) { mark("x1"); } elseif (%X) { mark("x2"); }`, Pre: []string{"x0"}, Base: []string{"x0", "X", "x2"}},
	{Name: "whileC", Stmt: `while (%X) { mark("x1"); break; }`, Base: []string{"X", "x1"}},
	{Name: "doC", Stmt: `do { mark("x0"); } while (%X && markf("x1"));`, Pre: []string{"x0"}, Base: []string{"x0", "X", "x1"}},
	{Name: "forInit", Stmt: `for ($fi = %X; $fi < 2; $fi++) { mark("x1"); }`, Base: []string{"X", "x1"}},
	{Name: "forC", Stmt: `for ($fi = 0; %X; $fi++) { mark("x1"); break; }`, Base: []string{"X", "x1"}},
	{Name: "forStep", Stmt: `for ($fi = 0; $fi < 1; $fi += %X) { mark("x0"); }`, Pre: []string{"x0"}, Base: []string{"x0", "X"}},
	{Name: "switchS", Stmt: `switch (%X) { case 1: mark("x1"); break; default: mark("x2"); }`, Base: []string{"X", "x1"}},
	{Name: "switchCase", Stmt: `switch (1) { case %X: mark("x1"); break; default: mark("x2"); }`, Base: []string{"X", "x1"}},
	{Name: "matchS", Stmt: `$v = match (%X) { 1 => mark("x1"), default => mark("x2") };`, Base: []string{"X", "x1"}},
	{Name: "matchArm", Stmt: `$v = match (mark("x0")) { 1 => %X, default => mark("x2") };`, Pre: []string{"x0"}, Base: []string{"x0", "X"}},
	{Name: "foreachSrc", Stmt: `foreach (%X as $fq) { mark("x1"); }`, Base: []string{"X", "x1"}, OKX: `marka("X")`},
	{Name: "foreachArr", Stmt: `foreach ([mark("x0"), %X] as $fq) { }`, Pre: []string{"x0"}, Base: []string{"x0", "X"}},
	// the throw crosses a closure / a callback invoked by a built-in
	{Name: "closure", Stmt: `$v = (function () { return %X; })();`, Base: []string{"X"}},
	{Name: "closureVar", Stmt: `$cf = function () { return %X; }; $v = $cf();`, Base: []string{"X"}},
	{Name: "arrowfn", Stmt: `$v = (fn() => %X)();`, Base: []string{"X"}},
	{Name: "callUserFunc", Stmt: `$v = call_user_func(function () { return %X; });`, Base: []string{"X"}},
	{Name: "arrayMap", Stmt: `$v = array_map(function ($q) { return %X; }, [1]);`, Base: []string{"X"}},
	{Name: "pregCallback", Stmt: `$v = preg_replace_callback("/a/", function ($q) { return %X; }, "a");`, Base: []string{"X"}},
}

// operand kinds: OK is the harmless baseline operand
var exprKinds = []string{"E1", "E0", "EX", "RT"} // simplest first (reduction order)

func formByName(n string) *exprForm {
	for i := range exprForms {
		if exprForms[i].Name == n {
			return &exprForms[i]
		}
	}
	return nil
}

func exprValid(a Act, ctx string) bool {
	f := formByName(a.Form)
	if f == nil {
		return false
	}
	if f.FuncOnly && !ctxIsFunc(ctx) {
		return false
	}
	switch a.Cls {
	case "E0", "E1", "EX", "OK":
		return true
	case "RT":
		return !f.NoRT
	}
	return false
}

// exprClass: the class of the object the operand throws ("" = runtime error, unspecified).
func exprClass(kind string) string {
	switch kind {
	case "EX":
		return "Exception"
	case "RT":
		return ""
	}
	return kind
}

func (r *render) exprStmt(a nAct) string {
	f := formByName(a.Form)
	var x string
	switch {
	case f.Method:
		x = "$xo->" + a.Cls + "()"
	case a.Cls == "OK" && f.OKX != "":
		x = f.OKX
	case a.Cls == "OK":
		x = r.name("mark") + `("X")`
	case a.Cls == "RT":
		x = "(1 % 0)"
	case a.Cls == "RP": // baseline only: same syntax as the runtime-error operand, harmless
		x = "(1 % 1)"
	default:
		x = r.name("thrower_"+a.Cls) + "()"
	}
	s := strings.ReplaceAll(f.Stmt, "%X", x)
	for _, fn := range []string{"markn(", "markf(", "marka(", "marko(", "mark(", "take(", "new XO(", "new XC("} {
		if r.sfx != "" {
			s = strings.ReplaceAll(s, fn, strings.Replace(fn, "(", r.sfx+"(", 1))
		}
	}
	if r.sfx != "" {
		s = strings.ReplaceAll(s, "XO::", "XO"+r.sfx+"::")
	}
	return s
}

// exprHeader: helper declarations used by the forms.
func exprHeader(r *render) {
	K := r.name("K")
	r.line(0, fmt.Sprintf(`function %s($t) { echo $t, ";"; return 1; }`, r.name("mark")))
	r.line(0, fmt.Sprintf(`function %s($t) { echo $t, ";"; return null; }`, r.name("markn")))
	r.line(0, fmt.Sprintf(`function %s($t) { echo $t, ";"; return false; }`, r.name("markf")))
	r.line(0, fmt.Sprintf(`function %s($a, $b, $c) { echo "take;"; return 0; }`, r.name("take")))
	r.line(0, fmt.Sprintf(`function %s() { $x = new Exception("fEX"); %s::$last = $x; throw $x; }`, r.name("thrower_EX"), K))
	r.line(0, fmt.Sprintf(`class %s { public $p = 1; function E0() { return %s(); } function E1() { return %s(); } function EX() { return %s(); } function RT() { return 1 %% 0; } function OK() { return %s("X"); } function M0() { return %s("x0"); } function M1() { return %s("x1"); } function arg3($a, $b, $c) { echo "take;"; return 0; } static function sarg3($a, $b, $c) { echo "take;"; return 0; } }`,
		r.name("XO"), r.name("thrower_E0"), r.name("thrower_E1"), r.name("thrower_EX"), r.name("mark"), r.name("mark"), r.name("mark")))
	r.line(0, fmt.Sprintf(`class %s { function __construct($a, $b, $c) { echo "take;"; } }`, r.name("XC")))
	r.line(0, fmt.Sprintf(`function %s($t) { echo $t, ";"; return [1]; }`, r.name("marka")))
	r.line(0, fmt.Sprintf(`function %s($t) { echo $t, ";"; return new %s(); }`, r.name("marko"), r.name("XO")))
}

// refExpr: reference semantics of action "x".
func (r *refRun) refExpr(a nAct) comp {
	f := formByName(a.Form)
	if a.Cls == "OK" {
		for _, t := range f.Base {
			r.emit(t)
		}
		if f.Returns {
			return comp{kind: cRet, val: 1}
		}
		return comp{}
	}
	for _, t := range f.Pre {
		r.emit(t)
	}
	r.cov["expr:"+f.Name] = true
	cls := exprClass(a.Cls)
	if cls == "" {
		return comp{kind: cThrow, o: r.newObj("", "")}
	}
	o := r.newObj(cls, "f"+a.Cls)
	r.last = o
	return comp{kind: cThrow, o: o}
}

// usesFormKind reports whether some "x" action uses the form with the operand kind.
func usesFormKind(a Act, form, kind string) bool {
	if a.K == "x" {
		return a.Form == form && a.Cls == kind
	}
	if a.K != "try" {
		return false
	}
	if usesFormKind(a.Try.Body, form, kind) {
		return true
	}
	for _, c := range a.Try.Catches {
		if usesFormKind(c.Body, form, kind) {
			return true
		}
	}
	return a.Try.Fin != nil && usesFormKind(*a.Try.Fin, form, kind)
}

// usesForm reports whether some "x" action uses the form.
func usesForm(a Act, form string) bool {
	if a.K == "x" && a.Form == form {
		return true
	}
	if a.K != "try" {
		return false
	}
	if usesForm(a.Try.Body, form) {
		return true
	}
	for _, c := range a.Try.Catches {
		if usesForm(c.Body, form) {
			return true
		}
	}
	return a.Try.Fin != nil && usesForm(*a.Try.Fin, form)
}

// enumExpr: family d1e.
func enumExpr(ctx string, emit func(Try)) {
	var xs []Act
	for _, f := range exprForms {
		for _, k := range exprKinds {
			a := Act{K: "x", Cls: k, Form: f.Name}
			if exprValid(a, ctx) {
				xs = append(xs, a)
			}
		}
	}
	m := Act{K: "m"}
	finals := []*Act{nil, &m}
	// A: the expression is the try body; no catch or one catch of a matching / non-matching / general type
	for _, x := range xs {
		for _, fin := range finals {
			if fin != nil {
				emit(Try{Body: x, Fin: fin})
			}
			for _, ty := range []string{"E1", "Exception", "Throwable"} {
				emit(Try{Body: x, Catches: []Catch{{Type: ty, Body: m}}, Fin: fin})
			}
		}
	}
	// B: the expression is a catch body; C: it is the finally body
	for _, x := range xs {
		for _, fin := range finals {
			emit(Try{Body: Act{K: "throw", Cls: "E1"}, Catches: []Catch{{Type: "Throwable", Body: x}}, Fin: fin})
		}
		xx := x
		emit(Try{Body: m, Fin: &xx})
	}
	// D: nested - the expression is the body of an inner try that cannot handle it (finally only, or a
	// non-matching catch + finally); the outer try catches it (with and without its own finally)
	for _, x := range xs {
		for _, fin := range finals {
			m1, m2 := m, m
			emit(Try{Body: Act{K: "try", Try: &Try{Body: x, Fin: &m1}}, Catches: []Catch{{Type: "Throwable", Body: m}}, Fin: fin})
			emit(Try{Body: Act{K: "try", Try: &Try{Body: x, Catches: []Catch{{Type: "E2", Body: m}}, Fin: &m2}}, Catches: []Catch{{Type: "Throwable", Body: m}}, Fin: fin})
		}
	}
}

// exprCell returns "form(kind)" of the first non-plain "x" action, "" if there is none.
func exprCell(a Act) string {
	if a.K == "x" && a.Form != "plain" {
		return a.Form + "(" + a.Cls + ")"
	}
	if a.K != "try" {
		return ""
	}
	if c := exprCell(a.Try.Body); c != "" {
		return c
	}
	for _, cb := range a.Try.Catches {
		if c := exprCell(cb.Body); c != "" {
			return c
		}
	}
	if a.Try.Fin != nil {
		return exprCell(*a.Try.Fin)
	}
	return ""
}
