// C05: first matching catch, finally exactly once, uncaught errors fail the process.
//
// G1 (form P): complete cross products of try/catch/finally structures (gen.go) placed in six
// contexts, each run in-process on the real lexer -> parser -> interpreter and compared with an
// independent reference interpreter (ref.go): marker trace, which handler got which object, how
// often each finally ran, and the identity probes of the catch variable.
// G2 (finite menu): the rebuilt CLI binary run as a real subprocess on every cell of
// {ending} x {prior output} x {.zy,.php}: exit status, diagnostic, earlier output (proc.go).
package main

import (
	"encoding/json"
	"fmt"
	"os"
	"runtime/debug"
	"runtime/pprof"
	"sort"
	"strings"
	"syscall"
	"time"

	"github.com/php-any/origami/data"
	"github.com/php-any/origami/runtime"

	"verif/engine/ev"
	"verif/engine/pool"
	"verif/engine/runner"
)

// ---- observation of a real run ------------------------------------------------------------------

type observation struct {
	Toks   []string `json:"trace"`
	Probes []probe  `json:"probes,omitempty"`
	Raw    string   `json:"raw,omitempty"`
}

func (o observation) String() string { return strings.Join(o.Toks, ";") }

var runs int64 // executions of the implementation in this process

func observe(p Prog, seed int64) observation {
	runs++
	res := runner.Run(source(p, seed), runner.Opts{Setup: setupHost})
	return parseObservation(res, sfxFor(seed))
}

// setupHost registers the embedder-provided Go function whose body panics (action rth): the
// documented way Go code is exposed to scripts (docs/go-integration.md).
func setupHost(vm data.VM) {
	if rv, ok := vm.(*runtime.VM); ok {
		rv.RegisterFunction("c05_host_fail", func() int { panic("c05 host function failure") })
	}
}

func parseObservation(res runner.Result, sfx string) observation {
	var o observation
	out := res.Out
	if sfx != "" {
		out = strings.ReplaceAll(out, sfx, "")
	}
	var cur *probe
	for _, t := range strings.Split(out, ";") {
		switch {
		case t == "":
		case strings.HasPrefix(t, "cls="):
			o.Probes = append(o.Probes, probe{Cls: t[4:]})
			cur = &o.Probes[len(o.Probes)-1]
		case strings.HasPrefix(t, "msg=") && cur != nil:
			cur.Msg = t[4:]
		case strings.HasPrefix(t, "same=") && cur != nil:
			cur.Same = t[5:]
		case strings.HasPrefix(t, "inst=") && cur != nil:
			cur.Inst = t[5:]
		default:
			o.Toks = append(o.Toks, t)
		}
	}
	switch res.Kind {
	case "ok":
		o.Toks = append(o.Toks, "end=ok")
	case "throw":
		cls := res.Class
		if sfx != "" {
			cls = strings.ReplaceAll(cls, sfx, "")
		}
		o.Toks = append(o.Toks, fmt.Sprintf("end=uncaught(%s|%s)", cls, res.Msg))
	case "panic":
		o.Toks = append(o.Toks, "end="+res.PanicKey)
	default:
		o.Toks = append(o.Toks, "end="+res.Kind+":"+res.Class)
	}
	return o
}

// ---- comparison ------------------------------------------------------------------------------------

func tokMatch(exp, got string) bool {
	if exp == got {
		return true
	}
	if exp == "end=uncaught(*|*)" {
		return strings.HasPrefix(got, "end=uncaught(")
	}
	return false
}

// clauseOf names the part of the statement a run contradicts ("" = agrees with exp). It is
// decided at the FIRST point where the observed marker trace leaves the expected one:
//
//	finally-skipped   the reference runs a finally block there and the implementation does not
//	finally-extra     the implementation runs a finally block there and the reference does not
//	                  (ran twice, or ran although its try was never entered)
//	dispatch          a different handler (catch clause, or the top-level uncaught handler) gets
//	                  the object there, or gets it as an object of another class / message
//	path              any other difference in the marker trace (blocks entered / left)
//	catchvar[...]     same trace, right class and message, but the catch variable is not the
//	                  thrown object: the listed identity probes (same, inst) differ
func clauseOf(exp expectation, got observation) string {
	n := len(exp.Toks)
	if len(got.Toks) > n {
		n = len(got.Toks)
	}
	for i := 0; i < n; i++ {
		var e, g string
		if i < len(exp.Toks) {
			e = exp.Toks[i]
		}
		if i < len(got.Toks) {
			g = got.Toks[i]
		}
		if tokMatch(e, g) {
			continue
		}
		isC := func(t string) bool { return strings.HasPrefix(t, "C") }
		isU := func(t string) bool { return strings.HasPrefix(t, "end=uncaught") }
		tryOf := func(t string) string { // "F2" -> "2", "C2.1" -> "2"
			t = t[1:]
			if i := strings.Index(t, "."); i >= 0 {
				t = t[:i]
			}
			return t
		}
		switch {
		case strings.HasPrefix(e, "F") && !(isC(g) && tryOf(g) == tryOf(e)):
			// the reference runs try k's finally here. If the implementation gets to it later it has
			// merely carried on somewhere first (e.g. a swallowed throw); otherwise it skipped it
			for _, later := range got.Toks[min(i, len(got.Toks)):] {
				if later == e {
					return "path"
				}
			}
			return "finally-skipped"
		case isC(e), isC(g):
			return "dispatch"
		case strings.HasPrefix(g, "F"):
			return "finally-extra"
		case isU(e), isU(g):
			return "dispatch"
		}
		return "path"
	}
	// traces agree: identity probes
	bad := map[string]bool{}
	if len(exp.Probes) != len(got.Probes) {
		return "catchvar[count]"
	}
	for i, e := range exp.Probes {
		g := got.Probes[i]
		if (e.Cls != "*" && e.Cls != g.Cls) || (e.Msg != "*" && e.Msg != g.Msg) {
			return "dispatch"
		}
		if e.Same != "*" && e.Same != g.Same {
			bad["same"] = true
		}
		if e.Inst != "*" && !instMatch(e.Inst, g.Inst) {
			bad["inst"] = true
		}
	}
	if len(bad) == 0 {
		return ""
	}
	var l []string
	for k := range bad {
		l = append(l, k)
	}
	sort.Strings(l)
	return "catchvar[" + strings.Join(l, ",") + "]"
}

// instMask: positions of the instanceof probe that the baseline (a plain, never thrown object)
// already gets wrong are not compared (that would be C08's finding, not C05's).
var instMask = "111111"

func instMatch(exp, got string) bool {
	if len(exp) != len(got) {
		return false
	}
	for i := range exp {
		if instMask[i] == '1' && exp[i] != got[i] {
			return false
		}
	}
	return true
}

// judge compares a run with every acceptable expectation; returns "" if one agrees, else the
// clause against the first expectation (the one reported).
func judge(p Prog, seed int64) (clause string, exp expectation, got observation) {
	exps := reference(p)
	got = observe(p, seed)
	for i, e := range exps {
		cl := clauseOf(e, got)
		if cl == "" {
			return "", e, got
		}
		if i == 0 {
			clause, exp = cl, e
		}
	}
	return clause, exp, got
}

// ---- reduction --------------------------------------------------------------------------------------

var rtKinds = []string{"rt0", "rtm", "rth", "rtp"} // simplest first

var typeRank = map[string]int{"Throwable": 0, "Exception": 1, "E1": 2, "E0": 3, "E2": 4, "I": 5, "J3": 6, "J2": 7, "J1": 8}
var clsRank = map[string]int{"E1": 0, "E0": 1, "E2": 2, "E3": 3}
var ctxRank = map[string]int{"top": 0, "func": 1, "for": 2, "foreach": 3, "while": 4, "funcloop": 5, "calls": 6}

// candidates lists strictly simpler programs, most drastic first. Every candidate lowers
// (size, rank sum), so reduction terminates.
func candidates(p Prog) []Prog {
	var out []Prog
	chain := usesClass(p.Root, "E3")
	add := func(q Prog) {
		if chain && !ctxRepeats(q.Ctx) && usesClass(q.Root, "E3") {
			// the interface-chain programs are about repeated handling in ONE run: a single-shot
			// context would make the verdict depend on what ran before in the same process
			return
		}
		if q.Root.K == "try" && q.valid() && !excluded(q) {
			out = append(out, q)
		}
	}
	// simpler context
	for _, c := range contexts {
		if ctxRank[c] < ctxRank[p.Ctx] {
			add(Prog{Ctx: c, Root: p.Root.clone()})
		}
	}
	// hoist any nested try to the root
	var nested []*Try
	var walk func(a *Act, root bool)
	walk = func(a *Act, root bool) {
		if a.K != "try" {
			return
		}
		if !root {
			nested = append(nested, a.Try)
		}
		walk(&a.Try.Body, false)
		for i := range a.Try.Catches {
			walk(&a.Try.Catches[i].Body, false)
		}
		if a.Try.Fin != nil {
			walk(a.Try.Fin, false)
		}
	}
	walk(&p.Root, true)
	for _, t := range nested {
		c := t.clone()
		add(Prog{Ctx: p.Ctx, Root: Act{K: "try", Try: &c}})
	}
	// local edits at every action slot, visited in preorder
	var slots [][]int
	var collect func(a Act, path []int)
	collect = func(a Act, path []int) {
		slots = append(slots, append([]int{}, path...))
		if a.K != "try" {
			return
		}
		collect(a.Try.Body, append(path, 0))
		for i, c := range a.Try.Catches {
			collect(c.Body, append(path, 1+i))
		}
		if a.Try.Fin != nil {
			collect(*a.Try.Fin, append(path, -1))
		}
	}
	collect(p.Root, nil)
	at := func(q *Prog, path []int) *Act {
		a := &q.Root
		for _, s := range path {
			switch {
			case s == 0:
				a = &a.Try.Body
			case s == -1:
				a = a.Try.Fin
			default:
				a = &a.Try.Catches[s-1].Body
			}
		}
		return a
	}
	for _, path := range slots {
		a := at(&p, path)
		if a.K == "try" {
			t := a.Try
			// drop the finally, drop one catch
			if t.Fin != nil {
				q := p.clone()
				at(&q, path).Try.Fin = nil
				add(q)
			}
			for i := range t.Catches {
				q := p.clone()
				qt := at(&q, path).Try
				qt.Catches = append(append([]Catch{}, qt.Catches[:i]...), qt.Catches[i+1:]...)
				add(q)
			}
			// simpler catch type
			for i, c := range t.Catches {
				for _, ty := range []string{"Throwable", "Exception", "E1", "E0", "E2", "I", "J3", "J2"} {
					if typeRank[ty] < typeRank[c.Type] {
						dup := false
						for j, o := range t.Catches {
							if j != i && o.Type == ty {
								dup = true
							}
						}
						if dup {
							continue
						}
						q := p.clone()
						at(&q, path).Try.Catches[i].Type = ty
						add(q)
					}
				}
			}
			// move the action of a catch / finally body into the try body (one action fewer)
			for i := -1; i < len(t.Catches); i++ {
				var src Act
				if i == -1 {
					if t.Fin == nil {
						continue
					}
					src = *t.Fin
				} else {
					src = t.Catches[i].Body
				}
				if src.K == "m" || t.Body.K == "try" {
					continue
				}
				q := p.clone()
				qt := at(&q, path).Try
				qt.Body = src.clone()
				if i == -1 {
					*qt.Fin = Act{K: "m"}
				} else {
					qt.Catches[i].Body = Act{K: "m"}
				}
				add(q)
			}
			if len(path) > 0 {
				// replace the nested try by one of its own child actions, or by a marker
				kids := []Act{t.Body}
				for _, c := range t.Catches {
					kids = append(kids, c.Body)
				}
				if t.Fin != nil {
					kids = append(kids, *t.Fin)
				}
				for _, k := range kids {
					q := p.clone()
					*at(&q, path) = k.clone()
					add(q)
				}
				q := p.clone()
				*at(&q, path) = Act{K: "m"}
				add(q)
			}
			continue
		}
		if a.K != "m" {
			q := p.clone()
			*at(&q, path) = Act{K: "m"}
			add(q)
		}
		// normalise the way of throwing: call/runtime error -> plain throw; class -> E1
		switch a.K {
		case "call":
			q := p.clone()
			*at(&q, path) = Act{K: "throw", Cls: a.Cls}
			add(q)
		case "rtp", "rth", "rtm", "rt0":
			q := p.clone()
			*at(&q, path) = Act{K: "throw", Cls: "E1"}
			add(q)
			for _, k := range rtKinds {
				if k == a.K {
					break
				}
				q := p.clone()
				*at(&q, path) = Act{K: k}
				add(q)
			}
		case "x":
			// is it about the expression at all? statement-level throw of the same class, the plain
			// assignment form, a simpler operand kind
			if cls := exprClass(a.Cls); cls == "E0" || cls == "E1" {
				q := p.clone()
				*at(&q, path) = Act{K: "call", Cls: cls}
				add(q)
			}
			if a.Form != "plain" {
				q := p.clone()
				at(&q, path).Form = "plain"
				add(q)
			}
			if f := formByName(a.Form); f != nil && f.Core != "" {
				q := p.clone()
				at(&q, path).Form = f.Core
				add(q)
			}
			for _, k := range exprKinds {
				if k == a.Cls {
					break
				}
				q := p.clone()
				at(&q, path).Cls = k
				add(q)
			}
		case "throw":
			for _, cl := range []string{"E1", "E0", "E2"} {
				if clsRank[cl] < clsRank[a.Cls] {
					q := p.clone()
					at(&q, path).Cls = cl
					add(q)
				}
			}
		}
	}
	return out
}

// usesClass reports whether some throw / call action uses the class.
func usesClass(a Act, cls string) bool {
	if (a.K == "throw" || a.K == "call") && a.Cls == cls {
		return true
	}
	if a.K != "try" {
		return false
	}
	if usesClass(a.Try.Body, cls) {
		return true
	}
	for _, c := range a.Try.Catches {
		if usesClass(c.Body, cls) {
			return true
		}
	}
	return a.Try.Fin != nil && usesClass(*a.Try.Fin, cls)
}

var reduceMemo = map[string]Prog{}

// reduceProg returns the 1-minimal program reachable by greedy first-fit reduction that still
// fails the same clause. It is a deterministic function of (p, clause); the memo only saves runs.
func reduceProg(p Prog, clause string, seed int64) Prog {
	mk := clause + "|" + p.canon()
	if r, ok := reduceMemo[mk]; ok {
		return r
	}
	res := p
	for _, c := range candidates(p) {
		if cl, _, _ := judge(c, seed); cl == clause {
			res = reduceProg(c, clause, seed)
			break
		}
	}
	if len(reduceMemo) < 400000 {
		reduceMemo[mk] = res
	}
	return res
}

// ---- baseline / exclusions -----------------------------------------------------------------------

// exclusions: "ctx/act" pairs whose bare (try-less) form already deviates from the reference
// in this tree. Those are control-flow defects of loops / functions (C02's subject); programs
// that use the pair are left out here instead of being blamed on try/finally.
var exclusions = map[string]bool{}

func excluded(p Prog) bool {
	if len(exclusions) == 0 {
		return false
	}
	for _, k := range []string{"ret", "brk", "cnt"} {
		if exclusions[p.Ctx+"/"+k] && p.Root.uses(k) {
			return true
		}
	}
	for _, f := range exprForms {
		if exclusions["form/"+f.Name] && usesForm(p.Root, f.Name) {
			return true
		}
		if exclusions["form/"+f.Name+"/RT"] && usesFormKind(p.Root, f.Name, "RT") {
			return true
		}
	}
	return exclusions[p.Ctx+"/m"]
}

// usesClass2: some action of kind k carries the class / operand kind cls.
func usesClass2(a Act, k, cls string) bool {
	if a.K == k && a.Cls == cls {
		return true
	}
	if a.K != "try" {
		return false
	}
	if usesClass2(a.Try.Body, k, cls) {
		return true
	}
	for _, c := range a.Try.Catches {
		if usesClass2(c.Body, k, cls) {
			return true
		}
	}
	return a.Try.Fin != nil && usesClass2(*a.Try.Fin, k, cls)
}

// ---- worker ----------------------------------------------------------------------------------------

type shardArg struct {
	Fam   string   `json:"fam"`
	Ctx   string   `json:"ctx"`
	Mod   int      `json:"mod"`
	Rem   int      `json:"rem"`
	Quick bool     `json:"quick"`
	Seed  int64    `json:"seed"`
	Excl  []string `json:"excl"`
	Mask  string   `json:"mask"`
	Until int64    `json:"until"` // unix seconds: stop enumerating after this (internal budget)
}

type rec struct {
	Kind     string         `json:"kind"` // count | fail | sample
	Expired  bool           `json:"expired,omitempty"`
	N        int64          `json:"n,omitempty"`
	Runs     int64          `json:"runs,omitempty"`
	Excluded int64          `json:"excluded,omitempty"`
	Cov      []string       `json:"cov,omitempty"`
	Traces   int            `json:"traces,omitempty"`
	Key      string         `json:"key,omitempty"`
	Clause   string         `json:"clause,omitempty"`
	Size     int            `json:"size,omitempty"`
	Case     any            `json:"case,omitempty"`
	Detail   string         `json:"detail,omitempty"`
	More     map[string]int `json:"more,omitempty"`
	Fam      string         `json:"fam,omitempty"`
	Ctx      string         `json:"ctx,omitempty"`
}

type g1Case struct {
	Kind   string `json:"kind"` // "g1"
	Prog   Prog   `json:"prog"`
	Canon  string `json:"canon"`
	Script string `json:"script"`
	Seed   int64  `json:"seed"`
}

func detailOf(exp expectation, got observation) string {
	eb, _ := json.Marshal(exp.Probes)
	gb, _ := json.Marshal(got.Probes)
	return fmt.Sprintf("expected trace %s\nobserved trace %s\nexpected probes %s\nobserved probes %s", exp.String(), got.String(), eb, gb)
}

func g1Worker(w *pool.W, arg json.RawMessage) {
	var sh shardArg
	json.Unmarshal(arg, &sh)
	exclusions = map[string]bool{}
	for _, e := range sh.Excl {
		exclusions[e] = true
	}
	if sh.Mask != "" {
		instMask = sh.Mask
	}
	b := tierBounds(sh.Quick)
	var n, excl int64
	idx := 0
	startRuns := runs
	cov := map[string]bool{}
	traces := map[string]bool{}
	failed := map[string]int{}
	expired := false
	enumerate(b, sh.Fam, sh.Ctx, func(p Prog) {
		idx++
		if (idx-1)%sh.Mod != sh.Rem || expired {
			return
		}
		if n%64 == 0 && sh.Until > 0 && time.Now().Unix() > sh.Until {
			expired = true
			return
		}
		if excluded(p) {
			excl++
			return
		}
		if !w.Item(fmt.Sprintf("%s/%s/%d", sh.Fam, sh.Ctx, idx)) {
			return
		}
		n++
		clause, exp, _ := judge(p, sh.Seed)
		for k := range exp.cov {
			cov[k] = true
		}
		if len(traces) < 50000 {
			traces[exp.String()] = true
		}
		if n == 40 && sh.Rem == 0 {
			w.Emit(rec{Kind: "sample", Case: map[string]any{"program": p.canon(), "expected_trace": exp.String(), "expected_probes": exp.Probes, "script": source(p, sh.Seed)}})
		}
		if clause == "" {
			return
		}
		red := reduceProg(p.clone(), clause, sh.Seed)
		key, repClause := clause+":"+red.canon(), clause
		if xf := exprCell(red.Root); xf != "" {
			// the failure is tied to one expression form (reduction could not turn it into a plain
			// assignment or a statement-level throw): the table cell is the finding, whatever block
			// of the try it sits in
			key, repClause = "expr:"+xf, "expr-throw"
		}
		failed[key]++
		if failed[key] > 1 {
			return
		}
		// determinism before belief: the reduced program must fail the same way 3 more times
		var rexp expectation
		var rgot observation
		for i := 0; i < 3; i++ {
			var cl string
			cl, rexp, rgot = judge(red, sh.Seed)
			if cl != clause {
				delete(failed, key)
				w.Emit(rec{Kind: "fail", Key: "flaky:" + red.canon(), Clause: "nondeterministic", Case: g1Case{"g1", red, red.canon(), source(red, sh.Seed), sh.Seed}, Detail: fmt.Sprintf("clause %q then %q", clause, cl)})
				return
			}
		}
		w.Emit(rec{Kind: "fail", Key: key, Clause: repClause, Size: red.Root.size()*10 + ctxRank[red.Ctx], Case: g1Case{"g1", red, red.canon(), source(red, sh.Seed), sh.Seed}, Detail: detailOf(rexp, rgot)})
	})
	more := map[string]int{}
	for k, c := range failed {
		if c > 1 {
			more[k] = c - 1
		}
	}
	var cl []string
	for k := range cov {
		cl = append(cl, k)
	}
	w.Emit(rec{Kind: "count", N: n, Runs: runs - startRuns, Excluded: excl, Cov: cl, Traces: len(traces), More: more, Fam: sh.Fam, Ctx: sh.Ctx, Expired: expired})
}

// ---- main ---------------------------------------------------------------------------------------------

func baselines(c *ev.Check) (excl []string, mask string) {
	// bare control flow of every context
	for _, ctx := range contexts {
		for _, k := range []string{"m", "ret", "brk", "cnt"} {
			p := Prog{Ctx: ctx, Root: Act{K: k}}
			if !p.valid() {
				continue
			}
			exp := reference(p)[0]
			got := observe(p, c.Seed)
			if clauseOf(exp, got) != "" {
				excl = append(excl, ctx+"/"+k)
				c.Assume(fmt.Sprintf("excluded %s/%s: the bare form without any try already deviates (expected %s, observed %s) - a loop/function control-flow defect outside this property; programs using it are not generated", ctx, k, exp.String(), got.String()))
			}
		}
	}
	// every expression form with a harmless operand: it must parse and evaluate its operands in
	// the order the reference assumes (operand evaluated twice by isset/empty is tolerated)
	for _, f := range exprForms {
		ctx := "top"
		if f.FuncOnly {
			ctx = "func"
		}
		p := Prog{Ctx: ctx, Root: Act{K: "x", Cls: "OK", Form: f.Name}}
		exp := reference(p)[0]
		got := observe(p, c.Seed)
		if f.Dup {
			var d []string
			for _, t := range got.Toks {
				if t == "X" && len(d) > 0 && d[len(d)-1] == "X" {
					continue
				}
				d = append(d, t)
			}
			got.Toks = d
		}
		if clauseOf(exp, got) != "" {
			excl = append(excl, "form/"+f.Name)
			c.Assume(fmt.Sprintf("excluded expression form %s: with a harmless operand it already deviates (expected %s, observed %s) - an expression-evaluation matter outside this property", f.Name, exp.String(), got.String()))
		}
	}
	// the runtime-error operand is a parenthesised expression; a form that does not parse with such an
	// operand in that position (probed with the harmless `(1 % 1)`) is not in the language with that kind
	for _, f := range exprForms {
		if f.NoRT || f.Method {
			continue
		}
		ctx := "top"
		if f.FuncOnly {
			ctx = "func"
		}
		got := observe(Prog{Ctx: ctx, Root: Act{K: "x", Cls: "RP", Form: f.Name}}, c.Seed)
		if n := len(got.Toks); n > 0 && strings.HasPrefix(got.Toks[n-1], "end=parse") {
			excl = append(excl, "form/"+f.Name+"/RT")
			c.Assume(fmt.Sprintf("excluded expression form %s with the runtime-error operand: the form does not parse with a parenthesised operand there (%s) - not a program of this language", f.Name, got.Toks[n-1]))
		}
	}
	// what the two Go-level triggers do outside any try (recorded, not judged)
	for _, k := range []string{"rth", "rtp"} {
		r := &render{sfx: sfxFor(c.Seed)}
		r.act(nAct{K: k}, 0, "")
		res := runner.Run(header(c.Seed, false)+r.sb.String()+"echo \"after;\";\n", runner.Opts{Setup: setupHost})
		c.Set("outside_try_"+k, res.Kind+":"+res.PanicKey+res.Class)
		if strings.Contains(res.Out, "after;") {
			c.HarnessError("runtime-error action %s does not fail at all (output %q)", k, res.Out)
		}
	}
	// identity probes on objects that were never thrown
	sfx := sfxFor(c.Seed)
	var sb strings.Builder
	sb.WriteString(header(c.Seed, false))
	for _, cls := range []string{"E0", "E1", "E2"} {
		fmt.Fprintf(&sb, "$o = new %s%s(\"b\"); K%s::$last = $o; echo \"cls=\", get_class($o), \";msg=\", $o->getMessage(), \";same=\", ($o === K%s::$last) ? \"y\" : \"n\", \";inst=\", bits%s($o), \";\";\n", cls, sfx, sfx, sfx, sfx)
	}
	fmt.Fprintf(&sb, "$p = new E1%s(\"c\"); echo \"other=\", ($p === K%s::$last) ? \"y\" : \"n\", \";\";\n", sfx, sfx)
	res := runner.Run(sb.String(), runner.Opts{})
	o := parseObservation(res, sfx)
	m := []byte("111111")
	ok := res.Kind == "ok" && len(o.Probes) == 3
	if ok {
		for i, cls := range []string{"E0", "E1", "E2"} {
			pr := o.Probes[i]
			if pr.Cls != cls || pr.Msg != "b" || pr.Same != "y" || len(pr.Inst) != 6 {
				ok = false
				break
			}
			for j, ty := range instProbe {
				want := byte('0')
				if isA(cls, ty) {
					want = '1'
				}
				if pr.Inst[j] != want {
					m[j] = '0'
				}
			}
		}
		if !strings.HasSuffix(res.Out, ";other=n;") {
			ok = false
		}
	}
	if !ok {
		c.HarnessError("probe baseline failed (get_class/getMessage/===/static property on a plain object): kind=%s out=%q msg=%s", res.Kind, res.Out, res.Msg)
	}
	if string(m) != "111111" {
		c.Assume(fmt.Sprintf("instanceof probe positions masked (plain objects already answer wrongly): mask=%s over %v", m, instProbe))
	}
	return excl, string(m)
}

func main() {
	debug.SetGCPercent(400) // a fresh VM + std library per run is mostly garbage; trade memory for CPU
	if pool.IsWorker() {
		pool.Serve(map[string]pool.Handler{"g1": g1Worker})
	}
	c := ev.New("C05")
	defer runner.Cleanup()
	if err := refSelfTest(); err != nil {
		c.HarnessError("%v", err)
		c.Finish(0, 0, 0, "reference self-test failed")
	}
	if c.Replay != "" {
		replay(c)
		return
	}
	c.SetBudget(20*time.Minute, 45*time.Minute)
	quick := c.Quick()
	b := tierBounds(quick)

	// G2 runs concurrently with G1 (it mostly waits for `go build` and subprocesses)
	g2done := make(chan *g2Result, 1)
	go func() { g2done <- runG2(c.Seed, c.Quick()) }()
	if os.Getenv("C05_DEV_G2ONLY") != "" {
		// development aid: only the process-level families (never a verdict on the whole property)
		g2 := <-g2done
		g2.report(c)
		g2.reportHandlers(c)
		c.Set("g2_cells", g2.Cells)
		c.Set("g2h_outcome_table_cells", g2.HTable)
		c.Set("g2_wall_s_incl_cli_build", g2.WallS)
		c.NotExhaustive("C05_DEV_G2ONLY: G1 skipped")
		c.Finish(int64(g2.Cells), int64(g2.Cells), int64(g2.Cells), "G2 only (development run)")
	}

	excl, mask := baselines(c)
	instMask = mask
	for _, e := range excl {
		exclusions[e] = true
	}

	mod := 8
	if !quick {
		mod = 24
	}
	budget := 20 * time.Minute
	if !quick {
		budget = 45 * time.Minute
	}
	until := time.Now().Add(budget).Unix()
	if os.Getenv("C05_BENCH") != "" {
		if pf := os.Getenv("C05_PROF"); pf != "" {
			f, _ := os.Create(pf)
			pprof.StartCPUProfile(f)
			defer pprof.StopCPUProfile()
		}
		t0 := time.Now()
		n := 0
		enumerate(b, "d1", "func", func(p Prog) {
			if n < 3000 {
				observe(p, 0)
				n++
			}
		})
		var ru syscall.Rusage
		syscall.Getrusage(syscall.RUSAGE_SELF, &ru)
		cpu := time.Duration(ru.Utime.Nano() + ru.Stime.Nano())
		fmt.Printf("observe: %v wall, %v cpu per run\n", time.Since(t0)/time.Duration(n), cpu/time.Duration(n))
		t0 = time.Now()
		n = 0
		enumerate(b, "d1", "func", func(p Prog) {
			if n < 3000 {
				reference(p)
				source(p, 0)
				n++
			}
		})
		fmt.Printf("reference+render: %v per program\n", time.Since(t0)/time.Duration(n))
		return
	}
	if os.Getenv("C05_COUNT") != "" {
		for _, fam := range families {
			for _, ctx := range contexts {
				n := 0
				enumerate(b, fam, ctx, func(Prog) { n++ })
				fmt.Printf("%s/%s %d\n", fam, ctx, n)
			}
		}
		return
	}
	var shards []pool.Shard
	for _, fam := range families {
		if fam == "d3" && !b.D3 {
			continue
		}
		for _, ctx := range contexts {
			if !b.hasFamily(fam, ctx) {
				continue
			}
			m := mod
			if fam == "d1i" || fam == "d1e" || ((fam == "d2fin" || fam == "d1x") && quick) {
				m = 2
			}
			if fam == "d1e" {
				m = 6
			}
			for r := 0; r < m; r++ {
				shards = append(shards, pool.Shard{Kind: "g1", Arg: shardArg{Fam: fam, Ctx: ctx, Mod: m, Rem: r, Quick: quick, Seed: c.Seed, Excl: excl, Mask: mask, Until: until}})
			}
		}
	}
	var total, execs, excluded, traces int64
	cov := map[string]bool{}
	perFam := map[string]int64{}
	g1Expired := false
	pool.Run(shards, pool.Options{}, func(si int, rb json.RawMessage) {
		var r rec
		json.Unmarshal(rb, &r)
		switch r.Kind {
		case "count":
			if r.Expired {
				g1Expired = true
				c.NotExhaustive("internal wall-clock budget expired; the families were only partly enumerated (see g1_programs_by_family_context)")
			}
			total += r.N
			execs += r.Runs
			excluded += r.Excluded
			traces += int64(r.Traces)
			perFam[r.Fam+"/"+r.Ctx] += r.N
			for _, k := range r.Cov {
				if !cov[k] {
					cov[k] = true
					c.Outcome(k)
				}
			}
			for k, n := range r.More {
				for i := 0; i < n; i++ {
					c.Fail(k, "", 1<<30, nil, "")
				}
			}
		case "fail":
			c.Fail(r.Key, r.Clause, r.Size, r.Case, r.Detail)
		case "sample":
			c.Sample(r.Case)
		}
	}, func(d pool.Death) {
		c.Fail("worker-death:"+runner.FatalFrame(d.Stderr), "no-crash", 0, map[string]any{"kind": "death", "item": d.Item, "reason": d.Reason}, d.Stderr)
	})

	g1c := catchVarTable(c)
	c.Set("g1c_cells", g1c)

	g2 := <-g2done
	g2.report(c)
	g2.reportHandlers(c)

	c.Set("g1_programs", total)
	c.Set("g1_programs_by_family_context", perFam)
	c.Set("g1_excluded_by_baseline", excluded)
	c.Set("g1_exclusions", excl)
	c.Set("g1_expected_traces_distinct_per_shard_sum", traces)
	c.Set("g1_bounds", b)
	c.Set("g2_cells", g2.Cells)
	c.Set("g2_cli", g2.Bin)
	c.Set("g2h_cells", len(g2.HSeen))
	c.Set("g2h_histories_incl_site", g2.HHists)
	c.Set("g2h_bounds", g2.HBounds)
	c.Set("g2h_ops", hopNames())
	c.Set("g2h_outcome_table_cells", g2.HTable)
	c.Set("g2_wall_s_incl_cli_build", g2.WallS)
	if len(g2.HExcluded) > 0 {
		c.Set("g2h_excluded_ops", g2.HExcluded)
		c.Assume("G2h: a handler op that does not get through to a normal end on its own (per site and extension, listed in g2h_excluded_ops) is left out of the histories")
	}
	hran := 0
	for _, s := range g2.HSeen {
		if s.Ran {
			hran++
		}
	}
	c.Set("g2h_cells_where_a_user_handler_ran", hran)
	c.Assume("G2h: a cell whose effective handler (PHP's handler stack) calls exit(n) is a control: the script chose its status; a cell in which a user handler actually ran for the throwable and returned is a control too (counted in g2h_control_cells_*; only the flushing of earlier output is still required of it); every other cell (no handler in force, a value origami does not invoke, a handler that itself throws) ends with an uncaught throwable and is held to the statement")
	c.Set("instanceof_mask", mask)
	c.Assume("repeated identical throws in one run (family d1i): 2 loop iterations or 3 calls of one function, interface chain of 3 extends-levels")
	c.Assume("G1 is exhaustive only inside the listed alphabets: nesting depth <= 2 (thorough: + depth-3 chains), <= 2 catch clauses per try at depth 1 and <= 1 at depth 2, two loop iterations, one interesting statement per block")
	c.Assume("runtime errors are Throwables of unspecified class: catch (Exception) may or may not catch them (either answer accepted), their class/message/identity are not compared")
	c.Assume("break/continue inside finally and `return` at top level are outside the generated language (PHP rejects the former)")
	c.Assume("G2 exit(n) and normal-end cells are controls: only status 0 of a normal end is required; exit(n) statuses and buffered output of non-error endings are recorded, not judged")

	// vacuity: every exit path of the statement must have been driven through a finally, and
	// every dispatch situation must have occurred
	need := []string{"rt:rth", "expr:coalL", "expr:interp", "finally-on:fallthrough", "finally-on:throw", "finally-on:return", "finally-on:break", "finally-on:continue",
		"finally-overrides:throw->return", "finally-overrides:return->return", "dispatch:first", "dispatch:later", "dispatch:none", "rt:rtp", "rt:rt0"}
	for _, k := range need {
		if !cov[k] {
			if g1Expired {
				// the budget cut the enumeration short (already reported as not exhaustive): a situation that
				// was not reached is not a vacuous generator
				c.Add("vacuity_situations_not_reached_before_budget_expired", 1)
				continue
			}
			c.HarnessError("vacuous: no generated program exercised %q", k)
		}
	}
	c.Finish(total+int64(g2.Cells+g1c), execs+int64(g2.Cells+g1c), total+int64(g2.Cells+g1c),
		fmt.Sprintf("G1: complete cross product of try/catch/finally structures (families %v) x 6 contexts (+ 3-calls context for the interface-chain family d1i) vs reference interpreter; G1c: 6-cell object-ness table of the catch variable; G2: %d real CLI subprocess cells; distinct = programs + cells; outcomes = distinct (exit path x finally, dispatch) situations covered", families, g2.Cells))
}

func replay(c *ev.Check) {
	var raw map[string]json.RawMessage
	key, err := ev.LoadReplay(c.Replay, &raw)
	if err != nil {
		fmt.Println("replay:", err)
		c.HarnessError("replay: %v", err)
		c.Finish(0, 0, 0, "replay")
	}
	var kind string
	json.Unmarshal(raw["kind"], &kind)
	switch kind {
	case "g1":
		var cs g1Case
		b, _ := json.Marshal(raw)
		json.Unmarshal(b, &cs)
		excl, mask := baselines(c)
		instMask = mask
		_ = excl
		fmt.Println(source(cs.Prog, cs.Seed))
		clause, exp, got := judge(cs.Prog, cs.Seed)
		fmt.Println(detailOf(exp, got))
		if clause != "" {
			c.Fail(key, clause, 0, cs, detailOf(exp, got))
		}
	case "g1c":
		var cell objCell
		b, _ := json.Marshal(raw)
		json.Unmarshal(b, &cell)
		fmt.Println(cell.Script)
		got, ok := objRun(cell)
		fmt.Printf("expected %q\nobserved %q\n", cell.Want, got)
		if !ok {
			c.Fail(key, "catchvar-object", 0, cell, fmt.Sprintf("expected %q observed %q", cell.Want, got))
		}
	case "g2":
		var cell g2Cell
		b, _ := json.Marshal(raw)
		json.Unmarshal(b, &cell)
		g2 := replayG2(cell)
		for _, h := range g2.Harness {
			c.HarnessError("%s", h)
		}
		for _, f := range g2.Fails {
			fmt.Printf("clause %s violated: status=%d stdout=%q stderr=%q\n", f.Clause, f.Obs.Status, f.Obs.Stdout, trunc(f.Obs.Stderr, 300))
			if strings.Contains(key, ":"+f.Clause) || strings.Contains(key, "+"+f.Clause) {
				c.Fail(key, f.Clause, 0, cell, "replayed")
			}
		}
	default:
		c.HarnessError("replay: unknown case kind %q", kind)
	}
	c.Finish(1, 1, 1, "replay")
}
