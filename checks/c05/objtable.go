package main

// G1c: "the catch variable is that same object", observed through what only the object itself
// can answer: a user property set before the throw is readable through $e, a write through $e is
// visible through the original reference, a user method of its class is callable.
// One standalone program per (origin, probe) so that a failing probe cannot hide another one.

import (
	"fmt"
	"sort"
	"strings"

	"verif/engine/ev"
	"verif/engine/runner"
)

type objCell struct {
	Kind   string `json:"kind"` // "g1c"
	Origin string `json:"origin"`
	Probe  string `json:"probe"`
	Script string `json:"script"`
	Want   string `json:"want"`
}

// (identity itself, and rethrown objects, are probed in-line at every catch entry of G1.)
var objOrigins = []string{"throw", "callee"}
var objProbes = []string{"prop-read", "prop-write", "method"}

func objScript(origin, probe string, seed int64) (src, want string) {
	s := sfxFor(seed)
	var sb strings.Builder
	fmt.Fprintf(&sb, "class X%s extends Exception { public $tag = 1; function who() { return \"who\" . $this->tag; } }\n", s)
	fmt.Fprintf(&sb, "function thrower%s($o) { throw $o; }\n", s)
	fmt.Fprintf(&sb, "$t = new X%s(\"m\");\n$t->tag = 7;\n", s)
	var probeSrc string
	switch probe {
	case "prop-read":
		probeSrc, want = `echo "tag=", $e->tag;`, "tag=7"
	case "prop-write":
		probeSrc, want = `$e->tag = 9; echo "tag=", $t->tag;`, "tag=9"
	case "method":
		probeSrc, want = `echo $e->who();`, "who7"
	}
	switch origin {
	case "throw":
		fmt.Fprintf(&sb, "try { throw $t; } catch (X%s $e) { %s }\n", s, probeSrc)
	case "callee":
		fmt.Fprintf(&sb, "try { thrower%s($t); } catch (Exception $e) { %s }\n", s, probeSrc)
	}
	return sb.String(), want
}

func objRun(cell objCell) (got string, ok bool) {
	runs++
	res := runner.Run(cell.Script, runner.Opts{})
	got = res.Out
	if res.Kind != "ok" {
		got += " <" + res.Kind + ":" + res.Class + ":" + trunc(res.Msg, 120) + res.PanicKey + ">"
	}
	return got, res.Kind == "ok" && res.Out == cell.Want
}

// catchVarTable runs the 6 cells and reports one finding named after the failing probes (the
// origins are listed only when not all of them fail).
func catchVarTable(c *ev.Check) int {
	failing := map[string][]string{} // probe -> origins
	var first *objCell
	var detail []string
	n := 0
	for _, o := range objOrigins {
		for _, p := range objProbes {
			src, want := objScript(o, p, c.Seed)
			cell := objCell{"g1c", o, p, src, want}
			n++
			got, ok := objRun(cell)
			c.Outcome(fmt.Sprintf("g1c:%s ok=%v", p, ok))
			if !ok {
				failing[p] = append(failing[p], o)
				detail = append(detail, fmt.Sprintf("%s/%s: expected %q observed %q", o, p, want, got))
				if first == nil {
					cc := cell
					first = &cc
				}
			}
		}
	}
	if len(failing) == 0 {
		return n
	}
	var parts []string
	for p, os := range failing {
		if len(os) == len(objOrigins) {
			parts = append(parts, p)
		} else {
			parts = append(parts, p+"@"+strings.Join(os, "+"))
		}
	}
	sort.Strings(parts)
	c.Fail("catchvar-object["+strings.Join(parts, ",")+"]", "catchvar-object", 0, first, strings.Join(detail, "\n"))
	return n
}
