package main

// Generator for G1: the AST of the try/catch/finally core, validity rules, the complete
// enumeration families and the renderer to origami source. Nothing here looks at origami.

import (
	"fmt"
	"strings"
)

// Act is the single "interesting" statement of a block. Every block is rendered as
// <enter marker>; <act>; <exit marker>.
//
//	m        nothing (marker only)
//	throw    $x = new Cls("s<site>"); K::$last = $x; throw $x;
//	call     thrower_Cls();   (a function that creates, records and throws a Cls)
//	re       throw $e<id>;    (the variable of the lexically innermost enclosing catch)
//	ret      return <site>;   (function contexts only)
//	brk/cnt  break; / continue;   (loop contexts only, never inside a finally)
//	rt0      $z = 1 % 0;                  runtime error raised as a control by the interpreter
//	rtm      $o = new K(); $o->nope();    runtime error: undefined method
//	rth      c05_host_fail();             a Go function registered by the embedder panics (Go-level)
//	rtp      $z = 1 << [1];               runtime error that is a Go-level failure today
//	try      nested try statement
type Act struct {
	K    string `json:"k"`
	Cls  string `json:"cls,omitempty"`
	Form string `json:"form,omitempty"` // action "x" (expr.go): the expression form around the throwing operand
	Try  *Try   `json:"try,omitempty"`
}

type Catch struct {
	Type string `json:"type"`
	Body Act    `json:"body"`
}

type Try struct {
	Body    Act     `json:"body"`
	Catches []Catch `json:"catches,omitempty"`
	Fin     *Act    `json:"fin,omitempty"`
}

// Prog is one generated program: a root statement (a try, or a bare action for the baseline
// probes) placed in a context.
type Prog struct {
	Ctx  string `json:"ctx"` // top | func | for | while | foreach | funcloop
	Root Act    `json:"root"`
}

// "calls" = the function context with the function called three times in a row (family d1i only)
var contexts = []string{"top", "func", "for", "while", "foreach", "funcloop", "calls"}

func ctxIsFunc(c string) bool { return c == "func" || c == "funcloop" || c == "calls" }

// ctxRepeats: the root statement is executed more than once in one run.
func ctxRepeats(c string) bool { return ctxIsLoop(c) || c == "calls" }
func ctxIsLoop(c string) bool  { return c == "for" || c == "while" || c == "foreach" || c == "funcloop" }

// ---- class hierarchy --------------------------------------------------------------------
//
//	Throwable <- Exception <- E1 <- E0 ;  Exception <- E2 implements I
//	Exception <- E3 implements J3 ;  interface J3 extends J2 extends J1   (three extends-levels)

var instProbe = []string{"E0", "E1", "E2", "I", "Exception", "Throwable"}

func isA(cls, typ string) bool {
	switch typ {
	case "Throwable", "Exception":
		return true
	case "E0":
		return cls == "E0"
	case "E1":
		return cls == "E1" || cls == "E0"
	case "E2", "I":
		return cls == "E2"
	case "E3", "J1", "J2", "J3":
		return cls == "E3"
	}
	return false
}

// ---- copying / canonical form ---------------------------------------------------------------

func (a Act) clone() Act {
	b := a
	if a.Try != nil {
		t := a.Try.clone()
		b.Try = &t
	}
	return b
}

func (t Try) clone() Try {
	n := Try{Body: t.Body.clone()}
	for _, c := range t.Catches {
		n.Catches = append(n.Catches, Catch{Type: c.Type, Body: c.Body.clone()})
	}
	if t.Fin != nil {
		f := t.Fin.clone()
		n.Fin = &f
	}
	return n
}

func (p Prog) clone() Prog { return Prog{Ctx: p.Ctx, Root: p.Root.clone()} }

func (a Act) canon() string {
	switch a.K {
	case "throw":
		return "throw " + a.Cls
	case "call":
		return "call " + a.Cls
	case "x":
		return "x:" + a.Form + "(" + a.Cls + ")"
	case "try":
		return a.Try.canon()
	}
	return a.K
}

func (t *Try) canon() string {
	var sb strings.Builder
	sb.WriteString("try{" + t.Body.canon() + "}")
	for _, c := range t.Catches {
		sb.WriteString("catch(" + c.Type + "){" + c.Body.canon() + "}")
	}
	if t.Fin != nil {
		sb.WriteString("finally{" + t.Fin.canon() + "}")
	}
	return sb.String()
}

// canon is the stable, seed-independent text of a program used in finding keys.
func (p Prog) canon() string { return p.Ctx + ":" + p.Root.canon() }

func (a Act) size() int {
	if a.K == "try" {
		n := 1 + a.Try.Body.size()
		for _, c := range a.Try.Catches {
			n += 1 + c.Body.size()
		}
		if a.Try.Fin != nil {
			n += 1 + a.Try.Fin.size()
		}
		return n
	}
	if a.K == "m" {
		return 0
	}
	return 1
}

func (a Act) depth() int {
	if a.K != "try" {
		return 0
	}
	d := a.Try.Body.depth()
	for _, c := range a.Try.Catches {
		if x := c.Body.depth(); x > d {
			d = x
		}
	}
	if a.Try.Fin != nil {
		if x := a.Try.Fin.depth(); x > d {
			d = x
		}
	}
	return d + 1
}

// uses reports whether the action kind k occurs anywhere.
func (a Act) uses(k string) bool {
	if a.K == k {
		return true
	}
	if a.K != "try" {
		return false
	}
	if a.Try.Body.uses(k) {
		return true
	}
	for _, c := range a.Try.Catches {
		if c.Body.uses(k) {
			return true
		}
	}
	return a.Try.Fin != nil && a.Try.Fin.uses(k)
}

// ---- validity --------------------------------------------------------------------------------

// valid: rethrow needs an enclosing catch; return needs a function context; break/continue
// need a loop context and may not leave a finally block (PHP rejects that at compile time).
func (p Prog) valid() bool { return validAct(p.Root, p.Ctx, false, false) }

func validAct(a Act, ctx string, inCatch, inFin bool) bool {
	switch a.K {
	case "m", "rt0", "rtm", "rth", "rtp":
		return true
	case "throw", "call":
		return a.Cls == "E0" || a.Cls == "E1" || a.Cls == "E2" || a.Cls == "E3"
	case "re":
		return inCatch
	case "x":
		return exprValid(a, ctx)
	case "ret":
		return ctxIsFunc(ctx)
	case "brk", "cnt":
		return ctxIsLoop(ctx) && !inFin
	case "try":
		t := a.Try
		if t == nil || (len(t.Catches) == 0 && t.Fin == nil) {
			return false
		}
		if !validAct(t.Body, ctx, inCatch, inFin) {
			return false
		}
		for _, c := range t.Catches {
			if !validAct(c.Body, ctx, true, inFin) {
				return false
			}
		}
		if t.Fin != nil && !validAct(*t.Fin, ctx, inCatch, true) {
			return false
		}
		return true
	}
	return false
}

// ---- numbering ---------------------------------------------------------------------------------

type nAct struct {
	K    string
	Cls  string
	Form string
	Site int
	Try  *nTry
}
type nCatch struct {
	Type string
	Body nAct
}
type nTry struct {
	ID      int
	Body    nAct
	Catches []nCatch
	Fin     *nAct
}

type numberer struct{ try, site int }

func (n *numberer) act(a Act) nAct {
	n.site++
	r := nAct{K: a.K, Cls: a.Cls, Form: a.Form, Site: n.site}
	if a.K == "try" {
		r.Try = n.tryStmt(a.Try)
	}
	return r
}

func (n *numberer) tryStmt(t *Try) *nTry {
	n.try++
	r := &nTry{ID: n.try}
	r.Body = n.act(t.Body)
	for _, c := range t.Catches {
		r.Catches = append(r.Catches, nCatch{Type: c.Type, Body: n.act(c.Body)})
	}
	if t.Fin != nil {
		f := n.act(*t.Fin)
		r.Fin = &f
	}
	return r
}

func number(p Prog) nAct { return (&numberer{}).act(p.Root) }

// ---- rendering ---------------------------------------------------------------------------------

type render struct {
	sb  strings.Builder
	sfx string // seed-dependent identifier suffix (concretisation only)
}

func (r *render) name(n string) string {
	switch n {
	case "Throwable", "Exception":
		return n
	}
	return n + r.sfx
}

func (r *render) line(ind int, s string) {
	r.sb.WriteString(strings.Repeat("  ", ind))
	r.sb.WriteString(s)
	r.sb.WriteString("\n")
}

func (r *render) act(a nAct, ind int, catchVar string) {
	switch a.K {
	case "m":
	case "throw":
		r.line(ind, fmt.Sprintf(`$x = new %s("s%d"); %s::$last = $x; throw $x;`, r.name(a.Cls), a.Site, r.name("K")))
	case "call":
		r.line(ind, fmt.Sprintf(`%s();`, r.name("thrower_"+a.Cls)))
	case "re":
		r.line(ind, fmt.Sprintf(`throw %s;`, catchVar))
	case "ret":
		r.line(ind, fmt.Sprintf(`return %d;`, a.Site))
	case "brk":
		r.line(ind, `break;`)
	case "cnt":
		r.line(ind, `continue;`)
	case "rt0":
		r.line(ind, `$z = 1 % 0;`)
	case "rtm":
		r.line(ind, fmt.Sprintf(`$o = new %s(); $o->nope();`, r.name("K")))
	case "x":
		r.line(ind, r.exprStmt(a))
	case "rth":
		r.line(ind, `c05_host_fail();`)
	case "rtp":
		r.line(ind, `$z = 1 << [1];`)
	case "try":
		t := a.Try
		r.line(ind, "try {")
		r.line(ind+1, fmt.Sprintf(`echo "T%d;";`, t.ID))
		r.act(t.Body, ind+1, catchVar)
		r.line(ind+1, fmt.Sprintf(`echo "t%d;";`, t.ID))
		for i, c := range t.Catches {
			v := fmt.Sprintf("$e%d", t.ID)
			r.line(ind, fmt.Sprintf("} catch (%s %s) {", r.name(c.Type), v))
			r.line(ind+1, fmt.Sprintf(`echo "C%d.%d;";`, t.ID, i+1))
			r.line(ind+1, fmt.Sprintf(`echo "cls=", get_class(%s), ";msg=", %s->getMessage(), ";same=", (%s === %s::$last) ? "y" : "n", ";inst=", %s(%s), ";";`, v, v, v, r.name("K"), r.name("bits"), v))
			r.act(c.Body, ind+1, v)
			r.line(ind+1, fmt.Sprintf(`echo "c%d.%d;";`, t.ID, i+1))
		}
		if t.Fin != nil {
			r.line(ind, "} finally {")
			r.line(ind+1, fmt.Sprintf(`echo "F%d;";`, t.ID))
			r.act(*t.Fin, ind+1, catchVar)
			r.line(ind+1, fmt.Sprintf(`echo "f%d;";`, t.ID))
		}
		r.line(ind, "}")
	default:
		panic("render: unknown action " + a.K)
	}
}

func sfxFor(seed int64) string {
	if seed == 0 {
		return ""
	}
	return fmt.Sprintf("_v%d", seed%1000)
}

// header renders the declarations every program starts with.
func header(seed int64, throwers bool) string { return headerX(seed, throwers, false) }

func headerX(seed int64, throwers, exprs bool) string {
	r := &render{sfx: sfxFor(seed)}
	K, I := r.name("K"), r.name("I")
	r.line(0, fmt.Sprintf("class %s { public static $last = null; }", K))
	r.line(0, fmt.Sprintf("interface %s {}", I))
	r.line(0, fmt.Sprintf("class %s extends Exception {}", r.name("E1")))
	r.line(0, fmt.Sprintf("class %s extends %s {}", r.name("E0"), r.name("E1")))
	r.line(0, fmt.Sprintf("class %s extends Exception implements %s {}", r.name("E2"), I))
	r.line(0, fmt.Sprintf("interface %s {}", r.name("J1")))
	r.line(0, fmt.Sprintf("interface %s extends %s {}", r.name("J2"), r.name("J1")))
	r.line(0, fmt.Sprintf("interface %s extends %s {}", r.name("J3"), r.name("J2")))
	r.line(0, fmt.Sprintf("class %s extends Exception implements %s {}", r.name("E3"), r.name("J3")))
	var bits []string
	for _, c := range instProbe {
		bits = append(bits, fmt.Sprintf(`(($o instanceof %s) ? "1" : "0")`, r.name(c)))
	}
	r.line(0, fmt.Sprintf("function %s($o) { return %s; }", r.name("bits"), strings.Join(bits, " . ")))
	if throwers || exprs {
		for _, c := range []string{"E0", "E1", "E2", "E3"} {
			r.line(0, fmt.Sprintf(`function %s() { $x = new %s("f%s"); %s::$last = $x; throw $x; }`, r.name("thrower_"+c), r.name(c), c, K))
		}
	}
	if exprs {
		exprHeader(r)
	}
	return r.sb.String()
}

// source renders the program as plain (.zy) origami source.
func source(p Prog, seed int64) string {
	r := &render{sfx: sfxFor(seed)}
	r.sb.WriteString(headerX(seed, p.Root.uses("call"), p.Root.uses("x")))
	root := number(p)
	switch p.Ctx {
	case "top":
		r.act(root, 0, "")
		r.line(0, `echo "Z;";`)
	case "func":
		r.line(0, "function f() {")
		r.act(root, 1, "")
		r.line(1, `echo "A;";`)
		r.line(1, `return 0;`)
		r.line(0, "}")
		r.line(0, `$r = f();`)
		r.line(0, `echo "r=", $r, ";";`)
		r.line(0, `echo "Z;";`)
	case "for":
		r.line(0, "for ($i = 0; $i < 2; $i++) {")
		r.line(1, `echo "L;";`)
		r.act(root, 1, "")
		r.line(1, `echo "A;";`)
		r.line(0, "}")
		r.line(0, `echo "Z;";`)
	case "while":
		r.line(0, "$i = 0;")
		r.line(0, "while ($i < 2) {")
		r.line(1, `$i++;`)
		r.line(1, `echo "L;";`)
		r.act(root, 1, "")
		r.line(1, `echo "A;";`)
		r.line(0, "}")
		r.line(0, `echo "Z;";`)
	case "foreach":
		r.line(0, "foreach ([0, 1] as $i) {")
		r.line(1, `echo "L;";`)
		r.act(root, 1, "")
		r.line(1, `echo "A;";`)
		r.line(0, "}")
		r.line(0, `echo "Z;";`)
	case "calls":
		r.line(0, "function f() {")
		r.act(root, 1, "")
		r.line(1, `echo "A;";`)
		r.line(1, `return 0;`)
		r.line(0, "}")
		for i := 0; i < 3; i++ {
			r.line(0, `$r = f();`)
			r.line(0, `echo "r=", $r, ";";`)
		}
		r.line(0, `echo "Z;";`)
	case "funcloop":
		r.line(0, "function f() {")
		r.line(1, "for ($i = 0; $i < 2; $i++) {")
		r.line(2, `echo "L;";`)
		r.act(root, 2, "")
		r.line(2, `echo "A;";`)
		r.line(1, "}")
		r.line(1, `echo "B;";`)
		r.line(1, `return 0;`)
		r.line(0, "}")
		r.line(0, `$r = f();`)
		r.line(0, `echo "r=", $r, ";";`)
		r.line(0, `echo "Z;";`)
	default:
		panic("render: unknown context " + p.Ctx)
	}
	return r.sb.String()
}

// ---- enumeration families ------------------------------------------------------------------------

// bounds of one tier. All families are complete cross products of the listed alphabets.
type bounds struct {
	// depth-1 family
	D1Body   []string // action codes for the try body (context exits are added)
	D1Catch  []string // action codes for catch bodies (context exits are added)
	D1Types  []string
	D1MaxC   int
	Fins     []string // finally bodies ("-" = absent); "ret" is added in function contexts
	D1xCatch []string // family d1x: extra catch bodies (single catch)
	D1xFins  []string
	// depth-2 families: reduced alphabets used for BOTH levels
	D2Body                  []string
	D2Catch                 []string
	D2Types                 []string
	D2MaxC                  int
	D2OuterBodyForCatchNest []string // outer try bodies when the inner try sits in the outer catch
	D2OuterBodyForFinNest   []string // outer try bodies when the inner try sits in the outer finally
	// depth-3 chains (thorough): tiny alphabets
	D3 bool
	// contexts in which the depth-2 families are generated (depth 1 always uses all six)
	D2Ctx []string
}

// hasFamily says whether the tier generates the family in the context.
func (b bounds) hasFamily(fam, ctx string) bool {
	switch fam {
	case "d1", "d1x":
		return ctx != "calls"
	case "d1e":
		return ctx == "top" || ctx == "func" || ctx == "for"
	case "d1i":
		return ctxRepeats(ctx) // the point of the family is the SAME throw handled repeatedly in one run
	case "d3":
		return b.D3 && ctx != "funcloop" // funcloop adds nothing a depth-3 chain has not shown in func and for
	}
	for _, c := range b.D2Ctx {
		if c == ctx {
			return true
		}
	}
	return false
}

func tierBounds(quick bool) bounds {
	b := bounds{
		D1Body:                  []string{"m", "tE0", "tE1", "tE2", "rt0", "rth", "rtp", "cE1"},
		D1Catch:                 []string{"m", "tE2", "re"},
		D1Types:                 []string{"E0", "E1", "E2", "I", "Exception", "Throwable"},
		D1MaxC:                  2,
		Fins:                    []string{"-", "m", "tE2"},
		D1xCatch:                []string{"tE0", "rt0", "rtp", "cE1"},
		D1xFins:                 []string{"-", "m", "rt0", "rtp", "cE1"},
		D2Body:                  []string{"m", "tE0", "tE2", "rtp", "cE1"},
		D2Catch:                 []string{"m", "re", "tE2"},
		D2Types:                 []string{"E1", "I", "Throwable"},
		D2MaxC:                  1,
		D2OuterBodyForCatchNest: []string{"tE0", "tE2", "rtp"},
		D2OuterBodyForFinNest:   []string{"m", "tE0", "rtp"},
		D2Ctx:                   []string{"top", "func", "for"},
	}
	if !quick {
		b.D1Catch = []string{"m", "tE2", "re", "tE0", "rt0", "rtp", "cE1"}
		b.Fins = []string{"-", "m", "tE2", "rtp"}
		b.D2Types = []string{"E1", "I", "Exception", "Throwable"}
		b.D2Body = []string{"m", "tE0", "tE2", "rt0", "rtp", "cE1"}
		b.D1Body = []string{"m", "tE0", "tE1", "tE2", "rt0", "rtm", "rth", "rtp", "cE1"}
		b.D3 = true
		b.D2Ctx = contexts
	}
	return b
}

func decode(code string) Act {
	switch code {
	case "tE0", "tE1", "tE2", "tE3":
		return Act{K: "throw", Cls: code[1:]}
	case "cE0", "cE1", "cE2", "cE3":
		return Act{K: "call", Cls: code[1:]}
	}
	return Act{K: code}
}

// exits are the context-dependent ways of leaving a block other than throwing.
func exits(ctx string, inFin bool) []Act {
	var r []Act
	if ctxIsFunc(ctx) {
		r = append(r, Act{K: "ret"})
	}
	if ctxIsLoop(ctx) && !inFin {
		r = append(r, Act{K: "brk"}, Act{K: "cnt"})
	}
	return r
}

func acts(codes []string, ctx string, inFin bool, extra ...Act) []Act {
	var r []Act
	for _, c := range codes {
		r = append(r, decode(c))
	}
	r = append(r, extra...)
	return append(r, exits(ctx, inFin)...)
}

func fins(codes []string, ctx string) []*Act {
	var r []*Act
	for _, c := range codes {
		if c == "-" {
			r = append(r, nil)
			continue
		}
		a := decode(c)
		r = append(r, &a)
	}
	if ctxIsFunc(ctx) {
		r = append(r, &Act{K: "ret"})
	}
	return r
}

// catchLists calls f with every ordered list of <= maxN distinct types, each catch body
// ranging over bodies (complete product). The slice passed to f is reused.
func catchLists(types []string, maxN int, bodies []Act, f func([]Catch)) {
	cur := make([]Catch, 0, maxN)
	var rec func()
	rec = func() {
		f(cur)
		if len(cur) == maxN {
			return
		}
	next:
		for _, t := range types {
			for _, c := range cur {
				if c.Type == t {
					continue next
				}
			}
			for _, b := range bodies {
				cur = append(cur, Catch{Type: t, Body: b})
				rec()
				cur = cur[:len(cur)-1]
			}
		}
	}
	rec()
}

// tries calls f with every try statement over the given alphabets (a try needs at least one
// catch or a finally).
func tries(bodies []Act, types []string, maxC int, cbodies []Act, finals []*Act, f func(Try)) {
	for _, b := range bodies {
		catchLists(types, maxC, cbodies, func(cl []Catch) {
			for _, fin := range finals {
				if len(cl) == 0 && fin == nil {
					continue
				}
				f(Try{Body: b, Catches: cl, Fin: fin})
			}
		})
	}
}

// d1iCatchBodies: only exits that keep the repetition going (a break / return out of the loop
// would leave a single throw, whose verdict could depend on earlier runs in the same process).
func d1iCatchBodies(ctx string) []Act {
	r := []Act{{K: "m"}}
	if ctxIsLoop(ctx) {
		r = append(r, Act{K: "cnt"})
	}
	if ctx == "calls" {
		r = append(r, Act{K: "ret"})
	}
	return r
}

var families = []string{"d1", "d1x", "d1i", "d1e", "d2body", "d2catch", "d2fin", "d3"}

// enumerate calls f with every program of the family in the context, in a fixed order. The
// Prog passed to f shares structure with the enumerator: clone() it to keep it.
func enumerate(b bounds, fam, ctx string, f func(Prog)) {
	if !b.hasFamily(fam, ctx) {
		return
	}
	emit := func(t Try) {
		tt := t
		p := Prog{Ctx: ctx, Root: Act{K: "try", Try: &tt}}
		if !p.valid() {
			panic("generator produced an invalid program: " + p.canon())
		}
		f(p)
	}
	re := Act{K: "re"}
	switch fam {
	case "d1":
		tries(acts(b.D1Body, ctx, false), b.D1Types, b.D1MaxC, acts(b.D1Catch, ctx, false), fins(b.Fins, ctx), emit)
	case "d1x":
		// depth 1, at most one catch, the catch / finally bodies that d1 leaves out: runtime errors
		// (control-level and Go-level) and a throwing call inside a catch body or a finally body
		tries(acts(b.D1Body, ctx, false), b.D1Types, 1, acts(b.D1xCatch, "top", false), fins(b.D1xFins, ctx), emit)
	case "d1e":
		enumExpr(ctx, emit)
	case "d1i":
		// depth 1 in the repeating contexts (2 loop iterations / 3 calls): an exception whose class
		// reaches the caught interface through a 3-level extends chain, every ordered list of <= 2
		// catch types over the chain plus matching / non-matching class types; the reference picks
		// the same handler on every repetition
		tries(acts([]string{"tE3", "cE3"}, "top", false), []string{"J1", "J2", "J3", "I", "E1", "Exception", "Throwable"}, 2,
			d1iCatchBodies(ctx), fins([]string{"-", "m"}, "top"), emit)
	case "d2body":
		// inner try is the outer try's body
		tries(acts(b.D2Body, ctx, false), b.D2Types, b.D2MaxC, acts(b.D2Catch, ctx, false), fins(b.Fins, ctx), func(in Try) {
			inner := in.clone()
			tries([]Act{{K: "try", Try: &inner}}, b.D2Types, b.D2MaxC, acts(b.D2Catch, ctx, false), fins(b.Fins, ctx), emit)
		})
	case "d2catch":
		// inner try is the body of the outer try's only catch; the inner body may also rethrow the outer variable
		tries(acts(b.D2Body, ctx, false, re), b.D2Types, b.D2MaxC, acts(b.D2Catch, ctx, false), fins(b.Fins, ctx), func(in Try) {
			inner := in.clone()
			for _, ob := range acts(b.D2OuterBodyForCatchNest, "top", false) {
				for _, ty := range b.D2Types {
					for _, fin := range fins(b.Fins, ctx) {
						emit(Try{Body: ob, Catches: []Catch{{Type: ty, Body: Act{K: "try", Try: &inner}}}, Fin: fin})
					}
				}
			}
		})
	case "d2fin":
		// inner try is the outer try's finally body (no break/continue inside it)
		tries(acts(b.D2Body, ctx, true), b.D2Types, b.D2MaxC, acts(b.D2Catch, ctx, true), fins(b.Fins, ctx), func(in Try) {
			inner := in.clone()
			fin := Act{K: "try", Try: &inner}
			for _, ob := range acts(b.D2OuterBodyForFinNest, ctx, false) {
				emit(Try{Body: ob, Fin: &fin})
				emit(Try{Body: ob, Catches: []Catch{{Type: "Throwable", Body: Act{K: "m"}}}, Fin: &fin})
			}
		})
	case "d3":
		// depth-3 chains: each level is try{X}catch(T){Y}finally{Z} over tiny alphabets, the next
		// level sitting in the body, the catch or the finally of the previous one.
		leafBody := acts([]string{"m", "tE0", "rtp"}, ctx, false)
		ctypes := []string{"E1", "Throwable"}
		cb := func(inFin bool) []Act { return acts([]string{"m", "re"}, ctx, inFin) }
		fn := func() []*Act { return fins([]string{"-", "m", "tE2"}, ctx) }
		var level func(d int, inFin bool, inCatch bool, f func(Try))
		level = func(d int, inFin, inCatch bool, f func(Try)) {
			if d == 1 {
				lb := leafBody
				if inFin {
					lb = acts([]string{"m", "tE0", "rtp"}, ctx, true)
				}
				if inCatch {
					lb = append(append([]Act{}, lb...), re)
				}
				tries(lb, ctypes, 1, cb(inFin), fn(), f)
				return
			}
			// position: body
			level(d-1, inFin, inCatch, func(in Try) {
				inner := in.clone()
				tries([]Act{{K: "try", Try: &inner}}, ctypes, 1, cb(inFin), fn(), f)
			})
			// position: catch
			level(d-1, inFin, true, func(in Try) {
				inner := in.clone()
				for _, ob := range []Act{{K: "throw", Cls: "E0"}, {K: "rtp"}} {
					for _, ty := range ctypes {
						for _, fin := range fn() {
							f(Try{Body: ob, Catches: []Catch{{Type: ty, Body: Act{K: "try", Try: &inner}}}, Fin: fin})
						}
					}
				}
			})
			// position: finally
			level(d-1, true, inCatch, func(in Try) {
				inner := in.clone()
				fin := Act{K: "try", Try: &inner}
				for _, ob := range acts([]string{"m", "tE0"}, ctx, inFin) {
					f(Try{Body: ob, Fin: &fin})
				}
			})
		}
		level(3, false, false, emit)
	default:
		panic("unknown family " + fam)
	}
}
