package main

// G2h: the process-level clause under every *uncaught-handler history*.
//
// "A script that ends with an uncaught throwable prints a diagnostic and exits with a non-zero
// status after flushing earlier output" must hold no matter what the script did to the
// top-level exception machinery before it died. The family is the complete cross product
//
//	history (every sequence of <= L ops over the alphabet below) x install site
//	  x uncaught ending x prior-output mode x file extension
//
// ops: set_exception_handler(v) for every callable form v of the language (and null),
// restore_exception_handler(), register_shutdown_function(closure), set_error_handler(closure).
// The reference model is PHP's handler stack; it only decides the *expectation class* of a cell:
// effective handler calls exit(n) -> control (the script chose its status; recorded only).
// Whether the statement applies is decided by observation: a cell in which a user handler actually ran
// for the throwable and returned is a control as well (the handler handled it; only "earlier output is
// flushed" is still required). Every other cell - no handler set at that point, reset to null, restored,
// a value origami does not invoke, or a handler that itself throws - ends with an uncaught throwable and
// must print a diagnostic and exit non-zero after flushing earlier output.
//
// Reduction needs no re-execution: the family is closed under sub-histories, so a failing cell
// is reduced by table lookup to its shortest failing sub-history (top-level site preferred);
// a clause that the cell without any history fails as well belongs to the base finding.

import (
	"fmt"
	"sort"
	"strings"

	"verif/engine/ev"
)

const hPrelude = "function hfun_c05($e) { echo \"H:name\\n\"; }\n" +
	"function hmark_c05() { echo \"H:arrow\\n\"; return 0; }\n" +
	"class HK_c05 { function m($e) { echo \"H:method\\n\"; } static function s($e) { echo \"H:static\\n\"; } }\n"

const hMarker = "H:" // every handler of the alphabet prints a line starting with this

type hop struct {
	Name string // as it appears in keys
	Src  string // one statement
	Set  bool   // set_exception_handler
	Kind string // for Set: none | returns | throws | exits  (what the handler does when called)
}

var hops = []hop{
	{"set(null)", `set_exception_handler(null);`, true, "none"},
	{"set(closure)", `set_exception_handler(function ($e) { echo "H:closure\n"; });`, true, "returns"},
	{"set(closure0)", `set_exception_handler(function () { echo "H:closure0\n"; });`, true, "returns"},
	{"set(arrow)", `set_exception_handler(fn($e) => hmark_c05());`, true, "returns"},
	{"set(fcc)", `set_exception_handler((new HK_c05())->m(...));`, true, "returns"},
	{"set(bound)", `set_exception_handler(Closure::bind(function ($e) { echo "H:bound\n"; }, new HK_c05(), HK_c05::class));`, true, "returns"},
	{"set(name)", `set_exception_handler("hfun_c05");`, true, "returns"},
	{"set(method)", `set_exception_handler([new HK_c05(), "m"]);`, true, "returns"},
	{"set(static)", `set_exception_handler("HK_c05::s");`, true, "returns"},
	{"set(throws)", `set_exception_handler(function ($e) { echo "H:throws\n"; throw new Exception("inner"); });`, true, "throws"},
	{"set(exits)", `set_exception_handler(function ($e) { echo "H:exits\n"; exit(3); });`, true, "exits"},
	{"restore", `restore_exception_handler();`, false, ""},
	{"shutdown", `register_shutdown_function(function () { echo "SD\n"; });`, false, ""},
	// PHP's error handler sees warnings / notices only, never a Throwable: no effect on the handler stack
	{"errhandler", `set_error_handler(function ($no, $str) { echo "EH\n"; return true; });`, false, ""},
}

var hsites = []string{"top", "func", "include"}

// effectiveKind is the reference model: PHP keeps a stack of previous handlers.
func effectiveKind(h []int) string {
	cur := "none"
	var stack []string
	for _, i := range h {
		op := hops[i]
		switch {
		case op.Set:
			stack = append(stack, cur)
			cur = op.Kind
		case op.Name == "restore":
			if n := len(stack); n > 0 {
				cur = stack[n-1]
				stack = stack[:n-1]
			} else {
				cur = "none"
			}
		}
	}
	return cur
}

func histName(h []int) string {
	p := make([]string, len(h))
	for i, x := range h {
		p[i] = hops[x].Name
	}
	return strings.Join(p, ";")
}

func histSrc(h []int) string {
	var b strings.Builder
	for _, x := range h {
		b.WriteString(hops[x].Src)
		b.WriteString("\n")
	}
	return b.String()
}

// allHists: every sequence of 1..maxLen ops, in length-then-lexicographic order.
func allHists(maxLen int) [][]int {
	var out [][]int
	var rec func(cur []int, n int)
	rec = func(cur []int, n int) {
		if len(cur) == n {
			out = append(out, append([]int(nil), cur...))
			return
		}
		for i := range hops {
			rec(append(cur, i), n)
		}
	}
	for n := 1; n <= maxLen; n++ {
		rec(nil, n)
	}
	return out
}

type hBounds struct {
	LenBySite   map[string]int `json:"max_history_length_by_site"`
	Endings     []string       `json:"endings"`
	EndingsLong []string       `json:"endings_for_histories_of_3_ops"`
}

func hTierBounds(quick bool) hBounds {
	short := []string{"uncaught-exception", "uncaught-runtime-modzero", "uncaught-in-function", "uncaught-in-finally", "uncaught-in-included-file"}
	if quick {
		return hBounds{LenBySite: map[string]int{"top": 2, "func": 1, "include": 1}, Endings: short, EndingsLong: short}
	}
	b := hBounds{LenBySite: map[string]int{"top": 3, "func": 2, "include": 2}, Endings: short, EndingsLong: short}
	for _, e := range endings {
		if e.Class == "uncaught" && !has(short, e.Name) {
			b.Endings = append(b.Endings, e.Name)
		}
	}
	return b
}

func makeHCell(e ending, prior struct{ Name, Src string }, ext string, h []int, site string) g2Cell {
	head := ""
	if ext == "php" {
		head = "<?php\n"
	}
	c := g2Cell{Kind: "g2", Ending: e.Name, Prior: prior.Name, Ext: ext, Files: map[string]string{}, Main: "main." + ext,
		Hist: histName(h), Site: site, Eff: effectiveKind(h), Expect: "error"}
	if e.Class == "control" || c.Eff == "exits" {
		c.Expect = "control"
	}
	var inst string
	switch site {
	case "top":
		inst = histSrc(h)
	case "func":
		inst = "function inst_c05() {\n" + histSrc(h) + "}\ninst_c05();\n"
	case "include":
		c.Files["hinc."+ext] = head + histSrc(h)
		inst = "include \"hinc." + ext + "\";\n"
	}
	c.Files[c.Main] = head + hPrelude + prior.Src + inst + strings.ReplaceAll(e.Body, "EXT", ext) + "\n"
	if e.Inc != "" {
		c.Files["inc."+ext] = head + e.Inc
	}
	c.ID = fmt.Sprintf("h-%s-%s-%s-%s-%s", site, strings.NewReplacer("(", "_", ")", "", ";", "+").Replace(c.Hist), strings.NewReplacer("(", "", ")", "").Replace(e.Name), prior.Name, ext)
	return c
}

// hControlCells: each single op at each site followed by a normal end. An op that does not get
// through (does not parse in this dialect, or dies when executed) is not part of the language
// as far as this family is concerned and is excluded, with an assumption, for that site/extension.
func hControlCells() []g2Cell {
	ne := *endingByName("normal-end")
	var cells []g2Cell
	for i := range hops {
		for _, s := range hsites {
			for _, x := range exts {
				cells = append(cells, makeHCell(ne, priors[1], x, []int{i}, s))
			}
		}
	}
	return cells
}

// hCells streams every cell of the family to emit and returns the number of (history, site) pairs.
func hCells(b hBounds, excluded map[string]bool, emit func(g2Cell)) (nHist int) {
	for _, s := range hsites {
		for _, h := range allHists(b.LenBySite[s]) {
			nHist++
			ends := b.Endings
			if len(h) > 2 {
				ends = b.EndingsLong
			}
			for _, en := range ends {
				e := *endingByName(en)
				for _, p := range priors {
				ext:
					for _, x := range exts {
						for _, i := range h {
							if excluded[hops[i].Name+"@"+s+"."+x] {
								continue ext
							}
						}
						emit(makeHCell(e, p, x, h, s))
					}
				}
			}
		}
	}
	return
}

// ---- reporting ----------------------------------------------------------------------------

type hSeen struct {
	Cell    g2Cell
	Obs     g2Obs
	Clauses []string // violated clauses of a judged cell
	Ran     bool     // a user handler's marker line is on stdout
	Threw   bool     // ... and it is the marker of the handler that itself throws
}

func hCellKey(hist, site, ending, prior, ext string) string {
	return hist + "|" + site + "|" + ending + "|" + prior + "|" + ext
}

// subHists: every proper subsequence of a ';'-joined history (non-empty), shortest first.
func subHists(hist string) []string {
	ops := strings.Split(hist, ";")
	n := len(ops)
	var out []string
	for mask := 1; mask < (1<<n)-1; mask++ {
		var p []string
		for i := 0; i < n; i++ {
			if mask&(1<<i) != 0 {
				p = append(p, ops[i])
			}
		}
		out = append(out, strings.Join(p, ";"))
	}
	sort.SliceStable(out, func(i, j int) bool {
		ci, cj := strings.Count(out[i], ";"), strings.Count(out[j], ";")
		if ci != cj {
			return ci < cj
		}
		return out[i] < out[j]
	})
	return out
}

func has(ss []string, s string) bool {
	for _, x := range ss {
		if x == s {
			return true
		}
	}
	return false
}

// reportHandlers derives finding keys for the G2h cells.
//
//	proc:uncaught@handler-ran:<clauses>          a user handler was invoked (its marker is on stdout)
//	proc:uncaught@<history shape>[/site]:<clauses>   no handler ran; the shape names, per position, the
//	                                             set of ops whose reduced histories fail alike
func (r *g2Result) reportHandlers(c *ev.Check) {
	if len(r.HSeen) == 0 {
		return
	}
	// clauses the cell without history fails as well (same ending / prior / ext)
	base := map[string][]string{}
	for _, f := range r.Fails {
		k := f.Cell.Ending + "|" + f.Cell.Prior + "|" + f.Cell.Ext
		base[k] = append(base[k], f.Clause)
	}
	tab := map[string]*hSeen{}
	ran := map[string]bool{}   // hist|site|ending|ext -> handler marker seen under any prior mode
	threw := map[string]bool{} // ... marker of the throwing handler
	for i := range r.HSeen {
		s := &r.HSeen[i]
		tab[hCellKey(s.Cell.Hist, s.Cell.Site, s.Cell.Ending, s.Cell.Prior, s.Cell.Ext)] = s
		if s.Ran {
			ran[s.Cell.Hist+"|"+s.Cell.Site+"|"+s.Cell.Ending+"|"+s.Cell.Ext] = true
		}
		if s.Threw {
			threw[s.Cell.Hist+"|"+s.Cell.Site+"|"+s.Cell.Ending+"|"+s.Cell.Ext] = true
		}
	}
	ranOf := func(s *hSeen) bool { return ran[s.Cell.Hist+"|"+s.Cell.Site+"|"+s.Cell.Ending+"|"+s.Cell.Ext] }
	// handled: a user handler consumed the throwable and returned. Such a script did not "end with an
	// uncaught throwable" as far as origami is concerned (it may even carry on): a control, except that
	// earlier output must still reach stdout. A handler that itself throws leaves an uncaught throwable.
	handled := func(s *hSeen) bool {
		return ranOf(s) && !threw[s.Cell.Hist+"|"+s.Cell.Site+"|"+s.Cell.Ending+"|"+s.Cell.Ext]
	}
	own := func(s *hSeen) []string { // judged clauses not already explained by the base cell
		var out []string
		b := base[s.Cell.Ending+"|"+s.Cell.Prior+"|"+s.Cell.Ext]
		lost := has(s.Clauses, "flush")
		for _, cl := range s.Clauses {
			if has(b, cl) {
				continue
			}
			if handled(s) && cl != "flush" {
				continue
			}
			if cl == "diagnostic" && lost {
				// whatever was printed went into the buffer that was lost: same root cause as flush
				continue
			}
			out = append(out, cl)
		}
		sort.Strings(out)
		return out
	}
	type grp struct {
		ran     bool
		site    string
		nops    int
		clauses string
	}
	type member struct {
		hist string
		s    *hSeen
	}
	groups := map[grp][]member{}
	collapsed := 0
	for i := range r.HSeen {
		s := &r.HSeen[i]
		if len(s.Clauses) == 0 {
			continue
		}
		o := own(s)
		if len(o) == 0 {
			if !handled(s) {
				collapsed++
			}
			continue
		}
		hr := ranOf(s)
		// reduce by table lookup to a fixpoint: a simpler cell (shorter sub-history, top-level site,
		// plain `throw` ending, no prior output) that fails at least the same clauses the same way
		// stands for this one
		cur := s
		for {
			co := own(cur)
			covers := func(hist, site, ending, prior string) *hSeen {
				t := tab[hCellKey(hist, site, ending, prior, cur.Cell.Ext)]
				if t == nil || t == cur || ranOf(t) != hr {
					return nil
				}
				to := own(t)
				for _, cl := range co {
					if !has(to, cl) {
						return nil
					}
				}
				return t
			}
			type cand struct{ hist, site string }
			var cands []cand
			for _, sh := range subHists(cur.Cell.Hist) {
				cands = append(cands, cand{sh, "top"})
				if cur.Cell.Site != "top" {
					cands = append(cands, cand{sh, cur.Cell.Site})
				}
			}
			if cur.Cell.Site != "top" {
				cands = append(cands, cand{cur.Cell.Hist, "top"})
			}
			cands = append(cands, cand{cur.Cell.Hist, cur.Cell.Site}) // same history: simpler ending / prior mode only
			var next *hSeen
		search:
			for _, cd := range cands {
				for _, en := range []string{r.HBounds.Endings[0], cur.Cell.Ending} {
					for _, pr := range []string{"none", cur.Cell.Prior} {
						if t := covers(cd.hist, cd.site, en, pr); t != nil {
							next = t
							break search
						}
					}
				}
			}
			if next == nil {
				break
			}
			cur = next
		}
		rh, rs := cur.Cell.Hist, cur.Cell.Site
		o = own(cur)
		g := grp{ran: hr, clauses: strings.Join(o, "+")}
		if !hr {
			g.site, g.nops = rs, strings.Count(rh, ";")+1
		}
		groups[g] = append(groups[g], member{rh, s})
	}
	c.Set("g2h_failing_cells_explained_by_base_finding", collapsed)
	nHandled, nHandled0 := 0, 0
	for i := range r.HSeen {
		if s := &r.HSeen[i]; s.Cell.Expect == "error" && handled(s) {
			nHandled++
			if s.Obs.Status == 0 {
				nHandled0++
			}
		}
	}
	c.Set("g2h_control_cells_user_handler_consumed_the_throwable", nHandled)
	c.Set("g2h_control_cells_user_handler_consumed_the_throwable_status_0", nHandled0)

	for g, ms := range groups {
		label := "handler-ran"
		if !g.ran {
			pos := make([]map[string]bool, g.nops)
			for _, m := range ms {
				for i, op := range strings.Split(m.hist, ";") {
					if pos[i] == nil {
						pos[i] = map[string]bool{}
					}
					pos[i][op] = true
				}
			}
			var parts []string
			for _, p := range pos {
				var sets, others []string
				for op := range p {
					if strings.HasPrefix(op, "set(") {
						sets = append(sets, strings.TrimSuffix(strings.TrimPrefix(op, "set("), ")"))
					} else {
						others = append(others, op)
					}
				}
				sort.Strings(sets)
				sort.Strings(others)
				var alt []string
				if len(sets) > 0 {
					alt = append(alt, "set("+strings.Join(sets, "|")+")")
				}
				alt = append(alt, others...)
				parts = append(parts, strings.Join(alt, "|"))
			}
			label = strings.Join(parts, ";")
			if g.site != "top" {
				label += "/" + g.site
			}
		}
		key := "proc:uncaught@" + label + ":" + g.clauses
		sort.Slice(ms, func(i, j int) bool {
			a, b := ms[i].s.Cell, ms[j].s.Cell
			if (a.Site == "top") != (b.Site == "top") {
				return a.Site == "top"
			}
			if na, nb := strings.Count(a.Hist, ";"), strings.Count(b.Hist, ";"); na != nb {
				return na < nb
			}
			if ra, rb := hCellRank(a), hCellRank(b); ra != rb {
				return ra < rb
			}
			return a.ID < b.ID
		})
		for i, m := range ms {
			if i >= 40 {
				break // the rest are more cells of the same finding
			}
			size := 1 << 20
			if i == 0 {
				size = 0
			}
			f := m.s
			c.Fail(key, g.clauses, size, f.Cell, fmt.Sprintf("cell history=%s site=%s / %s / prior=%s / .%s (reduced history: %s; %d cells in this group)\nreference: effective handler per PHP = %s\nrequired: %s\nobserved: status=%d handler-ran=%v\nstdout=%q\nstderr=%q",
				f.Cell.Hist, f.Cell.Site, f.Cell.Ending, f.Cell.Prior, f.Cell.Ext, m.hist, len(ms), f.Cell.Eff, requirement(g.clauses), f.Obs.Status, g.ran, trunc(f.Obs.Stdout, 300), trunc(f.Obs.Stderr, 300)))
		}
	}
}

func hopNames() []string {
	var n []string
	for _, o := range hops {
		n = append(n, o.Name)
	}
	return n
}

// hCellRank orders cells of one group for presentation: op alphabet order, then ending menu order,
// then prior mode, then extension.
func hCellRank(c g2Cell) int {
	r := 0
	for _, op := range strings.Split(c.Hist, ";") {
		for i := range hops {
			if hops[i].Name == op {
				r = r*len(hops) + i
			}
		}
	}
	for i := range endings {
		if endings[i].Name == c.Ending {
			r = r*len(endings) + i
		}
	}
	for i := range priors {
		if priors[i].Name == c.Prior {
			r = r*len(priors) + i
		}
	}
	for i := range exts {
		if exts[i] == c.Ext {
			r = r*len(exts) + i
		}
	}
	return r
}
