// Generated handler families of C11 (see notes/C11.md).
//
// The hand-written templates in main.go each show ONE use of a language / server feature. The two
// families here are products over generator dimensions, so that a feature is enumerated together
// with its neighbours:
//
//	carry:<carrier>/<route>   one route, N requests with distinct data. The request's value is bound
//	                          into a CARRIER (18 callable forms: closure with use / without use,
//	                          arrow fn, created inline / in a method / in a static method / in a
//	                          function / nested, reading $this, bound, array- and string-callables ...;
//	                          and 18 non-callable holders: objects, generators, references, nested
//	                          arrays, loops, exceptions ...), a gate, then the value is taken back
//	                          out TWICE with a gate in between and a gate inside every callee body.
//	                          Callables are invoked through 4 ROUTES (direct, call_user_func, out of
//	                          an array element, out of an object property).
//	routes:f=,e=,m=:<a1>|<a2> one server with two route groups /a and /b; request k goes to group
//	                          k mod 2. Dimensions: which groups have an onFormat envelope (4), which
//	                          onError handler is installed and how it answers (4), per-group
//	                          middleware (2), and what each group's handler DOES after its gate
//	                          (9 actions: write, json, success, error, throw, noContent, html,
//	                          cookie, redirect) - every ordered pair of actions.
//
// Failing templates of a family are reduced in the parent (each dimension is lowered to its simplest
// value as long as the lowered template failed as well - the product is complete, so every
// neighbour was run) and the finding key is derived from the reduced template.
package main

import (
	"fmt"
	"strings"
)

// ---------------------------------------------------------------------------------- carry

// definitions shared by all carry templates; every callee body contains gate(7)
const carryPrelude = `class Box {
  public $v;
  public function __construct($v) { $this->v = $v; }
  public function get() { return $this->v; }
  public function getG() { gate(7); return $this->v; }
  public function fnThis() { return function() { gate(7); return $this->v; }; }
  public function arrowThis() { return fn() => pass($this->v); }
  public function fnArg() { return function($x) { gate(7); return $x; }; }
  public function fnUse() { $v = $this->v; return function() use ($v) { gate(7); return $v; }; }
  public function nested() { return function() { return function() { gate(7); return $this->v; }; }; }
  public function viaSelf() { $f = function() { return $this->getG(); }; return $f; }
  public static function mk($v) { return function() use ($v) { gate(7); return $v; }; }
  public static function mkBox($v) { return new Box($v); }
  public function gen() { yield $this->v; gate(7); yield $this->v; }
  public function __invoke() { gate(7); return $this->v; }
}
class SubBox extends Box {
  public function getG() { return parent::getG(); }
}
function mkUse($v) { return function() use ($v) { gate(7); return $v; }; }
function mkArrow($v) { return fn() => pass($v); }
function mkId() { return function($x) { gate(7); return $x; }; }
function ident($x) { gate(7); return $x; }
function fill(&$out, $v) { gate(7); $out = $v; }
function rec($v, $d) { if ($d == 0) { gate(7); return $v; } return rec($v, $d - 1); }
`

type carrier struct {
	Name string
	Bind string // statements that bind $n into the carrier; callables end up in $c
	Args string // argument list of the call ("" or "$n")
	Skip string // a call route this carrier does not support in this language
	// for non-callable holders: Take is the expression (or, when TakeStmt, the statement writing to $w)
	Take     string
	TakeStmt bool
	Once     bool // take only once (see carryBody)
}

// callable carriers: $c is a callable after Bind
var callables = []carrier{
	{Name: "fn-use", Bind: `$c = function() use ($n) { gate(7); return $n; };`},
	{Name: "fn-arg", Bind: `$c = function($x) { gate(7); return $x; };`, Args: `$n`},
	{Name: "fn-use-ref", Bind: `$m = $n; $c = function() use (&$m) { gate(7); return $m; };`},
	{Name: "static-fn-use", Bind: `$c = static function() use ($n) { gate(7); return $n; };`},
	{Name: "arrow-cap", Bind: `$c = fn() => pass($n);`},
	{Name: "arrow-arg", Bind: `$c = fn($x) => pass($x);`, Args: `$n`},
	{Name: "fn-this", Bind: `$o = new Box($n); $c = $o->fnThis();`},
	{Name: "arrow-this", Bind: `$o = new Box($n); $c = $o->arrowThis();`},
	{Name: "fn-in-method-arg", Bind: `$o = new Box($n); $c = $o->fnArg();`, Args: `$n`},
	{Name: "fn-in-method-use", Bind: `$o = new Box($n); $c = $o->fnUse();`},
	{Name: "fn-this-nested", Bind: `$o = new Box($n); $t = $o->nested(); $c = $t();`},
	{Name: "fn-this-method", Bind: `$o = new Box($n); $c = $o->viaSelf();`},
	{Name: "fn-in-static-use", Bind: `$c = Box::mk($n);`},
	{Name: "fn-in-func-use", Bind: `$c = mkUse($n);`},
	{Name: "arrow-in-func", Bind: `$c = mkArrow($n);`},
	{Name: "fn-in-func-arg", Bind: `$c = mkId();`, Args: `$n`},
	{Name: "array-callable", Bind: `$o = new Box($n); $c = [$o, "getG"];`},
	{Name: "invokable", Bind: `$c = new Box($n);`, Skip: "call_user_func"},
	// probed on the unchanged tree and NOT valid in this language (fail for one request alone):
	// string callables ("ident"), Closure::bind with $this, first-class callable syntax $o->m(...),
	// call_user_func on an __invoke object
}

type route struct {
	Name string
	Bind string // extra statements after the carrier's Bind
	Call string // %s = argument list
}

var callRoutes = []route{
	{Name: "direct", Call: `$c(%s)`},
	{Name: "call_user_func", Call: `call_user_func($c%s)`},
	{Name: "array-elem", Bind: `$a = ["f" => $c];`, Call: `$a["f"](%s)`},
	{Name: "object-prop", Bind: `$h2 = new stdClass(); $h2->f = $c;`, Call: `($h2->f)(%s)`},
}

// holders: per-request data kept in something that is not a callable
var holders = []carrier{
	{Name: "method", Bind: `$o = new Box($n);`, Take: `$o->getG()`},
	{Name: "static-factory", Bind: `$o = Box::mkBox($n);`, Take: `$o->getG()`},
	{Name: "parent-call", Bind: `$o = new SubBox($n);`, Take: `$o->getG()`, Once: true},
	{Name: "clone", Bind: `$o = new Box($n); $p = clone $o; $p->v = "x";`, Take: `$o->getG()`},
	{Name: "nested-array", Bind: `$a = ["k" => ["n" => $n]];`, Take: `$a["k"]["n"]`},
	{Name: "ref-param", Bind: `$out = ""; fill($out, $n);`, Take: `$out`, Once: true},
	{Name: "recursion", Bind: `$d = 3;`, Take: `rec($n, $d)`, Once: true},
	{Name: "func-call", Bind: ``, Take: `ident($n)`, Once: true},
	{Name: "interpolate", Bind: `$s = "n={$n}";`, Take: `$s`},
	{Name: "concat", Bind: `$s = "n=" . $n;`, Take: `$s . "."`},
	{Name: "generator", Bind: `$o = new Box($n);`, Take: `foreach ($o->gen() as $v) { $w->write($v); }`, TakeStmt: true},
	{Name: "foreach-kv", Bind: `$a = ["a" => $n, "b" => $n];`, Take: `foreach ($a as $k => $v) { gate(7); $w->write($k); $w->write($v); }`, TakeStmt: true},
	{Name: "while-loop", Bind: `$i = 0;`, Take: `$i = 0; while ($i < 2) { gate(7); $w->write($n); $i++; }`, TakeStmt: true},
	{Name: "try-catch", Bind: ``, Take: `try { gate(7); throw new Exception($n); } catch (Exception $e) { gate(7); $w->write($e->getMessage()); }`, TakeStmt: true},
	{Name: "try-finally", Bind: `$s = "";`, Take: `try { gate(7); $s = $n; } finally { gate(7); $w->write($s); }`, TakeStmt: true},
	{Name: "ternary", Bind: `$s = $n == "1" ? "one" : "other";`, Take: `$s`},
	{Name: "match", Bind: ``, Take: `match($n) { "1" => ident("m1"), "2" => ident("m2"), default => ident("mx") }`, Once: true},
	{Name: "switch", Bind: `$s = "";`, Take: `switch ($n) { case "1": gate(7); $s = "s1"; break; case "2": gate(7); $s = "s2"; break; default: gate(7); $s = "sx"; } $w->write($s);`, TakeStmt: true},
}

// bind; gate; take; gate; take. Holders whose take is a statement with two gates of its own, or
// that call named functions / parent:: (function-table locks are scheduling points too), take once:
// with a second take the 2-request interleavings at gate granularity run into the ten thousands.
func carryBody(bind, take string, stmt, once bool) string {
	t1 := `$w->write(` + take + `);`
	if stmt {
		t1 = take
	}
	if once {
		return `$n = $r->input("n"); ` + bind + ` gate(1); ` + t1 + ` gate(2); $w->write("|"); $w->write($n);`
	}
	return `$n = $r->input("n"); ` + bind + ` gate(1); ` + t1 + ` gate(2); $w->write("|"); ` + t1
}

func carryTemplates() []tmpl {
	var out []tmpl
	for ci, c := range callables {
		for ri, r := range callRoutes {
			if r.Name == c.Skip {
				continue
			}
			args := c.Args
			if r.Name == "call_user_func" && args != "" {
				args = ", " + args
			}
			call := fmt.Sprintf(r.Call, args)
			out = append(out, tmpl{
				Name: "carry:" + c.Name + "/" + r.Name, Family: "carry", Pre: carryPrelude,
				Body: carryBody(strings.TrimSpace(c.Bind+" "+r.Bind), call, false, false),
				Dims: []int{ci, ri}, Light: ri != 0,
			})
		}
	}
	for hi, h := range holders {
		out = append(out, tmpl{
			Name: "carry:" + h.Name + "/-", Family: "carry", Pre: carryPrelude,
			Body: carryBody(h.Bind, h.Take, h.TakeStmt, h.TakeStmt || h.Once),
			Dims: []int{len(callables) + hi, 0},
		})
	}
	return out
}

// ---------------------------------------------------------------------------------- routes

type dimVal struct{ Name, Code string }

// what a group's handler does after reading its parameter and passing gate(1)
var actions = []dimVal{
	{"write", `$w->write("ok"); $w->write($n);`},
	{"json", `$w->json(["n" => $n]);`},
	{"success", `$w->success(["n" => $n]);`},
	{"error", `$w->error($n, 400);`},
	{"throw", `throw new Exception($n);`},
	{"nocontent", `$w->header("X-Echo", $n); $w->noContent(204);`},
	{"html", `$w->html($n);`},
	{"cookie", `$w->cookie("k", $n, ["path" => "/"]); $w->write("c");`},
	{"redirect", `$w->redirect($n);`},
}

var fmtKinds = []string{"none", "server", "g2only", "groups"}
var errKinds = []string{"none", "server-write", "server-error", "groups"}
var mwKinds = []string{"none", "groups"}

func fmtClosure(tag string) string {
	return `function($code, $message, $data) { gate(5); return ["env" => "` + tag + `", "code" => $code, "msg" => $message, "data" => $data]; }`
}

func errClosure(kind, tag string) string {
	if kind == "server-write" {
		return `function($r, $w, $e) { gate(6); $w->status(500); $w->write("E|"); $w->write($r->input("n")); $w->write("|"); $w->write($e); }`
	}
	return `function($r, $w, $e) { gate(6); $w->error($e, 500, ["by" => "` + tag + `", "n" => $r->input("n")]); }`
}

func mwClosure(tag string) string {
	return `function($r, $w, $next) { $w->header("X-Mw", "` + tag + `"); $w->header("X-Who", $r->input("n")); gate(3); $next($r, $w); }`
}

func routesScript(f, e, m, a1, a2 int) string {
	var b strings.Builder
	b.WriteString("$server = new Net\\Http\\Server('127.0.0.1', 0);\n")
	if fmtKinds[f] == "server" {
		b.WriteString("$server->onFormat(" + fmtClosure("srv") + ");\n")
	}
	if k := errKinds[e]; k == "server-write" || k == "server-error" {
		b.WriteString("$server->onError(" + errClosure(k, "srv") + ");\n")
	}
	for gi, a := range []int{a1, a2} {
		g := fmt.Sprintf("$g%d", gi+1)
		tag := fmt.Sprintf("g%d", gi+1)
		b.WriteString(g + " = $server->group('/" + string(rune('a'+gi)) + "');\n")
		if fmtKinds[f] == "groups" || (fmtKinds[f] == "g2only" && gi == 1) {
			b.WriteString(g + "->onFormat(" + fmtClosure(tag) + ");\n")
		}
		if errKinds[e] == "groups" {
			b.WriteString(g + "->onError(" + errClosure("groups", tag) + ");\n")
		}
		if mwKinds[m] == "groups" {
			b.WriteString(g + "->middleware(" + mwClosure(tag) + ");\n")
		}
		b.WriteString(g + "->post('/p', function($r, $w) { $n = $r->input(\"n\"); gate(1); " + actions[a].Code + " });\n")
	}
	return b.String()
}

func routesName(f, e, m, a1, a2 int) string {
	return fmt.Sprintf("routes:f=%s,e=%s,m=%s:%s|%s", fmtKinds[f], errKinds[e], mwKinds[m], actions[a1].Name, actions[a2].Name)
}

func routesTemplates() []tmpl {
	var out []tmpl
	for f := range fmtKinds {
		for e := range errKinds {
			for m := range mwKinds {
				for a1 := range actions {
					for a2 := range actions {
						out = append(out, tmpl{
							Name: routesName(f, e, m, a1, a2), Family: "routes",
							Server: routesScript(f, e, m, a1, a2),
							Paths:  []string{"/a/p", "/b/p"},
							Dims:   []int{f, e, m, a1, a2}, Light: m != 0,
							// without an onError handler the exception of action "throw" leaves ServeHTTP
							ThrowOK: actions[a1].Name == "throw" || actions[a2].Name == "throw",
						})
					}
				}
			}
		}
	}
	return out
}

// ---------------------------------------------------------------------------------- reduction

// nameOf gives the template at a position of a family's product ("" if that combination is not enumerated).
func nameOf(family string, d []int) string { return dimIndex[family+fmt.Sprint(d)] }

// reducible dimensions per family: the carrier (carry dim 0) / the callee (args dim 0) is what a
// finding is about and has no "simpler" value;
// every other dimension is ordered from simplest (index 0) upwards.
func reducible(family string, dim int) bool {
	switch family {
	case "routes", "capture":
		return true
	case "carry", "args":
		return dim == 1
	}
	return false
}

// reduceTemplate lowers every reducible dimension of a failing template as far as the lowered
// template is in the failing set too (greedy, deterministic, to a fixpoint).
func reduceTemplate(t tmpl, failing map[string]bool) string {
	if t.Family == "" {
		return t.Name
	}
	d := append([]int(nil), t.Dims...)
	for changed := true; changed; {
		changed = false
		for i := range d {
			if !reducible(t.Family, i) {
				continue
			}
			for v := 0; v < d[i]; v++ {
				nd := append([]int(nil), d...)
				nd[i] = v
				if failing[nameOf(t.Family, nd)] {
					d, changed = nd, true
					break
				}
			}
		}
	}
	// the two groups of a routes template are configured alike unless only /b has a formatter:
	// "throw|write" and "write|throw" are then the same finding seen from either request
	if t.Family == "routes" && fmtKinds[d[0]] != "g2only" && d[3] > d[4] {
		d[3], d[4] = d[4], d[3]
	}
	return nameOf(t.Family, d)
}
