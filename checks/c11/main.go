// C11: concurrent HTTP requests do not interfere — a response depends only on its request.
//
// Form S with a differential oracle: 2 (thorough: also 3) requests with distinct query / form /
// cookie / header data are served concurrently by ONE handler (one VM, one closure, the real
// nethttp.Handler.ServeHTTP) as threads of the controlled scheduler. Scheduling points are
// (1) a Go function gate() called between handler statements and (2) every instrumented access
// to package-level state that two requests touch with at least one write (node's superglobal
// caches, data's output state, std/net/http and std/php/core globals), learned automatically.
// Every interleaving is explored (2 requests: unbounded at gate granularity + preemption
// bound 2 at access granularity). Oracle: each response equals the response the same request
// gets when served alone on a fresh server; plus vector-clock race freedom.
//
// Templates: the hand-written ones below plus two generated families (gen.go): "carry" (how a
// request's value is held between two gates: callable forms x call routes, holders) and "routes"
// (two route groups with their own onFormat / onError / middleware, requests going to DIFFERENT
// routes, every pair of handler actions including a throwing one).
// C11_PROBE=1 prints what every template answers alone; C11_ONLY=<name|prefix*> restricts a run.
package main

import (
	"encoding/json"
	"fmt"
	nh "net/http"
	"net/http/httptest"
	"os"
	"regexp"
	"sort"
	"strconv"
	"strings"
	"syscall"
	"time"

	"github.com/php-any/origami/data"
	ort "github.com/php-any/origami/runtime"
	ohttp "github.com/php-any/origami/std/net/http"
	"github.com/php-any/origami/utils/vshim"

	"verif/engine/ev"
	"verif/engine/pool"
	"verif/engine/runner"
	"verif/engine/sched"
)

type tmpl struct {
	Name   string
	Body   string // handler body; may call gate(n)
	Server string // alternative: a whole script building $server (middlewares + route /p); requests go through its mux
	// generated families (gen.go)
	Family  string   // "" for the hand-written templates
	Pre     string   // class / function definitions placed before the handler closure
	Use     string   // use (...) clause of the handler closure (captures of set-up variables)
	Paths   []string // request k goes to Paths[k % len] (default /p)
	Dims    []int    // position in the family's product, for the reduction of failing templates
	ThrowOK bool     // a request served alone may end in its own uncaught exception "throw:Exception:<n>"
	Light   bool     // not the simplest value of a secondary dimension: gate granularity only at quick
}

// view template used by the "view-render" handler: the same variable is interpolated before and
// after a gate inside the template
const viewTemplate = `<p>A:{$name}</p>
<script type="text/zy">
gate(1);
</script>
<p>B:{$name}</p>`

var viewPath string

func viewFile() string {
	if viewPath == "" {
		dir, err := os.MkdirTemp("/dev/shm", "c11-view-")
		if err != nil {
			panic(err)
		}
		viewPath = dir + "/page.html"
		os.WriteFile(viewPath, []byte(viewTemplate), 0o644)
	}
	return viewPath
}

// Handler bodies. Output goes through several $w->write calls so that no string-concatenation
// operator is involved.
var templates = []tmpl{
	{Name: "locals-loop", Body: `$s = 0; for ($i = 0; $i < 3; $i++) { $s = $s + $i + toint($r->input("n")); gate(1); } $w->write("s="); $w->write($s);`},
	{Name: "array-build", Body: `$a = []; $a[] = $r->input("n"); gate(1); $a[] = $r->input("n"); gate(2); $w->write(json_encode($a));`},
	{Name: "object-prop", Body: `$o = new stdClass(); $o->v = $r->input("n"); gate(1); $w->write("v="); $w->write($o->v);`},
	{Name: "closure-call", Body: `$n = $r->input("n"); $f = function($x) use ($n) { gate(1); return $x; }; $w->write($f($n)); gate(2); $w->write($f($n));`},
	{Name: "status-header", Body: `$w->header("X-Echo", $r->input("n")); gate(1); $w->status(200 + toint($r->input("n"))); gate(2); $w->write($r->input("n"));`},
	{Name: "GET-twice", Body: `$a = $_GET["n"]; gate(1); $b = $_GET["n"]; $w->write($a); $w->write("|"); $w->write($b);`},
	{Name: "POST-twice", Body: `$r->parseForm(); $a = $_POST["p"]; gate(1); $b = $_POST["p"]; $w->write($a); $w->write("|"); $w->write($b);`},
	{Name: "COOKIE-twice", Body: `$a = $_COOKIE["c"]; gate(1); $b = $_COOKIE["c"]; $w->write($a); $w->write("|"); $w->write($b);`},
	{Name: "SERVER-twice", Body: `$a = $_SERVER["QUERY_STRING"]; gate(1); $b = $_SERVER["QUERY_STRING"]; $w->write($a); $w->write("|"); $w->write($b);`},
	{Name: "REQUEST-merge", Body: `$r->parseForm(); $a = $_REQUEST["n"]; gate(1); $b = $_REQUEST["p"]; gate(2); $c = $_REQUEST["c"]; $w->write($a); $w->write("|"); $w->write($b); $w->write("|"); $w->write($c);`},
	{Name: "GET-once-late", Body: `gate(1); $w->write($_GET["n"]);`},
	{Name: "request-object", Body: `$a = $r->input("n"); gate(1); $b = $r->header("X-Id"); gate(2); $c = $r->method(); $w->write($a); $w->write("|"); $w->write($b); $w->write("|"); $w->write($c);`},
	{Name: "json-response", Body: `$a = ["n" => $r->input("n")]; gate(1); $w->json($a);`},
	{Name: "view-render", Body: `$d = ["name" => $r->input("n")]; gate(2); $w->view("@VIEW@", $d);`},
	{Name: "middleware-after-next", Server: `$server = new Net\Http\Server('127.0.0.1', 0);
$server->middleware(function($r, $w, $next) { $w->header("X-Echo", $r->input("n")); gate(1); $next($r, $w); gate(2); $w->write("|t:"); $w->write($r->input("n")); });
$server->post('/p', function($r, $w) { $w->write("h:"); gate(3); $w->write($r->input("n")); });`},
	{Name: "two-middlewares", Server: `$server = new Net\Http\Server('127.0.0.1', 0);
$server->middleware(function($r, $w, $next) { $w->write("<a"); $w->write($r->input("n")); $next($r, $w); gate(1); $w->write("a>"); }, 1);
$server->middleware(function($r, $w, $next) { $w->write("<b"); gate(2); $next($r, $w); $w->write($r->input("n")); $w->write("b>"); }, 2);
$server->post('/p', function($r, $w) { $w->status(200 + toint($r->input("n"))); gate(3); $w->write("H"); });`},
	{Name: "echo-output", Body: `echo "e", $r->input("n"); gate(1); $w->write("w"); $w->write($r->input("n"));`},
}

func script(t tmpl) string {
	if t.Server != "" {
		return t.Server + "\n"
	}
	return t.Pre + "$h = function($r, $w) " + t.Use + "{\n  " + strings.ReplaceAll(t.Body, "@VIEW@", viewFile()) + "\n};\n"
}

func request(t tmpl, k int) *nh.Request {
	id := fmt.Sprint(k + 1)
	path := "/p"
	if len(t.Paths) > 0 {
		path = t.Paths[k%len(t.Paths)]
	}
	req := httptest.NewRequest("POST", path+"?n="+id, strings.NewReader("p=P"+id))
	req.Header.Set("Content-Type", "application/x-www-form-urlencoded")
	req.Header.Set("X-Id", "id"+id)
	req.AddCookie(&nh.Cookie{Name: "c", Value: "C" + id})
	return req
}

type resp struct {
	Code   int    `json:"code"`
	XEcho  string `json:"x_echo,omitempty"`
	Hdr    string `json:"hdr,omitempty"` // every response header, sorted
	Body   string `json:"body"`
	Err    string `json:"err,omitempty"`
	Stdout string `json:"stdout,omitempty"`
}

func (r resp) String() string {
	b, _ := json.Marshal(r)
	return string(b)
}

type server struct {
	t    tmpl
	sess *runner.Session
	h    nh.Handler
	err  string
}

func newServer(t tmpl) *server {
	res, s := runner.RunKeep(script(t), runner.Opts{Setup: func(vm data.VM) {
		ohttp.Load(vm)
		vm.(*ort.VM).RegisterFunction("gate", func(n int) int { vshim.Yield("gate"); return n })
		vm.(*ort.VM).RegisterFunction("toint", func(s string) int { n, _ := strconv.Atoi(s); return n })
		// pass($x) returns its (string) argument and is a gate: a scheduling point inside an expression
		vm.(*ort.VM).RegisterFunction("pass", func(s string) string { vshim.Yield("gate"); return s })
	}})
	sv := &server{sess: s, t: t}
	if res.Kind != "ok" {
		sv.err = "define:" + res.Kind + ":" + res.Msg + res.PanicKey
		return sv
	}
	if t.Server != "" {
		cv, _ := s.Var("server").(*data.ClassValue)
		if cv == nil {
			sv.err = "server object not found"
			return sv
		}
		mux, _ := cv.GetSource().(*nh.ServeMux)
		if mux == nil {
			sv.err = "mux not reachable"
			return sv
		}
		sv.h = mux
		return sv
	}
	fv, _ := s.Var("h").(*data.FuncValue)
	if fv == nil {
		sv.err = "handler closure not found"
		return sv
	}
	sv.h = ohttp.Handler{Value: fv.Value, Ctx: s.Ctx}
	return sv
}

func (sv *server) serve(k int) resp {
	rec := httptest.NewRecorder()
	g := runner.Guard(func() { sv.h.ServeHTTP(rec, request(sv.t, k)) })
	r := resp{Code: rec.Code, Body: normBody(rec.Body.String()), XEcho: rec.Result().Header.Get("X-Echo"), Hdr: headerString(rec.Result().Header)}
	if g.Kind != "ok" {
		r.Err = g.Kind + ":" + g.Class + ":" + trunc(g.Msg, 120) + g.PanicKey
	}
	return r
}

// the built-in response envelope of success()/error() carries time.Now().Unix(): a wall-clock
// field, not request data - it is masked before responses are compared
var tsRe = regexp.MustCompile(`"timestamp":\d+`)

func normBody(s string) string { return tsRe.ReplaceAllString(s, `"timestamp":0`) }

func headerString(h nh.Header) string {
	var ks []string
	for k := range h {
		ks = append(ks, k)
	}
	sort.Strings(ks)
	var b strings.Builder
	for _, k := range ks {
		b.WriteString(k + "=" + strings.Join(h[k], ",") + ";")
	}
	return b.String()
}

func (r resp) same(o resp) bool {
	return r.Code == o.Code && r.Body == o.Body && r.XEcho == o.XEcho && r.Hdr == o.Hdr && r.Err == o.Err
}

func trunc(s string, n int) string {
	if len(s) > n {
		return s[:n]
	}
	return s
}

// solo serves request k alone on a fresh server.
func solo(t tmpl, k int) resp {
	sv := newServer(t)
	defer sv.sess.Close()
	if sv.err != "" {
		return resp{Err: sv.err}
	}
	r := sv.serve(k)
	r.Stdout = sv.sess.Out()
	return r
}

type scenario struct {
	Tmpl     string   `json:"tmpl"`
	N        int      `json:"n"` // number of concurrent requests
	Bound    int      `json:"bound"`
	GateOnly bool     `json:"gate_only"`     // only gates and sync ops are choice points
	Seq      bool     `json:"seq,omitempty"` // no concurrency: the N requests one after the other, every order
	Choices  []int    `json:"choices,omitempty"`
	Sites    []string `json:"sites,omitempty"`
}

func (s scenario) String() string {
	if s.Seq {
		return fmt.Sprintf("%s x%d sequential", s.Tmpl, s.N)
	}
	g := "accesses"
	if s.GateOnly {
		g = "gates"
	}
	return fmt.Sprintf("%s x%d %s pb=%d", s.Tmpl, s.N, g, s.Bound)
}

var byName map[string]tmpl
var dimIndex map[string]string // family + dimension vector -> template name

// probed on the unchanged tree: these call shapes fail for one request alone (not valid in this
// language: spread arguments to static methods / closures / arrow fns lose parameters, named
// arguments to variadics and through call_user_func are not bound)
var argsInvalid = map[string]bool{
	"args:static/mixed-spread":            true,
	"args:static/spread-literal":          true,
	"args:static/spread-call":             true,
	"args:static/spread-call-all":         true,
	"args:closure/mixed-spread":           true,
	"args:closure/spread-literal":         true,
	"args:closure/spread-call":            true,
	"args:closure/spread-call-all":        true,
	"args:arrow/mixed-spread":             true,
	"args:arrow/spread-literal":           true,
	"args:arrow/spread-call":              true,
	"args:arrow/spread-call-all":          true,
	"args:func-variadic/named":            true,
	"args:func-variadic/named-reordered":  true,
	"args:call_user_func/named":           true,
	"args:call_user_func/named-reordered": true,
}

func init() {
	templates = append(templates, carryTemplates()...)
	templates = append(templates, routesTemplates()...)
	templates = append(templates, argsTemplates(argsInvalid)...)
	templates = append(templates, captureTemplates()...)
	dimIndex = map[string]string{}
	for _, t := range templates {
		if t.Family != "" {
			dimIndex[t.Family+fmt.Sprint(t.Dims)] = t.Name
		}
	}
	byName = make(map[string]tmpl, len(templates))
	for _, t := range templates {
		if _, dup := byName[t.Name]; dup {
			panic("duplicate template " + t.Name)
		}
		byName[t.Name] = t
	}
}

func findT(name string) tmpl {
	t, ok := byName[name]
	if !ok {
		panic("no template " + name)
	}
	return t
}

type state struct {
	sv    *server
	resps []resp
}

func build(sc scenario) (func() []sched.Body, func() *state) {
	t := findT(sc.Tmpl)
	var st *state
	setup := func() []sched.Body {
		if st != nil && st.sv != nil {
			st.sv.sess.Close()
		}
		st = &state{sv: newServer(t), resps: make([]resp, sc.N)}
		var bodies []sched.Body
		for k := 0; k < sc.N; k++ {
			k := k
			bodies = append(bodies, func(th *sched.Thread) {
				if st.sv.err != "" {
					st.resps[k] = resp{Err: st.sv.err}
					return
				}
				st.resps[k] = st.sv.serve(k)
			})
		}
		return bodies
	}
	return setup, func() *state { return st }
}

type rec struct {
	Kind     string   `json:"kind"`
	Scenario scenario `json:"scenario"`
	Execs    int64    `json:"execs,omitempty"`
	Complete bool     `json:"complete,omitempty"`
	Stop     string   `json:"stop,omitempty"`
	Outcomes []string `json:"outcomes,omitempty"`
	Key      string   `json:"key,omitempty"`
	Clause   string   `json:"clause,omitempty"`
	Detail   string   `json:"detail,omitempty"`
	Size     int      `json:"size,omitempty"`
	Case     any      `json:"case,omitempty"`
	Sites    []string `json:"sites,omitempty"`
	Solo     []string `json:"solo,omitempty"`
}

// carrier names the shared location(s) whose accesses interleaved in this execution: the
// relevant (conflicting) sites seen in the schedule, reduced to expression@function.
func carriers(x *sched.Exec) string {
	seen := map[string]bool{}
	var out []string
	for _, e := range x.Events {
		if e.Kind == vshim.KRead || e.Kind == vshim.KWrite {
			parts := strings.SplitN(e.Site, "|", 3)
			if len(parts) == 3 && !seen[parts[1]] {
				seen[parts[1]] = true
				out = append(out, parts[1])
			}
		}
	}
	sort.Strings(out)
	if len(out) > 4 {
		out = out[:4]
	}
	return strings.Join(out, ",")
}

var budgetSec = 240

// Guards for the generated families (thousands of scenarios): a changed tree can multiply the
// choice points per request, so each family scenario is capped in executions and each worker
// process in CPU seconds spent (load independent); both are reported as "not exhaustive", never
// silent, and neither is an oracle. On the unchanged tree the largest family scenario has 1032
// executions and a worker uses < 60 CPU-seconds (quick).
var famMaxExecs = 3000
var famCPUSec = 150.0
var famCPUUsed float64 // CPU seconds this worker has spent on family scenarios

func cpuSeconds() float64 {
	var ru syscall.Rusage
	if syscall.Getrusage(syscall.RUSAGE_SELF, &ru) != nil {
		return 0
	}
	return float64(ru.Utime.Sec+ru.Stime.Sec) + float64(ru.Utime.Usec+ru.Stime.Usec)/1e6
}

var debug = os.Getenv("C11_DEBUG") != ""

// a shard is a batch of scenarios (the generated families have thousands of small ones)
func explore(w *pool.W, arg json.RawMessage) {
	var scs []scenario
	json.Unmarshal(arg, &scs)
	for _, sc := range scs {
		exploreOne(w, sc)
	}
}

func exploreOne(w *pool.W, sc scenario) {
	if !w.Item(sc.String()) {
		return
	}
	t := findT(sc.Tmpl)
	if t.Family != "" {
		if famCPUUsed > famCPUSec {
			w.Emit(rec{Kind: "done", Scenario: sc, Stop: "worker-cpu-budget"})
			return
		}
		t0 := cpuSeconds()
		defer func() { famCPUUsed += cpuSeconds() - t0 }()
	}
	want := make([]resp, sc.N)
	var solos []string
	for k := range want {
		want[k] = solo(t, k)
		solos = append(solos, want[k].String())
		if want[k].Err != "" && !(t.ThrowOK && want[k].Err == fmt.Sprintf("throw:Exception:%d", k+1)) {
			w.Emit(rec{Kind: "fail", Scenario: sc, Key: "harness:solo-error:" + sc.Tmpl, Clause: "harness", Detail: "the template does not even work for one request alone: " + want[k].String(), Case: sc})
			w.Emit(rec{Kind: "done", Scenario: sc, Solo: solos})
			return
		}
	}
	if sc.Seq {
		sequential(w, sc, t, want, solos)
		return
	}
	setup, get := build(sc)
	outcomes := map[string]bool{}
	seen := map[string]bool{}
	cfg := &sched.Config{Name: sc.String(), Bound: sc.Bound, Setup: setup, Deadline: time.Now().Add(time.Duration(budgetSec) * time.Second), GateOnly: sc.GateOnly, MaxSteps: 5000}
	if t.Family != "" {
		cfg.MaxExecs = famMaxExecs
	}
	emit := func(x *sched.Exec, key, clause, detail string) {
		if seen[key] {
			return
		}
		seen[key] = true
		cs := sc
		cs.Choices = x.Choices()
		cs.Sites = sched.RelevantSites()
		w.Emit(rec{Kind: "fail", Scenario: sc, Key: key, Clause: clause, Size: sc.N*100000 + len(x.Events), Case: cs,
			Detail: detail + "\nscenario: " + sc.String() + "\nhandler: " + script(t) + "\nschedule: " + strings.Join(x.Schedule(), " ")})
	}
	first := true
	cfg.Check = func(x *sched.Exec) {
		st := get()
		if first && debug {
			if f, err := os.OpenFile(os.Getenv("C11_DEBUG"), os.O_APPEND|os.O_CREATE|os.O_WRONLY, 0o644); err == nil {
				fmt.Fprintf(f, "%s first schedule: %s\n", sc.String(), strings.Join(x.Schedule(), " "))
				f.Close()
			}
		}
		first = false
		var os []string
		for _, r := range st.resps {
			os = append(os, r.String())
		}
		outcomes[strings.Join(os, " ; ")] = true
		if x.Stuck != "" {
			emit(x, "stuck", "harness", x.Stuck)
			return
		}
		for _, th := range x.Threads {
			if th.Panic != "" {
				emit(x, th.PanicKey, "no-crash", "request thread panicked: "+th.Panic)
			}
		}
		for _, r := range x.Races {
			a, b := sched.SiteStable(r.SiteA), sched.SiteStable(r.SiteB)
			if b < a {
				a, b = b, a
			}
			emit(x, "race:"+a+"/"+b, "no-data-race", fmt.Sprintf("%s race: %s then %s", r.Kind, r.SiteA, r.SiteB))
		}
		if x.Deadlock {
			emit(x, "deadlock:"+sc.Tmpl, "no-deadlock", "requests left parked")
		}
		for k, r := range st.resps {
			exp := want[k]
			if !r.same(exp) {
				emit(x, "interference:"+sc.Tmpl, "response-equals-solo",
					fmt.Sprintf("request %d served concurrently got %s but alone it gets %s", k+1, r.String(), exp.String()))
			}
		}
	}
	stt := sched.Explore(cfg)
	var oc []string
	for o := range outcomes {
		oc = append(oc, o)
	}
	sort.Strings(oc)
	if len(oc) > 6 {
		oc = append(oc[:6], fmt.Sprintf("... %d outcomes", len(outcomes)))
	}
	if st := get(); st != nil && st.sv != nil {
		st.sv.sess.Close()
	}
	w.Emit(rec{Kind: "done", Scenario: sc, Execs: stt.Execs, Complete: stt.Complete, Stop: stt.StopReason, Outcomes: oc, Sites: stt.Relevant, Solo: solos})
}

// perms lists every order of 0..n-1.
func perms(n int) [][]int {
	if n == 1 {
		return [][]int{{0}}
	}
	var out [][]int
	for _, p := range perms(n - 1) {
		for i := 0; i <= len(p); i++ {
			q := append(append(append([]int{}, p[:i]...), n-1), p[i:]...)
			out = append(out, q)
		}
	}
	return out
}

// serveInOrder serves the requests one after the other on ONE fresh server (no overlap at all).
func serveInOrder(t tmpl, order []int) []resp {
	sv := newServer(t)
	defer sv.sess.Close()
	out := make([]resp, len(order))
	for _, k := range order {
		if sv.err != "" {
			out[k] = resp{Err: sv.err}
			continue
		}
		out[k] = sv.serve(k)
	}
	return out
}

// sequential: clause "a later request is not coloured by an earlier one" - every order of the N
// requests, each response compared with the same request served alone on a fresh server.
func sequential(w *pool.W, sc scenario, t tmpl, want []resp, solos []string) {
	outcomes := map[string]bool{}
	failed := false
	ps := perms(sc.N)
	for _, order := range ps {
		got := serveInOrder(t, order)
		var os []string
		for _, r := range got {
			os = append(os, r.String())
		}
		outcomes[strings.Join(os, " ; ")] = true
		for k, r := range got {
			if !r.same(want[k]) && !failed {
				failed = true
				cs := sc
				cs.Choices = order
				w.Emit(rec{Kind: "fail", Scenario: sc, Key: "sequential:" + sc.Tmpl, Clause: "response-equals-solo-sequential", Size: sc.N * 1000, Case: cs,
					Detail: fmt.Sprintf("requests served one after the other in order %v (no overlap): request %d got %s but alone on a fresh server it gets %s\nhandler: %s", order, k+1, r.String(), want[k].String(), script(t))})
			}
		}
	}
	var oc []string
	for o := range outcomes {
		oc = append(oc, o)
	}
	sort.Strings(oc)
	if len(oc) > 2 {
		oc = oc[:2]
	}
	w.Emit(rec{Kind: "done", Scenario: sc, Execs: int64(len(ps)), Complete: true, Outcomes: oc, Solo: solos})
}

// scenariosFor lists the scenarios (granularity x requests x preemption bound) of one template.
func scenariosFor(t tmpl, quick bool) []scenario {
	var scs []scenario
	add := func(n, bound int, gates bool) {
		scs = append(scs, scenario{Tmpl: t.Name, N: n, Bound: bound, GateOnly: gates})
	}
	// templates that read superglobals share one cached object between requests (a listed
	// finding): its mutex makes the interleaving space large, so they get smaller bounds
	heavy := strings.Contains(t.Body, "$_")
	// every template: the requests one after the other, every order (3 requests: 6 orders)
	scs = append(scs, scenario{Tmpl: t.Name, N: 3, Seq: true})
	switch {
	case t.Family == "args" || t.Family == "capture":
		// 4-8 gates per request (args: the call site is evaluated twice)
		if quick {
			add(2, 3, true)
			add(3, 1, true)
			if !t.Light {
				add(2, 1, false)
			}
		} else {
			add(2, 6, true)
			add(3, 2, true)
			add(2, 2, false)
			add(3, 1, false)
		}
	case t.Family == "carry":
		// 3-5 gates per request, plus the VM's class-table RLock at every `new` / `::` (a
		// synchronisation operation is a choice point at gate granularity too): unbounded, two
		// requests already have 10^5 interleavings for some carriers, hence a preemption bound.
		// Gate granularity is what shows state parked in shared AST nodes / callee objects (struct
		// fields are not instrumented accesses); access granularity is run for the direct route
		// and the holders.
		if quick {
			add(2, 3, true)
			add(3, 1, true)
			if !t.Light {
				add(2, 1, false)
			}
		} else {
			add(2, 6, true)
			add(3, 2, true)
			add(2, 2, false)
			add(3, 1, false)
		}
	case t.Family == "routes":
		// 2-4 gates per request; request 3 goes to group /a again. PB 4 is all but unbounded
		// on the unchanged tree (<= 70 interleavings); a real bound keeps the run polynomial on a
		// tree that takes a lock per encoded scalar (locks are choice points at this granularity).
		if quick {
			add(2, 4, true)
			if !t.Light {
				add(3, 1, true)
				add(2, 1, false)
			}
		} else if !t.Light {
			add(2, 6, true)
			add(3, 2, true)
			add(2, 2, false)
			add(3, 1, false)
		} else {
			add(2, 6, true)
			add(3, 1, true)
			add(2, 1, false)
		}
	case quick && heavy:
		add(2, 1, true)
		add(2, 1, false)
	case quick && t.Name == "view-render":
		// the template engine takes an order of magnitude more locks per request: bounds
		// chosen so that the quick tier completes them (the thorough tier goes further)
		add(2, 3, true)
		add(2, 2, false)
		add(3, 2, true)
		add(3, 1, false)
	case quick:
		add(2, -1, true)
		add(2, 3, false)
		add(3, 2, true)
		add(3, 1, false)
	case heavy:
		add(2, 2, true)
		add(2, 2, false)
	default:
		add(2, -1, true)
		add(2, -1, false)
		add(3, -1, true)
		add(3, 2, false)
	}
	return scs
}

// probe prints what every selected template answers to requests 1..3 served alone (used before new
// alphabet entries are admitted: a template that fails alone is a harness error, not a finding).
func probe(sel func(tmpl) bool) {
	if b, err := os.ReadFile(os.Getenv("C11_PROBE")); err == nil {
		// an ad-hoc server script (development aid)
		t := tmpl{Name: "adhoc", Server: string(b), Paths: []string{"/a/p", "/b/p"}}
		for k := 0; k < 2; k++ {
			fmt.Println(solo(t, k).String())
		}
		return
	}
	for _, t := range templates {
		if !sel(t) {
			continue
		}
		bad := ""
		var rs []string
		for k := 0; k < 3; k++ {
			r := solo(t, k)
			rs = append(rs, r.String())
			if r.Err != "" && !(t.ThrowOK && r.Err == fmt.Sprintf("throw:Exception:%d", k+1)) {
				bad = "  <<< FAILS ALONE"
			}
		}
		fmt.Printf("%s%s\n    %s\n", t.Name, bad, strings.Join(rs, "\n    "))
	}
}

func main() {
	if pool.IsWorker() {
		if v := os.Getenv("C11_BUDGET"); v != "" {
			budgetSec, _ = strconv.Atoi(v)
		}
		if budgetSec > 240 { // thorough
			famMaxExecs, famCPUSec = 30000, 1500
		}
		pool.Serve(map[string]pool.Handler{"explore": explore})
	}
	c := ev.New("C11")
	defer runner.Cleanup()
	defer func() {
		if viewPath != "" {
			os.RemoveAll(viewPath[:len(viewPath)-len("/page.html")])
		}
	}()
	if c.Replay != "" {
		replay(c)
		return
	}
	// C11_ONLY=<name or prefix*> restricts the run (development aid)
	sel := func(t tmpl) bool {
		only := os.Getenv("C11_ONLY")
		if only == "" {
			return true
		}
		if strings.HasSuffix(only, "*") {
			return strings.HasPrefix(t.Name, strings.TrimSuffix(only, "*"))
		}
		return only == t.Name
	}
	if os.Getenv("C11_PROBE") != "" {
		probe(sel)
		return
	}
	if !c.Quick() {
		budgetSec = 900
	}
	// one shard per scenario of the hand-written templates (they are the long ones), batches of
	// family scenarios (short ones); the long shards go first
	var shards []pool.Shard
	var small []scenario
	nsc, ntm := 0, map[string]int{}
	for _, t := range templates {
		if !sel(t) {
			continue
		}
		fam := t.Family
		if fam == "" {
			fam = "hand-written"
		}
		ntm[fam]++
		for _, sc := range scenariosFor(t, c.Quick()) {
			nsc++
			if t.Family == "" {
				shards = append(shards, pool.Shard{Kind: "explore", Arg: []scenario{sc}})
			} else {
				small = append(small, sc)
			}
		}
	}
	// heaviest hand-written scenarios first (access granularity, higher bound, middleware chains and
	// the template engine take the most steps), so that they start at once and own a core
	weight := func(sh pool.Shard) int {
		sc := sh.Arg.([]scenario)[0]
		w := sc.Bound * 100
		if sc.Bound < 0 {
			w = 250
		}
		if !sc.GateOnly {
			w += 1000
		}
		if strings.Contains(sc.Tmpl, "middleware") || sc.Tmpl == "view-render" {
			w += 60
		}
		return w
	}
	sort.SliceStable(shards, func(i, j int) bool { return weight(shards[i]) > weight(shards[j]) })
	// deal the family scenarios round-robin into batches so that every batch gets the same mix
	nb := (len(small) + 23) / 24
	if nb > 0 {
		batches := make([][]scenario, nb)
		for i, sc := range small {
			batches[i%nb] = append(batches[i%nb], sc)
		}
		for _, b := range batches {
			shards = append(shards, pool.Shard{Kind: "explore", Arg: b})
		}
	}
	var execs int64
	complete, stopped, skipped, outcomes := 0, 0, 0, 0
	per := map[string]any{}
	type famStat struct {
		Scenarios, Complete int
		Executions          int64
		MaxExecutions       int64
	}
	fam := map[string]*famStat{}
	type pending struct {
		r rec
		t tmpl
	}
	var tmplKeyed []pending // failures whose key names the template: reduced after the run
	failingT := map[string]map[string]bool{}
	pool.Run(shards, pool.Options{HangTimeout: 30 * time.Minute, Env: []string{fmt.Sprintf("C11_BUDGET=%d", budgetSec)}}, func(si int, rb json.RawMessage) {
		var r rec
		json.Unmarshal(rb, &r)
		t := findT(r.Scenario.Tmpl)
		switch r.Kind {
		case "fail":
			if pre := strings.TrimSuffix(r.Key, ":"+t.Name); t.Family != "" && pre != r.Key {
				if failingT[pre] == nil {
					failingT[pre] = map[string]bool{}
				}
				failingT[pre][t.Name] = true
				tmplKeyed = append(tmplKeyed, pending{r, t})
			} else {
				c.Fail(r.Key, r.Clause, r.Size, r.Case, r.Detail)
			}
		case "done":
			execs += r.Execs
			outcomes += len(r.Outcomes)
			for _, o := range r.Outcomes {
				c.Outcome(r.Scenario.Tmpl + ":" + o)
			}
			if r.Complete {
				complete++
			} else if r.Stop == "worker-cpu-budget" {
				skipped++
			} else if r.Execs > 0 {
				stopped++
				c.NotExhaustive(fmt.Sprintf("scenario %s stopped (%s) after %d executions", r.Scenario, r.Stop, r.Execs))
			}
			if t.Family != "" {
				g := "gates"
				if !r.Scenario.GateOnly {
					g = "accesses"
				}
				k := fmt.Sprintf("%s x%d %s pb=%d", t.Family, r.Scenario.N, g, r.Scenario.Bound)
				if r.Scenario.Seq {
					k = fmt.Sprintf("%s x%d sequential", t.Family, r.Scenario.N)
				}
				fs := fam[k]
				if fs == nil {
					fs = &famStat{}
					fam[k] = fs
				}
				fs.Scenarios++
				fs.Executions += r.Execs
				if r.Execs > fs.MaxExecutions {
					fs.MaxExecutions = r.Execs
				}
				if r.Complete {
					fs.Complete++
				}
				if t.Dims[len(t.Dims)-1] == 0 && r.Scenario.N == 2 && r.Scenario.GateOnly && !r.Scenario.Seq && (t.Family == "carry" || t.Family == "args" || t.Family == "capture" || (t.Dims[2] == 0 && t.Dims[3] == 4 && t.Dims[0] == t.Dims[1])) {
					per[r.Scenario.String()] = map[string]any{"executions": r.Execs, "complete": r.Complete, "solo": r.Solo, "outcomes": r.Outcomes}
				}
				break
			}
			per[r.Scenario.String()] = map[string]any{"executions": r.Execs, "complete": r.Complete, "choice_sites": r.Sites, "solo": r.Solo, "outcomes": r.Outcomes}
			if r.Scenario.N == 2 && r.Scenario.GateOnly && !r.Scenario.Seq {
				c.Sample(map[string]any{"scenario": r.Scenario.String(), "handler": findT(r.Scenario.Tmpl).Body, "solo_responses": r.Solo, "executions": r.Execs})
			}
		}
	}, func(d pool.Death) {
		c.Fail("worker-death:"+runner.FatalFrame(d.Stderr), "no-crash", 0, map[string]any{"item": d.Item, "reason": d.Reason}, d.Stderr)
	})
	// family failures: one root cause fails many templates of the product; reduce each failing
	// template through the set of failing templates and key the finding by the reduced one
	for _, p := range tmplKeyed {
		pre := strings.TrimSuffix(p.r.Key, ":"+p.t.Name)
		red := reduceTemplate(p.t, failingT[pre])
		size := p.r.Size
		if red != p.t.Name {
			size += 10000000 // the replay case kept for a key is the reduced template's own, if it failed
		}
		c.Fail(pre+":"+red, p.r.Clause, size, p.r.Case, p.r.Detail)
	}
	c.Set("templates", ntm)
	c.Set("scenarios", nsc)
	c.Set("scenarios_complete", complete)
	c.Set("scenarios_stopped_by_deadline", stopped)
	c.Set("family_scenarios_skipped_worker_cpu_budget", skipped)
	if skipped > 0 {
		c.NotExhaustive(fmt.Sprintf("%d family scenarios not run: worker CPU budget used up (a tree with far more choice points per request than the unchanged one)", skipped))
	}
	c.Set("per_scenario", per)
	c.Set("per_family", fam)
	c.Set("family_templates_failing", func() map[string]int {
		m := map[string]int{}
		for pre, s := range failingT {
			m[pre] = len(s)
		}
		return m
	}())
	c.Assume("requests are served through nethttp.Handler.ServeHTTP on one shared VM/closure exactly as ServerHandleMethod wires them; the TCP/net/http layer below is not part of the explored state")
	c.Assume("more than 3 overlapping requests and shared state in packages that govis does not instrument are outside the bound")
	c.Assume("the built-in success()/error() envelope carries time.Now().Unix(); that field is masked before responses are compared")
	c.Finish(int64(outcomes), execs, execs, fmt.Sprintf("%d hand-written handler templates + %d carry templates (callable forms x call routes, holders) + %d routes templates (two route groups: onFormat x onError x middleware x action pairs); 2 and 3 concurrent requests; every interleaving at gate granularity (2 requests: unbounded) and at shared-access granularity within a preemption bound; each response (status, all headers, body) compared with the same request served alone; states = distinct response vectors", ntm["hand-written"], ntm["carry"], ntm["routes"]))
}

func replay(c *ev.Check) {
	var sc scenario
	_, err := ev.LoadReplay(c.Replay, &sc)
	if err != nil {
		fmt.Println("replay:", err)
		return
	}
	t := findT(sc.Tmpl)
	if sc.Seq {
		got := serveInOrder(t, sc.Choices)
		fmt.Println("handler:", script(t))
		fmt.Println("order:", sc.Choices)
		for k, r := range got {
			exp := solo(t, k)
			fmt.Printf("request %d in sequence: %s\nrequest %d alone:       %s\n", k+1, r.String(), k+1, exp.String())
			if !r.same(exp) {
				c.Fail("sequential:"+sc.Tmpl, "response-equals-solo-sequential", 0, sc, "replayed")
			}
		}
		c.Finish(1, 1, 1, "replay")
		return
	}
	setup, get := build(sc)
	cfg := &sched.Config{Name: sc.String(), Bound: -1, Setup: setup, GateOnly: sc.GateOnly, MaxSteps: 5000}
	var first string
	for i := 0; i < 2; i++ {
		x, err := sched.Replay(cfg, sc.Choices, sc.Sites)
		if err != nil {
			c.HarnessError("%v", err)
			break
		}
		st := get()
		var os []string
		for _, r := range st.resps {
			os = append(os, r.String())
		}
		o := strings.Join(os, " ; ")
		if i == 0 {
			first = o
			fmt.Println("handler:", script(t))
			fmt.Println("schedule:", strings.Join(x.Schedule(), " "))
			fmt.Println("responses:", o)
			for k, r := range st.resps {
				exp := solo(t, k)
				fmt.Printf("request %d alone: %s\n", k+1, exp.String())
				if !r.same(exp) {
					c.Fail("interference:"+sc.Tmpl, "response-equals-solo", 0, sc, "replayed")
				}
			}
			for _, r := range x.Races {
				a, b := sched.SiteStable(r.SiteA), sched.SiteStable(r.SiteB)
				if b < a {
					a, b = b, a
				}
				c.Fail("race:"+a+"/"+b, "no-data-race", 0, sc, r.Kind)
			}
		} else if o != first {
			c.HarnessError("replay is not deterministic: %q vs %q", first, o)
		}
	}
	c.Finish(1, 2, 2, "replay")
}
