// C11: concurrent HTTP requests do not interfere — a response depends only on its request.
//
// Form S with a differential oracle: 2 (thorough: also 3) requests with distinct query / form /
// cookie / header data are served concurrently by ONE handler (one VM, one closure, the real
// nethttp.Handler.ServeHTTP) as threads of the controlled scheduler. Scheduling points are
// (1) a Go function gate() called between handler statements and (2) every instrumented access
// to package-level state that two requests touch with at least one write (node's superglobal
// caches, data's output state, std/net/http and std/php/core globals), learned automatically.
// Every interleaving is explored (2 requests: unbounded at gate granularity + preemption
// bound 2 at access granularity). Oracle: each response equals the response the same request
// gets when served alone on a fresh server; plus vector-clock race freedom.
package main

import (
	"encoding/json"
	"fmt"
	nh "net/http"
	"net/http/httptest"
	"os"
	"sort"
	"strconv"
	"strings"
	"time"

	"github.com/php-any/origami/data"
	ort "github.com/php-any/origami/runtime"
	ohttp "github.com/php-any/origami/std/net/http"
	"github.com/php-any/origami/utils/vshim"

	"verif/engine/ev"
	"verif/engine/pool"
	"verif/engine/runner"
	"verif/engine/sched"
)

type tmpl struct {
	Name   string
	Body   string // handler body; may call gate(n)
	Server string // alternative: a whole script building $server (middlewares + route /p); requests go through its mux
}

// view template used by the "view-render" handler: the same variable is interpolated before and
// after a gate inside the template
const viewTemplate = `<p>A:{$name}</p>
<script type="text/zy">
gate(1);
</script>
<p>B:{$name}</p>`

var viewPath string

func viewFile() string {
	if viewPath == "" {
		dir, err := os.MkdirTemp("/dev/shm", "c11-view-")
		if err != nil {
			panic(err)
		}
		viewPath = dir + "/page.html"
		os.WriteFile(viewPath, []byte(viewTemplate), 0o644)
	}
	return viewPath
}

// Handler bodies. Output goes through several $w->write calls so that no string-concatenation
// operator is involved.
var templates = []tmpl{
	{Name: "locals-loop", Body: `$s = 0; for ($i = 0; $i < 3; $i++) { $s = $s + $i + toint($r->input("n")); gate(1); } $w->write("s="); $w->write($s);`},
	{Name: "array-build", Body: `$a = []; $a[] = $r->input("n"); gate(1); $a[] = $r->input("n"); gate(2); $w->write(json_encode($a));`},
	{Name: "object-prop", Body: `$o = new stdClass(); $o->v = $r->input("n"); gate(1); $w->write("v="); $w->write($o->v);`},
	{Name: "closure-call", Body: `$n = $r->input("n"); $f = function($x) use ($n) { gate(1); return $x; }; $w->write($f($n)); gate(2); $w->write($f($n));`},
	{Name: "status-header", Body: `$w->header("X-Echo", $r->input("n")); gate(1); $w->status(200 + toint($r->input("n"))); gate(2); $w->write($r->input("n"));`},
	{Name: "GET-twice", Body: `$a = $_GET["n"]; gate(1); $b = $_GET["n"]; $w->write($a); $w->write("|"); $w->write($b);`},
	{Name: "POST-twice", Body: `$r->parseForm(); $a = $_POST["p"]; gate(1); $b = $_POST["p"]; $w->write($a); $w->write("|"); $w->write($b);`},
	{Name: "COOKIE-twice", Body: `$a = $_COOKIE["c"]; gate(1); $b = $_COOKIE["c"]; $w->write($a); $w->write("|"); $w->write($b);`},
	{Name: "SERVER-twice", Body: `$a = $_SERVER["QUERY_STRING"]; gate(1); $b = $_SERVER["QUERY_STRING"]; $w->write($a); $w->write("|"); $w->write($b);`},
	{Name: "REQUEST-merge", Body: `$r->parseForm(); $a = $_REQUEST["n"]; gate(1); $b = $_REQUEST["p"]; gate(2); $c = $_REQUEST["c"]; $w->write($a); $w->write("|"); $w->write($b); $w->write("|"); $w->write($c);`},
	{Name: "GET-once-late", Body: `gate(1); $w->write($_GET["n"]);`},
	{Name: "request-object", Body: `$a = $r->input("n"); gate(1); $b = $r->header("X-Id"); gate(2); $c = $r->method(); $w->write($a); $w->write("|"); $w->write($b); $w->write("|"); $w->write($c);`},
	{Name: "json-response", Body: `$a = ["n" => $r->input("n")]; gate(1); $w->json($a);`},
	{Name: "view-render", Body: `$d = ["name" => $r->input("n")]; gate(2); $w->view("@VIEW@", $d);`},
	{Name: "middleware-after-next", Server: `$server = new Net\Http\Server('127.0.0.1', 0);
$server->middleware(function($r, $w, $next) { $w->header("X-Echo", $r->input("n")); gate(1); $next($r, $w); gate(2); $w->write("|t:"); $w->write($r->input("n")); });
$server->post('/p', function($r, $w) { $w->write("h:"); gate(3); $w->write($r->input("n")); });`},
	{Name: "two-middlewares", Server: `$server = new Net\Http\Server('127.0.0.1', 0);
$server->middleware(function($r, $w, $next) { $w->write("<a"); $w->write($r->input("n")); $next($r, $w); gate(1); $w->write("a>"); }, 1);
$server->middleware(function($r, $w, $next) { $w->write("<b"); gate(2); $next($r, $w); $w->write($r->input("n")); $w->write("b>"); }, 2);
$server->post('/p', function($r, $w) { $w->status(200 + toint($r->input("n"))); gate(3); $w->write("H"); });`},
	{Name: "echo-output", Body: `echo "e", $r->input("n"); gate(1); $w->write("w"); $w->write($r->input("n"));`},
}

func script(t tmpl) string {
	if t.Server != "" {
		return t.Server + "\n"
	}
	return "$h = function($r, $w) {\n  " + strings.ReplaceAll(t.Body, "@VIEW@", viewFile()) + "\n};\n"
}

func request(k int) *nh.Request {
	id := fmt.Sprint(k + 1)
	req := httptest.NewRequest("POST", "/p?n="+id, strings.NewReader("p=P"+id))
	req.Header.Set("Content-Type", "application/x-www-form-urlencoded")
	req.Header.Set("X-Id", "id"+id)
	req.AddCookie(&nh.Cookie{Name: "c", Value: "C" + id})
	return req
}

type resp struct {
	Code   int    `json:"code"`
	XEcho  string `json:"x_echo,omitempty"`
	Body   string `json:"body"`
	Err    string `json:"err,omitempty"`
	Stdout string `json:"stdout,omitempty"`
}

func (r resp) String() string {
	b, _ := json.Marshal(r)
	return string(b)
}

type server struct {
	sess *runner.Session
	h    nh.Handler
	err  string
}

func newServer(t tmpl) *server {
	res, s := runner.RunKeep(script(t), runner.Opts{Setup: func(vm data.VM) {
		ohttp.Load(vm)
		vm.(*ort.VM).RegisterFunction("gate", func(n int) int { vshim.Yield("gate"); return n })
		vm.(*ort.VM).RegisterFunction("toint", func(s string) int { n, _ := strconv.Atoi(s); return n })
	}})
	sv := &server{sess: s}
	if res.Kind != "ok" {
		sv.err = "define:" + res.Kind + ":" + res.Msg + res.PanicKey
		return sv
	}
	if t.Server != "" {
		cv, _ := s.Var("server").(*data.ClassValue)
		if cv == nil {
			sv.err = "server object not found"
			return sv
		}
		mux, _ := cv.GetSource().(*nh.ServeMux)
		if mux == nil {
			sv.err = "mux not reachable"
			return sv
		}
		sv.h = mux
		return sv
	}
	fv, _ := s.Var("h").(*data.FuncValue)
	if fv == nil {
		sv.err = "handler closure not found"
		return sv
	}
	sv.h = ohttp.Handler{Value: fv.Value, Ctx: s.Ctx}
	return sv
}

func (sv *server) serve(k int) resp {
	rec := httptest.NewRecorder()
	g := runner.Guard(func() { sv.h.ServeHTTP(rec, request(k)) })
	r := resp{Code: rec.Code, Body: rec.Body.String(), XEcho: rec.Result().Header.Get("X-Echo")}
	if g.Kind != "ok" {
		r.Err = g.Kind + ":" + g.Class + ":" + trunc(g.Msg, 120) + g.PanicKey
	}
	return r
}

func trunc(s string, n int) string {
	if len(s) > n {
		return s[:n]
	}
	return s
}

// solo serves request k alone on a fresh server.
func solo(t tmpl, k int) resp {
	sv := newServer(t)
	defer sv.sess.Close()
	if sv.err != "" {
		return resp{Err: sv.err}
	}
	r := sv.serve(k)
	r.Stdout = sv.sess.Out()
	return r
}

type scenario struct {
	Tmpl     string   `json:"tmpl"`
	N        int      `json:"n"` // number of concurrent requests
	Bound    int      `json:"bound"`
	GateOnly bool     `json:"gate_only"` // only gates and sync ops are choice points
	Choices  []int    `json:"choices,omitempty"`
	Sites    []string `json:"sites,omitempty"`
}

func (s scenario) String() string {
	g := "accesses"
	if s.GateOnly {
		g = "gates"
	}
	return fmt.Sprintf("%s x%d %s pb=%d", s.Tmpl, s.N, g, s.Bound)
}

func findT(name string) tmpl {
	for _, t := range templates {
		if t.Name == name {
			return t
		}
	}
	panic("no template " + name)
}

type state struct {
	sv    *server
	resps []resp
}

func build(sc scenario) (func() []sched.Body, func() *state) {
	t := findT(sc.Tmpl)
	var st *state
	setup := func() []sched.Body {
		if st != nil && st.sv != nil {
			st.sv.sess.Close()
		}
		st = &state{sv: newServer(t), resps: make([]resp, sc.N)}
		var bodies []sched.Body
		for k := 0; k < sc.N; k++ {
			k := k
			bodies = append(bodies, func(th *sched.Thread) {
				if st.sv.err != "" {
					st.resps[k] = resp{Err: st.sv.err}
					return
				}
				st.resps[k] = st.sv.serve(k)
			})
		}
		return bodies
	}
	return setup, func() *state { return st }
}

type rec struct {
	Kind     string   `json:"kind"`
	Scenario scenario `json:"scenario"`
	Execs    int64    `json:"execs,omitempty"`
	Complete bool     `json:"complete,omitempty"`
	Stop     string   `json:"stop,omitempty"`
	Outcomes []string `json:"outcomes,omitempty"`
	Key      string   `json:"key,omitempty"`
	Clause   string   `json:"clause,omitempty"`
	Detail   string   `json:"detail,omitempty"`
	Size     int      `json:"size,omitempty"`
	Case     any      `json:"case,omitempty"`
	Sites    []string `json:"sites,omitempty"`
	Solo     []string `json:"solo,omitempty"`
}

// carrier names the shared location(s) whose accesses interleaved in this execution: the
// relevant (conflicting) sites seen in the schedule, reduced to expression@function.
func carriers(x *sched.Exec) string {
	seen := map[string]bool{}
	var out []string
	for _, e := range x.Events {
		if e.Kind == vshim.KRead || e.Kind == vshim.KWrite {
			parts := strings.SplitN(e.Site, "|", 3)
			if len(parts) == 3 && !seen[parts[1]] {
				seen[parts[1]] = true
				out = append(out, parts[1])
			}
		}
	}
	sort.Strings(out)
	if len(out) > 4 {
		out = out[:4]
	}
	return strings.Join(out, ",")
}

var budgetSec = 120

func explore(w *pool.W, arg json.RawMessage) {
	var sc scenario
	json.Unmarshal(arg, &sc)
	if !w.Item(sc.String()) {
		return
	}
	t := findT(sc.Tmpl)
	want := make([]resp, sc.N)
	var solos []string
	for k := range want {
		want[k] = solo(t, k)
		solos = append(solos, want[k].String())
		if want[k].Err != "" {
			w.Emit(rec{Kind: "fail", Scenario: sc, Key: "harness:solo-error:" + sc.Tmpl, Clause: "harness", Detail: "the template does not even work for one request alone: " + want[k].String(), Case: sc})
			w.Emit(rec{Kind: "done", Scenario: sc, Solo: solos})
			return
		}
	}
	setup, get := build(sc)
	outcomes := map[string]bool{}
	seen := map[string]bool{}
	cfg := &sched.Config{Name: sc.String(), Bound: sc.Bound, Setup: setup, Deadline: time.Now().Add(time.Duration(budgetSec) * time.Second), GateOnly: sc.GateOnly, MaxSteps: 5000}
	emit := func(x *sched.Exec, key, clause, detail string) {
		if seen[key] {
			return
		}
		seen[key] = true
		cs := sc
		cs.Choices = x.Choices()
		cs.Sites = sched.RelevantSites()
		w.Emit(rec{Kind: "fail", Scenario: sc, Key: key, Clause: clause, Size: sc.N*100000 + len(x.Events), Case: cs,
			Detail: detail + "\nscenario: " + sc.String() + "\nhandler: " + t.Body + "\nschedule: " + strings.Join(x.Schedule(), " ")})
	}
	cfg.Check = func(x *sched.Exec) {
		st := get()
		var os []string
		for _, r := range st.resps {
			os = append(os, r.String())
		}
		outcomes[strings.Join(os, " ; ")] = true
		if x.Stuck != "" {
			emit(x, "stuck", "harness", x.Stuck)
			return
		}
		for _, th := range x.Threads {
			if th.Panic != "" {
				emit(x, th.PanicKey, "no-crash", "request thread panicked: "+th.Panic)
			}
		}
		for _, r := range x.Races {
			a, b := sched.SiteStable(r.SiteA), sched.SiteStable(r.SiteB)
			if b < a {
				a, b = b, a
			}
			emit(x, "race:"+a+"/"+b, "no-data-race", fmt.Sprintf("%s race: %s then %s", r.Kind, r.SiteA, r.SiteB))
		}
		if x.Deadlock {
			emit(x, "deadlock:"+sc.Tmpl, "no-deadlock", "requests left parked")
		}
		for k, r := range st.resps {
			exp := want[k]
			if r.Code != exp.Code || r.Body != exp.Body || r.XEcho != exp.XEcho || r.Err != exp.Err {
				emit(x, "interference:"+sc.Tmpl, "response-equals-solo",
					fmt.Sprintf("request %d served concurrently got %s but alone it gets %s", k+1, r.String(), exp.String()))
			}
		}
	}
	stt := sched.Explore(cfg)
	var oc []string
	for o := range outcomes {
		oc = append(oc, o)
	}
	sort.Strings(oc)
	if len(oc) > 6 {
		oc = append(oc[:6], fmt.Sprintf("... %d outcomes", len(outcomes)))
	}
	if st := get(); st != nil && st.sv != nil {
		st.sv.sess.Close()
	}
	w.Emit(rec{Kind: "done", Scenario: sc, Execs: stt.Execs, Complete: stt.Complete, Stop: stt.StopReason, Outcomes: oc, Sites: stt.Relevant, Solo: solos})
}

func main() {
	if pool.IsWorker() {
		if v := os.Getenv("C11_BUDGET"); v != "" {
			budgetSec, _ = strconv.Atoi(v)
		}
		pool.Serve(map[string]pool.Handler{"explore": explore})
	}
	c := ev.New("C11")
	defer runner.Cleanup()
	defer func() {
		if viewPath != "" {
			os.RemoveAll(viewPath[:len(viewPath)-len("/page.html")])
		}
	}()
	if c.Replay != "" {
		replay(c)
		return
	}
	var scs []scenario
	for _, t := range templates {
		if only := os.Getenv("C11_ONLY"); only != "" && only != t.Name {
			continue
		}
		// templates that read superglobals share one cached object between requests (a listed
		// finding): its mutex makes the interleaving space large, so they get smaller bounds
		heavy := strings.Contains(t.Body, "$_")
		if c.Quick() {
			if heavy {
				scs = append(scs, scenario{Tmpl: t.Name, N: 2, Bound: 1, GateOnly: true})
				scs = append(scs, scenario{Tmpl: t.Name, N: 2, Bound: 1})
			} else if t.Name == "view-render" {
				// the template engine takes an order of magnitude more locks per request: bounds
				// chosen so that the quick tier completes them (the thorough tier goes further)
				scs = append(scs, scenario{Tmpl: t.Name, N: 2, Bound: 3, GateOnly: true})
				scs = append(scs, scenario{Tmpl: t.Name, N: 2, Bound: 2})
				scs = append(scs, scenario{Tmpl: t.Name, N: 3, Bound: 2, GateOnly: true})
				scs = append(scs, scenario{Tmpl: t.Name, N: 3, Bound: 1})
			} else {
				scs = append(scs, scenario{Tmpl: t.Name, N: 2, Bound: -1, GateOnly: true})
				scs = append(scs, scenario{Tmpl: t.Name, N: 2, Bound: 3})
				scs = append(scs, scenario{Tmpl: t.Name, N: 3, Bound: 2, GateOnly: true})
				scs = append(scs, scenario{Tmpl: t.Name, N: 3, Bound: 1})
			}
		} else {
			if heavy {
				scs = append(scs, scenario{Tmpl: t.Name, N: 2, Bound: 2, GateOnly: true})
				scs = append(scs, scenario{Tmpl: t.Name, N: 2, Bound: 2})
			} else {
				scs = append(scs, scenario{Tmpl: t.Name, N: 2, Bound: -1, GateOnly: true})
				scs = append(scs, scenario{Tmpl: t.Name, N: 2, Bound: -1})
				scs = append(scs, scenario{Tmpl: t.Name, N: 3, Bound: -1, GateOnly: true})
				scs = append(scs, scenario{Tmpl: t.Name, N: 3, Bound: 2})
			}
		}
	}
	if !c.Quick() {
		budgetSec = 900
	}
	var shards []pool.Shard
	for _, s := range scs {
		shards = append(shards, pool.Shard{Kind: "explore", Arg: s})
	}
	var execs int64
	complete, stopped, outcomes := 0, 0, 0
	per := map[string]any{}
	pool.Run(shards, pool.Options{HangTimeout: 30 * time.Minute, Env: []string{fmt.Sprintf("C11_BUDGET=%d", budgetSec)}}, func(si int, rb json.RawMessage) {
		var r rec
		json.Unmarshal(rb, &r)
		switch r.Kind {
		case "fail":
			c.Fail(r.Key, r.Clause, r.Size, r.Case, r.Detail)
		case "done":
			execs += r.Execs
			outcomes += len(r.Outcomes)
			for _, o := range r.Outcomes {
				c.Outcome(r.Scenario.Tmpl + ":" + o)
			}
			if r.Complete {
				complete++
			} else if r.Execs > 0 {
				stopped++
				c.NotExhaustive(fmt.Sprintf("scenario %s stopped (%s) after %d executions", r.Scenario, r.Stop, r.Execs))
			}
			per[r.Scenario.String()] = map[string]any{"executions": r.Execs, "complete": r.Complete, "choice_sites": r.Sites, "solo": r.Solo, "outcomes": r.Outcomes}
			if r.Scenario.N == 2 && r.Scenario.GateOnly {
				c.Sample(map[string]any{"scenario": r.Scenario.String(), "handler": findT(r.Scenario.Tmpl).Body, "solo_responses": r.Solo, "executions": r.Execs})
			}
		}
	}, func(d pool.Death) {
		c.Fail("worker-death:"+runner.FatalFrame(d.Stderr), "no-crash", 0, map[string]any{"item": d.Item, "reason": d.Reason}, d.Stderr)
	})
	c.Set("scenarios", len(scs))
	c.Set("scenarios_complete", complete)
	c.Set("scenarios_stopped_by_deadline", stopped)
	c.Set("per_scenario", per)
	c.Assume("requests are served through nethttp.Handler.ServeHTTP on one shared VM/closure exactly as ServerHandleMethod wires them; the TCP/net/http layer below is not part of the explored state")
	c.Assume("more than 3 overlapping requests and shared state in packages that govis does not instrument are outside the bound")
	c.Finish(int64(outcomes), execs, execs, "17 handler templates x {2 requests unbounded at gate granularity, 2 requests preemption bound 2 at shared-access granularity (thorough: 3 requests, bound 3)}; every interleaving; each response compared with the same request served alone; states = distinct response vectors")
}

func replay(c *ev.Check) {
	var sc scenario
	_, err := ev.LoadReplay(c.Replay, &sc)
	if err != nil {
		fmt.Println("replay:", err)
		return
	}
	t := findT(sc.Tmpl)
	setup, get := build(sc)
	cfg := &sched.Config{Name: sc.String(), Bound: -1, Setup: setup, GateOnly: sc.GateOnly, MaxSteps: 5000}
	var first string
	for i := 0; i < 2; i++ {
		x, err := sched.Replay(cfg, sc.Choices, sc.Sites)
		if err != nil {
			c.HarnessError("%v", err)
			break
		}
		st := get()
		var os []string
		for _, r := range st.resps {
			os = append(os, r.String())
		}
		o := strings.Join(os, " ; ")
		if i == 0 {
			first = o
			fmt.Println("handler:", t.Body)
			fmt.Println("schedule:", strings.Join(x.Schedule(), " "))
			fmt.Println("responses:", o)
			for k, r := range st.resps {
				exp := solo(t, k)
				fmt.Printf("request %d alone: %s\n", k+1, exp.String())
				if r.Code != exp.Code || r.Body != exp.Body || r.XEcho != exp.XEcho || r.Err != exp.Err {
					c.Fail("interference:"+sc.Tmpl, "response-equals-solo", 0, sc, "replayed")
				}
			}
			for _, r := range x.Races {
				a, b := sched.SiteStable(r.SiteA), sched.SiteStable(r.SiteB)
				if b < a {
					a, b = b, a
				}
				c.Fail("race:"+a+"/"+b, "no-data-race", 0, sc, r.Kind)
			}
		} else if o != first {
			c.HarnessError("replay is not deterministic: %q vs %q", first, o)
		}
	}
	c.Finish(1, 2, 2, "replay")
}
