// Round-4 families of C11.
//
//	args:<callee>/<shape>      a call site inside a loop (the SAME AST call node is evaluated twice
//	                           per request, so per-call-site scratch state is warm), with a gate INSIDE
//	                           argument evaluation (pass($n) in a later argument) and one in the callee.
//	                           Callees: function, default-filled, variadic, method, static method,
//	                           constructor, closure, arrow fn, call_user_func. Argument shapes:
//	                           positional, nested calls as arguments, spread of a literal / of a call
//	                           result / mixed positional+spread, named (in and out of order); plus
//	                           operand forms evaluated around a gate (array literal, concat, interpolation).
//	capture:<scope>/<kind>/<mode>/<mutation>[/<cond>]
//	                           closures whose captured variable is REASSIGNED or mutated: captured value
//	                           kind (string, int, array, object) x by-value / by-ref x where the write
//	                           happens (assignment inside the closure, compound write inside it, write in
//	                           the handler after the capture) for closures defined in the handler; and
//	                           for captures of set-up DEFAULTS (the handler closure itself, or a route /
//	                           middleware closure of a Server, `use ($x)` by value from the top-level
//	                           scope): write on every request / only on request 1.
//	                           Not enumerated because sharing is what the language says: by-ref captures
//	                           of set-up variables and writes through a captured set-up object handle.
package main

import "strings"

const argsPrelude = `function f3($a, $b, $c) { gate(7); return $a . "," . $b . "," . $c; }
function fd($a, $b = "db", $c = "dc") { gate(7); return $a . "," . $b . "," . $c; }
function fv($a, ...$r) { gate(7); $s = $a; foreach ($r as $x) { $s = $s . "," . $x; } return $s; }
function id2($x) { return $x; }
function mk2($x) { gate(7); return [$x, $x]; }
function mk3($x) { gate(7); return [$x, $x, $x]; }
class Ar {
  public $t;
  public function __construct($a, $b = "cb", $c = "cc") { $this->t = $a . "," . $b . "," . $c; }
  public function m($a, $b, $c) { gate(7); return $a . "," . $b . "," . $c; }
  public static function s($a, $b, $c) { gate(7); return $a . "," . $b . "," . $c; }
}
`

type callee struct {
	Name, Bind string
	Call       string // "@" is replaced by the argument list
	Skip       string // space-separated shapes not valid for this callee in this language
}

var callees = []callee{
	{Name: "func", Call: `f3(@)`},
	{Name: "func-defaults", Call: `fd(@)`},
	{Name: "func-variadic", Call: `fv(@)`},
	{Name: "method", Bind: `$o = new Ar("o");`, Call: `$o->m(@)`},
	{Name: "static", Call: `Ar::s(@)`},
	{Name: "construct", Call: `(new Ar(@))->t`},
	{Name: "closure", Bind: `$c = function($a, $b, $c) { gate(7); return $a . "," . $b . "," . $c; };`, Call: `$c(@)`},
	{Name: "arrow", Bind: `$c = fn($a, $b, $c) => $a . "," . pass($b) . "," . $c;`, Call: `$c(@)`},
	{Name: "call_user_func", Bind: `$c = function($a, $b, $c) { gate(7); return $a . "," . $b . "," . $c; };`, Call: `call_user_func($c, @)`},
}

var argShapes = []dimVal{
	{"positional", `$n, pass($n), $n`},
	{"nested-calls", `id2($n), id2(pass($n)), id2(id2($n))`},
	{"mixed-spread", `$n, ...[pass($n), $n]`},
	{"spread-literal", `...[$n, pass($n), $n]`},
	{"spread-call", `$n, ...mk2($n)`},
	{"spread-call-all", `...mk3($n)`},
	{"named", `a: $n, b: pass($n), c: $n`},
	{"named-reordered", `c: $n, b: pass($n), a: $n`},
	{"two-args", `$n, pass($n)`},
}

// operand forms around a gate (no call shape)
var operandForms = []dimVal{
	{"array-literal", `json_encode([$n, pass($n), $n])`},
	{"array-kv", `json_encode(["a" => $n, "b" => pass($n), "c" => $n])`},
	{"concat", `$n . "," . pass($n) . "," . $n`},
	{"interpolate", `"{$n},{$o->t}," . pass($n)`},
	{"ternary-operands", `($n == pass($n)) ? $n : "x"`},
	{"coalesce", `null ?? pass($n)`},
}

func argsBody(bind, call string) string {
	return `$n = $r->input("n"); ` + bind + ` for ($i = 0; $i < 2; $i++) { $w->write(` + call + `); $w->write("|"); gate(1); }`
}

func argsTemplates(skip map[string]bool) []tmpl {
	var out []tmpl
	for ci, c := range callees {
		for si, s := range argShapes {
			name := "args:" + c.Name + "/" + s.Name
			// "two-args" leaves a parameter to its default: only callees that have defaults
			if s.Name == "two-args" && !(c.Name == "func-defaults" || c.Name == "func-variadic" || c.Name == "construct") {
				continue
			}
			if skip[name] {
				continue
			}
			out = append(out, tmpl{Name: name, Family: "args", Pre: argsPrelude,
				Body: argsBody(c.Bind, strings.ReplaceAll(c.Call, "@", s.Code)), Dims: []int{ci, si}, Light: si != 0})
		}
	}
	for oi, o := range operandForms {
		out = append(out, tmpl{Name: "args:operands/" + o.Name, Family: "args", Pre: argsPrelude,
			Body: argsBody(`$o = new Ar($n);`, o.Code), Dims: []int{len(callees), oi}})
	}
	return out
}

// ---------------------------------------------------------------------------------- capture

type capKind struct {
	Name, Init, Show string
	Assign, Compound string // writes; $v is the new data
}

var capKinds = []capKind{
	{"string", `"d"`, `$x`, `$x = $v;`, `$x .= $v;`},
	{"int", `7`, `$x`, `$x = toint($v);`, `$x += toint($v);`},
	{"array", `["d"]`, `json_encode($x)`, `$x = [$v];`, `$x[] = $v;`},
	{"object", `new Box("d")`, `$x->v`, `$x = new Box($v);`, `$x->v = $v;`},
}

var capModes = []dimVal{{"value", `$x`}, {"ref", `&$x`}}

// closures defined inside the handler: everything is per request, whatever the capture semantics
func captureInner() []tmpl {
	var out []tmpl
	for ki, k := range capKinds {
		for mi, m := range capModes {
			muts := []dimVal{
				{"assign-inside", `$c = function($v) use (` + m.Code + `) { ` + k.Assign + ` gate(7); return ` + k.Show + `; };`},
				{"compound-inside", `$c = function($v) use (` + m.Code + `) { ` + k.Compound + ` gate(7); return ` + k.Show + `; };`},
				{"write-after-capture", `$c = function($v) use (` + m.Code + `) { gate(7); return ` + k.Show + `; }; $v = $n; ` + k.Assign},
			}
			for ui, u := range muts {
				body := `$n = $r->input("n"); $x = ` + k.Init + `; ` + u.Code + ` gate(1); $w->write($c($n)); $w->write("|"); $w->write(` + k.Show + `); gate(2); $w->write("|"); $w->write($c("t")); $w->write("|"); $w->write(` + k.Show + `);`
				out = append(out, tmpl{Name: "capture:handler/" + k.Name + "/" + m.Name + "/" + u.Name, Family: "capture", Pre: carryPrelude,
					Body: body, Dims: []int{0, ki, mi, ui, 0}, Light: ui != 0})
			}
		}
	}
	return out
}

// captures of set-up defaults by value: the closure is defined once, the write must stay in the request
func captureSetup() []tmpl {
	var out []tmpl
	conds := []dimVal{{"every-request", `if (true) `}, {"request-1-only", `if ($n == "1") `}}
	for ki, k := range capKinds {
		if k.Name == "object" {
			continue
		}
		for ui, w := range []dimVal{{"assign", k.Assign}, {"compound", k.Compound}} {
			for ci, c := range conds {
				inner := `$n = $r->input("n"); $v = $n; ` + c.Code + `{ ` + w.Code + ` } gate(1); $w->write(` + k.Show + `); gate(2); $w->write("|"); $w->write(` + k.Show + `);`
				suffix := k.Name + "/value/" + w.Name + "/" + c.Name
				out = append(out, tmpl{Name: "capture:setup-handler/" + suffix, Family: "capture",
					Pre: `$x = ` + k.Init + ";\n", Use: `use ($x) `, Body: inner, Dims: []int{1, ki, 0, ui, ci}})
				out = append(out, tmpl{Name: "capture:setup-route/" + suffix, Family: "capture",
					Server: "$x = " + k.Init + ";\n$server = new Net\\Http\\Server('127.0.0.1', 0);\n$server->post('/p', function($r, $w) use ($x) { " + inner + " });\n",
					Dims:   []int{2, ki, 0, ui, ci}, Light: true})
				out = append(out, tmpl{Name: "capture:setup-middleware/" + suffix, Family: "capture",
					Server: "$x = " + k.Init + ";\n$server = new Net\\Http\\Server('127.0.0.1', 0);\n$server->middleware(function($r, $w, $next) use ($x) { " + inner + " $next($r, $w); });\n$server->post('/p', function($r, $w) { gate(3); $w->write(\"|h\"); });\n",
					Dims:   []int{3, ki, 0, ui, ci}, Light: true})
			}
		}
	}
	return out
}

func captureTemplates() []tmpl { return append(captureInner(), captureSetup()...) }
