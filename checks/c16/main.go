// C16: ahead-of-time compilation preserves behaviour — compiled = interpreted.
//
// Form P, batch-built: complete program families (progen F1–F4 inside small bounds, the C20
// pool, class/closure/exception fixtures) are written as .php files, translated by the real
// `origami compile` command (built from the current tree), and the generated Go package is built
// — through the same instrumentation overlay — together with a runner that executes every file
// twice on fresh VMs inside one binary: compiled (RegisterCompiledFile + RunCompiledFile) and
// interpreted (ParseFile + run). Stdout, the uncaught-error outcome and the exit status must be
// equal. A file the generator rejects must be rejected with a reported compile error.
//
// history.go adds the second axis: the OUTPUT DIRECTORY as state. Every history of compiles into one
// reused directory (sources edited with older / unchanged / equal / newer mtimes, files added and
// deleted, --pkg changed, a parse error introduced and repaired, a directory left by the old
// single-file layout) up to a depth bound must end in a directory that builds and behaves like the
// interpreted final sources; a fresh compile of the final sources is the byte-level reference that
// collapses the histories to a few dozen distinct directories, so one more `go build` decides them
// all. The same machinery enumerates every pair of library file names of a name alphabet (names
// that differ only in case, _ / - / camel case or non-identifier characters).
package main

import (
	"bytes"
	"crypto/md5"
	"encoding/json"
	"fmt"
	"os"
	"os/exec"
	"path/filepath"
	"regexp"
	"sort"
	"strings"
	"sync"
	"time"

	"verif/engine/ev"
	"verif/engine/progen"
)

type item struct {
	ID   string   `json:"id"`
	Src  string   `json:"src"`
	Libs []string `json:"libs,omitempty"` // library files (namespaced classes), registered before the entry runs
	Hist *hist    `json:"hist,omitempty"` // history layer (history.go): a sequence of compiles into one output directory
}

var fixtures = []item{
	{ID: "fx/class-basic", Src: `<?php
class CbA { public $v = 1; function __construct($x = 2) { $this->v = $x; } function get() { return $this->v; } static function make() { return new CbA(5); } }
class CbB extends CbA { function get() { return parent::get() + 10; } }
$a = new CbA(); $b = new CbB(3); echo $a->get(), ",", $b->get(), ",", CbA::make()->get(), "\n";
`},
	{ID: "fx/interface-abstract", Src: `<?php
interface IaShape { function area(); }
abstract class IaBase implements IaShape { abstract function name(); function describe() { return $this->name() . ":" . $this->area(); } }
class IaSq extends IaBase { function name() { return "sq"; } function area() { return 4; } }
$s = new IaSq(); echo $s->describe(), ($s instanceof IaShape) ? "y" : "n", "\n";
`},
	{ID: "fx/namespaced-class", Src: `<?php
namespace App\Models;
class User { public $name = "u"; function hi() { return "hi " . $this->name; } }
$u = new User(); echo $u->hi(), "\n"; echo get_class($u), "\n";
`},
	{ID: "fx/closures", Src: `<?php
$k = 3; $add = function($x) use ($k) { return $x + $k; }; $mul = fn($x) => $x * $k;
echo $add(1), $mul(2), "\n"; echo json_encode(array_map($mul, [1, 2, 3])), "\n";
function apply($f, $v) { return $f($v); } echo apply($add, 10), "\n";
`},
	{ID: "fx/exceptions", Src: `<?php
class FxMyEx extends Exception {}
function risky($n) { if ($n > 1) { throw new FxMyEx("big"); } return $n; }
try { echo risky(1); echo risky(2); echo "unreached"; } catch (FxMyEx $e) { echo "caught:", $e->getMessage(); } finally { echo "|fin"; }
echo "\n";
`},
	{ID: "fx/uncaught", Src: `<?php
echo "before\n"; throw new RuntimeException("boom");
`},
	{ID: "fx/exit-code", Src: `<?php
echo "bye\n"; exit(3);
`},
	{ID: "fx/static-and-const", Src: `<?php
class ScC { const K = 7; static $n = 0; static function inc() { self::$n = self::$n + 1; return self::$n; } }
echo ScC::K, ScC::inc(), ScC::inc(), "\n";
`},
	{ID: "fx/switch-match", Src: `<?php
function f($v) { switch ($v) { case 1: return "one"; case 2: return "two"; default: return "many"; } }
echo f(1), f(2), f(3), "|", match(2) { 1 => "a", 2 => "b", default => "c" }, "\n";
`},
	{ID: "fx/arrays-strings", Src: `<?php
$a = ["x" => 1, "y" => [1, 2, 3]]; $a["z"] = "s"; foreach ($a as $k => $v) { echo $k, "=", json_encode($v), ";"; }
echo "\n", strlen("héllo"), str_repeat("ab", 2), implode(",", [1, 2]), "\n";
$i = 0; while ($i < 3) { $i++; if ($i == 2) { continue; } echo $i; } echo "\n";
`},
	{ID: "fx/generics", Src: `<?php
class GxBox<T> { public T $v; function set(T $x) { $this->v = $x; return $this; } }
$a = new GxBox<int>(); $a->set(1); echo $a->v, "\n";
`},
	{ID: "fx/string-interp", Src: `<?php
$n = "w"; $arr = ["k" => "v"]; echo "hi $n {$arr["k"]} done\n";
`},
	{ID: "fx/type-error", Src: `<?php
function typed(int $x) { return $x; } echo typed(1), "\n"; echo typed("abc"), "\n";
`},
}

var libFixtures = []item{
	{ID: "lib/class-basic", Libs: []string{`<?php
namespace LibCb;
class A { public $v = 1; function __construct($x = 2) { $this->v = $x; } function get() { return $this->v; } static function make() { return new A(5); } }
class B extends A { function get() { return parent::get() + 10; } }
`}, Src: `<?php
use LibCb\A; use LibCb\B;
$a = new A(); $b = new B(3); echo $a->get(), ",", $b->get(), ",", A::make()->get(), "\n";
`},
	{ID: "lib/interface-abstract", Libs: []string{`<?php
namespace LibIa;
interface Shape { function area(); }
abstract class Base implements Shape { abstract function name(); function describe() { return $this->name() . ":" . $this->area(); } }
class Sq extends Base { function name() { return "sq"; } function area() { return 4; } }
`}, Src: `<?php
use LibIa\Sq; use LibIa\Shape;
$s = new Sq(); echo $s->describe(), ($s instanceof Shape) ? "y" : "n", "\n";
`},
	{ID: "lib/static-const-visibility", Libs: []string{`<?php
namespace LibSc;
class C { const K = 7; public static $n = 0; private $p = "priv"; protected $q = "prot"; public $r = [1, 2];
  static function inc() { self::$n = self::$n + 1; return self::$n; }
  function both() { return $this->p . $this->q; } }
`}, Src: `<?php
use LibSc\C;
echo C::K, C::inc(), C::inc(), "\n"; $c = new C(); echo $c->both(), json_encode($c->r), "\n";
try { echo $c->p; } catch (\Throwable $e) { echo "denied"; }
echo "\n";
`},
	{ID: "lib/exceptions", Libs: []string{`<?php
namespace LibEx;
class MyEx extends \Exception { function tag() { return "T"; } }
class Thrower { function go($n) { if ($n > 1) { throw new MyEx("big"); } return $n; } }
`}, Src: `<?php
use LibEx\MyEx; use LibEx\Thrower;
$t = new Thrower();
try { echo $t->go(1); echo $t->go(2); echo "unreached"; } catch (MyEx $e) { echo "caught:", $e->getMessage(), $e->tag(); } finally { echo "|fin"; }
echo "\n";
`},
	{ID: "lib/two-files-typed", Libs: []string{`<?php
namespace LibTf;
interface HasName { function name(): string; }
`, `<?php
namespace LibTf;
class P implements HasName { public int $age = 0; function __construct(int $a, public string $n = "x") { $this->age = $a; } function name(): string { return $this->n; }
  function older(int $by = 1): int { return $this->age + $by; } }
`}, Src: `<?php
use LibTf\P; use LibTf\HasName;
function show(HasName $h) { return $h->name(); }
$p = new P(40, "bob"); echo show($p), $p->older(), $p->older(5), "\n";
try { $q = new P("notint"); echo "accepted"; } catch (\Throwable $e) { echo "rejected"; }
echo "\n";
`},
	{ID: "lib/generics", Libs: []string{`<?php
namespace LibGx;
class Box<T> { public T $v; function set(T $x) { $this->v = $x; return $this; } }
`}, Src: `<?php
use LibGx\Box;
$a = new Box<int>(); $a->set(1); echo $a->v, "\n";
try { $a->set("s"); echo "accepted"; } catch (\Throwable $e) { echo "rejected"; }
echo "\n";
`},
}

// Feature fixtures: one small program per language feature / literal form, so that every emitter of
// the generator (scalar literals, strings with every escape, types, parameters, operators,
// destructuring, closures, statics ...) is exercised by at least one compiled-vs-interpreted pair.
var featureFixtures = []item{
	{ID: "ft/string-escapes", Src: "<?php\n$s = \"a\\r\\nb\\tc\\0d\\x41\\u{e9}\\\\e\\\"f\\$g\"; echo strlen($s), \":\", bin2hex($s), \"\\n\"; echo 'single \\n $x \\'q\\'', \"\\n\";\n"},
	{ID: "ft/string-crlf-source", Src: "<?php\n$s = \"line1\r\nline2\r\n\"; echo strlen($s), bin2hex($s), \"\\n\";\n"},
	{ID: "ft/string-backtick", Src: "<?php\n$s = \"tick ` inside\\r\\n and `two`\"; echo bin2hex($s), \"\\n\";\n"},
	{ID: "ft/heredoc-nowdoc", Src: "<?php\n$n = 3;\n$a = <<<EOT\nhello $n {$n}\n  indented\nEOT;\n$b = <<<'EOT'\nraw $n \\n\nEOT;\necho $a, \"|\", $b, \"\\n\";\n"},
	{ID: "ft/numbers", Src: "<?php\necho 0x1F, \",\", 0b101, \",\", 017, \",\", 1_000_000, \",\", 1.5, \",\", 1e3, \",\", -7, \",\", 9223372036854775807, \",\", 0.1 + 0.2, \"\\n\";\n"},
	{ID: "ft/union-nullable-types", Src: "<?php\nfunction u(int|string|null $x) { return gettype($x); }\nfunction n(?int $x = null) { return $x === null ? \"null\" : \"int\"; }\nfunction f(float $x): float { return $x * 2; }\necho u(1), u(\"s\"), u(null), n(), n(3), f(1.5), \"\\n\";\ntry { echo u([1]); } catch (\\Throwable $e) { echo \"rejected\"; }\necho \"\\n\";\n"},
	{ID: "ft/defaults-variadic-named", Src: "<?php\nfunction d($a, $b = 2, $c = \"x\", ...$rest) { return $a . $b . $c . count($rest); }\necho d(1), d(1, 3), d(1, 3, \"y\", 7, 8), \"\\n\";\nfunction byref(&$v) { $v = $v + 1; } $q = 1; byref($q); echo $q, \"\\n\";\n"},
	{ID: "ft/operators", Src: "<?php\n$a = 7; $b = 2;\necho $a % $b, $a ** $b, $a <=> $b, $a & $b, $a | $b, $a ^ $b, $a << 1, $a >> 1, ~$a, \"\\n\";\necho ($a > $b && $b > 0) ? \"t\" : \"f\", ($a < $b || !$b) ? \"t\" : \"f\", $a ?: 9, null ?? \"dflt\", \"\\n\";\n$s = \"x\"; $s .= \"y\"; $a += 3; $a -= 1; $a *= 2; $b **= 3; echo $s, $a, $b, \"\\n\";\n$i = 5; echo $i++, $i--, ++$i, --$i, \"\\n\";\n"},
	{ID: "ft/arrays-destructuring", Src: "<?php\n[$x, $y] = [1, 2]; list($p, list($q)) = [3, [4]]; [\"k\" => $kv] = [\"k\" => 5];\necho $x, $y, $p, $q, $kv, \"\\n\";\n$a = [1, 2, 3]; $b = [...$a, 4]; echo json_encode($b), count($b), isset($a[1]) ? \"y\" : \"n\", isset($a[9]) ? \"y\" : \"n\", \"\\n\";\nunset($a[1]); echo json_encode($a), \"\\n\";\n"},
	{ID: "ft/loops-all", Src: "<?php\nfor ($i = 0, $j = 10; $i < 3; $i++, $j--) { echo $i, $j; } echo \"\\n\";\n$n = 0; do { $n++; } while ($n < 3); echo $n;\nforeach ([\"a\" => 1, \"b\" => 2] as $k => $v) { echo $k, $v; }\n$w = 0; while (true) { $w++; if ($w > 2) break; } echo $w, \"\\n\";\n"},
	{ID: "ft/closures-static-bind", Src: "<?php\n$mul = 3; $f = function($x) use ($mul) { return $x * $mul; }; $g = fn($x) => $x + $mul; $h = static function() { return \"st\"; };\necho $f(2), $g(2), $h(), \"\\n\";\nfunction counter() { static $c = 0; return ++$c; } echo counter(), counter(), \"\\n\";\necho implode(\",\", array_map(fn($v) => $v * 2, [1, 2, 3])), \"\\n\";\n"},
	{ID: "ft/interp-forms", Src: "<?php\n$n = \"w\"; $arr = [\"k\" => \"v\", 3 => \"three\"]; $o = new stdClass(); $o->p = \"prop\";\necho \"a $n b {$n}c ${n} {$arr['k']} $arr[3] {$o->p} $o->p\\n\";\n"},
	{ID: "ft/match-ternary-null", Src: "<?php\n$v = 2; echo match(true) { $v < 2 => \"lt\", $v == 2 => \"eq\", default => \"gt\" }, \"\\n\";\n$o = null; echo $o?->x ?? \"nullsafe\", \"\\n\"; echo is_null($o ?? null) ? \"n\" : \"v\", \"\\n\";\n"},
	{ID: "ft/consts-globals", Src: "<?php\nconst TOP = 5; define(\"DYN\", TOP * 2); echo TOP, DYN, PHP_EOL === \"\\n\" ? \"eol\" : \"x\", \"\\n\";\n$g = 1; function rg() { global $g; $g++; return $g; } echo rg(), $g, \"\\n\";\n"},
	{ID: "ft/casts", Src: "<?php\necho (int)\"12abc\", (float)\"1.5\", (string)12, (bool)\"0\" ? \"t\" : \"f\", json_encode((array)\"s\"), \"\\n\";\n"},
	{ID: "ft/try-nested", Src: "<?php\nfunction t($n) { try { try { if ($n) { throw new InvalidArgumentException(\"in\"); } return \"ok\"; } finally { echo \"f1\"; } } catch (RuntimeException | InvalidArgumentException $e) { return \"c:\" . $e->getMessage(); } finally { echo \"f2\"; } }\necho t(0), t(1), \"\\n\";\n"},
	{ID: "ft/inline-html", Src: "<html>\n<?php $x = 2; ?>\n<p><?= $x ?></p>\n<?php if ($x > 1) { ?>big<?php } ?>\n</html>\n"},
	{ID: "ft/float-literals-precision", Src: "<?php\necho 3.141592653589793, \"|\", 123456789.125, \"|\", 0.1234567890123, \"|\", 1e-50, \"|\", 2.5e-7, \"|\", 1.7976931348623157e308, \"|\", 6.02e23, \"|\", 0.30000000000000004, \"\\n\";\n$x = 9007199254740993; echo $x, \"|\", -9223372036854775807, \"|\", 4294967296, \"\\n\";\n"},
	{ID: "ft/switch-empty-default-fallthrough", Src: "<?php\nfunction s($v) { $o = \"\"; switch ($v) { case 1: $o .= \"one \"; break; default: case 2: $o .= \"two-or-other \"; case 3: $o .= \"three\"; break; case 4: } return $v . \" => \" . $o; }\necho s(1), \"|\", s(2), \"|\", s(3), \"|\", s(4), \"|\", s(5), \"\\n\";\nfunction e($v) { switch ($v) { default: } return \"done\"; } echo e(1), \"\\n\";\n"},
	{ID: "ft/empty-collections", Src: "<?php\nfunction noargs() { return func_num_args(); } $a = []; $f = function() { return 1; }; $o = new stdClass();\necho json_encode($a), count($a), noargs(), $f(), get_class($o), json_encode([[], [[]]]), \"\\n\";\nforeach ([] as $v) { echo \"never\"; } for (;;) { break; } if (true) { } else { } try { } finally { } echo \"ok\\n\";\n"},
	{ID: "ft/bool-null-literals", Src: "<?php\n$t = true; $f = false; $n = null; echo json_encode([$t, $f, $n, TRUE, False, NULL]), gettype($n), ($t && !$f) ? \"y\" : \"n\", \"\\n\";\n"},
	{ID: "ft/nested-calls-args", Src: "<?php\nfunction a($x, $y = 10) { return $x + $y; } function b($f, ...$r) { return $f(...$r); }\necho a(a(1), a(2, 3)), b(\"a\", 4), b(\"a\", 4, 5), b(fn($p, $q) => $p * $q, 6, 7), \"\\n\";\n"},
	{ID: "ft/recursion-early-return", Src: "<?php\nfunction fib($n) { if ($n < 2) return $n; return fib($n - 1) + fib($n - 2); }\necho fib(10), \"\\n\";\nfunction find($a, $t) { foreach ($a as $i => $v) { if ($v == $t) { return $i; } } return -1; } echo find([5, 6, 7], 6), find([5], 9), \"\\n\";\n"},
	{ID: "ft/switch-strings-fallthrough", Src: "<?php\nfunction s($v) { $o = \"\"; switch ($v) { case \"a\": case \"b\": $o .= \"ab\"; case \"c\": $o .= \"c\"; break; default: $o .= \"d\"; } return $o; }\necho s(\"a\"), \"|\", s(\"c\"), \"|\", s(\"z\"), \"\\n\";\n"},
	{ID: "ft/break-continue-levels", Src: "<?php\nfor ($i = 0; $i < 3; $i++) { for ($j = 0; $j < 3; $j++) { if ($j == 1) continue 2; if ($i == 2) break 2; echo $i, $j, \",\"; } } echo \"\\n\";\n"},
}

func programs(quick bool) []item {
	var out []item
	b := progen.Bounds{F1Depth: 1, Iter: 2, F2Depth: 1, F4Len: 1, F4Loops: []string{progen.LWhile}}
	if !quick {
		b = progen.Bounds{F1Depth: 2, Iter: 2, F2Depth: 2, F4Len: 1, F4Loops: []string{progen.LWhile, progen.LFor, progen.LDoWhile, progen.LForeach}}
	}
	progen.All(b, func(it progen.Item) bool {
		out = append(out, item{ID: it.ID, Src: it.P.Source(true)})
		return true
	})
	out = append(out, fixtures...)
	out = append(out, featureFixtures...)
	out = append(out, libFixtures...)
	out = append(out, nsPrograms(quick)...)
	return out
}

type result struct {
	ID       string `json:"id"`
	Compiled obsv   `json:"compiled"`
	Interp   obsv   `json:"interp"`
}
type obsv struct {
	Out   string `json:"out"`
	Kind  string `json:"kind"`
	Class string `json:"class,omitempty"`
	Msg   string `json:"msg,omitempty"`
	Exit  int    `json:"exit,omitempty"`
}

const runnerSrc = `package main

import (
	"encoding/json"
	"fmt"
	"os"
	"regexp"

	"github.com/php-any/origami/data"
	"verif/engine/runner"
)

type lib struct {
	Path string
	Fn   func() (data.GetValue, []data.Variable)
}

type prog struct {
	ID   string
	Path string
	Fn   func() (data.GetValue, []data.Variable)
	Libs []lib
}

type obsv struct {
	Out   string ` + "`json:\"out\"`" + `
	Kind  string ` + "`json:\"kind\"`" + `
	Class string ` + "`json:\"class,omitempty\"`" + `
	Msg   string ` + "`json:\"msg,omitempty\"`" + `
	Exit  int    ` + "`json:\"exit,omitempty\"`" + `
}

var reAddr = regexp.MustCompile("0x[0-9a-f]{6,}")

func reduce(r runner.Result) obsv {
	o := obsv{Out: r.Out, Kind: r.Kind, Class: r.Class, Msg: r.Msg, Exit: r.ExitCode}
	if r.Kind == "panic" {
		o.Msg = r.PanicKey
	}
	o.Msg = reAddr.ReplaceAllString(o.Msg, "0xADDR")
	return o
}

func main() {
	enc := json.NewEncoder(os.Stdout)
	for _, p := range progs {
		p := p
		// library files first, exactly as the generated Register() does for non-entry files
		c := runner.RunCompiled(p.Path, p.Fn, runner.Opts{Fuel: 2000000, Setup: func(vm data.VM) {
			for _, l := range p.Libs {
				if program, vars := l.Fn(); program != nil {
					registerClasses(vm, program)
					program.GetValue(vm.CreateContext(vars))
				}
			}
		}})
		i := runner.Run("", runner.Opts{Mode: runner.Template, File: p.Path, Fuel: 2000000, Setup: func(vm data.VM) {
			for _, l := range p.Libs {
				vm.LoadAndRun(l.Path)
			}
		}})
		fmt.Print("@@C16@@")
		enc.Encode(map[string]any{"id": p.ID, "compiled": reduce(c), "interp": reduce(i)})
	}
	runner.Cleanup()
}
`

var reFn = regexp.MustCompile(`program, vars := (\w+)\(\)`)
var reFailFile = regexp.MustCompile(`(/[^\s:]+\.php)`)

type batchOut struct {
	results   []result
	rejected  map[string]string // id -> compile error
	invalid   map[string]string // id -> go build error of the generated code
	err       string
	nodeTypes map[string]bool
}

func sh(dir string, env []string, name string, args ...string) (string, error) {
	cmd := exec.Command(name, args...)
	cmd.Dir = dir
	cmd.Env = append(os.Environ(), env...)
	var out bytes.Buffer
	cmd.Stdout, cmd.Stderr = &out, &out
	err := cmd.Run()
	return out.String(), err
}

var reBadAst = regexp.MustCompile(`ast_[A-Za-z0-9_]*_src_p(\d{4})(?:l\d+)?\.go:`)
var reNode = regexp.MustCompile(`&node\.(\w+)\{|node\.New(\w+)\(`)

func runBatch(bi int, items []item, cli, repo, overlay string) batchOut {
	bo := batchOut{rejected: map[string]string{}, invalid: map[string]string{}, nodeTypes: map[string]bool{}}
	root, err := os.MkdirTemp("/dev/shm", fmt.Sprintf("c16-b%d-", bi))
	if err != nil {
		bo.err = err.Error()
		return bo
	}
	defer os.RemoveAll(root)
	src := filepath.Join(root, "src")
	out := filepath.Join(root, "out")
	os.MkdirAll(src, 0o755)
	byFile := map[string]item{}
	libFiles := map[string][]string{} // entry file -> its library files
	owner := map[string]string{}      // library file -> entry file
	for i, it := range items {
		f := filepath.Join(src, fmt.Sprintf("p%04d.php", i))
		os.WriteFile(f, []byte(it.Src), 0o644)
		byFile[f] = it
		for li, ls := range it.Libs {
			lf := filepath.Join(src, fmt.Sprintf("p%04d_l%d.php", i, li))
			os.WriteFile(lf, []byte(ls), 0o644)
			libFiles[f] = append(libFiles[f], lf)
			owner[lf] = f
		}
	}
	// translate; a rejected file is removed and the rest retried
	for attempt := 0; ; attempt++ {
		os.RemoveAll(out)
		o, err := sh(root, nil, cli, "compile", src, "-o", out, "--pkg", "main")
		if err == nil {
			break
		}
		m := reFailFile.FindAllString(o, -1)
		removed := false
		for _, f := range m {
			if e, isLib := owner[f]; isLib {
				f = e // a rejected library file takes its whole fixture out
			}
			if it, ok := byFile[f]; ok {
				bo.rejected[it.ID] = lastLines(o, 3)
				os.Remove(f)
				for _, lf := range libFiles[f] {
					os.Remove(lf)
					delete(owner, lf)
				}
				delete(libFiles, f)
				delete(byFile, f)
				removed = true
				break
			}
		}
		if !removed || attempt > len(items) {
			bo.err = "origami compile failed without naming a file: " + lastLines(o, 6)
			return bo
		}
	}
	bin := filepath.Join(root, "batch")
	for attempt := 0; ; attempt++ {
		reg, err := os.ReadFile(filepath.Join(out, "register.go"))
		if err != nil {
			bo.err = "no register.go: " + err.Error()
			return bo
		}
		fns := reFn.FindAllStringSubmatch(string(reg), -1)
		var files, allFiles []string
		files = files[:0]
		for f := range byFile {
			files = append(files, f)
			allFiles = append(allFiles, f)
		}
		for lf := range owner {
			allFiles = append(allFiles, lf)
		}
		sort.Strings(files)
		sort.Strings(allFiles)
		if len(fns) != len(allFiles) {
			bo.err = fmt.Sprintf("generated %d constructors for %d files", len(fns), len(allFiles))
			return bo
		}
		fnOf := map[string]string{}
		for i, f := range allFiles {
			fnOf[f] = fns[i][1]
		}
		// node types used by the generated literals (coverage report)
		asts, _ := filepath.Glob(filepath.Join(out, "ast_*.go"))
		for _, a := range asts {
			b, _ := os.ReadFile(a)
			for _, m := range reNode.FindAllStringSubmatch(string(b), -1) {
				if m[1] != "" {
					bo.nodeTypes[m[1]] = true
				} else {
					bo.nodeTypes[m[2]] = true
				}
			}
		}
		var tb strings.Builder
		tb.WriteString("package main\n\nvar progs = []prog{\n")
		for _, f := range files {
			fmt.Fprintf(&tb, "\t{%q, %q, %s, []lib{", byFile[f].ID, f, fnOf[f])
			for _, lf := range libFiles[f] {
				fmt.Fprintf(&tb, "{%q, %s}, ", lf, fnOf[lf])
			}
			tb.WriteString("}},\n")
		}
		tb.WriteString("}\n")
		os.WriteFile(filepath.Join(out, "zz_table.go"), []byte(tb.String()), 0o644)
		os.WriteFile(filepath.Join(out, "zz_runner.go"), []byte(runnerSrc), 0o644)
		// register.go's Register() would run every non-entry file at registration: not used by the runner
		os.Remove(filepath.Join(out, "main.go"))
		gomod := fmt.Sprintf("module main\n\ngo 1.25.0\n\nrequire (\n\tgithub.com/php-any/origami v0.0.0\n\tverif v0.0.0\n)\n\nreplace github.com/php-any/origami => %s\n\nreplace verif => %s\n", repo, ev.Root)
		os.WriteFile(filepath.Join(out, "go.mod"), []byte(gomod), 0o644)
		sum, _ := os.ReadFile(filepath.Join(ev.Root, "go.sum"))
		os.WriteFile(filepath.Join(out, "go.sum"), sum, 0o644)
		o, err := sh(out, []string{"GOFLAGS=-mod=mod", "GOPROXY=off"}, "go", "build", "-overlay", overlay, "-o", bin, ".")
		if err == nil {
			break
		}
		// the generator produced Go code that does not compile: find the source file it came from,
		// record that, drop the fixture and translate the rest again
		m := reBadAst.FindStringSubmatch(o)
		if m == nil || attempt > 20 {
			bo.err = "go build of the generated package failed: " + lastLines(o, 12)
			return bo
		}
		bad := filepath.Join(src, "p"+m[1]+".php")
		it, ok := byFile[bad]
		if !ok {
			bo.err = "go build failed in a file that cannot be mapped back: " + lastLines(o, 6)
			return bo
		}
		bo.invalid[it.ID] = lastLines(o, 4)
		os.Remove(bad)
		for _, lf := range libFiles[bad] {
			os.Remove(lf)
			delete(owner, lf)
		}
		delete(libFiles, bad)
		delete(byFile, bad)
		os.RemoveAll(out)
		if o2, err := sh(root, nil, cli, "compile", src, "-o", out, "--pkg", "main"); err != nil {
			bo.err = "re-translation after dropping a file failed: " + lastLines(o2, 6)
			return bo
		}
	}
	var files []string
	for f := range byFile {
		files = append(files, f)
	}
	o, err := sh(root, nil, bin)
	for _, l := range strings.Split(o, "\n") {
		if i := strings.Index(l, "@@C16@@"); i >= 0 {
			var r result
			if json.Unmarshal([]byte(l[i+7:]), &r) == nil {
				bo.results = append(bo.results, r)
			}
		}
	}
	if err != nil || len(bo.results) != len(files) {
		bo.err = fmt.Sprintf("runner produced %d of %d results (%v): %s", len(bo.results), len(files), err, lastLines(o, 8))
	}
	return bo
}

func lastLines(s string, n int) string {
	ls := strings.Split(strings.TrimSpace(s), "\n")
	if len(ls) > n {
		ls = ls[len(ls)-n:]
	}
	return strings.Join(ls, "\n")
}

func famOf(id string) string {
	parts := strings.Split(id, "/")
	if len(parts) >= 2 {
		return parts[0] + "/" + parts[1]
	}
	return id
}

func main() {
	c := ev.New("C16")
	c.Level = "model_checking"
	repo := os.Getenv("VERIF_REPO")
	if repo == "" {
		repo = "/repo"
	}
	overlay := os.Getenv("VERIF_OVERLAY")
	cli := filepath.Join(ev.Root, ".bin", "origami-cli-c16")
	if repo != "/repo" { // a scratch worktree gets its own CLI binary (same tag as vcheck uses; tools/trymutant.sh removes it)
		cli += fmt.Sprintf(".%x", md5.Sum([]byte(repo+"\n")))[:9]
	}
	if o, err := sh(repo, []string{"GOFLAGS=-mod=mod", "GOPROXY=off"}, "go", "build", "-o", cli, "."); err != nil {
		c.HarnessError("building the CLI failed: %s", lastLines(o, 10))
		c.Finish(1, 1, 0, "setup failed")
	}
	var items []item
	hb := hbound{depth: 2, legacyDepth: 1, names: hnamesQuick}
	if !c.Quick() {
		hb = hbound{depth: 3, legacyDepth: 2, touchSteps: 2, names: append(append([]string(nil), hnamesQuick...), hnamesMore...)}
	}
	var ho histOut
	var hwg sync.WaitGroup
	if c.Replay != "" {
		var it item
		if _, err := ev.LoadReplay(c.Replay, &it); err != nil {
			fmt.Println("replay:", err)
			return
		}
		if it.Hist != nil {
			ho = runHistories([]hist{*it.Hist}, hb, cli, repo, overlay, 1)
		} else {
			items = []item{it}
		}
	} else {
		if os.Getenv("C16_ONLY") != "hist" { // development aid: C16_ONLY=hist runs the history layer alone
			items = programs(c.Quick())
		}
		if os.Getenv("C16_ONLY") == "ns" { // development aid: the namespace-section family alone
			items = nsPrograms(c.Quick())
		}
		// the history layer runs next to the batches (its compiles are cheap, it needs one go build)
		hwg.Add(1)
		go func() {
			defer hwg.Done()
			if os.Getenv("C16_ONLY") == "progs" || os.Getenv("C16_ONLY") == "ns" { // development aid: the program families alone
				return
			}
			ho = runHistories(nil, hb, cli, repo, overlay, map[bool]int{true: 12, false: 12}[c.Quick()])
		}()
	}
	per := 64
	var batches [][]item
	for i := 0; i < len(items); i += per {
		j := i + per
		if j > len(items) {
			j = len(items)
		}
		batches = append(batches, items[i:j])
	}
	outs := make([]batchOut, len(batches))
	var wg sync.WaitGroup
	sem := make(chan struct{}, 16)
	for i := range batches {
		wg.Add(1)
		go func(i int) {
			defer wg.Done()
			sem <- struct{}{}
			outs[i] = runBatch(i, batches[i], cli, repo, overlay)
			<-sem
		}(i)
	}
	wg.Wait()
	hwg.Wait()
	if ho.err != "" {
		c.HarnessError("history layer: %s", ho.err)
	}
	if ho.capped > 0 {
		c.NotExhaustive(fmt.Sprintf("%d distinct output directories that differ from a fresh compile were not built (cap %d)", ho.capped, maxSuspectClasses))
	}
	histories := judgeHistories(c, ho)
	if os.Getenv("C16_DEBUG") != "" {
		seen := map[string]int{}
		for _, r := range ho.results {
			if r.OkH && r.OkF && !r.Same {
				if seen[r.Diff]++; seen[r.Diff] <= 2 {
					fmt.Println("DIFF", r.H.String(), "=>", r.Diff)
				}
			}
		}
	}
	for i, r := range ho.results {
		if len(r.H.Ops) == 2 && i%97 == 0 {
			c.Sample(map[string]any{"history": r.H.String(), "final_sources": r.State, "accepted": r.OkH, "identical_to_fresh_compile": r.Same})
		}
	}
	byID := map[string]item{}
	for _, it := range items {
		byID[it.ID] = it
	}
	var compared, rejected, nsLive int64
	nodeTypes := map[string]bool{}
	for bi, bo := range outs {
		if bo.err != "" {
			c.HarnessError("batch %d: %s", bi, bo.err)
		}
		for t := range bo.nodeTypes {
			nodeTypes[t] = true
		}
		for id, msg := range bo.rejected {
			rejected++
			c.Outcome("rejected")
			if os.Getenv("C16_DEBUG") != "" {
				fmt.Println("REJECTED", id, strings.ReplaceAll(lastLines(msg, 2), "\n", " | "))
			}
			// acceptable only as a reported compile error naming the construct
			if strings.TrimSpace(msg) == "" {
				c.Fail("silent-reject:"+famOf(id), "reported-compile-error", len(byID[id].Src), byID[id], "the compile command failed on this file without a diagnostic")
			}
		}
		for id, msg := range bo.invalid {
			c.Outcome("generated-code-invalid")
			c.Fail("generated-code-does-not-compile:"+famOf(id), "reported-compile-error", len(byID[id].Src), byID[id], "origami compile accepted the file but the Go code it generated does not build:\n"+msg)
		}
		for _, r := range bo.results {
			compared++
			c.Outcome(r.Interp.Kind + "/" + r.Compiled.Kind)
			if strings.HasPrefix(r.ID, "ns") && strings.Contains(r.Interp.Out, ".tag") {
				nsLive++
			}
			if r.Compiled != r.Interp {
				clause := "stdout"
				switch {
				case r.Compiled.Kind != r.Interp.Kind || r.Compiled.Exit != r.Interp.Exit:
					clause = "outcome"
				case r.Compiled.Out != r.Interp.Out:
					clause = "stdout"
				default:
					clause = "diagnostic"
				}
				cb, _ := json.Marshal(r.Compiled)
				ib, _ := json.Marshal(r.Interp)
				detail := fmt.Sprintf("program %s\ninterpreted: %s\ncompiled:    %s\nsource:\n%s", r.ID, ib, cb, byID[r.ID].Src)
				fams := []string{famOf(r.ID)}
				if strings.HasPrefix(r.ID, "ns") {
					// namespace-section family: keyed by the call form whose line diverges, not by the program
					if ks := nsKinds(r.ID, r.Compiled.Out, r.Interp.Out); len(ks) > 0 {
						fams = fams[:0]
						for _, k := range ks {
							fams = append(fams, "ns/"+k)
						}
					}
				}
				for _, fam := range fams {
					c.Fail(clause+":"+fam, "compiled-equals-interpreted", len(byID[r.ID].Src), byID[r.ID], detail)
				}
			}
			if len(byID[r.ID].Src) < 200 && strings.HasPrefix(r.ID, "F3") {
				c.Sample(map[string]any{"id": r.ID, "source": byID[r.ID].Src, "interpreted": r.Interp, "compiled": r.Compiled})
			}
		}
	}
	var nts []string
	for t := range nodeTypes {
		nts = append(nts, t)
	}
	sort.Strings(nts)
	c.Set("programs", compared)
	c.Set("disagreements_checked", compared)
	c.Set("rejected_by_generator", rejected)
	c.Set("batches", len(batches))
	c.Set("node_types_in_generated_code", nts)
	c.Assume("the generated package is built through the same instrumentation overlay as every other check (needed for exit() interception and fuel); the stock Register()/main templates are not executed by the runner, which calls the generated AST constructors directly")
	c.Assume("programs outside the enumerated families (progen F1-F4 inside the stated bounds, fixtures) are not covered")
	nsame := 0
	for _, cl := range ho.classes {
		if cl.same {
			nsame++
		}
	}
	c.Set("histories", histories)
	c.Set("history_depth", hb.depth)
	c.Set("history_wall_s_enumerate_then_build_and_run", []float64{ho.enumWall, ho.behWall})
	c.Set("history_compile_invocations", ho.compiles)
	c.Set("history_distinct_output_dirs_built_and_run", len(ho.beh))
	c.Set("history_distinct_output_dirs_equal_to_fresh", nsame)
	c.Assume("history layer: sources are four fixed files with three revisions each; mtimes are set explicitly (older / unchanged / equal to the generated file / one second newer); the generated go.mod is replaced by the harness's module; the scratch root inside EntryPath is relocated when a directory is built")
	if c.Replay == "" && os.Getenv("C16_ONLY") != "progs" && os.Getenv("C16_ONLY") != "ns" && (histories < 100 || nsame < 10) {
		c.HarnessError("vacuous: history layer ran %d histories over %d project states", histories, nsame)
	}
	c.Set("namespace_section_programs_with_output", nsLive)
	if c.Replay == "" && os.Getenv("C16_ONLY") != "hist" && nsLive < 60 {
		c.HarnessError("vacuous: only %d programs of the namespace-section family printed a resolved name when interpreted", nsLive)
	}
	if compared < 10 && c.Replay == "" && os.Getenv("C16_ONLY") != "hist" {
		c.HarnessError("vacuous: only %d programs compared", compared)
	}
	_ = time.Now
	c.Finish(compared+histories, compared*2+ho.compiles, compared+histories, "complete progen families F1-F4 inside bounds + class/closure/exception/namespace fixtures, each translated by `origami compile`, built, and run compiled and interpreted on fresh VMs in one binary; plus every history of compiles into one reused output directory up to the depth bound (edit with four mtime relations / add / delete / recompile / change --pkg / break, legacy directory), compared with a fresh compile of the final sources and built and run per distinct directory; states = programs compared + histories")
}
