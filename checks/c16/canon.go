package main

import (
	"go/ast"
	"go/format"
	"go/parser"
	"go/token"
	"sort"
	"strings"
)

// canonGo rewrites a generated Go file so that the entries of every map composite literal appear
// sorted by key. The generator emits class members (methods, properties, constants) as Go map
// literals in Go's map-iteration order, so two compiles of the same source differ in the order of
// those entries; the order of entries in a map literal has no meaning. Everything else is kept
// byte for byte (the result is gofmt-ed again). A file that does not parse is returned unchanged.
func canonGo(src string) string {
	if !strings.Contains(src, "map[") {
		return src
	}
	fset := token.NewFileSet()
	f, err := parser.ParseFile(fset, "", src, parser.ParseComments)
	if err != nil {
		return src
	}
	off := func(p token.Pos) int { return fset.Position(p).Offset }
	var lits []*ast.CompositeLit
	ast.Inspect(f, func(n ast.Node) bool {
		cl, ok := n.(*ast.CompositeLit)
		if !ok || len(cl.Elts) < 2 {
			return true
		}
		if _, ok := cl.Type.(*ast.MapType); !ok {
			return true
		}
		for _, e := range cl.Elts {
			if _, ok := e.(*ast.KeyValueExpr); !ok {
				return true
			}
		}
		lits = append(lits, cl)
		return true
	})
	if len(lits) == 0 {
		return src
	}
	sort.Slice(lits, func(i, j int) bool { return lits[i].Pos() < lits[j].Pos() })
	var render func(lo, hi int) string
	render = func(lo, hi int) string {
		var b strings.Builder
		cur := lo
		for _, cl := range lits {
			l, r := off(cl.Lbrace), off(cl.Rbrace)
			if l < cur || r >= hi || off(cl.Pos()) < lo {
				continue // outside the range, or nested in a literal already rendered
			}
			b.WriteString(src[cur : l+1])
			var es []string
			for _, e := range cl.Elts {
				kv := e.(*ast.KeyValueExpr)
				es = append(es, render(off(kv.Key.Pos()), off(kv.Key.End()))+": "+render(off(kv.Value.Pos()), off(kv.Value.End())))
			}
			sort.Strings(es)
			b.WriteString("\n" + strings.Join(es, ",\n") + ",\n")
			cur = r
		}
		b.WriteString(src[cur:hi])
		return b.String()
	}
	out := render(0, len(src))
	if fm, err := format.Source([]byte(out)); err == nil {
		return string(fm)
	}
	return out
}
