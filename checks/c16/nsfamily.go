// C16, namespace-section family: files with SEVERAL `namespace` sections.
//
// The generator keeps per-FILE state (Generator.namespace = the namespace the parser ended the file in,
// one `from`, one variable table) while name resolution in the language is per namespace SECTION. Every
// program of the families in main.go has at most one namespace per file, so a call stamped with the
// wrong section's namespace could not show. This family generates files with 2..3 sections (unbracketed
// `namespace A;` and bracketed `namespace A { }`), the same function / constant / class name declared in
// every section, and one caller section that reaches it through every call form (unqualified, fully
// qualified own / other, `namespace\`, `use function|const|class` alias) from top level, a function, a
// closure and an arrow function, placed before and after the declaration; every other section calls its
// own function unqualified. The two-file variant puts the sections (functions + a class with a static
// method and a method that calls the section's function) in a library and calls in from the entry.
package main

import (
	"fmt"
	"strings"
)

// namespace names carry a per-program tag: all files of a batch are parsed by one compile run, and a class
// name may be declared only once in it
func nsNamesFor(tag string) []string {
	return []string{tag + "NsA", tag + "NsB\\Deep", tag + "NsC"}
}

func nsOpen(bracketed bool, ns string) string {
	if bracketed {
		return "namespace " + ns + " {\n"
	}
	return "namespace " + ns + ";\n"
}

func nsClose(bracketed bool) string {
	if bracketed {
		return "}\n"
	}
	return ""
}

// guarded echo: a failing call must not hide the lines after it
func nsLine(label, expr string) string {
	return fmt.Sprintf("try { echo %q, %s, \"\\n\"; } catch (\\Throwable $e) { echo %q, \"ERR\\n\"; }\n", label+"=", expr, label+"=")
}

type nsForm struct {
	name string
	use  func(own, other string) string // `use` line for the caller section ("" if none)
	call func(own, other string) string
	// plain: the parser accepts this form only directly after `echo` and in an arrow function
	// (`namespace\f()` inside a function body, a closure or try is a parse error in this language)
	plain bool
}

var nsFuncForms = []nsForm{
	{name: "fn-unqualified", call: func(o, x string) string { return "tag()" }},
	{name: "fn-fq-own", call: func(o, x string) string { return "\\" + o + "\\tag()" }},
	{name: "fn-fq-other", call: func(o, x string) string { return "\\" + x + "\\tag()" }},
	{name: "fn-namespace-kw", call: func(o, x string) string { return "namespace\\tag()" }, plain: true},
	// `use function X\f` is not in the alphabet: the parser demands the function to be loaded at parse time
	// ("函数先加载后才能使用") and rejects it in every placement, interpreted and compiled alike
}

var nsConstForms = []nsForm{
	{name: "const-unqualified", call: func(o, x string) string { return "K" }},
	{name: "const-fq-other", call: func(o, x string) string { return "\\" + x + "\\K" }},
	{name: "const-namespace-kw", call: func(o, x string) string { return "namespace\\K" }},
	{name: "const-use-const", use: func(o, x string) string { return "use const " + x + "\\K as OK;\n" }, call: func(o, x string) string { return "OK" }},
}

func nsIdent(ns string) string { return strings.ReplaceAll(ns, "\\", "_") }

// one section: declarations of tag() and K, an unqualified own call, and - in the caller section - the
// call form under test in four contexts before and after the declaration
func nsSection(ns, other string, f *nsForm, withClass bool) string {
	var b strings.Builder
	id := nsIdent(ns)
	if f != nil && f.use != nil {
		b.WriteString(f.use(ns, other))
	}
	ctx := func(pos string) {
		c := f.call(ns, other)
		if f.plain {
			fmt.Fprintf(&b, "$ar_%s_%s = fn() => %s;\necho %q;\necho %s;\necho \"\\n\";\n", pos, id, c, id+":top-"+pos+"=", c)
			return
		}
		fmt.Fprintf(&b, "function cf_%s_%s() { return %s; }\n", pos, id, c)
		fmt.Fprintf(&b, "$cl_%s_%s = function() { return %s; };\n$ar_%s_%s = fn() => %s;\n", pos, id, c, pos, id, c)
		b.WriteString(nsLine(id+":top-"+pos, c))
	}
	if f != nil {
		ctx("before")
	}
	fmt.Fprintf(&b, "function tag() { return \"%s.tag\"; }\nconst K = \"%s.K\";\n", id, id)
	if withClass {
		// unqualified class references from functions of the section, written before the class (late-bound)
		b.WriteString("function sb() { return Box::tag(); }\nfunction nb() { return (new Box())->who(); }\n")
		fmt.Fprintf(&b, "class Box { static function tag() { return \"%s.Box\"; } function who() { return \"who:\" . tag() . \":\" . K; } }\n", id)
	}
	if withClass {
		b.WriteString("function sa() { return Box::tag(); }\nfunction na() { return (new Box())->who(); }\n")
	}
	if f != nil {
		ctx("after")
		for _, pos := range []string{"before", "after"} {
			if f.plain {
				b.WriteString(nsLine(id+":arrow-"+pos, fmt.Sprintf("$ar_%s_%s()", pos, id)))
				continue
			}
			b.WriteString(nsLine(id+":fn-"+pos, fmt.Sprintf("cf_%s_%s()", pos, id)))
			b.WriteString(nsLine(id+":closure-"+pos, fmt.Sprintf("$cl_%s_%s()", pos, id)))
			b.WriteString(nsLine(id+":arrow-"+pos, fmt.Sprintf("$ar_%s_%s()", pos, id)))
		}
	}
	b.WriteString(nsLine(id+":own-fn", "tag()"))
	b.WriteString(nsLine(id+":own-const", "K"))
	return b.String()
}

func nsFile(tag string, bracketed bool, nsec, caller int, f *nsForm, withClass bool) string {
	nsNames := nsNamesFor(tag)
	var b strings.Builder
	b.WriteString("<?php\n")
	for i := 0; i < nsec; i++ {
		b.WriteString(nsOpen(bracketed, nsNames[i]))
		var ff *nsForm
		if i == caller {
			ff = f
		}
		b.WriteString(nsSection(nsNames[i], nsNames[(i+1)%nsec], ff, withClass))
		b.WriteString(nsClose(bracketed))
	}
	return b.String()
}

// class / cross-file forms used from an entry file against a two-section library
var nsLibForms = []nsForm{
	{name: "lib-fq-function", call: func(o, x string) string { return "\\" + x + "\\tag()" }},
	{name: "lib-fq-static", call: func(o, x string) string { return "\\" + x + "\\Box::tag()" }},
	{name: "lib-use-class-static", use: func(o, x string) string { return "use " + x + "\\Box;\n" }, call: func(o, x string) string { return "Box::tag()" }},
	{name: "lib-use-alias-static", use: func(o, x string) string { return "use " + x + "\\Box as B2;\n" }, call: func(o, x string) string { return "B2::tag()" }},
	{name: "lib-method-calls-section-function", call: func(o, x string) string { return "(new \\" + x + "\\Box())->who()" }},
	{name: "lib-section-unqualified-static", call: func(o, x string) string { return "\\" + x + "\\sb() . \"|\" . \\" + x + "\\sa()" }},
	{name: "lib-section-unqualified-new", call: func(o, x string) string { return "\\" + x + "\\nb() . \"|\" . \\" + x + "\\na()" }},
	{name: "lib-fq-const", call: func(o, x string) string { return "\\" + x + "\\K" }},
}

func nsPrograms(quick bool) []item {
	var out []item
	styles := []bool{false, true}
	styleName := map[bool]string{false: "semicolon", true: "braces"}
	for _, br := range styles {
		for nsec := 1; nsec <= 3; nsec++ {
			if br && nsec != 2 {
				// the body of a bracketed `namespace X { }` is accepted but never executed by this language
				// (interpreted and compiled alike print nothing): one section count is enough to pin that
				continue
			}
			for caller := 0; caller < nsec; caller++ {
				forms := append(append([]nsForm(nil), nsFuncForms...), nsConstForms...)
				for fi := range forms {
					f := &forms[fi]
					if nsec == 1 && (strings.Contains(f.name, "other") || f.use != nil) {
						continue // no other section to point at
					}
					out = append(out, item{ID: fmt.Sprintf("ns/%s/%s/%dsec-caller%d", f.name, styleName[br], nsec, caller), Src: nsFile(fmt.Sprintf("P%d", len(out)), br, nsec, caller, f, false)})
				}
			}
		}
		// two files: the library holds the sections, the entry (one or two sections of its own) calls in
		for nsec := 2; nsec <= 3 && !br; nsec++ {
			for target := 0; target < nsec; target++ {
				if quick && nsec == 3 && target == 1 {
					continue
				}
				for fi := range nsLibForms {
					f := &nsLibForms[fi]
					for _, entrySecs := range []int{1, 2} {
						tag := fmt.Sprintf("P%d", len(out))
						nsNames := nsNamesFor(tag)
						lib := nsFile(tag, br, nsec, -1, nil, true)
						var b strings.Builder
						b.WriteString("<?php\n")
						for e := 0; e < entrySecs; e++ {
							ens := fmt.Sprintf("%sApp\\E%d", tag, e)
							b.WriteString(nsOpen(br, ens))
							if f.use != nil {
								b.WriteString(f.use(ens, nsNames[target]))
							}
							c := f.call(ens, nsNames[target])
							fmt.Fprintf(&b, "function tag() { return \"%s.tag\"; }\nfunction viafn_%d() { return %s; }\n", nsIdent(ens), e, c)
							b.WriteString(nsLine(nsIdent(ens)+":top", c))
							b.WriteString(nsLine(nsIdent(ens)+":fn", fmt.Sprintf("viafn_%d()", e)))
							b.WriteString(nsLine(nsIdent(ens)+":own-fn", "tag()"))
							b.WriteString(nsClose(br))
						}
						out = append(out, item{ID: fmt.Sprintf("nslib/%s/%s/%dsec-target%d-entry%d", f.name, styleName[br], nsec, target, entrySecs), Src: b.String(), Libs: []string{lib}})
					}
				}
			}
		}
	}
	return out
}

// nsKinds reduces a diverging program of the family to the call forms that diverge: output lines are
// "<section>:<context>=<value>"; every section prints its own unqualified function call (own-fn) and constant
// (own-const), the caller section the form under test. The helper functions of the function context are
// themselves called unqualified, so a diverging own-fn line explains everything else in the program.
func nsKinds(id, compiledOut, interpOut string) []string {
	parse := func(out string) map[string]string {
		m := map[string]string{}
		for _, l := range strings.Split(out, "\n") {
			if i := strings.Index(l, "="); i > 0 {
				m[l[:i]] = l[i+1:]
			}
		}
		return m
	}
	cm, im := parse(compiledOut), parse(interpOut)
	form := ""
	if p := strings.Split(id, "/"); len(p) >= 2 {
		form = p[1]
	}
	ownFn, ownConst, other := false, false, false
	seen := map[string]bool{}
	for _, m := range []map[string]string{cm, im} {
		for label := range m {
			if seen[label] || cm[label] == im[label] {
				continue
			}
			seen[label] = true
			switch {
			case strings.HasSuffix(label, ":own-fn"):
				ownFn = true
			case strings.HasSuffix(label, ":own-const"):
				ownConst = true
			default:
				other = true
			}
		}
	}
	switch {
	case ownFn:
		return []string{"fn-unqualified"}
	case !ownConst && !other:
		return nil
	}
	var ks []string
	if ownConst {
		ks = append(ks, "const-unqualified")
	}
	if other && !(ownConst && form == "const-unqualified") {
		ks = append(ks, form)
	}
	return ks
}
