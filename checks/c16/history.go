// C16, history layer: the output directory of `origami compile` is state.
//
// The program families of main.go always translate into a FRESH output directory. Real use compiles
// again and again into the same directory while the sources change underneath. This layer treats
// (source tree with its mtimes, output directory, compile options) as a state and enumerates EVERY
// history  compile ; (mutate ; compile)^k  up to a depth bound over a small project with fixed file
// names (entry index.php, function library Lib.php, namespaced class Greeter.php, optional
// sub/Extra.php), three revisions per file (one of them of identical byte length), and the alphabet
//
//	edit(file, other revision, mtime older | unchanged | = generated file | newer)   add / delete a file
//	touch   recompile unchanged   change --pkg   break a file (parse error) and repair it
//	initial output directory: absent | left over by the old single-file layout (vendor_ast.go)
//
// Oracle, in two stages, none of them hand-written expectations:
//  1. differential, no build needed: after the last compile of the history the output directory must hold
//     the same files with the same bytes as a fresh compile of the final sources into an empty
//     directory (nothing ignored except file timestamps; the scratch root in EntryPath is spelled $ROOT;
//     entries of Go map literals are sorted, the generator emits them in map-iteration order - canon.go),
//     and both compiles must agree on accept / reject.
//  2. behavioural, decides: every DISTINCT output directory reached (identical ones collapse; on a
//     correct tree that is one per reachable project state) becomes a package of one Go module, is built
//     through the overlay and run the way the generated main does - pkg.Register(vm) +
//     vm.RunCompiledFile(pkg.EntryPath) - next to interpreting the final sources. A history is reported
//     only if its directory does not build or behaves differently from the interpreted final sources
//     (that is all the property statement demands: differing bytes alone are not a violation).
package main

import (
	"crypto/sha256"
	"encoding/hex"
	"encoding/json"
	"fmt"
	"io/fs"
	"os"
	"path/filepath"
	"regexp"
	"sort"
	"strings"
	"sync"
	"time"

	"verif/engine/ev"
)

type hop struct {
	Kind string `json:"kind"`           // edit | add | del | touch | noop | repkg | break
	File string `json:"file,omitempty"` // E | L | C | X
	Rev  int    `json:"rev"`
	Mode string `json:"mode,omitempty"` // old | keep | gen | new
}

func (o hop) String() string {
	switch o.Kind {
	case "edit", "add":
		return fmt.Sprintf("%s(%s,r%d,mtime=%s)", o.Kind, hfiles[o.File].rel, o.Rev, o.Mode)
	case "break", "touch":
		return fmt.Sprintf("%s(%s,mtime=%s)", o.Kind, hfiles[o.File].rel, o.Mode)
	case "del":
		return fmt.Sprintf("delete(%s)", hfiles[o.File].rel)
	case "noop":
		return "recompile"
	case "repkg":
		return "change--pkg"
	}
	return o.Kind
}

// kind is the coarse class of an op that goes into the finding key.
func (o hop) kind() string {
	switch o.Kind {
	case "edit":
		if o.Mode == "new" {
			return "edit-newer"
		}
		return "edit-not-newer"
	case "add":
		if o.Mode == "new" {
			return "add-newer"
		}
		return "add-older"
	case "del":
		return "delete"
	case "noop":
		return "recompile"
	case "repkg":
		return "change-pkg"
	}
	return o.Kind
}

type hist struct {
	Init string `json:"init"` // "fresh": no output directory yet | "legacy": old single-file layout left in it
	X    bool   `json:"x"`    // sub/Extra.php present from the start
	Ops  []hop  `json:"ops"`
	// Names, when set, makes this a file-name case instead of a history: one compile of a project whose
	// two library files carry these names (every pair of the name alphabet is enumerated).
	Names []string `json:"names,omitempty"`
}

func (h hist) String() string {
	if len(h.Names) > 0 {
		return "compile a project with the library files " + strings.Join(h.Names, " and ")
	}
	s := []string{"compile[outdir " + h.Init + map[bool]string{true: ", with sub/Extra.php", false: ""}[h.X] + "]"}
	for _, o := range h.Ops {
		s = append(s, o.String(), "compile")
	}
	return strings.Join(s, " ; ")
}

type hfile struct {
	rel  string   // below src/
	gen  string   // the generated file it maps to (only used to pick the mtime of mode "gen"/"new")
	revs []string // revisions; revs[1] has exactly the byte length of revs[0]
}

const brokenRev = 9

var hfileOrder = []string{"E", "L", "C", "X"}

var hfiles = map[string]*hfile{
	"E": {rel: "index.php", gen: "ast_src_index.go", revs: []string{
		"<?php\nnamespace App;\n$g = new Greeter(\"world\");\necho \"index r0 \", \\lib_tag(), \" \", $g->greet(), \" \", Greeter::version(), \"\\n\";\necho \\function_exists(\"extra_tag\") ? \\extra_tag(2) : \"no-extra\", \"\\n\";\n",
		"<?php\nnamespace App;\n$g = new Greeter(\"there\");\necho \"index r1 \", \\lib_tag(), \" \", $g->greet(), \" \", Greeter::version(), \"\\n\";\necho \\function_exists(\"extra_tag\") ? \\extra_tag(3) : \"no-extra\", \"\\n\";\n",
		"<?php\nnamespace App;\n$names = [\"a\", \"b\"]; $i = 0;\nwhile ($i < 2) { $g = new Greeter($names[$i]); echo $i, \":\", $g->greet(), \";\"; $i++; }\necho \" index r2 \", \\lib_tag(), \" \", Greeter::version(), \\function_exists(\"extra_tag\") ? \\extra_tag(5) : \"\", \"\\n\";\nexit(3);\n",
	}},
	"L": {rel: "Lib.php", gen: "ast_src_lib.go", revs: []string{
		"<?php\nfunction lib_tag() { return \"lib r0\"; }\necho \"lib loaded r0\\n\";\n",
		"<?php\nfunction lib_tag() { return \"lib r1\"; }\necho \"lib loaded r1\\n\";\n",
		"<?php\nfunction lib_join($a, $sep = \"-\") { $s = \"\"; foreach ($a as $k => $v) { if ($k > 0) { $s .= $sep; } $s .= $v; } return $s; }\nfunction lib_tag() { return \"lib r2 \" . lib_join([1, 2, 3]); }\n",
	}},
	"C": {rel: "Greeter.php", gen: "ast_src_greeter.go", revs: []string{
		"<?php\nnamespace App;\n\nclass Greeter {\n    private $who;\n    function __construct($who) { $this->who = $who; }\n    function greet() { return \"Hello, \" . $this->who . \"!\"; }\n    static function version() { return \"greeter v1\"; }\n}\n",
		"<?php\nnamespace App;\n\nclass Greeter {\n    private $who;\n    function __construct($who) { $this->who = $who; }\n    function greet() { return \"Howdy, \" . $this->who . \"?\"; }\n    static function version() { return \"greeter v2\"; }\n}\n",
		"<?php\nnamespace App;\n\nclass Greeter {\n    private $who;\n    public $n = 0;\n    function __construct($who) { $this->who = strtoupper($who); $this->n = strlen($who); }\n    function greet() { return \"Goodbye, \" . $this->who . \"#\" . $this->n; }\n    static function version() { return \"greeter v0\"; }\n}\n",
	}},
	"X": {rel: "sub/Extra.php", gen: "ast_src_sub_extra.go", revs: []string{
		"<?php\nfunction extra_tag($n) { return \"extra r0 x\" . ($n * 2); }\necho \"extra loaded r0\\n\";\n",
		"<?php\nfunction extra_tag($n) { return \"extra r1 y\" . ($n * 3); }\necho \"extra loaded r1\\n\";\n",
		"<?php\nfunction extra_tag($n) { $r = []; for ($i = 0; $i < $n; $i++) { $r[] = $i * $i; } return \"extra r2 \" . implode(\",\", $r); }\n",
	}},
}

// File-name alphabet: the compile command maps every source path to one Go identifier and one Go file
// name inside a single flat package. Names that differ only in case, in _ / - versus camel case, or in
// characters that cannot appear in an identifier are the interesting neighbours.
var hnamesQuick = []string{"Lib.php", "lib.php", "user_login.php", "UserLogin.php", "user-login.php", "a.b.php", "ab.php", "sub/x.php", "sub_x.php"}
var hnamesMore = []string{"userLogin.php", "userlogin.php", "sub/X.php", "subX.php", "Sub/x.php", "x.inc.php", "xinc.php", "ete\u0301.php", "sub/sub/x.php", "sub_sub/x.php"}

func nameSources(names []string) map[string]string {
	m := map[string]string{"index.php": "<?php\necho \"names \", nm_a(), \"|\", nm_b(), \"\\n\";\n"}
	for i, n := range names {
		m[n] = fmt.Sprintf("<?php\nfunction nm_%c() { return \"%c from %s\"; }\n", 'a'+i, 'A'+i, n)
	}
	return m
}

func stateSrcs(st hstate) map[string]string {
	m := map[string]string{}
	for _, k := range hfileOrder {
		if r := st.rev[k]; r >= 0 && r != brokenRev {
			m[hfiles[k].rel] = hfiles[k].revs[r]
		}
	}
	return m
}

const hBroken = "<?php\nfunction lib_tag( { return ;\n"

var (
	hOld  = time.Date(2021, 3, 4, 5, 6, 7, 0, time.UTC)  // "restored from a backup"
	hBase = time.Date(2024, 1, 1, 0, 0, 0, 0, time.UTC) // the initial sources: older than anything generated
)

// hstate is the abstract project state: which revision of each file is on disk, and the --pkg in force.
type hstate struct {
	rev map[string]int // -1 absent
	pkg string         // "" (default "build") | "alt"
}

func (s hstate) clone() hstate {
	r := map[string]int{}
	for k, v := range s.rev {
		r[k] = v
	}
	return hstate{rev: r, pkg: s.pkg}
}

func (s hstate) key() string {
	var b strings.Builder
	for _, f := range hfileOrder {
		if s.rev[f] < 0 {
			fmt.Fprintf(&b, "%s-", f)
		} else {
			fmt.Fprintf(&b, "%s%d", f, s.rev[f])
		}
	}
	if s.pkg != "" {
		b.WriteString("/pkg=" + s.pkg)
	}
	return b.String()
}

func initState(x bool) hstate {
	s := hstate{rev: map[string]int{"E": 0, "L": 0, "C": 0, "X": -1}}
	if x {
		s.rev["X"] = 0
	}
	return s
}

type hbound struct {
	depth       int
	legacyDepth int
	touchSteps  int      // touch ops are in the alphabet of the first touchSteps steps only
	names       []string // file-name alphabet (all unordered pairs)
}

// applicable lists the alphabet in a state, in a fixed order.
func applicable(s hstate, b hbound, step int) []hop {
	var ops []hop
	modes := []string{"old", "keep", "gen", "new"}
	for _, f := range hfileOrder {
		cur := s.rev[f]
		if cur < 0 {
			continue
		}
		for r := range hfiles[f].revs {
			if r == cur {
				continue
			}
			for _, m := range modes {
				ops = append(ops, hop{Kind: "edit", File: f, Rev: r, Mode: m})
			}
		}
		if step < b.touchSteps && cur != brokenRev {
			for _, m := range []string{"old", "new"} {
				ops = append(ops, hop{Kind: "touch", File: f, Mode: m})
			}
		}
	}
	if s.rev["X"] >= 0 {
		ops = append(ops, hop{Kind: "del", File: "X"})
	} else {
		for r := range hfiles["X"].revs {
			for _, m := range []string{"old", "new"} {
				ops = append(ops, hop{Kind: "add", File: "X", Rev: r, Mode: m})
			}
		}
	}
	ops = append(ops, hop{Kind: "noop"}, hop{Kind: "repkg"})
	if s.rev["L"] != brokenRev {
		for _, m := range []string{"old", "new"} {
			ops = append(ops, hop{Kind: "break", File: "L", Mode: m})
		}
	}
	return ops
}

// ---- execution on disk -------------------------------------------------------------------------

type hworker struct {
	root string
	cli  string
	st   hstate
	n    int64 // compile invocations
}

func (w *hworker) p(elem ...string) string { return filepath.Join(append([]string{w.root}, elem...)...) }

func (w *hworker) compile(outdir string) (bool, string) {
	args := []string{"compile", "src", "-o", outdir, "--entry", "src/index.php"}
	if w.st.pkg != "" {
		args = append(args, "--pkg", w.st.pkg)
	}
	w.n++
	o, err := sh(w.root, nil, w.cli, args...)
	return err == nil, o
}

func (w *hworker) genTime(f *hfile) time.Time {
	if fi, err := os.Stat(w.p("out", f.gen)); err == nil {
		return fi.ModTime()
	}
	var newest time.Time
	ms, _ := filepath.Glob(w.p("out", "*"))
	for _, m := range ms {
		if fi, err := os.Stat(m); err == nil && fi.ModTime().After(newest) {
			newest = fi.ModTime()
		}
	}
	if newest.IsZero() {
		newest = time.Now()
	}
	return newest
}

func (w *hworker) write(f *hfile, content string, mt time.Time) error {
	p := w.p("src", f.rel)
	if err := os.MkdirAll(filepath.Dir(p), 0o755); err != nil {
		return err
	}
	if err := os.WriteFile(p, []byte(content), 0o644); err != nil {
		return err
	}
	return os.Chtimes(p, mt, mt)
}

func (w *hworker) apply(op hop) error {
	switch op.Kind {
	case "edit", "add", "break", "touch":
		f := hfiles[op.File]
		p := w.p("src", f.rel)
		prev := hOld
		var cur []byte
		if fi, err := os.Stat(p); err == nil {
			prev = fi.ModTime()
			cur, _ = os.ReadFile(p)
		}
		var mt time.Time
		switch op.Mode {
		case "old":
			mt = hOld
		case "keep":
			mt = prev
		case "gen":
			mt = w.genTime(f)
		default:
			mt = w.genTime(f).Add(time.Second)
		}
		content := string(cur)
		switch op.Kind {
		case "edit", "add":
			content = f.revs[op.Rev]
			w.st.rev[op.File] = op.Rev
		case "break":
			content = hBroken
			w.st.rev[op.File] = brokenRev
		}
		return w.write(f, content, mt)
	case "del":
		f := hfiles[op.File]
		w.st.rev[op.File] = -1
		if err := os.Remove(w.p("src", f.rel)); err != nil {
			return err
		}
		os.Remove(filepath.Dir(w.p("src", f.rel))) // the now empty sub directory
	case "repkg":
		if w.st.pkg == "" {
			w.st.pkg = "alt"
		} else {
			w.st.pkg = ""
		}
	case "noop":
	default:
		return fmt.Errorf("unknown op %q", op.Kind)
	}
	return nil
}

// canonical content of a directory: relative name -> bytes, the scratch root spelled $ROOT.
func (w *hworker) readTree(dir string) map[string]string {
	m := map[string]string{}
	base := w.p(dir)
	filepath.WalkDir(base, func(p string, d fs.DirEntry, err error) error {
		if err != nil || d.IsDir() {
			return nil
		}
		b, _ := os.ReadFile(p)
		rel, _ := filepath.Rel(base, p)
		m[rel] = strings.ReplaceAll(string(b), w.root, "$ROOT")
		if strings.HasSuffix(rel, ".go") {
			m[rel] = canonGo(m[rel])
		}
		return nil
	})
	return m
}

type freshRes struct {
	once  sync.Once
	ok    bool
	diag  string
	files map[string]string
}

var freshCache sync.Map // state key -> *freshRes

// fresh = what a compile of the current sources into an empty directory produces (depends on the
// state only, so it is computed once per state).
func (w *hworker) fresh() *freshRes {
	v, _ := freshCache.LoadOrStore(w.st.key(), &freshRes{})
	fr := v.(*freshRes)
	fr.once.Do(func() {
		os.RemoveAll(w.p("fresh"))
		fr.ok, fr.diag = w.compile("fresh")
		if fr.ok {
			fr.files = w.readTree("fresh")
		}
		os.RemoveAll(w.p("fresh"))
	})
	return fr
}

// legacyFrom builds what the old single-file layout left behind for the same sources.
func legacyFrom(files map[string]string) map[string]string {
	out := map[string]string{}
	imports := map[string]bool{}
	var names, bodies []string
	for n := range files {
		names = append(names, n)
	}
	sort.Strings(names)
	pkg := "build"
	for _, n := range names {
		c := files[n]
		if !strings.HasPrefix(n, "ast_") {
			out[n] = c
			continue
		}
		i := strings.Index(c, "import (\n")
		j := strings.Index(c, "\n)\n")
		if i < 0 || j < i {
			continue
		}
		if f := strings.Fields(c[:i]); len(f) >= 2 {
			pkg = f[1]
		}
		for _, l := range strings.Split(c[i+len("import (\n"):j], "\n") {
			if strings.TrimSpace(l) != "" {
				imports[l] = true
			}
		}
		bodies = append(bodies, strings.TrimLeft(c[j+3:], "\n"))
	}
	var imps []string
	for l := range imports {
		imps = append(imps, l)
	}
	sort.Strings(imps)
	out["vendor_ast.go"] = "package " + pkg + "\n\nimport (\n" + strings.Join(imps, "\n") + "\n)\n\n" + strings.Join(bodies, "\n")
	return out
}

func (w *hworker) reset(h hist) error {
	os.RemoveAll(w.p("src"))
	os.RemoveAll(w.p("out"))
	os.RemoveAll(w.p("fresh"))
	w.st = initState(h.X)
	for _, k := range hfileOrder {
		if r := w.st.rev[k]; r >= 0 {
			if err := w.write(hfiles[k], hfiles[k].revs[r], hBase); err != nil {
				return err
			}
		}
	}
	if h.Init == "legacy" {
		fr := w.fresh()
		if !fr.ok {
			return fmt.Errorf("the initial project does not compile: %s", lastLines(fr.diag, 4))
		}
		os.MkdirAll(w.p("out"), 0o755)
		for n, c := range legacyFrom(fr.files) {
			if err := os.WriteFile(w.p("out", n), []byte(strings.ReplaceAll(c, "$ROOT", w.root)), 0o644); err != nil {
				return err
			}
		}
	}
	return nil
}

type hsnapFile struct {
	rel  string
	data []byte
	mt   time.Time
}
type hsnap struct {
	files []hsnapFile
	st    hstate
}

func (w *hworker) capture() *hsnap {
	s := &hsnap{st: w.st.clone()}
	for _, d := range []string{"src", "out"} {
		filepath.WalkDir(w.p(d), func(p string, e fs.DirEntry, err error) error {
			if err != nil || e.IsDir() {
				return nil
			}
			fi, err := e.Info()
			if err != nil {
				return nil
			}
			b, _ := os.ReadFile(p)
			rel, _ := filepath.Rel(w.root, p)
			s.files = append(s.files, hsnapFile{rel, b, fi.ModTime()})
			return nil
		})
	}
	return s
}

func (w *hworker) restore(s *hsnap) error {
	os.RemoveAll(w.p("src"))
	os.RemoveAll(w.p("out"))
	w.st = s.st.clone()
	for _, f := range s.files {
		p := w.p(f.rel)
		os.MkdirAll(filepath.Dir(p), 0o755)
		if err := os.WriteFile(p, f.data, 0o644); err != nil {
			return err
		}
		if err := os.Chtimes(p, f.mt, f.mt); err != nil {
			return err
		}
	}
	return nil
}

// hres is what one history ended in.
type hres struct {
	H     hist
	State string
	OkH   bool   // the last compile of the history succeeded
	OkF   bool   // a fresh compile of the same sources succeeds
	DiagH string // output of the last compile of the history
	Same  bool   // output directory identical to the fresh one
	SameG bool   // ... at least its *.go files are
	Diff  string
	Class string // identifies (content of the output directory, final sources)
	Err   string // machinery problem
	NGen  int    // file-name cases: number of ast_*.go files generated
}

type hclass struct {
	key     string
	st      hstate
	srcs    map[string]string // the final sources, relative to src/
	files   map[string]string
	same    bool // identical to the fresh compile of st
	example hist
	n       int
}

type hregistry struct {
	mu      sync.Mutex
	classes map[string]*hclass
}

func classKey(files map[string]string, srcKey string) string {
	var names []string
	for n := range files {
		names = append(names, n)
	}
	sort.Strings(names)
	h := sha256.New()
	for _, n := range names {
		fmt.Fprintf(h, "%s\x00%d\x00%s\x00", n, len(files[n]), files[n])
	}
	fmt.Fprintf(h, "|%s", srcKey)
	return hex.EncodeToString(h.Sum(nil))[:20]
}

func goFiles(m map[string]string) map[string]string {
	g := map[string]string{}
	for n, c := range m {
		if strings.HasSuffix(n, ".go") {
			g[n] = c
		}
	}
	return g
}

func diffTrees(d, f map[string]string) string {
	var only1, only2, differ []string
	for n := range d {
		if _, ok := f[n]; !ok {
			only1 = append(only1, n)
		} else if d[n] != f[n] {
			differ = append(differ, n)
		}
	}
	for n := range f {
		if _, ok := d[n]; !ok {
			only2 = append(only2, n)
		}
	}
	sort.Strings(only1)
	sort.Strings(only2)
	sort.Strings(differ)
	var s []string
	if len(differ) > 0 {
		s = append(s, "content differs: "+strings.Join(differ, " "))
	}
	if len(only1) > 0 {
		s = append(s, "only in the reused directory: "+strings.Join(only1, " "))
	}
	if len(only2) > 0 {
		s = append(s, "missing from the reused directory: "+strings.Join(only2, " "))
	}
	return strings.Join(s, "; ")
}

// observe compares the output directory with the fresh compile of the current sources.
func (w *hworker) observe(h hist, okH bool, diagH string, reg *hregistry) hres {
	r := hres{H: hist{Init: h.Init, X: h.X, Ops: append([]hop(nil), h.Ops...)}, State: w.st.key(), OkH: okH, DiagH: lastLines(diagH, 4)}
	fr := w.fresh()
	r.OkF = fr.ok
	if !okH || !fr.ok {
		return r
	}
	d := w.readTree("out")
	r.Diff = diffTrees(d, fr.files)
	r.Same = r.Diff == ""
	// what is built and run is the Go package in the directory: directories with the same *.go files and the
	// same final sources are one case of the behavioural stage (a cache manifest or the go.mod may differ)
	dg, fg := goFiles(d), goFiles(fr.files)
	r.Class = classKey(dg, w.st.key())
	r.SameG = diffTrees(dg, fg) == ""
	reg.mu.Lock()
	cl := reg.classes[r.Class]
	if cl == nil {
		cl = &hclass{key: r.Class, st: w.st.clone(), srcs: stateSrcs(w.st), files: dg, same: r.SameG, example: r.H}
		reg.classes[r.Class] = cl
	} else if len(r.H.Ops) < len(cl.example.Ops) {
		cl.example = r.H
	}
	cl.n++
	reg.mu.Unlock()
	return r
}

// runLinear executes one history from scratch (replay, and the reference for the tree walk).
func (w *hworker) runLinear(h hist, reg *hregistry) hres {
	if len(h.Names) > 0 {
		return w.runNames(h, reg)
	}
	if err := w.reset(h); err != nil {
		return hres{H: h, Err: err.Error()}
	}
	ok, diag := w.compile("out")
	for _, op := range h.Ops {
		if err := w.apply(op); err != nil {
			return hres{H: h, Err: err.Error()}
		}
		ok, diag = w.compile("out")
	}
	return w.observe(h, ok, diag, reg)
}

// runNames: one compile of the two-library project with the given file names into an empty directory.
func (w *hworker) runNames(h hist, reg *hregistry) hres {
	os.RemoveAll(w.p("src"))
	os.RemoveAll(w.p("out"))
	w.st = hstate{rev: map[string]int{}}
	srcs := nameSources(h.Names)
	for n, c := range srcs {
		p := w.p("src", n)
		os.MkdirAll(filepath.Dir(p), 0o755)
		if err := os.WriteFile(p, []byte(c), 0o644); err != nil {
			return hres{H: h, Err: err.Error()}
		}
	}
	ok, diag := w.compile("out")
	r := hres{H: h, State: "names:" + strings.Join(h.Names, "|"), OkH: ok, OkF: ok, DiagH: lastLines(diag, 4), Same: true, SameG: true}
	if !ok {
		return r
	}
	dg := goFiles(w.readTree("out"))
	for n := range dg {
		if strings.HasPrefix(n, "ast_") {
			r.NGen++
		}
	}
	r.Class = classKey(dg, r.State)
	reg.mu.Lock()
	if reg.classes[r.Class] == nil {
		reg.classes[r.Class] = &hclass{key: r.Class, srcs: srcs, files: dg, same: true, example: h}
	}
	reg.classes[r.Class].n++
	reg.mu.Unlock()
	return r
}

// explore walks the history tree below the current on-disk state (depth first, restoring a snapshot
// of sources + output directory + mtimes before every sibling): one compile per history.
func (w *hworker) explore(h hist, b hbound, depth int, reg *hregistry, emit func(hres)) {
	if len(h.Ops) >= depth {
		return
	}
	sn := w.capture()
	for _, op := range applicable(w.st, b, len(h.Ops)) {
		if err := w.restore(sn); err != nil {
			emit(hres{H: h, Err: err.Error()})
			return
		}
		h2 := hist{Init: h.Init, X: h.X, Ops: append(append([]hop(nil), h.Ops...), op)}
		if err := w.apply(op); err != nil {
			emit(hres{H: h2, Err: err.Error()})
			continue
		}
		ok, diag := w.compile("out")
		emit(w.observe(h2, ok, diag, reg))
		w.explore(h2, b, depth, reg, emit)
	}
}

// ---- behavioural stage ---------------------------------------------------------------------------

const histRunnerSrc = `package main

import (
	"encoding/json"
	"fmt"
	"os"
	"regexp"

	"github.com/php-any/origami/data"
	"verif/engine/runner"
)

type hcase struct {
	ID         string
	Reg        func(data.VM)
	EntryConst string
	Entry      string
	Libs       []string
}

type obsv struct {
	Out   string ` + "`json:\"out\"`" + `
	Kind  string ` + "`json:\"kind\"`" + `
	Class string ` + "`json:\"class,omitempty\"`" + `
	Msg   string ` + "`json:\"msg,omitempty\"`" + `
	Exit  int    ` + "`json:\"exit,omitempty\"`" + `
}

var reAddr = regexp.MustCompile("0x[0-9a-f]{6,}")

func reduce(r runner.Result) obsv {
	o := obsv{Out: r.Out, Kind: r.Kind, Class: r.Class, Msg: r.Msg, Exit: r.ExitCode}
	if r.Kind == "panic" {
		o.Msg = r.PanicKey
	}
	o.Msg = reAddr.ReplaceAllString(o.Msg, "0xADDR")
	return o
}

// what the generated main.go does after Register(vm): vm.RunCompiledFile(EntryPath)
type tramp struct {
	vm   data.VM
	path string
}

func (t *tramp) GetValue(ctx data.Context) (data.GetValue, data.Control) {
	return t.vm.RunCompiledFile(t.path)
}

func main() {
	enc := json.NewEncoder(os.Stdout)
	for _, k := range cases {
		k := k
		t := &tramp{path: k.EntryConst}
		c := runner.RunCompiled("/c16-hist/main.php", func() (data.GetValue, []data.Variable) { return t, nil }, runner.Opts{Fuel: 2000000, Setup: func(vm data.VM) {
			t.vm = vm
			k.Reg(vm)
		}})
		i := runner.Run("", runner.Opts{Mode: runner.Template, File: k.Entry, Fuel: 2000000, Setup: func(vm data.VM) {
			for _, l := range k.Libs {
				vm.LoadAndRun(l)
			}
		}})
		fmt.Print("@@C16@@")
		enc.Encode(map[string]any{"id": k.ID, "compiled": reduce(c), "interp": reduce(i)})
	}
	runner.Cleanup()
}
`

type hbres struct {
	built    bool
	buildErr string
	compiled obsv
	interp   obsv
	ran      bool
}

// lines of `go build` output that blame one directory of the history module: a compile error inside
// the package, a missing Register / EntryPath seen from the table, mixed package clauses, no Go files
var reClassBlame = []*regexp.Regexp{
	regexp.MustCompile(`^(?:\./)?q(\d{4})/\S+\.go:\d+:\d+:`),
	regexp.MustCompile(`^\./zz_table\.go:\d+:\d+:.*\bq(\d{4})\.`),
	regexp.MustCompile(`found packages .*/q(\d{4})\b`),
	regexp.MustCompile(`(?:package|imports) main/q(\d{4})\b`),
}

// behave builds every class as a package of one module and runs it compiled and interpreted.
func behave(classes []*hclass, repo, overlay string) (map[string]*hbres, string) {
	res := map[string]*hbres{}
	if len(classes) == 0 {
		return res, ""
	}
	m, err := os.MkdirTemp("/dev/shm", "c16-hb-")
	if err != nil {
		return res, err.Error()
	}
	defer os.RemoveAll(m)
	type pc struct {
		name, entry string
		libs        []string
		cl          *hclass
	}
	var live []*pc
	byName := map[string]*pc{}
	for i, cl := range classes {
		c := &pc{name: fmt.Sprintf("q%04d", i), cl: cl}
		res[cl.key] = &hbres{built: true}
		croot := filepath.Join(m, "cases", c.name)
		for n, content := range cl.srcs {
			p := filepath.Join(croot, "src", n)
			os.MkdirAll(filepath.Dir(p), 0o755)
			os.WriteFile(p, []byte(content), 0o644)
		}
		c.entry = filepath.Join(croot, "src", "index.php")
		// non-entry files in the order the compile command (and its Register()) visits them
		filepath.WalkDir(filepath.Join(croot, "src"), func(p string, d fs.DirEntry, err error) error {
			if err == nil && !d.IsDir() && strings.HasSuffix(strings.ToLower(p), ".php") && p != c.entry {
				c.libs = append(c.libs, p)
			}
			return nil
		})
		os.MkdirAll(filepath.Join(m, c.name), 0o755)
		for n, content := range cl.files {
			if !strings.HasSuffix(n, ".go") || strings.Contains(n, "/") {
				continue // go.mod is replaced by the harness's module, as in the batch runner
			}
			os.WriteFile(filepath.Join(m, c.name, n), []byte(strings.ReplaceAll(content, "$ROOT", croot)), 0o644)
		}
		live = append(live, c)
		byName[c.name] = c
	}
	gomod := fmt.Sprintf("module main\n\ngo 1.25.0\n\nrequire (\n\tgithub.com/php-any/origami v0.0.0\n\tverif v0.0.0\n)\n\nreplace github.com/php-any/origami => %s\n\nreplace verif => %s\n", repo, ev.Root)
	os.WriteFile(filepath.Join(m, "go.mod"), []byte(gomod), 0o644)
	sum, _ := os.ReadFile(filepath.Join(ev.Root, "go.sum"))
	os.WriteFile(filepath.Join(m, "go.sum"), sum, 0o644)
	os.WriteFile(filepath.Join(m, "zz_runner.go"), []byte(histRunnerSrc), 0o644)
	bin := filepath.Join(m, "histbatch")
	for attempt := 0; ; attempt++ {
		var tb strings.Builder
		tb.WriteString("package main\n\nimport (\n")
		for _, c := range live {
			fmt.Fprintf(&tb, "\t%s \"main/%s\"\n", c.name, c.name)
		}
		tb.WriteString(")\n\nvar cases = []hcase{\n")
		for _, c := range live {
			fmt.Fprintf(&tb, "\t{%q, %s.Register, %s.EntryPath, %q, %#v},\n", c.cl.key, c.name, c.name, c.entry, c.libs)
		}
		tb.WriteString("}\n")
		os.WriteFile(filepath.Join(m, "zz_table.go"), []byte(tb.String()), 0o644)
		if len(live) == 0 {
			return res, ""
		}
		o, err := sh(m, []string{"GOFLAGS=-mod=mod", "GOPROXY=off"}, "go", "build", "-overlay", overlay, "-o", bin, ".")
		if err == nil {
			break
		}
		// a directory that does not build (as a package, or seen from the table that uses its
		// Register / EntryPath) is an observation about that directory; drop it and build the rest
		bad := map[string][]string{}
		for _, l := range strings.Split(o, "\n") {
			for _, re := range reClassBlame {
				if mm := re.FindStringSubmatch(l); mm != nil && byName["q"+mm[1]] != nil {
					bad["q"+mm[1]] = append(bad["q"+mm[1]], strings.ReplaceAll(l, m, ""))
					break
				}
			}
		}
		if len(bad) == 0 || attempt > len(classes) {
			return res, "go build of the history module failed without naming a directory: " + lastLines(o, 12)
		}
		var keep []*pc
		for _, c := range live {
			if ls, ok := bad[c.name]; ok {
				if len(ls) > 6 {
					ls = ls[:6]
				}
				res[c.cl.key].built = false
				res[c.cl.key].buildErr = strings.Join(ls, "\n")
				os.RemoveAll(filepath.Join(m, c.name))
			} else {
				keep = append(keep, c)
			}
		}
		live = keep
	}
	o, err := sh(m, nil, bin)
	n := 0
	for _, l := range strings.Split(o, "\n") {
		if i := strings.Index(l, "@@C16@@"); i >= 0 {
			var r result
			if json.Unmarshal([]byte(l[i+7:]), &r) == nil && res[r.ID] != nil {
				res[r.ID].compiled, res[r.ID].interp, res[r.ID].ran = r.Compiled, r.Interp, true
				n++
			}
		}
	}
	if err != nil || n != len(live) {
		return res, fmt.Sprintf("history runner produced %d of %d results (%v): %s", n, len(live), err, lastLines(o, 8))
	}
	return res, ""
}

// ---- driver ----------------------------------------------------------------------------------------

type histOut struct {
	results  []hres
	classes  map[string]*hclass
	beh      map[string]*hbres
	compiles int64
	err      string
	capped   int
	enumWall float64 // seconds spent enumerating histories (compiles + byte comparison)
	behWall  float64 // seconds spent building and running the distinct directories
}

const maxSuspectClasses = 100

// runHistories enumerates every history inside the bound (or runs the given ones from scratch).
func runHistories(explicit []hist, b hbound, cli, repo, overlay string, workers int) histOut {
	var ho histOut
	base, err := os.MkdirTemp("/dev/shm", "c16-h-")
	if err != nil {
		ho.err = err.Error()
		return ho
	}
	defer os.RemoveAll(base)
	reg := &hregistry{classes: map[string]*hclass{}}
	t0 := time.Now()
	type task struct {
		h     hist
		whole bool // run h from scratch and stop (replay); otherwise h is a root whose subtree is walked
		depth int
	}
	var tasks []task
	if explicit != nil {
		for _, h := range explicit {
			tasks = append(tasks, task{h: h, whole: true})
		}
	} else {
		for _, init := range []struct {
			name  string
			x     bool
			depth int
		}{{"fresh", false, b.depth}, {"fresh", true, b.depth}, {"legacy", true, b.legacyDepth}} {
			root := hist{Init: init.name, X: init.x}
			tasks = append(tasks, task{h: root, whole: true})
			if init.depth < 1 {
				continue
			}
			// one task per first op: the subtrees are independent and of similar size
			for _, op := range applicable(initState(init.x), b, 0) {
				tasks = append(tasks, task{h: hist{Init: init.name, X: init.x, Ops: []hop{op}}, depth: init.depth})
			}
		}
	}
	if explicit == nil {
		for i, a := range b.names {
			for _, bn := range b.names[i+1:] {
				tasks = append(tasks, task{h: hist{Names: []string{a, bn}}, whole: true})
			}
		}
	}
	ch := make(chan task)
	var mu sync.Mutex
	var wg sync.WaitGroup
	emit := func(r hres) {
		mu.Lock()
		ho.results = append(ho.results, r)
		mu.Unlock()
	}
	for i := 0; i < workers; i++ {
		wg.Add(1)
		go func(i int) {
			defer wg.Done()
			w := &hworker{root: filepath.Join(base, fmt.Sprintf("w%02d", i)), cli: cli}
			os.MkdirAll(w.root, 0o755)
			for t := range ch {
				r := w.runLinear(t.h, reg)
				emit(r)
				if !t.whole && r.Err == "" {
					w.explore(t.h, b, t.depth, reg, emit)
				}
			}
			mu.Lock()
			ho.compiles += w.n
			mu.Unlock()
		}(i)
	}
	for _, t := range tasks {
		ch <- t
	}
	close(ch)
	wg.Wait()
	ho.enumWall = time.Since(t0).Seconds()
	sort.Slice(ho.results, func(i, j int) bool {
		a, b := ho.results[i].H, ho.results[j].H
		if len(a.Ops) != len(b.Ops) {
			return len(a.Ops) < len(b.Ops)
		}
		return a.String() < b.String()
	})
	for _, r := range ho.results {
		if r.Err != "" {
			ho.err = "history " + r.H.String() + ": " + r.Err
			return ho
		}
	}
	// classes: all that equal a fresh compile, and the smallest-history ones of the others up to a cap
	ho.classes = reg.classes
	var same, suspect []*hclass
	for _, cl := range reg.classes {
		if cl.same {
			same = append(same, cl)
		} else {
			suspect = append(suspect, cl)
		}
	}
	byExample := func(s []*hclass) {
		sort.Slice(s, func(i, j int) bool {
			if len(s[i].example.Ops) != len(s[j].example.Ops) {
				return len(s[i].example.Ops) < len(s[j].example.Ops)
			}
			if a, b := s[i].example.String(), s[j].example.String(); a != b {
				return a < b
			}
			return s[i].key < s[j].key
		})
	}
	byExample(same)
	byExample(suspect)
	if len(suspect) > maxSuspectClasses {
		ho.capped = len(suspect) - maxSuspectClasses
		suspect = suspect[:maxSuspectClasses]
	}
	var berr string
	t1 := time.Now()
	ho.beh, berr = behave(append(same, suspect...), repo, overlay)
	ho.behWall = time.Since(t1).Seconds()
	if berr != "" {
		ho.err = berr
	}
	return ho
}

func stateSources(key string) string {
	var b strings.Builder
	for _, k := range hfileOrder {
		i := strings.Index(key, k)
		if i < 0 || i+1 >= len(key) || key[i+1] == '-' {
			continue
		}
		r := int(key[i+1] - '0')
		if r >= 0 && r < len(hfiles[k].revs) {
			fmt.Fprintf(&b, "--- src/%s (r%d)\n%s", hfiles[k].rel, r, hfiles[k].revs[r])
		}
	}
	return b.String()
}

// judgeHistories turns the observations into outcomes and findings.
func judgeHistories(c *ev.Check, ho histOut) (states int64) {
	type failing struct {
		r      hres
		clause string
		what   string
		detail string
	}
	var fails []failing
	for _, r := range ho.results {
		states++
		if len(r.H.Names) > 0 {
			// file-name case: one fresh compile; a rejection must carry a diagnostic, an accepted project
			// must build and behave like the interpreted sources
			var srcs strings.Builder
			for n, s := range nameSources(r.H.Names) {
				fmt.Fprintf(&srcs, "--- src/%s\n%s", n, s)
			}
			sig := "distinct-generated-files"
			if r.NGen < len(r.H.Names)+1 {
				sig = "same-generated-file"
			}
			cs := item{ID: "names/" + sig, Hist: &hist{Names: r.H.Names}}
			b := ho.beh[r.Class]
			switch {
			case !r.OkH:
				c.Outcome("names:rejected")
				if strings.TrimSpace(r.DiagH) == "" {
					c.Fail("silent-reject:names/"+sig, "reported-compile-error", len(r.State), cs, "the compile command failed without a diagnostic on "+r.H.String())
				}
			case b == nil || (b.built && !b.ran):
			case !b.built:
				c.Outcome("names:" + sig + "/does-not-build")
				c.Fail("generated-code-does-not-compile:names/"+sig, "reported-compile-error", len(r.State), cs,
					fmt.Sprintf("%s: accepted (%d source files -> %d generated ast_*.go files), but the generated package does not build:\n%s\n%s", r.H.String(), len(r.H.Names)+1, r.NGen, b.buildErr, srcs.String()))
			case b.compiled != b.interp:
				c.Outcome("names:" + sig + "/behaviour-differs")
				clause := "diagnostic"
				switch {
				case b.compiled.Kind != b.interp.Kind || b.compiled.Exit != b.interp.Exit:
					clause = "outcome"
				case b.compiled.Out != b.interp.Out:
					clause = "stdout"
				}
				cb, _ := json.Marshal(b.compiled)
				ib, _ := json.Marshal(b.interp)
				c.Fail(clause+":names/"+sig, "compiled-equals-interpreted", len(r.State), cs,
					fmt.Sprintf("%s: accepted, %d source files -> %d generated ast_*.go files\ninterpreted: %s\ncompiled:    %s\n%s", r.H.String(), len(r.H.Names)+1, r.NGen, ib, cb, srcs.String()))
			default:
				c.Outcome("names:" + sig + "/behaviour-equal")
			}
			continue
		}
		switch {
		case r.OkH != r.OkF:
			c.Outcome("hist:accept-mismatch")
			cl, what := "silent-accept", "the compile into the reused directory succeeded although a compile of the same sources into an empty directory is rejected"
			if !r.OkH {
				cl, what = "spurious-reject", "the compile into the reused directory failed although the same sources compile into an empty directory:\n"+r.DiagH
			}
			fails = append(fails, failing{r, cl, "reported-compile-error", what})
		case !r.OkH:
			c.Outcome("hist:both-reject")
			if strings.TrimSpace(r.DiagH) == "" {
				fails = append(fails, failing{r, "silent-reject", "reported-compile-error", "the compile command failed without a diagnostic"})
			}
		default:
			b := ho.beh[r.Class]
			if b == nil {
				c.Outcome("hist:bytes-differ/not-run(cap)")
				continue
			}
			tag := "hist:identical-to-fresh"
			if !r.SameG {
				tag = "hist:bytes-differ"
			} else if !r.Same {
				tag = "hist:go-files-identical-to-fresh"
			}
			switch {
			case !b.built:
				c.Outcome(tag + "/does-not-build")
				fails = append(fails, failing{r, "generated-code-does-not-compile", "reported-compile-error", "the output directory does not build:\n" + b.buildErr})
			case !b.ran:
				continue
			case b.compiled != b.interp:
				c.Outcome(tag + "/behaviour-differs")
				clause := "diagnostic"
				switch {
				case b.compiled.Kind != b.interp.Kind || b.compiled.Exit != b.interp.Exit:
					clause = "outcome"
				case b.compiled.Out != b.interp.Out:
					clause = "stdout"
				}
				cb, _ := json.Marshal(b.compiled)
				ib, _ := json.Marshal(b.interp)
				fails = append(fails, failing{r, clause, "compiled-equals-interpreted", fmt.Sprintf("interpreted: %s\ncompiled:    %s", ib, cb)})
			default:
				c.Outcome(tag + "/behaviour-equal/" + b.interp.Kind)
			}
		}
	}
	// reduction to finding keys. A failing history is reduced to the sequence of its op classes
	// (edit-not-newer, edit-newer, add-*, delete, recompile, change-pkg, break, touch; "legacy-outdir" in front
	// for the legacy initial directory); the enumeration is closed under dropping steps, so a failing class
	// sequence that contains a shorter failing one as a subsequence is explained by it and not reported
	// again. The kind of divergence (stdout / outcome / diagnostic) is not part of the key: the root
	// cause of a history finding is what the reused directory holds, not how the program shows it.
	type group struct {
		kinds []string
		typ   string
		fs    []failing
	}
	groups := map[string]*group{}
	var order []*group
	for _, f := range fails {
		if f.r.SameG && f.r.OkH && f.r.OkF {
			// the directory equals a fresh compile: the project state itself is mistranslated, no history needed
			c.Fail(f.clause+":hist/project", f.what, 0, item{ID: "hist/project/" + f.r.State, Hist: &f.r.H},
				fmt.Sprintf("project state %s, already wrong when compiled into an empty directory\n%s\n%s", f.r.State, f.detail, stateSources(f.r.State)))
			continue
		}
		var kinds []string
		if f.r.H.Init != "fresh" {
			kinds = append(kinds, f.r.H.Init+"-outdir")
		}
		for _, o := range f.r.H.Ops {
			kinds = append(kinds, o.kind())
		}
		typ := "reused-outdir"
		switch f.clause {
		case "silent-accept", "spurious-reject", "silent-reject":
			typ = "reused-outdir-" + f.clause
		case "generated-code-does-not-compile":
			typ = "reused-outdir-does-not-build"
		}
		k := typ + ":" + strings.Join(kinds, "+")
		g := groups[k]
		if g == nil {
			g = &group{kinds: kinds, typ: typ}
			groups[k] = g
			order = append(order, g)
		}
		g.fs = append(g.fs, f)
	}
	sort.SliceStable(order, func(i, j int) bool { return len(order[i].kinds) < len(order[j].kinds) })
	subseq := func(a, b []string) bool {
		i := 0
		for _, x := range b {
			if i < len(a) && a[i] == x {
				i++
			}
		}
		return i == len(a)
	}
	var minimal []*group
	for _, g := range order {
		explained := false
		for _, m := range minimal {
			if len(m.kinds) < len(g.kinds) && subseq(m.kinds, g.kinds) {
				explained = true
				break
			}
		}
		if !explained {
			minimal = append(minimal, g)
		}
	}
	c.Set("histories_failing", len(fails))
	for _, g := range minimal {
		name := strings.Join(g.kinds, "+")
		if name == "" {
			name = "first-compile"
		}
		for _, f := range g.fs {
			c.Fail(g.typ+":"+name, f.what, len(f.r.H.Ops), item{ID: "hist/" + name, Hist: &f.r.H},
				fmt.Sprintf("history: %s\nfinal sources: %s\noutput directory vs a fresh compile of the final sources: %s\n%s\n%s",
					f.r.H.String(), f.r.State, orStr(f.r.Diff, "identical"), f.detail, stateSources(f.r.State)))
		}
	}
	return states
}

func orStr(a, b string) string {
	if a == "" {
		return b
	}
	return a
}
