package main

import (
	"fmt"
	"strings"
)

// A callback of the pool: origami source plus the same function in Go. Every callback echoes
// the arguments it uses (trace), so the oracle also sees *what was passed* (element, index, array).
type callback struct {
	ID    string
	Arity string // shape class: "cb(e)", "cb(e,i)", "cb(e,i,a)", "cb($this)"
	Kind  string // "pred" | "map" | "each" | "red"
	Src   func(at atoms) string
	// Fn computes the return value. For "red" callbacks args = acc, cur, idx, arr; else e, idx, arr.
	Fn func(at atoms, args []V) V
	N  int // number of leading arguments the callback declares (and traces)
}

func traceSrc(names ...string) string {
	p := make([]string, len(names))
	for i, n := range names {
		p[i] = "json_encode($" + n + ")"
	}
	return `echo "<", ` + strings.Join(p, `, "|", `) + `, ">"; `
}

func mk(id, arity, kind string, n int, params []string, body func(at atoms) string, fn func(at atoms, a []V) V) *callback {
	return &callback{ID: id, Arity: arity, Kind: kind, N: n, Fn: fn, Src: func(at atoms) string {
		ps := make([]string, len(params))
		for i, p := range params {
			ps[i] = "$" + p
		}
		return "function(" + strings.Join(ps, ", ") + ") { " + traceSrc(params...) + body(at) + " }"
	}}
}

var eia = []string{"e", "i", "a"}

var callbacks = []*callback{
	// predicates
	mk("p:isint", "cb(e)", "pred", 1, eia[:1], func(atoms) string { return "return is_int($e);" },
		func(_ atoms, a []V) V { _, ok := a[0].(int); return ok }),
	mk("p:eq1", "cb(e)", "pred", 1, eia[:1], func(at atoms) string { return fmt.Sprintf("return $e === %d;", at.I1) },
		func(at atoms, a []V) V { x, ok := a[0].(int); return ok && x == at.I1 }),
	mk("p:false", "cb(e)", "pred", 1, eia[:1], func(atoms) string { return "return false;" },
		func(_ atoms, a []V) V { return false }),
	mk("p:true", "cb(e)", "pred", 1, eia[:1], func(atoms) string { return "return true;" },
		func(_ atoms, a []V) V { return true }),
	mk("p:i==1", "cb(e,i)", "pred", 2, eia[:2], func(atoms) string { return "return $i == 1;" },
		func(_ atoms, a []V) V { return a[1].(int) == 1 }),
	mk("p:i", "cb(e,i)", "pred", 2, eia[:2], func(atoms) string { return "return $i;" },
		func(_ atoms, a []V) V { return a[1] }),
	mk("p:last", "cb(e,i,a)", "pred", 3, eia, func(atoms) string { return "return $i + 1 == count($a);" },
		func(_ atoms, a []V) V { return a[1].(int)+1 == len(a[2].([]any)) }),
	// mappers
	mk("m:wrap", "cb(e)", "map", 1, eia[:1], func(atoms) string { return "return [$e];" },
		func(_ atoms, a []V) V { return []any{a[0]} }),
	mk("m:id", "cb(e)", "map", 1, eia[:1], func(atoms) string { return "return $e;" },
		func(_ atoms, a []V) V { return a[0] }),
	mk("m:idx", "cb(e,i)", "map", 2, eia[:2], func(atoms) string { return "return $i;" },
		func(_ atoms, a []V) V { return a[1] }),
	mk("m:len", "cb(e,i,a)", "map", 3, eia, func(atoms) string { return "return [$i, count($a)];" },
		func(_ atoms, a []V) V { return []any{a[1], len(a[2].([]any))} }),
	// forEach bodies (no return value)
	mk("f:e", "cb(e)", "each", 1, eia[:1], func(atoms) string { return "" }, func(_ atoms, a []V) V { return nil }),
	mk("f:ei", "cb(e,i)", "each", 2, eia[:2], func(atoms) string { return "" }, func(_ atoms, a []V) V { return nil }),
	mk("f:eia", "cb(e,i,a)", "each", 3, eia, func(atoms) string { return "" }, func(_ atoms, a []V) V { return nil }),
	// reducers: (accumulator, current, index, array)
	mk("r:ac", "cb(acc,cur)", "red", 2, []string{"acc", "c"}, func(atoms) string { return "return [$acc, $c];" },
		func(_ atoms, a []V) V { return []any{a[0], a[1]} }),
	mk("r:aci", "cb(acc,cur,i)", "red", 3, []string{"acc", "c", "i"}, func(atoms) string { return "return [$acc, $i];" },
		func(_ atoms, a []V) V { return []any{a[0], a[2]} }),
	mk("r:acia", "cb(acc,cur,i,a)", "red", 4, []string{"acc", "c", "i", "a"}, func(atoms) string { return "return [$acc, count($a)];" },
		func(_ atoms, a []V) V { return []any{a[0], len(a[3].([]any))} }),
}

// $this inside a callback "points at the current array object" (docs, note 2).
var cbThisMap = &callback{ID: "t:len", Arity: "cb($this)", Kind: "map", N: 0,
	Src: func(atoms) string { return "function($e) { return $this->length; }" }}
var cbThisFind = &callback{ID: "t:nonempty", Arity: "cb($this)", Kind: "pred", N: 0,
	Src: func(atoms) string { return "function($e) { return $this->length > 0; }" }}

func cbByID(id string) *callback {
	for _, c := range callbacks {
		if c.ID == id {
			return c
		}
	}
	switch id {
	case cbThisMap.ID:
		return cbThisMap
	case cbThisFind.ID:
		return cbThisFind
	}
	return nil
}

func cbOfKind(kind string) []*callback {
	var r []*callback
	for _, c := range callbacks {
		if c.Kind == kind {
			r = append(r, c)
		}
	}
	return r
}

// traceEntry is the expected text of one invocation: canonical JSON of the declared arguments.
func traceEntry(cb *callback, args []V) string {
	p := make([]string, cb.N)
	for i := 0; i < cb.N; i++ {
		p[i] = canon(args[i])
	}
	return strings.Join(p, "|")
}
