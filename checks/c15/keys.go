package main

// Finding keys: `method(param=class,...):clause`. A failing *cell* of the method x argument-shape
// table is widened to `param=*` when every enumerated class of that parameter (other parameters
// unchanged) fails with the same clause, so one defect that does not depend on a parameter gives
// one key, while a cell that fails on its own keeps its own key.

import (
	"sort"
	"strings"
)

var paramNames = map[string][]string{
	"arr:push": {"items"}, "arr:unshift": {"items"}, "arr:concat": {"items"},
	"arr:slice": {"start", "end"}, "arr:splice": {"start", "deleteCount", "items"},
	"arr:join": {"separator"}, "arr:indexOf": {"search", "fromIndex"}, "arr:includes": {"search", "fromIndex"},
	"arr:find": {"callback"}, "arr:findIndex": {"callback"}, "arr:filter": {"callback"}, "arr:every": {"callback"},
	"arr:some": {"callback"}, "arr:map": {"callback"}, "arr:flatMap": {"callback"}, "arr:forEach": {"callback"},
	"arr:reduce": {"callback", "initial"}, "arr:flat": {"depth"}, "arr:callback": {"uses"},
	"str:indexOf": {"recv", "search"}, "str:startsWith": {"recv", "search"}, "str:endsWith": {"recv", "search"},
	"str:substring": {"recv", "start", "end"}, "str:replace": {"recv", "search", "replace"}, "str:split": {"recv", "separator"},
	"str:length": {"recv"}, "str:length()": {"recv"}, "str:trim": {"recv"}, "str:toUpperCase": {"recv"}, "str:toLowerCase": {"recv"},
}

// cellID identifies a table cell: fam:method + shape.
func cellID(fam, cell string, shape []string) string {
	return cellID2(fam+":"+cell, shape)
}

func splitCell(id string) (fm string, shape []string) {
	p := strings.Split(id, "\x00")
	if len(p) == 1 {
		return p[0], nil
	}
	return p[0], p[1:]
}

func renderKey(fm string, shape []string, clause string) string {
	if strings.HasPrefix(fm, "aft:") {
		return "afterwards:" + strings.TrimPrefix(fm, "aft:") + ":" + strings.Join(shape, ",")
	}
	names := paramNames[strings.NewReplacer("arr2:", "arr:", "arrk:", "arr:", "arr3:", "arr:", "str3:", "str:", "strk:", "str:", "argn:", "arr:").Replace(fm)]
	if strings.HasPrefix(fm, "nest:") {
		names = []string{"outer", "on", "history"}
	}
	p := make([]string, len(shape))
	for i, s := range shape {
		switch {
		case strings.HasPrefix(s, "items=") || strings.HasPrefix(s, "recv="):
			p[i] = s
		case i < len(names):
			p[i] = names[i] + "=" + s
		default:
			p[i] = s
		}
	}
	name := strings.TrimPrefix(fm, "arr:")
	if strings.HasPrefix(fm, "arr2:") {
		// two-step family: the method is called on a receiver that an earlier call has already changed
		name = "after-prior-call." + strings.TrimPrefix(fm, "arr2:")
	}
	if strings.HasPrefix(fm, "arrk:") {
		// mixed element kinds family: elements / needles / items of every scalar kind
		name = "mixed-kinds." + strings.TrimPrefix(fm, "arrk:")
	}
	if strings.HasPrefix(fm, "nest:") {
		// nested family: the method is called from inside the callback of another method call
		name = "in-callback." + strings.TrimPrefix(fm, "nest:")
	}
	if strings.HasPrefix(fm, "str:") {
		name = "string." + strings.TrimPrefix(fm, "str:")
	}
	if strings.HasPrefix(fm, "strk:") {
		// a text parameter of a string method given a non-string argument
		name = "string-arg-kinds." + strings.TrimPrefix(fm, "strk:")
	}
	if strings.HasPrefix(fm, "argn:") {
		// an optional parameter of an array method given an explicit null
		name = "explicit-null." + strings.TrimPrefix(fm, "argn:")
	}
	name = strings.TrimSuffix(name, "()")
	if strings.HasSuffix(fm, "()") {
		return name + "()(" + strings.Join(p, ",") + "):" + clause
	}
	if fm == "arr:length" || fm == "str:length" || fm == "arr2:length" || fm == "arrk:length" {
		return name + " property(" + strings.Join(p, ",") + "):" + clause
	}
	return name + "(" + strings.Join(p, ",") + "):" + clause
}

// widen computes the key of every failing cell. all = every enumerated cell id; failing maps a
// failing cell id to its clause.
func widen(all map[string]bool, failing map[string]string) map[string]string {
	// index enumerated shapes per method
	byFM := map[string][][]string{}
	for id := range all {
		fm, sh := splitCell(id)
		byFM[fm] = append(byFM[fm], sh)
	}
	keys := map[string]string{}
	ids := make([]string, 0, len(failing))
	for id := range failing {
		ids = append(ids, id)
	}
	sort.Strings(ids)
	for _, id := range ids {
		fm, sh := splitCell(id)
		clause := failing[id]
		cur := append([]string{}, sh...)
		for p := range cur {
			// first "*" (every enumerated class of the parameter), then "given" (every class but omitted)
			for _, wild := range []string{"*", "given"} {
				if cur[p] == "omitted" && wild == "given" {
					continue
				}
				cand := append([]string{}, cur...)
				cand[p] = wild
				ok := true
				vals := map[string]bool{}
				for _, e := range byFM[fm] {
					if !matches(cand, e) {
						continue
					}
					vals[e[p]] = true
					if failing[cellID2(fm, e)] != clause {
						ok = false
						break
					}
				}
				if ok && len(vals) > 1 {
					cur = cand
					break
				}
			}
		}
		keys[id] = renderKey(fm, cur, clause)
	}
	return keys
}

func cellID2(fm string, shape []string) string {
	if len(shape) == 0 {
		return fm
	}
	return fm + "\x00" + strings.Join(shape, "\x00")
}

func matches(pattern, shape []string) bool {
	if len(pattern) != len(shape) {
		return false
	}
	for i := range pattern {
		if pattern[i] == "*" || pattern[i] == shape[i] || (pattern[i] == "given" && shape[i] != "omitted") {
			continue
		}
		return false
	}
	return true
}
