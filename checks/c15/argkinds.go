package main

// Argument-kind families.
//
// "strk": the text parameters of the string methods (indexOf / startsWith / endsWith search, split
// separator, replace search and replacement) given an int, an integral / fractional float, null, true,
// false or an array instead of a string, on every receiver made of 0-2 of the tokens
// {"2", "null", "true", "a", ".5"} (so that every candidate text does occur in some receiver).
// docs/strings.md says nothing about non-string arguments, so a call conforms when it behaves as if
// the argument were ANY of the texts a defensible conversion gives (argTexts); an optional parameter
// given null may also behave as omitted. What is still demanded: numbers are matched as their decimal
// text, nothing is matched as some other text ("undefined", "Array"...) and nothing crashes.
//
// "argn": explicit null for every optional parameter of the array methods (slice start / end, splice
// deleteCount, join separator, flat depth, indexOf / includes fromIndex, reduce initial value): null
// may be read as "omitted" or coerced JavaScript-style (index / count / depth 0, separator "null" or
// "", initial value null).

import "strconv"

// nullTexts: the texts a null argument of a string method may be matched as: "null" (JavaScript
// String(null), what the code does today) or "" (the language's own string form of null, PHP).
// Dropping "" makes the family demand the JavaScript reading.
var nullTexts = []string{"null", ""}

func argTexts(v V) []string {
	switch x := v.(type) {
	case nil:
		return nullTexts
	case bool:
		if x {
			return []string{"true", "1"}
		}
		return []string{"false", ""}
	case int:
		return []string{strconv.Itoa(x)}
	case Flt:
		return []string{fltText(x, false)}
	case string:
		return []string{x}
	case []any:
		return []string{strForm{}.str(x), strForm{echoArr: true}.str(x), "Array"}
	}
	return []string{"?"}
}

func strkReceivers(at atoms) []string {
	return strings_([]string{strconv.Itoa(at.I2), "null", "true", at.Lo, ".5"}, 0, 2)
}

var strkMethods = []string{"indexOf", "startsWith", "endsWith", "split", "replace"}

func strkValues(at atoms) []any {
	return []any{at.I2, Flt(at.I2), Flt(at.I2) + 0.5, nil, true, false, []any{at.I2}}
}

func genStrK(m string, recv string, at atoms, emit func(*Case)) {
	rc := recvClass(recv)
	mkc := func(args ...Arg) {
		shape := []string{rc}
		for _, a := range args {
			shape = append(shape, kindClass(a.V))
		}
		emit(&Case{Fam: "strk", M: m, Cell: m, Recv: recv, Args: args, Shape: shape})
	}
	for _, v := range strkValues(at) {
		if m != "replace" {
			mkc(vArg(v))
			continue
		}
		mkc(vArg(v), vArg("x"))
		mkc(vArg(strconv.Itoa(at.I2)), vArg(v))
		mkc(vArg(at.Lo), vArg(v))
		mkc(vArg(v), vArg(v))
	}
}

func expectStrK(c *Case, at atoms) Exp {
	var alts altSet
	out := Exp{}
	var rec func(i int, args []Arg)
	rec = func(i int, args []Arg) {
		if i == len(c.Args) {
			cc := *c
			cc.Fam, cc.Args = "str", append([]Arg{}, args...)
			e := expectStr(&cc, at)
			out.Throw = out.Throw || e.Throw
			for _, a := range e.Alts {
				alts.add(c.Recv.(string), a.Res)
			}
			return
		}
		for _, t := range argTexts(c.Args[i].V) {
			rec(i+1, append(args, vArg(t)))
		}
	}
	rec(0, nil)
	if c.M == "split" && c.Args[0].V == nil {
		cc := *c
		cc.Fam, cc.Args = "str", nil
		for _, a := range expectStr(&cc, at).Alts {
			alts.add(c.Recv.(string), a.Res)
		}
	}
	out.Alts = alts.outs
	return out
}

// ---- explicit null for the optional parameters of the array methods

var argnMethods = []string{"slice", "splice", "join", "flat", "indexOf", "includes", "reduce"}

func genArgNull(m string, recv []any, at atoms, emit func(*Case)) {
	n := len(recv)
	mkc := func(shape []string, args ...Arg) {
		emit(&Case{Fam: "argn", M: m, Cell: m, Recv: recv, Args: args, Shape: shape})
	}
	switch m {
	case "slice":
		mkc([]string{"null", "omitted"}, vArg(nil))
		mkc([]string{"null", "null"}, vArg(nil), vArg(nil))
		for _, i := range idxPool(n) {
			mkc([]string{idxClass(i, n), "null"}, vArg(i), vArg(nil))
			mkc([]string{"null", idxClass(i, n)}, vArg(nil), vArg(i))
		}
	case "splice":
		for _, s := range idxPool(n) {
			mkc([]string{idxClass(s, n), "null", "items=0"}, vArg(s), vArg(nil))
			mkc([]string{idxClass(s, n), "null", "items=1"}, vArg(s), vArg(nil), vArg("x"))
		}
	case "join":
		mkc([]string{"null"}, vArg(nil))
	case "flat":
		mkc([]string{"null"}, vArg(nil))
	case "indexOf", "includes":
		for _, v := range []any{at.I1, at.S} {
			mkc([]string{"scalar", "null"}, vArg(v), vArg(nil))
		}
	case "reduce":
		for _, cb := range cbOfKind("red") {
			mkc([]string{cb.Arity, "null"}, cArg(cb.ID), vArg(nil))
		}
	}
}

// expectArgNull: the union of the outcomes of every reading of the null argument(s).
func expectArgNull(c *Case, at atoms) Exp {
	out := Exp{}
	seen := map[string]bool{}
	try := func(args []Arg) {
		cc := *c
		cc.Fam, cc.Args = "arr", args
		e := expectArr(&cc, at)
		if e.Any {
			out.Any = true
			return
		}
		for _, a := range e.Alts {
			k := fmt3(a)
			if !seen[k] {
				seen[k] = true
				out.Alts = append(out.Alts, a)
			}
		}
	}
	// readings per position: a replacement value, or "drop this and every later argument" (omitted)
	type reading struct {
		v    V
		drop bool
	}
	readings := func(i int) []reading {
		if c.Args[i].V != nil || c.Args[i].K != "v" {
			return []reading{{v: c.Args[i].V}}
		}
		switch c.M {
		case "join":
			return []reading{{drop: true}, {v: "null"}, {v: ""}}
		case "reduce":
			return []reading{{drop: true}, {v: nil}}
		}
		return []reading{{drop: true}, {v: 0}}
	}
	var rec func(i int, args []Arg)
	rec = func(i int, args []Arg) {
		if i == len(c.Args) {
			try(append([]Arg{}, args...))
			return
		}
		for _, r := range readings(i) {
			if r.drop {
				if i == len(c.Args)-1 || (c.M == "slice" && i == 0 && c.Args[1].V == nil) {
					try(append([]Arg{}, args...)) // nothing meaningful follows
				}
				continue
			}
			a := c.Args[i]
			if c.Args[i].K == "v" {
				a = vArg(r.v)
			}
			rec(i+1, append(args, a))
		}
	}
	rec(0, nil)
	return out
}

func fmt3(a Out) string { return canon(a.Res) + "\x00" + canon(a.After) + "\x00" + kindClass(a.Res) }
