package main

// Running cases on the real interpreter: script construction (batched, each case isolated by
// try/catch), output parsing and comparison with the expected outcomes.

import (
	"encoding/hex"
	"fmt"
	"strings"

	"verif/engine/runner"
)

type Obs struct {
	Kind     string            `json:"kind"`          // "value" | "throw" | "crash" | "broken"
	Res      string            `json:"res,omitempty"` // json_encode of the result
	Hex      string            `json:"hex,omitempty"` // bin2hex of the result when it is a string
	IsStr    bool              `json:"is_str,omitempty"`
	After    string            `json:"after,omitempty"` // json_encode of the receiver afterwards
	Trace    string            `json:"trace,omitempty"`
	Msg      string            `json:"msg,omitempty"`
	PanicKey string            `json:"panic_key,omitempty"`
	Pre      string            `json:"pre,omitempty"`   // two-step family: json_encode of the receiver after the first step
	Extra    map[string]string `json:"extra,omitempty"` // "afterwards" family: v, a (before the write), G<k> (arguments)
}

func caseSrc(c *Case, at atoms, i int, bare bool) string {
	if c.Fam == "aft" {
		return aftSrc(c, at, i, bare)
	}
	if c.Fam == "nest" {
		return nestSrc(c, at, i, bare)
	}
	var sb strings.Builder
	recv := c.Recv
	if c.Pre != "" {
		recv = c.Recv0
	}
	fmt.Fprintf(&sb, "$r = %s;\necho \"\\n@@B%d\\n\";\n", lit(recv), i)
	call := callSrc(c, at, false)
	pre := ""
	if c.Pre != "" {
		// first step, then the receiver as it stands (P) and the start of the callback trace (C)
		pre = preSrc(c.Pre) + "\necho \"\\n@@P\", json_encode($r), \"\\n@@C\";\n"
		if c.M0 != "" {
			// three-step: the earlier call and its result (W) come first
			pre = "$w = " + callSrc(c.firstCall(), at, false) + ";\necho \"\\n@@W\", json_encode($w);\nif (is_string($w)) { echo \"\\n@@X\", bin2hex($w); }\necho \"\\n@@Q\", json_encode($r);\n" + pre
		}
	}
	body := pre + "$v = " + call + ";\necho \"\\n@@V\", json_encode($v);\nif (is_string($v)) { echo \"\\n@@H\", bin2hex($v); }\n"
	if bare {
		sb.WriteString(body)
	} else {
		sb.WriteString("try {\n" + body + "} catch (Throwable $x) { echo \"\\n@@T\", $x->getMessage(); }\n")
	}
	fmt.Fprintf(&sb, "echo \"\\n@@A\", json_encode($r), \"\\n@@E%d\\n\";\n", i)
	return sb.String()
}

func isPanicMsg(m string) bool {
	return strings.Contains(m, "panic(") || strings.Contains(m, "go作用域异常退出")
}

// parseSection parses the output between @@B<i> and @@E<i>.
func parseSection(out string, i int) (Obs, bool) {
	b := fmt.Sprintf("\n@@B%d\n", i)
	e := fmt.Sprintf("\n@@E%d\n", i)
	s := strings.Index(out, b)
	if s < 0 {
		return Obs{}, false
	}
	rest := out[s+len(b):]
	t := strings.Index(rest, e)
	if t < 0 {
		return Obs{}, false
	}
	sec := rest[:t]
	var o Obs
	parts := strings.Split(sec, "\n@@")
	o.Trace = parts[0]
	seenA := false
	for _, p := range parts[1:] {
		if p == "" {
			return Obs{}, false
		}
		switch p[0] {
		case 'V':
			o.Kind = "value"
			o.Res = p[1:]
		case 'H':
			o.IsStr = true
			o.Hex = p[1:]
		case 'T':
			o.Kind = "throw"
			o.Msg = p[1:]
		case 'A':
			seenA = true
			o.After = p[1:]
		case 'v', 'a', 'h':
			if o.Extra == nil {
				o.Extra = map[string]string{}
			}
			o.Extra[p[:1]] = p[1:]
		case 'G':
			if len(p) < 2 {
				return Obs{}, false
			}
			if o.Extra == nil {
				o.Extra = map[string]string{}
			}
			o.Extra[p[:2]] = p[2:]
		case 'W', 'X', 'Q':
			if o.Extra == nil {
				o.Extra = map[string]string{}
			}
			o.Extra[p[:1]] = p[1:]
		case 'P':
			o.Pre = p[1:]
		case 'C':
			o.Trace = p[1:]
		default:
			return Obs{}, false
		}
	}
	if o.Kind == "" || !seenA {
		return Obs{}, false
	}
	if o.Kind == "throw" && isPanicMsg(o.Msg) {
		o.Kind = "crash"
	}
	return o, true
}

// runSingle runs one case on its own: first inside try/catch, and, when that reports a converted
// Go panic (or the script does not complete), in the bare top-level form to obtain the panic key.
func runSingle(c *Case, at atoms) Obs {
	res := runner.Run(caseSrc(c, at, 0, false), runner.Opts{Fuel: 20_000_000})
	if res.Kind == "ok" {
		if o, ok := parseSection(res.Out, 0); ok {
			if o.Kind != "crash" {
				return o
			}
		}
	}
	bare := runner.Run(caseSrc(c, at, 0, true), runner.Opts{Fuel: 20_000_000})
	switch bare.Kind {
	case "panic":
		return Obs{Kind: "crash", Msg: bare.PanicMsg, PanicKey: bare.PanicKey}
	case "ok":
		if o, ok := parseSection(bare.Out, 0); ok {
			if res.Kind == "ok" {
				// caught "panic" marker in try form but the bare form completes: keep the try-form view
				if o2, ok2 := parseSection(res.Out, 0); ok2 {
					return o2
				}
			}
			return o
		}
		return Obs{Kind: "broken", Msg: "unparseable output: " + trunc(bare.Out, 200)}
	case "throw":
		return Obs{Kind: "throw", Msg: bare.Class + ": " + bare.Msg, After: ""}
	}
	return Obs{Kind: "broken", Msg: bare.Kind + ": " + bare.Class + " " + bare.Msg + " " + bare.PanicKey}
}

// runBatch runs the cases of one script; cases whose section is missing are re-run alone.
func runBatch(cs []*Case, at atoms) []Obs {
	var sb strings.Builder
	for i, c := range cs {
		sb.WriteString(caseSrc(c, at, i, false))
	}
	res := runner.Run(sb.String(), runner.Opts{Fuel: 400_000_000})
	obs := make([]Obs, len(cs))
	for i, c := range cs {
		o, ok := Obs{}, false
		if res.Kind == "ok" {
			o, ok = parseSection(res.Out, i)
		}
		if !ok || o.Kind == "crash" {
			o = runSingle(c, at)
		}
		obs[i] = o
	}
	return obs
}

func trunc(s string, n int) string {
	if len(s) > n {
		return s[:n] + "…"
	}
	return s
}

func canonOf(jsonText string) (string, bool) {
	v, err := parseJSON(jsonText)
	if err != nil {
		return "", false
	}
	return canon(v), true
}

// traceOK compares the observed callback trace with the expected one.
func traceOK(e *Exp, tr string) bool {
	var got []string
	tr = strings.TrimSpace(tr)
	for tr != "" {
		if tr[0] != '<' {
			return false
		}
		end := strings.Index(tr, ">")
		if end < 0 {
			return false
		}
		parts := strings.Split(tr[1:end], "|")
		for i, p := range parts {
			cv, ok := canonOf(p)
			if !ok {
				return false
			}
			parts[i] = cv
		}
		got = append(got, strings.Join(parts, "|"))
		tr = tr[end+1:]
	}
	if e.TraceMin < 0 {
		if len(got) != len(e.Trace) {
			return false
		}
	} else if len(got) < e.TraceMin || len(got) > len(e.Trace) {
		return false
	}
	for i, g := range got {
		if g != e.Trace[i] {
			return false
		}
	}
	return true
}

// compare returns the violated clause ("" = conforms).
func compare(c *Case, e *Exp, o *Obs) string {
	if c.Fam == "aft" {
		return compareAft(c, e, o)
	}
	if c.Fam == "nest" {
		return compareNest(c, e, o)
	}
	switch o.Kind {
	case "crash":
		return "crash"
	case "broken":
		return "broken"
	}
	if e.Any {
		return ""
	}
	recvCanon := canon(c.Recv)
	after, okA := canonOf(o.After)
	if o.Kind == "throw" {
		if e.Throw && okA && after == recvCanon {
			return ""
		}
		return "throw"
	}
	res, okR := canonOf(o.Res)
	if !okR || !okA {
		return "result"
	}
	var cl []string
	if c.Pre != "" {
		if c.M0 != "" && !firstOK(c, preAtoms, o.Extra["W"], o.Extra["X"], o.Extra["Q"]) {
			return "first-call"
		}
		if p, ok := canonOf(o.Pre); !ok || p != recvCanon {
			return "first-step"
		}
	}
	if e.HasTrace && !traceOK(e, o.Trace) {
		cl = append(cl, "callback-args")
	}
	if e.Check != nil {
		rv, _ := parseJSON(o.Res)
		av, _ := parseJSON(o.After)
		if !e.Check(rv, av) {
			cl = append(cl, "result")
		}
		return strings.Join(cl, "+")
	}
	resMatch := func(a Out) bool {
		if e.NoResult {
			return true
		}
		if s, ok := a.Res.(string); ok {
			return o.IsStr && o.Hex == hex.EncodeToString([]byte(s))
		}
		return !o.IsStr && canon(a.Res) == res
	}
	anyRes, anyAfter, both := false, false, false
	for _, a := range e.Alts {
		r, f := resMatch(a), canon(a.After) == after
		anyRes = anyRes || r
		anyAfter = anyAfter || f
		both = both || (r && f)
	}
	if !both {
		if !anyRes {
			cl = append(cl, "result")
		}
		if !anyAfter {
			cl = append(cl, "receiver")
		}
		if anyRes && anyAfter {
			cl = append(cl, "result", "receiver")
		}
	}
	return strings.Join(cl, "+")
}

func expect(c *Case, at atoms) Exp {
	if c.Fam == "str" || c.Fam == "str3" {
		return expectStr(c, at)
	}
	if c.Fam == "aft" {
		return expectAft(c, at)
	}
	if c.Fam == "nest" {
		return expectNest(c, at)
	}
	if c.Fam == "strk" {
		return expectStrK(c, at)
	}
	if c.Fam == "argn" {
		return expectArgNull(c, at)
	}
	// "arr2": c.Recv is the model's receiver after the first step
	return expectArr(c, at)
}

func describeExp(e *Exp) string {
	if e.Any {
		return "any non-crashing outcome (" + e.Note + ")"
	}
	var p []string
	for i, a := range e.Alts {
		s := "after=" + canon(a.After)
		if !e.NoResult {
			s = "result=" + canon(a.Res) + " " + s
		}
		if e.HasHist {
			s += " $h=" + canon(e.Hist)
		}
		for k := 0; k < 8; k++ {
			if i >= len(e.AltArgs) {
				break
			}
			if av, ok := e.AltArgs[i][k]; ok {
				s += fmt.Sprintf(" $a%d=%s", k, canon(av))
			}
		}
		p = append(p, s)
	}
	s := strings.Join(p, "  OR  ")
	if e.Check != nil {
		s += "  (or any ordering the documented rule allows)"
	}
	if e.Throw {
		s += "  OR a catchable error with the receiver unchanged"
	}
	if e.HasTrace {
		s += fmt.Sprintf("  callback calls=%v", e.Trace)
		if e.TraceMin >= 0 {
			s += fmt.Sprintf(" (a prefix of at least %d)", e.TraceMin)
		}
	}
	return s
}

func describeObs(o *Obs) string {
	switch o.Kind {
	case "value":
		s := "result=" + o.Res + " after=" + o.After
		if o.Pre != "" {
			s = "(after first step " + o.Pre + ") " + s
		}
		if h, ok := o.Extra["h"]; ok {
			s += " $h=" + h
		}
		for k := 0; k < 8; k++ {
			if g, ok := o.Extra[fmt.Sprintf("G%d", k)]; ok {
				s += fmt.Sprintf(" $a%d=%s", k, g)
			}
		}
		if o.Trace != "" {
			s += " callback calls=" + strings.TrimSpace(o.Trace)
		}
		return s
	case "throw":
		return "throws: " + trunc(o.Msg, 160) + " after=" + o.After
	case "crash":
		return "Go panic: " + o.PanicKey + " " + trunc(o.Msg, 160)
	}
	return o.Kind + ": " + trunc(o.Msg, 200)
}
