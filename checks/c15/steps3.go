package main

// Three-step families: one receiver variable, an earlier call, a change of the receiver, then the call
// under test -  `$r->m0(args0); <change>; $v = $r->m(args)`.
//
//	arr3  m0 = the same method with its canonical arguments -> every change of the two-step family
//	      (push, push 2, pop, shift, unshift, splice, $r = $r->slice(0), reverse, sort) -> every argument
//	      tuple of m (item pools of the two-step family); and m0 = every OTHER method (canonical
//	      arguments) -> every change -> m with its canonical arguments.
//	str3  the same on strings, which have no mutating method: the change is an assignment to the
//	      variable ($r .= "a", $r .= "é", $r = $r->trim(), $r = $r->replace("a", "B")).
//
// The model applies all three steps. Compared: result of the earlier call, receiver after the change,
// result / receiver / callback trace of the last call. This is the shape in which anything a value
// remembers from an earlier method call (cached method object, cached length / string form /
// snapshot) goes stale.

import (
	"encoding/hex"
	"fmt"
	"strings"
)

// canonArgs: one representative argument tuple (and its fine shape) per array method.
func canonArgs(m string, at atoms) ([]Arg, []string) {
	switch m {
	case "pop", "shift", "reverse", "sort", "length":
		return nil, []string{}
	case "push":
		return []Arg{vArg(9)}, []string{"items=1"}
	case "unshift":
		return []Arg{vArg("x")}, []string{"items=1"}
	case "concat":
		return []Arg{vArg([]any{8})}, []string{"items=1"}
	case "slice":
		return []Arg{vArg(1)}, []string{"inside", "omitted"}
	case "splice":
		return []Arg{vArg(1), vArg(1)}, []string{"inside", "inside", "items=0"}
	case "join":
		return []Arg{vArg("-")}, []string{"given"}
	case "indexOf", "includes":
		return []Arg{vArg(at.I1)}, []string{"scalar", "omitted"}
	case "find", "filter", "every":
		return []Arg{cArg("p:isint")}, []string{"cb(e)"}
	case "findIndex", "some":
		return []Arg{cArg("p:eq1")}, []string{"cb(e)"}
	case "forEach":
		return []Arg{cArg("f:ei")}, []string{"cb(e,i)"}
	case "map":
		return []Arg{cArg("m:idx")}, []string{"cb(e,i)"}
	case "flatMap":
		return []Arg{cArg("m:wrap")}, []string{"cb(e)"}
	case "reduce":
		return []Arg{cArg("r:aci"), vArg(0)}, []string{"cb(acc,cur,i)", "given"}
	case "flat":
		return []Arg{vArg(1)}, []string{"inside"}
	}
	panic("canonArgs: " + m)
}

// afterFirst is the model's receiver after the earlier call; ok=false when that call has no single
// documented effect on the receiver.
func afterFirst(fc *Case, at atoms) ([]any, bool) {
	e := expectArr(fc, at)
	if e.Any || len(e.Alts) == 0 {
		return nil, false
	}
	if e.Check != nil && hasNested(asList(fc.Recv)) {
		return nil, false // sort with nested elements: two accepted orders
	}
	return asList(e.Alts[0].After), true
}

func arr3Receivers(quick bool, at atoms) [][]any {
	if !quick {
		return arr2Receivers(true, at)
	}
	r := lists([]any{at.I1, at.S}, 0, 2)
	nested := []any{at.I1}
	return append(r, []any{at.S, at.I1, at.S}, []any{at.I1, nested}, []any{nested, at.S, nested})
}

func genArr3(m string, recv0 []any, at atoms, emit func(*Case)) {
	for _, m0 := range arrMethods {
		args0, _ := canonArgs(m0, at)
		r1, ok := afterFirst(&Case{Fam: "arr", M: m0, Recv: recv0, Args: args0}, at)
		if !ok {
			continue
		}
		for _, pre := range preSteps {
			r2, ok := applyPre(pre, r1)
			if !ok {
				continue
			}
			fin := func(c *Case) {
				if c.Cell == "callback" {
					return
				}
				c.Fam, c.Pre, c.Recv0, c.M0, c.Args0 = "arr3", pre, recv0, m0, args0
				emit(c)
			}
			if m0 == m {
				genArr(m, r2, at, reducedPools, fin)
			} else {
				args, shape := canonArgs(m, at)
				fin(&Case{Fam: "arr", M: m, Cell: m, Recv: r2, Args: args, Shape: shape})
			}
		}
	}
}

// firstOK checks the observed result of the earlier call of a three-step case.
func firstOK(c *Case, at atoms, w, whex, q string) bool {
	fc := c.firstCall()
	// the receiver right after the earlier call
	var r1 V = c.Recv0
	if fc.Fam == "arr" {
		if a, ok := afterFirst(fc, at); ok {
			r1 = a
		}
	}
	if qc, ok := canonOf(q); !ok || qc != canon(r1) {
		return false
	}
	e := expect(fc, at)
	if e.Any || e.NoResult {
		return true
	}
	got, _ := canonOf(w)
	if e.Check != nil {
		v, _ := parseJSON(w)
		return e.Check(v, v)
	}
	for _, a := range e.Alts {
		if s, isStr := a.Res.(string); isStr {
			if whex == hex.EncodeToString([]byte(s)) && (whex != "" || w == `""`) {
				return true
			}
			continue
		}
		if whex == "" && canon(a.Res) == got {
			return true
		}
	}
	return false
}

// ---- strings

var strSteps = []string{"append-lo", "append-mb", "trim", "replace"}

func strStepSrc(step string, at atoms) string {
	switch step {
	case "append-lo":
		return fmt.Sprintf(`$r .= "%s";`, at.Lo)
	case "append-mb":
		return fmt.Sprintf(`$r .= "%s";`, at.MB)
	case "trim":
		return "$r = $r->trim();"
	case "replace":
		return fmt.Sprintf(`$r = $r->replace("%s", "%s");`, at.Lo, at.Up)
	}
	panic("strStepSrc: " + step)
}

func applyStrStep(step, s string, at atoms) string {
	switch step {
	case "append-lo":
		return s + at.Lo
	case "append-mb":
		return s + at.MB
	case "trim":
		return strings.Trim(s, " ")
	case "replace":
		return strings.ReplaceAll(s, at.Lo, at.Up)
	}
	panic("applyStrStep: " + step)
}

func canonStrArgs(m string, at atoms) []Arg {
	switch m {
	case "indexOf", "startsWith", "endsWith", "split":
		return []Arg{vArg(at.Lo)}
	case "substring":
		return []Arg{vArg(0), vArg(1)}
	case "replace":
		return []Arg{vArg(at.Lo), vArg("x")}
	}
	return nil
}

func str3Receivers(quick bool, at atoms) []string {
	if quick {
		return strings_(strAlphabet(at), 0, 2)
	}
	return strings_(strAlphabet(at), 0, 3)
}

func genStr3(m string, recv0 string, at atoms, quick bool, emit func(*Case)) {
	for _, m0 := range strMethods {
		args0 := canonStrArgs(m0, at)
		for _, step := range strSteps {
			r2 := applyStrStep(step, recv0, at)
			fin := func(c *Case) {
				c.Fam, c.Pre, c.Recv0, c.M0, c.Args0 = "str3", step, recv0, m0, args0
				emit(c)
			}
			if m0 == m {
				genStr(m, r2, at, quick, fin)
			} else {
				args := canonStrArgs(m, at)
				shape := []string{recvClass(r2)}
				for range args {
					shape = append(shape, "nonempty")
				}
				switch m {
				case "substring":
					shape = []string{recvClass(r2), idxClass(0, len([]rune(r2))), idxClass(1, len([]rune(r2)))}
				case "replace":
					shape = []string{recvClass(r2), "nonempty", "given"}
				}
				fin(&Case{Fam: "str", M: m, Cell: m, Recv: r2, Args: args, Shape: shape})
			}
		}
	}
}
