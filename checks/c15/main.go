// C15: array and string methods behave as documented (Node.js-style semantics).
//
// Form P: for every documented method, every receiver of a small pool x every argument tuple
// (omitted optionals, below/negative/zero/inside/=length/beyond indexes, 0-3 variadic items,
// callbacks using element / element,index / element,index,array) is run as a script on the real
// interpreter; json_encode of the result and of the receiver afterwards (plus a trace of what each
// callback received) is compared with an independent Go implementation of the documented
// semantics (model.go, strgen.go). Failures are keyed by the method x argument-shape cell.
package main

import (
	"encoding/json"
	"fmt"
	"os"
	"sort"
	"strings"
	"time"

	"verif/engine/ev"
	"verif/engine/pool"
	"verif/engine/runner"
)

const batchSize = 48

type shardArg struct {
	Fam      string `json:"fam"`
	M        string `json:"m"`
	Lo       int    `json:"lo"`
	Hi       int    `json:"hi"`
	Quick    bool   `json:"quick"`
	At       atoms  `json:"at"`
	Deadline int64  `json:"deadline"`
}

type failRec struct {
	Cell     string   `json:"cell"`
	Clause   string   `json:"clause"`
	N        int64    `json:"n"`
	Size     int      `json:"size"`
	Case     *Case    `json:"case"`
	Detail   string   `json:"detail"`
	PanicKey string   `json:"panic_key,omitempty"`
	Fine     []string `json:"fine,omitempty"` // fine argument shapes of the failing cases
}

type shardRec struct {
	N          int64            `json:"n"`
	Cells      map[string]int64 `json:"cells"`
	Fails      []failRec        `json:"fails"`
	Outcomes   []string         `json:"outcomes"`
	Mutated    int64            `json:"mutated"`
	Open       int64            `json:"open"`        // cases the docs leave open (any non-crashing outcome accepted)
	Aft        int64            `json:"aft"`         // "afterwards" cases compared
	AftSkipped int64            `json:"aft_skipped"` // "afterwards" cases whose call itself already deviated (owned by the one-step family)
	Sample     any              `json:"sample,omitempty"`
	Incomplete bool             `json:"incomplete,omitempty"`
}

func caseSize(c *Case) int {
	n := 0
	switch r := c.Recv.(type) {
	case []any:
		n = 100 * len(r)
		for _, e := range r {
			if sub, ok := e.([]any); ok && c.Fam == "nest" {
				n += 10 * len(sub)
			}
		}
	case string:
		n = 100 * len(r)
	}
	n += 10 * len(c.Args)
	if c.Pre != "" {
		n += 50
	}
	for _, a := range c.Args {
		if i, ok := a.V.(int); ok {
			if i < 0 {
				i = -i
			}
			n += i
		}
	}
	return n
}

func resType(o *Obs) string {
	if o.Kind != "value" {
		return o.Kind
	}
	if o.Res == "" {
		return "?"
	}
	switch o.Res[0] {
	case '[':
		return "array"
	case '"':
		return "string"
	case 't', 'f':
		return "bool"
	case 'n':
		return "null"
	case '{':
		return "object"
	}
	return "number"
}

func forEachCase(a shardArg, emit func(*Case)) {
	if a.Fam == "arr" {
		rs := arrReceivers(a.M, a.Quick, a.At)
		for i := a.Lo; i < a.Hi && i < len(rs); i++ {
			genArr(a.M, rs[i], a.At, fullPools, emit)
		}
		return
	}
	if a.Fam == "arr2" {
		rs := arr2Receivers(a.Quick, a.At)
		for i := a.Lo; i < a.Hi && i < len(rs); i++ {
			genArr2(a.M, rs[i], a.At, emit)
		}
		return
	}
	if a.Fam == "aft" {
		rs := arr2Receivers(a.Quick, a.At)
		for i := a.Lo; i < a.Hi && i < len(rs); i++ {
			genAft(a.M, rs[i], a.At, emit)
		}
		return
	}
	if a.Fam == "arr3" {
		rs := arr3Receivers(a.Quick, a.At)
		for i := a.Lo; i < a.Hi && i < len(rs); i++ {
			genArr3(a.M, rs[i], a.At, emit)
		}
		return
	}
	if a.Fam == "str3" {
		rs := str3Receivers(a.Quick, a.At)
		for i := a.Lo; i < a.Hi && i < len(rs); i++ {
			genStr3(a.M, rs[i], a.At, a.Quick, emit)
		}
		return
	}
	if a.Fam == "strk" {
		rs := strkReceivers(a.At)
		for i := a.Lo; i < a.Hi && i < len(rs); i++ {
			genStrK(a.M, rs[i], a.At, emit)
		}
		return
	}
	if a.Fam == "argn" {
		rs := arrReceivers(a.M, a.Quick, a.At)
		for i := a.Lo; i < a.Hi && i < len(rs); i++ {
			genArgNull(a.M, rs[i], a.At, emit)
		}
		return
	}
	if a.Fam == "arrk" {
		rs := kindReceivers(a.Quick, a.At)
		for i := a.Lo; i < a.Hi && i < len(rs); i++ {
			genKinds(a.M, rs[i], a.At, emit)
		}
		return
	}
	if a.Fam == "nest" {
		rs := nestReceivers(a.M, a.Quick, a.At)
		for i := a.Lo; i < a.Hi && i < len(rs); i++ {
			genNest(a.M, rs[i], a.At, emit)
		}
		return
	}
	rs := strReceivers(a.Quick, a.At)
	for i := a.Lo; i < a.Hi && i < len(rs); i++ {
		genStr(a.M, rs[i], a.At, a.Quick, emit)
	}
}

func worker(w *pool.W, arg json.RawMessage) {
	var a shardArg
	json.Unmarshal(arg, &a)
	preAtoms = a.At
	out := shardRec{Cells: map[string]int64{}}
	fails := map[string]*failRec{}
	outcomes := map[string]bool{}
	var buf []*Case
	batchNo := 0
	flush := func() {
		if len(buf) == 0 {
			return
		}
		defer func() { buf = buf[:0] }()
		batchNo++
		if a.Deadline > 0 && time.Now().Unix() > a.Deadline {
			out.Incomplete = true
			return
		}
		if !w.Item(fmt.Sprintf("%s:%s:%d-%d#%d", a.Fam, a.M, a.Lo, a.Hi, batchNo)) {
			return
		}
		obs := runBatch(buf, a.At)
		for i, c := range buf {
			o := &obs[i]
			e := expect(c, a.At)
			out.N++
			id := cellID(c.Fam, c.Cell, coarseShape(c.Shape))
			out.Cells[id]++
			outcomes[c.M+":"+resType(o)] = true
			if e.Any {
				out.Open++
			}
			if o.Kind == "value" && c.Fam != "aft" {
				if ca, ok := canonOf(o.After); ok && ca != canon(c.Recv) {
					out.Mutated++
				}
			}
			if out.Sample == nil && out.N == 7 {
				out.Sample = map[string]any{"call": c.String(), "expected": describeExp(&e), "observed": describeObs(o)}
			}
			cl := compare(c, &e, o)
			if c.Fam == "aft" {
				if o.Kind == "base-mismatch" {
					out.AftSkipped++
				} else {
					out.Aft++
				}
			}
			if cl == "" {
				continue
			}
			fk := id + "\x01" + cl + "\x01" + o.PanicKey
			if cl == "first-step" {
				fk += "\x01" + c.Pre
			}
			if cl == "first-call" {
				fk += "\x01" + c.M0
			}
			f := fails[fk]
			sz := caseSize(c)
			if f == nil {
				f = &failRec{Cell: id, Clause: cl, Size: 1 << 30, PanicKey: o.PanicKey}
				fails[fk] = f
			}
			f.N++
			fs := strings.Join(c.Shape, ",")
			if c.Fam == "nest" {
				fs += ": " + c.Inner + " after " + c.Hist
			}
			if c.Pre != "" {
				fs = "after " + c.Pre + ": " + fs
			}
			if !contains(f.Fine, fs) && len(f.Fine) < 64 {
				f.Fine = append(f.Fine, fs)
			}
			if sz < f.Size {
				f.Size = sz
				f.Case = c
				f.Detail = fmt.Sprintf("%s\nexpected %s\nobserved %s", c.String(), describeExp(&e), describeObs(o))
			}
		}
	}
	forEachCase(a, func(c *Case) {
		buf = append(buf, c)
		if len(buf) >= batchSize {
			flush()
		}
	})
	flush()
	for _, f := range fails {
		out.Fails = append(out.Fails, *f)
	}
	for o := range outcomes {
		out.Outcomes = append(out.Outcomes, o)
	}
	w.Emit(out)
}

func contains(l []string, s string) bool {
	for _, x := range l {
		if x == s {
			return true
		}
	}
	return false
}

type cellFail struct {
	fine    map[string]bool
	clauses map[string]bool
	n       int64
	rep     *failRec
}

func main() {
	if os.Getenv("C15_PROBE") != "" {
		probe()
		return
	}
	if pool.IsWorker() {
		pool.Serve(map[string]pool.Handler{"cases": worker})
	}
	c := ev.New("C15")
	defer runner.Cleanup()
	at := atomsFor(c.Seed)
	preAtoms = at
	if c.Replay != "" {
		replay(c, at)
		return
	}
	c.SetBudget(8*time.Minute, 45*time.Minute)
	deadline := time.Now().Add(8 * time.Minute).Unix()
	if !c.Quick() {
		deadline = time.Now().Add(45 * time.Minute).Unix()
	}
	quick := c.Quick()

	// ---- shards: per method, receiver ranges of roughly equal case count; the same pass records
	// every enumerated cell of the method x argument-shape table
	all := map[string]bool{}
	perMethod := map[string]int64{}
	var shards []pool.Shard
	var planned int64
	target := int64(1500)
	if !quick {
		target = 12000
	}
	plan := func(fam, m string, nrecv int) {
		lo := 0
		var acc int64
		for i := 0; i < nrecv; i++ {
			forEachCase(shardArg{Fam: fam, M: m, Lo: i, Hi: i + 1, Quick: quick, At: at}, func(cs *Case) {
				acc++
				planned++
				perMethod[fam+":"+m]++
				if e := expect(cs, at); !e.Any && cs.Fam != "aft" {
					// cells the docs leave entirely open cannot fail and must not block widening
					all[cellID(cs.Fam, cs.Cell, coarseShape(cs.Shape))] = true
				}
			})
			if acc >= target || i == nrecv-1 {
				shards = append(shards, pool.Shard{Kind: "cases", Arg: shardArg{Fam: fam, M: m, Lo: lo, Hi: i + 1, Quick: quick, At: at, Deadline: deadline}})
				lo = i + 1
				acc = 0
			}
		}
	}
	for _, m := range arrMethods {
		plan("arr", m, len(arrReceivers(m, quick, at)))
	}
	for _, m := range arrMethods {
		plan("arr2", m, len(arr2Receivers(quick, at)))
	}
	for _, m := range aftMethods {
		plan("aft", m, len(arr2Receivers(quick, at)))
	}
	for _, m := range arrMethods {
		plan("arrk", m, len(kindReceivers(quick, at)))
	}
	for _, m := range arrMethods {
		plan("arr3", m, len(arr3Receivers(quick, at)))
	}
	for _, m := range strMethods {
		plan("str3", m, len(str3Receivers(quick, at)))
	}
	for _, m := range strkMethods {
		plan("strk", m, len(strkReceivers(at)))
	}
	for _, m := range argnMethods {
		plan("argn", m, len(arrReceivers(m, quick, at)))
	}
	for _, m := range nestRoutes {
		plan("nest", m, len(nestReceivers(m, quick, at)))
	}
	for _, m := range strMethods {
		plan("str", m, len(strReceivers(quick, at)))
	}

	var total, mutated, open, aft, aftSkipped int64
	cellCount := map[string]int64{}
	failing := map[string]*cellFail{}
	crashes := map[string]*failRec{}
	outcomes := map[string]bool{}
	incomplete := false
	pool.Run(shards, pool.Options{}, func(si int, rb json.RawMessage) {
		var r shardRec
		if err := decodeNorm(rb, &r); err != nil {
			c.HarnessError("bad shard record: %v", err)
			return
		}
		total += r.N
		mutated += r.Mutated
		open += r.Open
		aft += r.Aft
		aftSkipped += r.AftSkipped
		incomplete = incomplete || r.Incomplete
		for id, n := range r.Cells {
			cellCount[id] += n
		}
		for _, o := range r.Outcomes {
			if !outcomes[o] {
				outcomes[o] = true
				c.Outcome(o)
			}
		}
		if r.Sample != nil {
			c.Sample(r.Sample)
		}
		for i := range r.Fails {
			f := r.Fails[i]
			normCase(f.Case)
			if f.Clause == "crash" || f.Clause == "first-step" || f.Clause == "first-call" {
				k := f.PanicKey
				if f.Clause == "first-step" {
					// the first call of a two-step case already went wrong: one key per first step,
					// whatever the second method is
					k = "after-prior-call:first-step(" + f.Case.Pre + ")"
					if f.Case.M0 != "" {
						// three-step case whose change step went wrong (whatever the earlier call was)
						k = "after-call-and-change:change(" + f.Case.Pre + ")"
					}
				} else if f.Clause == "first-call" {
					k = "after-call-and-change:earlier-call(" + f.Case.M0 + ")"
				} else if k == "" {
					k = "crash:" + f.Cell
				}
				if old := crashes[k]; old == nil || f.Size < old.Size {
					n := f.N
					if old != nil {
						n += old.N
					}
					f.N = n
					crashes[k] = &f
				} else {
					old.N += f.N
				}
				continue
			}
			cf := failing[f.Cell]
			if cf == nil {
				cf = &cellFail{clauses: map[string]bool{}, fine: map[string]bool{}}
				failing[f.Cell] = cf
			}
			for _, a := range strings.Split(f.Clause, "+") {
				cf.clauses[a] = true
			}
			cf.n += f.N
			for _, fs := range f.Fine {
				cf.fine[fs] = true
			}
			if cf.rep == nil || f.Size < cf.rep.Size {
				cf.rep = &f
			}
		}
	}, func(d pool.Death) {
		c.Fail("worker-death:"+runner.FatalFrame(d.Stderr), "no-crash", 0, map[string]any{"item": d.Item, "reason": d.Reason}, d.Stderr)
	})

	// a change step that already goes wrong in the two-step family is that family's finding; an earlier
	// call that goes wrong on its own is the one-step family's
	for k, f := range crashes {
		if strings.HasPrefix(k, "after-call-and-change:earlier-call(") {
			m0 := strings.TrimSuffix(strings.TrimPrefix(k, "after-call-and-change:earlier-call("), ")")
			for id := range failing {
				if fm, _ := splitCell(id); fm == "arr:"+m0 || fm == "str:"+m0 {
					failing[id].n += f.N
					delete(crashes, k)
					break
				}
			}
		}
		if strings.HasPrefix(k, "after-call-and-change:change(") {
			two := "after-prior-call:first-step(" + strings.TrimPrefix(k, "after-call-and-change:change(")
			if t := crashes[two]; t != nil {
				t.N += f.N
				delete(crashes, k)
			}
		}
	}

	// ---- keys
	fclause := map[string]string{}
	for id, cf := range failing {
		var cl []string
		for a := range cf.clauses {
			cl = append(cl, a)
		}
		sort.Strings(cl)
		fclause[id] = strings.Join(cl, "+")
	}
	// a two-step cell that fails exactly like its one-step counterpart is the same defect: fold it in,
	// so that "after-prior-call." keys only name defects that need an already-changed receiver
	famOf := func(id string) string { return id[:strings.Index(id, ":")] }
	for _, fam := range []string{"arr2", "arrk", "arr3", "str3", "argn", "strk"} {
		for id, cf := range failing {
			if famOf(id) != fam {
				continue
			}
			rest := id[len(fam)+1:]
			twins := []string{"arr:" + rest}
			switch fam {
			case "arr3":
				twins = append(twins, "arr2:"+rest)
			case "str3":
				twins = []string{"str:" + rest}
			}
			if fm, sh := splitCell(id); (fm == "arrk:indexOf" || fm == "arrk:includes") && len(sh) > 0 {
				// the one-step family classes a needle as scalar / array only
				sh = append([]string{}, sh...)
				if sh[0] != "array" && sh[0] != "omitted" {
					sh[0] = "scalar"
				}
				twins = []string{cellID2("arr:"+fm[5:], sh)}
			}
			if fam == "argn" || fam == "strk" {
				// the argument-kind classes have no one-step counterpart: try every class it could stand for
				fm, sh := splitCell(id)
				base := "arr:" + fm[5:]
				if fam == "strk" {
					base = "str:" + fm[5:]
				}
				cands := [][]string{{}}
				for i, cls := range sh {
					opts := []string{cls}
					switch {
					case fam == "argn" && cls == "null":
						opts = []string{"omitted", "non-negative", "given"}
					case fam == "strk" && i == 2 && fm == "strk:replace":
						opts = []string{"given"}
					case fam == "strk" && i > 0:
						opts = []string{"nonempty", "empty"}
					}
					var next [][]string
					for _, c0 := range cands {
						for _, o := range opts {
							next = append(next, append(append([]string{}, c0...), o))
						}
					}
					cands = next
				}
				twins = nil
				for _, c0 := range cands {
					twins = append(twins, cellID2(base, c0))
				}
			}
			for _, twin := range twins {
				if tw := failing[twin]; tw != nil && fclause[twin] == fclause[id] {
					tw.n += cf.n
					cellCount[twin] += cellCount[id]
					for fs := range cf.fine {
						tw.fine[fs] = true
					}
					delete(failing, id)
					delete(fclause, id)
					break
				}
			}
		}
	}
	keys := widen(all, fclause)
	// three-step families: one key per method under test (whatever its argument shape); when most
	// methods fail the cause is not in one method: one key for the family
	for _, fam := range []string{"arr3", "str3"} {
		ms := map[string]bool{}
		for id := range failing {
			if famOf(id) == fam {
				fm, _ := splitCell(id)
				ms[fm] = true
			}
		}
		name := "after-call-and-change."
		limit := 8
		if fam == "str3" {
			name, limit = "string.after-call-and-change.", 5
		}
		for id := range failing {
			if famOf(id) != fam {
				continue
			}
			fm, _ := splitCell(id)
			if len(ms) >= limit {
				keys[id] = name + "*"
			} else {
				keys[id] = name + fm[len(fam)+1:]
			}
		}
	}
	byKey := map[string]int64{}
	fineByKey := map[string][]string{}
	for id, cf := range failing {
		key := keys[id]
		clause := confirm(c, cf.rep, at)
		if clause == "" {
			continue
		}
		byKey[key] += cf.n
		fm, sh := splitCell(id)
		var fine []string
		for fs := range cf.fine {
			fine = append(fine, "("+fs+")")
		}
		sort.Strings(fine)
		fineByKey[key] = append(fineByKey[key], fine...)
		detail := fmt.Sprintf("%s\ncell %s%v: %d of %d cases fail; failing fine argument shapes: %s", cf.rep.Detail, fm, sh, cf.n, cellCount[id], strings.Join(fine, " "))
		c.Fail(key, fclause[id], cf.rep.Size, cf.rep.Case, detail)
	}
	for k, f := range crashes {
		if confirm(c, f, at) == "" {
			continue
		}
		byKey[k] += f.N
		c.Fail(k, f.Clause, f.Size, f.Case, f.Detail)
	}

	// ---- evidence
	if incomplete || c.Expired() {
		c.NotExhaustive(fmt.Sprintf("internal deadline reached after %d of %d planned cases", total, planned))
	} else if total != planned {
		c.HarnessError("ran %d cases but planned %d", total, planned)
	}
	c.Set("cases_per_method", perMethod)
	c.Set("table_cells", len(all))
	c.Set("failing_cells", len(failing))
	c.Set("failing_cases_by_key", byKey)
	c.Set("failing_fine_shapes_by_key", fineByKey)
	c.Set("cases_where_receiver_changed", mutated)
	c.Set("cases_docs_leave_open", open)
	c.Set("afterwards_cases_compared", aft)
	c.Set("afterwards_cases_skipped_call_already_wrong", aftSkipped)
	if aft == 0 {
		c.HarnessError("vacuous: no afterwards case was compared")
	}
	c.Set("atoms", at)
	c.Set("shards", len(shards))
	c.Assume("observation is json_encode (bin2hex for string results) of the result and of the receiver after the call, as the property prescribes; json_encode itself is C14's subject")
	c.Assume("where docs/strings.md is silent (byte vs character positions, negative substring positions, start > end, empty search/separator, default split on repeated spaces, non-ASCII case mapping) each defensible answer is accepted; where a required argument is omitted only 'no Go panic' is demanded")
	c.Assume("array elements are ints, one-letter strings and nested arrays; floats, numeric strings, null and bool as elements / needles / items only in the mixed-kinds family (lists of length <= 2, thorough 3); objects as elements, receivers longer than the tier bound and associative arrays are outside the bound")
	c.Assume("indexOf / includes: a call conforms when it agrees with JavaScript === (one number type: 2.0 equals 2), PHP == or equality of the string forms (docs note 5); join / sort accept every string form of null, bool and nested arrays; PHP's === (2.0 not identical to 2) is not a reading the docs offer")
	c.Assume("string methods given a non-string argument (docs/strings.md is silent): a call conforms when it behaves as if the argument were any text a defensible conversion gives - null: \"null\" (JavaScript String(null), today's behaviour) or \"\" (the language's own string form of null, PHP); bool: true/false or 1/empty; numbers: their decimal text; a null for an optional parameter may also act as omitted (argkinds.go nullTexts is the one place to tighten this)")
	c.Assume("nested family: every case carries its own history call; a defect that shows only in a process that has never run the method before is outside the bound")
	if len(outcomes) < 40 {
		c.HarnessError("vacuous: only %d distinct (method, result type) outcomes", len(outcomes))
	}
	if mutated == 0 {
		c.HarnessError("vacuous: no case changed its receiver")
	}
	two := "; mixed-kinds family: every method x every list of length <= %d over {int, integral float, fractional float, numeric string, string, null, true, false, nested array} x needles of every kind / items and initial values of the new kinds; nested family: 9 callback-taking outer methods x 51 inner calls (every method, on the callback's element or on its array argument) x every history call of the same inner method x every outer receiver of length <= %d over 3 (thorough: element route 4) values, trace of (element, index, inner result), outer result, receiver and the kept earlier result compared; three-step families: earlier call (same method canonical arguments -> every argument tuple; every other method -> canonical arguments) ; one change of the receiver (arrays: push, push 2, pop, shift, unshift, splice, slice-copy, reverse, sort; strings: .= ascii, .= multibyte, trim, replace) ; call, on array receivers of length <= 2 (+3) over 2 values and string receivers of length <= 2 (thorough: 3 / 3); argument kinds: int / float / null / bool / array for every text parameter of the string methods on 31 token receivers, explicit null for every optional parameter of the array methods; afterwards family: reduced receivers x array-returning / array-storing methods x every later write to result, receiver or array argument (own slot, push, through a nested element), all values required independent; two-step family: every list of length <= %d over 2 values (+3 nested receivers) x one first call of {push(1), push(2), pop, shift, unshift(1), splice(0,1), $r=$r->slice(0), reverse, sort} x every method x argument tuple with item pools of 2 (concat 3) values, model applies both steps"
	bound := "array receivers: all lists of length <= 3 over 4 values (+ sort / flat pools); string receivers: all strings of length <= 3 over 4 characters" + fmt.Sprintf(two, 2, 3, 3)
	if !quick {
		bound = "array receivers: all lists of length <= 4 over 4 values and length 5 over 3 values (+ sort / flat pools); string receivers: all strings of length <= 5 over 4 characters" + fmt.Sprintf(two, 3, 4, 4)
	}
	c.Finish(total, total, total-open, "every documented method x every receiver in the bound x every argument tuple (omitted optionals, index classes below..beyond, 0-3 variadic items, callback arities); "+bound+"; result, receiver-after and callback trace compared with an independent Go model")
}

// confirm re-runs a representative three times and checks it fails the same way every time
// (determinism before belief). It returns the clause, "" if the failure did not reproduce.
func confirm(c *ev.Check, f *failRec, at atoms) string {
	var first string
	for i := 0; i < 3; i++ {
		e := expect(f.Case, at)
		o := runSingle(f.Case, at)
		cl := compare(f.Case, &e, &o)
		if i == 0 {
			first = cl
		} else if cl != first {
			c.HarnessError("non-deterministic outcome for %s: %q vs %q", f.Case.String(), first, cl)
			return ""
		}
	}
	if first == "" {
		c.HarnessError("failure of %s did not reproduce in isolation (batch interference?)", f.Case.String())
	}
	return first
}

func decodeNorm(b []byte, v any) error {
	d := json.NewDecoder(strings.NewReader(string(b)))
	d.UseNumber()
	return d.Decode(v)
}

func normCase(c *Case) {
	if c == nil {
		return
	}
	c.Recv = norm(c.Recv)
	if c.Recv0 != nil {
		c.Recv0 = norm(c.Recv0)
	}
	for i := range c.Args {
		c.Args[i].V = norm(c.Args[i].V)
	}
	for i := range c.Args0 {
		c.Args0[i].V = norm(c.Args0[i].V)
	}
}

func replay(c *ev.Check, at atoms) {
	b, err := os.ReadFile(c.Replay)
	if err != nil {
		fmt.Println("replay:", err)
		os.Exit(2)
	}
	var r struct {
		Key  string `json:"key"`
		Case *Case  `json:"case"`
	}
	if err := decodeNorm(b, &r); err != nil || r.Case == nil {
		fmt.Println("replay: bad file", err)
		os.Exit(2)
	}
	normCase(r.Case)
	e := expect(r.Case, at)
	o := runSingle(r.Case, at)
	fmt.Printf("%s\nscript:\n%sexpected %s\nobserved %s\n", r.Case.String(), caseSrc(r.Case, at, 0, false), describeExp(&e), describeObs(&o))
	if cl := compare(r.Case, &e, &o); cl != "" {
		c.Fail(r.Key, cl, 0, r.Case, "replayed: "+describeObs(&o))
	}
	c.Finish(1, 1, 1, "replay")
}

// probe: C15_PROBE=1 runs a script from stdin (development aid).
func probe() {
	b, _ := os.ReadFile("/dev/stdin")
	res := runner.Run(string(b), runner.Opts{})
	fmt.Printf("kind=%s class=%s msg=%s panic=%s\n--- out\n%s\n", res.Kind, res.Class, res.Msg, res.PanicKey, res.Out)
	runner.Cleanup()
}
