package main

// "Nested" family ("nest"): a method is called from inside the callback of another (or the same)
// method call, after one earlier, completed call of that inner method whose result is kept:
//
//	$h = <inner call on a 4-element array>;                              // history, result kept
//	$v = $r-><outer>(function($e, $i, $a) { $t = <inner call>; echo $e,$i,$t; return g($t); });
//	echo $v, $r, $h
//
// The inner call runs on the callback's element (route "element": the outer receiver is a list of
// small arrays) or on the callback's array argument (route "array": `$a->indexOf($e)`,
// `$a->slice($i)`, `$a->filter(fn($c) => $c === $e)` ... - the usual dedupe / look-around idioms).
// Every documented method is an inner method (mutating ones on a fresh `->slice(0)` copy, so that
// the question whether a callback may change the array under iteration, which the docs leave open,
// never arises); every callback-taking method is an outer method. The model evaluates the same
// composition with the independent Go implementations. Compared: what every invocation saw (element,
// index, inner result), the outer result, the outer receiver afterwards and the kept earlier result.
//
// A method call that is re-entered while it is still running, and results that must survive later
// calls, are what a shared scratch buffer / cached method object / reused result slice breaks. The
// history call is part of every case (never "no history"): the verdict of a case must not depend on
// what the worker process happened to run before it.

import (
	"fmt"
	"strings"
)

var nestRoutes = []string{"element", "array"}

var nestOuters = []string{"filter", "map", "flatMap", "find", "findIndex", "every", "some", "forEach", "reduce"}

type innerSpec struct {
	ID      string
	M       string // inner method = cell of the finding key
	Route   string
	Expr    func(at atoms) string                 // PHP expression over $e, $i, $a
	Model   func(at atoms, e V, i int, a []any) V // the same in Go
	Truth   string                                // PHP expression over $t, for predicate outers
	TruthFn func(t V) bool
}

func nonEmptyArr(t V) bool { a, ok := t.([]any); return ok && len(a) > 0 }
func nonNegative(t V) bool { n, ok := t.(int); return ok && n >= 0 }
func isTrue(t V) bool      { b, ok := t.(bool); return ok && b }
func notNull(t V) bool     { return t != nil }
func nonEmptyStr(t V) bool { s, ok := t.(string); return ok && s != "" }
func positive(t V) bool    { n, ok := t.(int); return ok && n > 0 }

const (
	tArr  = "count($t) > 0"
	tIdx  = "$t >= 0"
	tBool = "$t === true"
	tElem = "$t !== null"
	tStr  = `$t !== ""`
	tPos  = "$t > 0"
)

func fixed(s string) func(atoms) string { return func(atoms) string { return s } }

func filt(x []any, p func(c V) bool) []any {
	r := []any{}
	for _, c := range x {
		if p(c) {
			r = append(r, c)
		}
	}
	return r
}

func isInt(c V) bool { _, ok := c.(int); return ok }

func firstIdx(x []any, p func(c V) bool) int {
	for k, c := range x {
		if p(c) {
			return k
		}
	}
	return -1
}

func pairs(x []any) V {
	var acc V = 0
	for _, c := range x {
		acc = []any{acc, c}
	}
	return acc
}

func eqTo(v V) func(c V) bool { return func(c V) bool { return canon(c) == canon(v) } }
func neTo(v V) func(c V) bool { return func(c V) bool { return canon(c) != canon(v) } }

func ip(n int) *int { return &n }

// onE builds a spec of route "element": x is the callback's element, an array of ints / strings.
func onE(id, m, expr, truth string, tf func(V) bool, model func(at atoms, x []any) V) innerSpec {
	return innerSpec{ID: id, M: m, Route: "element", Truth: truth, TruthFn: tf,
		Expr:  func(at atoms) string { return strings.ReplaceAll(expr, "#1", fmt.Sprint(at.I1)) },
		Model: func(at atoms, e V, i int, a []any) V { return model(at, asList(e)) }}
}

// onA builds a spec of route "array": a is the callback's array argument, e / i the element and index.
func onA(id, m, expr, truth string, tf func(V) bool, model func(e V, i int, a []any) V) innerSpec {
	return innerSpec{ID: id, M: m, Route: "array", Truth: truth, TruthFn: tf, Expr: fixed(expr),
		Model: func(at atoms, e V, i int, a []any) V { return model(e, i, a) }}
}

var innerSpecs = []innerSpec{
	// ---- route "element"
	onE("filter(true)", "filter", `$e->filter(function($c) { return true; })`, tArr, nonEmptyArr,
		func(at atoms, x []any) V { return cp(x) }),
	onE("filter(===I1)", "filter", `$e->filter(function($c) { return $c === #1; })`, tArr, nonEmptyArr,
		func(at atoms, x []any) V { return filt(x, eqTo(at.I1)) }),
	onE("filter(is_int)", "filter", `$e->filter(function($c) { return is_int($c); })`, tArr, nonEmptyArr,
		func(at atoms, x []any) V { return filt(x, isInt) }),
	onE("map(wrap)", "map", `$e->map(function($c) { return [$c]; })`, tArr, nonEmptyArr,
		func(at atoms, x []any) V {
			r := []any{}
			for _, c := range x {
				r = append(r, []any{c})
			}
			return r
		}),
	onE("map(id)", "map", `$e->map(function($c) { return $c; })`, tArr, nonEmptyArr,
		func(at atoms, x []any) V { return cp(x) }),
	onE("flatMap(dup)", "flatMap", `$e->flatMap(function($c) { return [$c, $c]; })`, tArr, nonEmptyArr,
		func(at atoms, x []any) V {
			r := []any{}
			for _, c := range x {
				r = append(r, c, c)
			}
			return r
		}),
	onE("flatMap(id)", "flatMap", `$e->flatMap(function($c) { return $c; })`, tArr, nonEmptyArr,
		func(at atoms, x []any) V { return cp(x) }),
	onE("flat()", "flat", `$e->flat()`, tArr, nonEmptyArr, func(at atoms, x []any) V { return jsFlat(x, 1) }),
	onE("concat(9)", "concat", `$e->concat(9)`, tArr, nonEmptyArr, func(at atoms, x []any) V { return jsConcat(x, []any{9}) }),
	onE("concat($e)", "concat", `$e->concat($e)`, tArr, nonEmptyArr, func(at atoms, x []any) V { return jsConcat(x, []any{x}) }),
	onE("slice()", "slice", `$e->slice()`, tArr, nonEmptyArr, func(at atoms, x []any) V { return jsSlice(x, nil, nil) }),
	onE("slice(1)", "slice", `$e->slice(1)`, tArr, nonEmptyArr, func(at atoms, x []any) V { return jsSlice(x, ip(1), nil) }),
	onE("slice(-1)", "slice", `$e->slice(-1)`, tArr, nonEmptyArr, func(at atoms, x []any) V { return jsSlice(x, ip(-1), nil) }),
	onE("copy.reverse()", "reverse", `$e->slice(0)->reverse()`, tArr, nonEmptyArr, func(at atoms, x []any) V { return jsReverse(x) }),
	onE("copy.sort()", "sort", `$e->slice(0)->sort()`, tArr, nonEmptyArr, func(at atoms, x []any) V { return jsSortStable(x, strJS) }),
	onE("copy.splice(0,1)", "splice", `$e->slice(0)->splice(0, 1)`, tArr, nonEmptyArr,
		func(at atoms, x []any) V { d, _ := jsSplice(x, 0, ip(1), nil); return d }),
	onE("copy.pop()", "pop", `$e->slice(0)->pop()`, tElem, notNull, func(at atoms, x []any) V {
		if len(x) == 0 {
			return nil
		}
		return x[len(x)-1]
	}),
	onE("copy.shift()", "shift", `$e->slice(0)->shift()`, tElem, notNull, func(at atoms, x []any) V {
		if len(x) == 0 {
			return nil
		}
		return x[0]
	}),
	onE("copy.push(9)", "push", `$e->slice(0)->push(9)`, "$t > 1", func(t V) bool { n, ok := t.(int); return ok && n > 1 },
		func(at atoms, x []any) V { return len(x) + 1 }),
	onE("copy.unshift(9)", "unshift", `$e->slice(0)->unshift(9)`, "$t > 1", func(t V) bool { n, ok := t.(int); return ok && n > 1 },
		func(at atoms, x []any) V { return len(x) + 1 }),
	onE("reduce(pair,0)", "reduce", `$e->reduce(function($p, $c) { return [$p, $c]; }, 0)`, "$t !== 0", func(t V) bool { return canon(t) != "0" },
		func(at atoms, x []any) V { return pairs(x) }),
	onE("find(is_int)", "find", `$e->find(function($c) { return is_int($c); })`, tElem, notNull, func(at atoms, x []any) V {
		if k := firstIdx(x, isInt); k >= 0 {
			return x[k]
		}
		return nil
	}),
	onE("findIndex(===I1)", "findIndex", `$e->findIndex(function($c) { return $c === #1; })`, tIdx, nonNegative,
		func(at atoms, x []any) V { return firstIdx(x, eqTo(at.I1)) }),
	onE("every(is_int)", "every", `$e->every(function($c) { return is_int($c); })`, tBool, isTrue,
		func(at atoms, x []any) V { return len(filt(x, isInt)) == len(x) }),
	onE("some(===I1)", "some", `$e->some(function($c) { return $c === #1; })`, tBool, isTrue,
		func(at atoms, x []any) V { return firstIdx(x, eqTo(at.I1)) >= 0 }),
	onE("indexOf(I1)", "indexOf", `$e->indexOf(#1)`, tIdx, nonNegative, func(at atoms, x []any) V { return firstIdx(x, eqTo(at.I1)) }),
	onE("includes(I1)", "includes", `$e->includes(#1)`, tBool, isTrue, func(at atoms, x []any) V { return firstIdx(x, eqTo(at.I1)) >= 0 }),
	onE("join(-)", "join", `$e->join("-")`, tStr, nonEmptyStr, func(at atoms, x []any) V { return jsJoin(x, "-", strJS) }),
	onE("length", "length", `$e->length`, tPos, positive, func(at atoms, x []any) V { return len(x) }),

	// ---- route "array"
	onA("indexOf($e)", "indexOf", `$a->indexOf($e)`, "$t === $i", nil, func(e V, i int, a []any) V { return firstIdx(a, eqTo(e)) }),
	onA("indexOf($e,$i+1)", "indexOf", `$a->indexOf($e, $i + 1)`, tIdx, nonNegative, func(e V, i int, a []any) V {
		if i+1 >= len(a) {
			return -1
		}
		if k := firstIdx(a[i+1:], eqTo(e)); k >= 0 {
			return k + i + 1
		}
		return -1
	}),
	onA("includes($e,$i+1)", "includes", `$a->includes($e, $i + 1)`, tBool, isTrue, func(e V, i int, a []any) V {
		return i+1 < len(a) && firstIdx(a[i+1:], eqTo(e)) >= 0
	}),
	onA("slice($i)", "slice", `$a->slice($i)`, "count($t) > 1", func(t V) bool { return len(asList(t)) > 1 },
		func(e V, i int, a []any) V { return jsSlice(a, ip(i), nil) }),
	onA("slice(0,$i)", "slice", `$a->slice(0, $i)`, tArr, nonEmptyArr, func(e V, i int, a []any) V { return jsSlice(a, ip(0), ip(i)) }),
	onA("filter(===$e)", "filter", `$a->filter(function($c) use ($e) { return $c === $e; })`, "count($t) === 1", func(t V) bool { return len(asList(t)) == 1 },
		func(e V, i int, a []any) V { return filt(a, eqTo(e)) }),
	onA("filter(is_int)", "filter", `$a->filter(function($c) { return is_int($c); })`, "count($t) > 1", func(t V) bool { return len(asList(t)) > 1 },
		func(e V, i int, a []any) V { return filt(a, isInt) }),
	onA("map(pair $i)", "map", `$a->map(function($c) use ($i) { return [$c, $i]; })`, "$i > 0", nil, func(e V, i int, a []any) V {
		r := []any{}
		for _, c := range a {
			r = append(r, []any{c, i})
		}
		return r
	}),
	onA("flatMap(pair $e)", "flatMap", `$a->flatMap(function($c) use ($e) { return [$e, $c]; })`, "$i > 0", nil, func(e V, i int, a []any) V {
		r := []any{}
		for _, c := range a {
			r = append(r, e, c)
		}
		return r
	}),
	onA("find(!==$e)", "find", `$a->find(function($c) use ($e) { return $c !== $e; })`, tElem, notNull, func(e V, i int, a []any) V {
		if k := firstIdx(a, neTo(e)); k >= 0 {
			return a[k]
		}
		return nil
	}),
	onA("findIndex(===$e)", "findIndex", `$a->findIndex(function($c) use ($e) { return $c === $e; })`, "$t === $i", nil,
		func(e V, i int, a []any) V { return firstIdx(a, eqTo(e)) }),
	onA("some(!==$e)", "some", `$a->some(function($c) use ($e) { return $c !== $e; })`, tBool, isTrue,
		func(e V, i int, a []any) V { return firstIdx(a, neTo(e)) >= 0 }),
	onA("every(===$e)", "every", `$a->every(function($c) use ($e) { return $c === $e; })`, tBool, isTrue,
		func(e V, i int, a []any) V { return firstIdx(a, neTo(e)) < 0 }),
	onA("concat($e)", "concat", `$a->concat($e)`, "$i > 0", nil, func(e V, i int, a []any) V { return jsConcat(a, []any{e}) }),
	onA("concat($a)", "concat", `$a->concat($a)`, "$i > 0", nil, func(e V, i int, a []any) V { return jsConcat(a, []any{a}) }),
	onA("flat()", "flat", `$a->flat()`, "$i > 0", nil, func(e V, i int, a []any) V { return jsFlat(a, 1) }),
	onA("copy.reverse()", "reverse", `$a->slice(0)->reverse()`, "$i > 0", nil, func(e V, i int, a []any) V { return jsReverse(a) }),
	onA("copy.sort()", "sort", `$a->slice(0)->sort()`, "$i > 0", nil, func(e V, i int, a []any) V { return jsSortStable(a, strJS) }),
	onA("copy.splice($i,1)", "splice", `$a->slice(0)->splice($i, 1)`, "$i > 0", nil, func(e V, i int, a []any) V {
		d, _ := jsSplice(a, i, ip(1), nil)
		return d
	}),
	onA("join(-)", "join", `$a->join("-")`, "$i > 0", nil, func(e V, i int, a []any) V { return jsJoin(a, "-", strJS) }),
	onA("reduce(pair,0)", "reduce", `$a->reduce(function($p, $c) { return [$p, $c]; }, 0)`, "$i > 0", nil,
		func(e V, i int, a []any) V { return pairs(a) }),
	onA("length", "length", `$a->length`, "$t > $i + 1", nil, func(e V, i int, a []any) V { return len(a) }),
}

// truth evaluates the spec's predicate expression in the model. Specs whose expression mentions $i
// have TruthFn == nil and are evaluated here.
func (s *innerSpec) truth(t V, i int) bool {
	if s.TruthFn != nil {
		return s.TruthFn(t)
	}
	switch s.Truth {
	case "$t === $i":
		n, ok := t.(int)
		return ok && n == i
	case "$i > 0":
		return i > 0
	case "$t > $i + 1":
		n, ok := t.(int)
		return ok && n > i+1
	}
	panic("truth: " + s.Truth)
}

func specByID(route, id string) *innerSpec {
	for k := range innerSpecs {
		if innerSpecs[k].Route == route && innerSpecs[k].ID == id {
			return &innerSpecs[k]
		}
	}
	return nil
}

// nestReceivers: route "element": all lists of length 0-3 (thorough 0-4) over three (four) small arrays;
// route "array": all lists of length 0-3 (thorough 0-4) over {I1, I2, S}.
func nestReceivers(route string, quick bool, at atoms) [][]any {
	maxLen := 3
	if !quick {
		maxLen = 4
	}
	if route == "element" {
		pool := []any{[]any{}, []any{at.I1}, []any{at.I2, at.S, at.I1}}
		if !quick {
			pool = append(pool, []any{at.S})
		}
		return lists(pool, 0, maxLen)
	}
	return lists([]any{at.I1, at.I2, at.S}, 0, maxLen)
}

func genNest(route string, recv []any, at atoms, emit func(*Case)) {
	for k := range innerSpecs {
		s := &innerSpecs[k]
		if s.Route != route {
			continue
		}
		for j := range innerSpecs {
			h := &innerSpecs[j]
			if h.Route != route || h.M != s.M {
				continue
			}
			for _, outer := range nestOuters {
				emit(&Case{Fam: "nest", M: outer, Cell: s.M, Recv: recv, Route: route, Inner: s.ID, Hist: h.ID,
					Shape: []string{outer, route}})
			}
		}
	}
}

// the bindings of $e / $i / $a for the history call
func histBindings(route string) (e V, i int, a []any) {
	arr := []any{11, 12, 13, 14}
	if route == "element" {
		return arr, 1, arr
	}
	return 12, 1, arr
}

func expectNest(c *Case, at atoms) Exp {
	recv := asList(c.Recv)
	n := len(recv)
	s, h := specByID(c.Route, c.Inner), specByID(c.Route, c.Hist)
	he, hi, ha := histBindings(c.Route)
	e := Exp{HasTrace: true, TraceMin: -1, HasHist: true, Hist: h.Model(at, he, hi, ha)}
	call := func(x V, i int) V {
		t := s.Model(at, x, i, recv)
		e.Trace = append(e.Trace, canon(x)+"|"+canon(i)+"|"+canon(t))
		return t
	}
	var res V
	switch c.M {
	case "forEach":
		for i, x := range recv {
			call(x, i)
		}
		e.NoResult = true
	case "map":
		r := []any{}
		for i, x := range recv {
			r = append(r, call(x, i))
		}
		res = r
	case "flatMap":
		r := []any{}
		for i, x := range recv {
			t := call(x, i)
			if arr, ok := t.([]any); ok {
				r = append(r, arr...)
			} else {
				r = append(r, t)
			}
		}
		res = r
	case "filter":
		r := []any{}
		for i, x := range recv {
			if s.truth(call(x, i), i) {
				r = append(r, x)
			}
		}
		res = r
	case "find", "findIndex", "some", "every":
		hit := -1
		for i, x := range recv {
			t := s.truth(call(x, i), i)
			if hit < 0 && (t != (c.M == "every")) {
				hit = i
			}
		}
		e.TraceMin = n
		if hit >= 0 {
			e.TraceMin = hit + 1
		}
		switch c.M {
		case "find":
			if hit >= 0 {
				res = recv[hit]
			}
		case "findIndex":
			res = hit
		case "some":
			res = hit >= 0
		case "every":
			res = hit < 0
		}
	case "reduce":
		var acc V = 0
		for i, x := range recv {
			acc = []any{acc, call(x, i)}
		}
		res = acc
	default:
		panic("expectNest: " + c.M)
	}
	e.Alts = []Out{{res, cp(recv)}}
	return e
}

func nestCallbackSrc(c *Case, at atoms) string {
	s := specByID(c.Route, c.Inner)
	params := "$e, $i, $a"
	if c.M == "reduce" {
		params = "$acc, $e, $i, $a"
	}
	ret := ""
	switch c.M {
	case "map", "flatMap":
		ret = " return $t;"
	case "filter", "find", "findIndex", "every", "some":
		ret = " return " + s.Truth + ";"
	case "reduce":
		ret = " return [$acc, $t];"
	}
	return "function(" + params + ") { $t = " + s.Expr(at) + `; echo "<", json_encode($e), "|", json_encode($i), "|", json_encode($t), ">";` + ret + " }"
}

func nestHistSrc(c *Case, at atoms) string {
	h := specByID(c.Route, c.Hist)
	e, i, a := histBindings(c.Route)
	return fmt.Sprintf("$a = %s; $e = %s; $i = %d; $h = %s;", lit(a), lit(e), i, h.Expr(at))
}

func nestCallSrc(c *Case, at atoms) string {
	init := ""
	if c.M == "reduce" {
		init = ", 0"
	}
	return "$r->" + c.M + "(" + nestCallbackSrc(c, at) + init + ")"
}

func nestSrc(c *Case, at atoms, i int, bare bool) string {
	var sb strings.Builder
	fmt.Fprintf(&sb, "$r = %s;\n$h = null;\necho \"\\n@@B%d\\n\";\n", lit(c.Recv), i)
	body := nestHistSrc(c, at) + "\n$v = " + nestCallSrc(c, at) + ";\necho \"\\n@@V\", json_encode($v);\n"
	if bare {
		sb.WriteString(body)
	} else {
		sb.WriteString("try {\n" + body + "} catch (Throwable $x) { echo \"\\n@@T\", $x->getMessage(); }\n")
	}
	fmt.Fprintf(&sb, "echo \"\\n@@A\", json_encode($r), \"\\n@@h\", json_encode($h), \"\\n@@E%d\\n\";\n", i)
	return sb.String()
}

func nestString(c *Case) string {
	at := atomsFor(0)
	return nestHistSrc(c, at) + " $r = " + lit(c.Recv) + "; $v = " + nestCallSrc(c, at) + ";"
}

// compareNest returns the violated clause ("" = conforms). A wrong inner result makes everything
// computed from it wrong as well, so it is reported on its own.
func compareNest(c *Case, e *Exp, o *Obs) string {
	switch o.Kind {
	case "crash":
		return "crash"
	case "broken":
		return "broken"
	case "throw":
		return "throw"
	}
	if !traceOK(e, o.Trace) {
		return "inner-result"
	}
	var cl []string
	res, okR := canonOf(o.Res)
	if !e.NoResult && (!okR || res != canon(e.Alts[0].Res)) {
		cl = append(cl, "result")
	}
	if after, ok := canonOf(o.After); !ok || after != canon(e.Alts[0].After) {
		cl = append(cl, "receiver")
	}
	if h, ok := canonOf(o.Extra["h"]); !ok || h != canon(e.Hist) {
		cl = append(cl, "earlier-result")
	}
	return strings.Join(cl, "+")
}
